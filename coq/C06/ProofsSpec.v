(* C06 proofs, part 5: the quantities the SPEC computes from the call history (sums over time windows, the end of the
   previous MetricData of a stream, the MetricData of a stream among a collection's results) coincide with what the
   storage-level theorems say about the storage's own history. *)
From V Require Import C06.Model C06.Spec C06.ProofsTable C06.ProofsStorage C06.ProofsReaders C06.ProofsWorld.
From Coq Require Import Lia ZifyBool ZifyNat.
Local Open Scope Z_scope.

Lemma byte_eqb_eq : forall a b, Byte.eqb a b = true <-> a = b.
Proof. intros a b. split; [apply Byte.byte_dec_bl | apply Byte.byte_dec_lb]. Qed.
Lemma bytes_eqb_eq : forall a b, bytes_eqb a b = true <-> a = b.
Proof.
  induction a as [|x a IH]; intros [|y b]; cbn; split; intros H; try reflexivity; try discriminate.
  - apply andb_true_iff in H as [H1 H2]. apply byte_eqb_eq in H1. apply IH in H2. subst; reflexivity.
  - injection H as -> ->. apply andb_true_iff. split; [apply byte_eqb_eq | apply IH]; reflexivity.
Qed.
Lemma akey_eqb_ok : forall a b, akey_eqb a b = true <-> a = b.
Proof.
  induction a as [|[k v] a IH]; intros [|[k' v'] b]; cbn; split; intros H; try reflexivity; try discriminate.
  - apply andb_true_iff in H as [H1 H3]. apply andb_true_iff in H1 as [H1 H2].
    apply bytes_eqb_eq in H1, H2. apply IH in H3. subst; reflexivity.
  - injection H as -> -> ->. rewrite !andb_true_iff. repeat split; try apply bytes_eqb_eq; try apply IH; reflexivity.
Qed.

(* the value the SPEC counts for a measurement is what reaches the Sum aggregation *)
Lemma spec_value_eq : forall k v, value_ok k v = true ->
    spec_value k v = match api_value k v with Some v' => agg_value (is_mono k) v' | None => 0 end.
Proof.
  intros k v H. destruct k; unfold spec_value, api_value, agg_value, is_mono, value_ok in *.
  - apply andb_true_iff in H as [H1 H2].
    destruct (v <? 2 ^ 63) eqn:E1; destruct (2 ^ 63 <=? v) eqn:E2; try lia.
    + destruct (v <? 0) eqn:E3; cbn [andb]; lia.
    + destruct (v - 2 ^ 64 <? 0) eqn:E3; cbn [andb]; lia.
  - destruct (v <? 0) eqn:E; auto. rewrite E. reflexivity.
  - reflexivity.
  - reflexivity.
Qed.

(* generic list facts *)
Lemma filter_flat_map : forall A B (p : B -> bool) (f : A -> list B) l,
    filter p (flat_map f l) = flat_map (fun x => filter p (f x)) l.
Proof. induction l as [|x l IH]; cbn; auto. rewrite filter_app, IH. reflexivity. Qed.

Lemma flat_map_nil : forall A B (g : A -> list B) l, (forall x, In x l -> g x = []) -> flat_map g l = [].
Proof. induction l as [|y l IH]; intros H; cbn; auto. rewrite (H y) by (left; auto). apply IH. intros; apply H; right; auto. Qed.

Lemma flat_map_single : forall A B (g : A -> list B) (a : A) l,
    NoDup l -> In a l -> (forall x, In x l -> x <> a -> g x = []) -> flat_map g l = g a.
Proof.
  induction l as [|y l IH]; intros Hnd Hin Hz; [inversion Hin|]. cbn. inversion Hnd; subst.
  destruct Hin as [Hin|Hin].
  - subst y. rewrite (flat_map_nil _ _ g l); [apply app_nil_r|].
    intros x Hx. apply Hz; [right; auto|]. intros C; subst. contradiction.
  - rewrite (Hz y); [|left; reflexivity|intros C; subst; contradiction]. cbn. apply IH; auto.
    intros x Hx. apply Hz. right; auto.
Qed.

Lemma indexed_from_NoDup : forall A (l : list A) a, NoDup (indexed_from a l).
Proof.
  induction l as [|y l IH]; intros a; cbn; constructor; auto.
  intros C. apply indexed_from_bounds in C. cbn in C. lia.
Qed.

Lemma indexed_from_In : forall A (l : list A) a h y, nth_error l h = Some y -> In ((a + h)%nat, y) (indexed_from a l).
Proof.
  induction l as [|z l IH]; intros a h y H; destruct h; cbn in *; try discriminate.
  - inversion H; subst. left. f_equal. lia.
  - right. replace (a + S h)%nat with (S a + h)%nat by lia. apply IH; auto.
Qed.

Section SpecLink.
  Variable c : config.
  Notation n := (nreaders c).
  Notation temps := (temp_of c).
  Notation out_at := (out_at akey akey_eqb).
  Notation sumv := (sumv akey akey_eqb).
  Notation sname := (sname c).
  Notation newsr := ProofsWorld.newsr.
  Notation gobs := (gobs c).

  (* ---------------------------------------------------------------- well-formed timed histories (newest first) *)
  Definition times_lt (t0 : Z) (hr : list (Z * op)) : Prop := Forall (fun x => fst x < t0) hr.
  Fixpoint sorted (hr : list (Z * op)) : Prop :=
    match hr with
    | [] => True
    | (t, _) :: rest => 0 < t /\ times_lt t rest /\ sorted rest
    end.
  Definition okval (rest : list (Z * op)) (o : op) : Prop :=
    match o with
    | OAdd h v _ => forall m k name, nth_error (newsr rest) h = Some (m, k, name) -> value_ok k v = true
    | _ => True
    end.
  Fixpoint hist_ok (hr : list (Z * op)) : Prop :=
    match hr with
    | [] => True
    | (_, o) :: rest => okstep c rest o /\ okval rest o /\ hist_ok rest
    end.
  Definition names_distinct (l : list hinfo) : Prop := NoDup (map (fun x : hinfo => (fst (fst x), sname x)) l).

  Lemma newsr_length_mono : forall x hr, (length (newsr hr) <= length (newsr (x :: hr)))%nat.
  Proof. intros [t [m k name|h v a|r]] hr; cbn; auto. rewrite app_length; cbn; lia. Qed.

  Lemma newsr_nth_stable : forall x hr h y, nth_error (newsr hr) h = Some y -> nth_error (newsr (x :: hr)) h = Some y.
  Proof.
    intros [t [m k name|h' v a|r]] hr h y H; cbn; auto. rewrite nth_error_app1; auto.
    apply nth_error_Some. congruence.
  Qed.

  Lemma newsr_meters_ok : forall hr, hist_ok hr -> Forall (fun x : hinfo => (fst (fst x) < c_meters c)%nat) (newsr hr).
  Proof.
    induction hr as [|[t o] rest IH]; intros H; cbn; [constructor|]. destruct H as [H1 [_ H3]].
    destruct o as [m k name|h v a|r]; auto. apply Forall_app. split; auto. constructor; [|constructor].
    cbn in H1. cbn. tauto.
  Qed.

  Lemma projh_wf : forall h k hr, hist_ok hr -> hist_wf akey n (projh h k hr).
  Proof.
    induction hr as [|[t o] rest IH]; intros H; cbn; [constructor|]. destruct H as [H1 [_ H3]].
    destruct o as [m k' name|h' v a|r].
    - destruct (Nat.eqb (length (newsr rest)) h); [constructor|auto].
    - destruct (Nat.eqb h' h); auto. destruct (api_value k v); auto. constructor; [exact I | apply IH; auto].
    - constructor; [exact H1 | apply IH; auto].
  Qed.

  (* ---------------------------------------------------------------- sums over time windows *)
  Fixpoint wsum (h : nat) (k : ikind) (key : akey) (lo : Z) (hr : list (Z * op)) : Z :=
    match hr with
    | [] => 0
    | (t, OAdd h' v a) :: rest =>
        (if Nat.eqb h' h && akey_eqb key (canon a) && (lo <? t) then spec_value k v else 0) + wsum h k key lo rest
    | _ :: rest => wsum h k key lo rest
    end.

  Lemma wsum_none_yet : forall h k key lo hr, hist_ok hr -> (length (newsr hr) <= h)%nat -> wsum h k key lo hr = 0.
  Proof.
    induction hr as [|[t o] rest IH]; intros H Hl; cbn; auto. destruct H as [H1 [_ H3]].
    pose proof (newsr_length_mono (t, o) rest) as Hm.
    destruct o as [m k' name|h' v a|r]; try (apply IH; auto; lia).
    cbn in H1. replace (Nat.eqb h' h) with false by (symmetry; apply Nat.eqb_neq; cbn in Hl; lia). cbn. apply IH; auto.
  Qed.

  Lemma wsum_above : forall h k key lo hr, times_lt lo hr \/ (exists t0, t0 <= lo /\ times_lt t0 hr) -> wsum h k key lo hr = 0.
  Proof.
    intros h k key lo hr H. assert (Hl : Forall (fun x => fst x < lo \/ fst x <= lo) hr).
    { destruct H as [H|[t0 [H0 H]]]; unfold times_lt in H; rewrite Forall_forall in *; intros x Hx; specialize (H x Hx); lia. }
    clear H. induction hr as [|[t o] rest IH]; cbn; auto. inversion Hl; subst. cbn in H1.
    destruct o as [m k' name|h' v a|r]; auto. replace (lo <? t) with false by lia. rewrite andb_false_r. cbn. auto.
  Qed.

  Lemma prev_ts_bound : forall mono r hs t0, 0 < t0 ->
      Forall (fun o => match o with SCol _ ts => ts < t0 | SAdd _ _ => True end) hs ->
      prev_ts akey mono n temps r hs < t0.
  Proof.
    induction hs as [|[k v|r' ts] hs IH]; intros t0 H0 H; cbn; auto; inversion H; subst; auto.
    destruct (Nat.eqb r' r); auto. destruct (present akey mono n temps r hs); auto.
  Qed.

  Lemma projh_times : forall h k hr t0, times_lt t0 hr ->
      Forall (fun o => match o with SCol _ ts => ts < t0 | SAdd _ _ => True end) (projh h k hr).
  Proof.
    induction hr as [|[t o] rest IH]; intros t0 H; cbn; [constructor|]. inversion H; subst. cbn in H2.
    destruct o as [m k' name|h' v a|r].
    - destruct (Nat.eqb (length (newsr rest)) h); [constructor|apply IH; auto].
    - destruct (Nat.eqb h' h); [|apply IH; auto]. destruct (api_value k v); [constructor; [exact I|apply IH; auto]|apply IH; auto].
    - constructor; [exact H2|apply IH; auto].
  Qed.

  Lemma times_lt_weaken : forall t t' hr, times_lt t hr -> t <= t' -> times_lt t' hr.
  Proof. intros t t' hr H Hl. unfold times_lt in *. rewrite Forall_forall in *. intros x Hx. specialize (H x Hx). lia. Qed.

  Lemma sumv_cons : forall key k v l, sumv key ((k, v) :: l) = (if akey_eqb key k then v else 0) + sumv key l.
  Proof.
    intros. unfold ProofsReaders.sumv. cbn. rewrite oz_oplus. unfold hit. destruct (akey_eqb key k); reflexivity.
  Qed.

  (* what the SPEC sums for a window starting where the reader's interval starts = what the storage sums *)
  Definition exp_lo (r : nat) (k : ikind) (hs : list (sop akey)) : Z :=
    if is_delta (temps r) then prev_ts akey (is_mono k) n temps r hs else 0.

  Theorem wsum_exp_adds : forall h k key r hr,
      sorted hr -> hist_ok hr -> (r < n)%nat -> (h < length (newsr hr))%nat ->
      (exists m name, nth_error (newsr hr) h = Some (m, k, name)) ->
      wsum h k key (exp_lo r k (projh h k hr)) hr = sumv key (exp_adds akey (is_mono k) temps r (projh h k hr)).
  Proof.
    intros h k key r. unfold exp_lo, exp_adds.
    induction hr as [|[t o] rest IH]; intros Hs Hok Hr Hh Hk; [cbn in Hh; lia|].
    destruct Hs as [Ht [Hlt Hs]]. destruct Hok as [Ho [Hv Hok]].
    assert (Hb : forall mono, prev_ts akey mono n temps r (projh h k rest) < t).
    { intros. apply prev_ts_bound; auto. apply projh_times; auto. }
    destruct o as [m k' name|h' v a|r'].
    - (* an instrument is created *)
      cbn [projh wsum]. destruct (Nat.eqb (length (newsr rest)) h) eqn:E.
      + apply Nat.eqb_eq in E. rewrite wsum_none_yet by (auto; lia). destruct (is_delta (temps r)); reflexivity.
      + apply Nat.eqb_neq in E. cbn [ProofsWorld.newsr] in Hh, Hk. rewrite app_length in Hh. cbn in Hh.
        apply IH; auto; try lia. destruct Hk as [m' [name' Hk]]. rewrite nth_error_app1 in Hk by lia. eauto.
    - (* a measurement *)
      cbn [projh wsum]. cbn [ProofsWorld.newsr] in Hh, Hk. specialize (IH Hs Hok Hr Hh Hk).
      destruct (Nat.eqb h' h) eqn:E.
      + apply Nat.eqb_eq in E. subst h'. destruct Hk as [m' [name' Hk]]. specialize (Hv _ _ _ Hk).
        rewrite (spec_value_eq k v Hv). cbn [andb]. destruct (api_value k v) as [v'|] eqn:Ea.
        * destruct (is_delta (temps r)) eqn:Ed.
          -- cbn [ProofsStorage.prev_ts ProofsStorage.adds_since]. rewrite sumv_cons, <- IH.
             specialize (Hb (is_mono k)). replace (prev_ts akey (is_mono k) n temps r (projh h k rest) <? t) with true by lia.
             rewrite andb_true_r. unfold av. reflexivity.
          -- cbn [ProofsStorage.adds_all]. rewrite sumv_cons, <- IH. replace (0 <? t) with true by lia.
             rewrite andb_true_r. unfold av. reflexivity.
        * rewrite <- IH. destruct (akey_eqb key (canon a) && _)%bool; lia.
      + cbn [andb]. rewrite <- IH. lia.
    - (* a collection *)
      cbn [projh wsum]. cbn [ProofsWorld.newsr] in Hh, Hk. specialize (IH Hs Hok Hr Hh Hk).
      destruct (is_delta (temps r)) eqn:Ed.
      + cbn [ProofsStorage.prev_ts ProofsStorage.adds_since]. destruct (Nat.eqb r' r) eqn:E; auto.
        destruct (present akey (is_mono k) n temps r (projh h k rest)) eqn:P.
        * rewrite wsum_above; [reflexivity|]. left. exact Hlt.
        * rewrite IH. apply Nat.eqb_eq in E. subst r'.
          rewrite (not_present_no_adds akey (is_mono k) n temps r _ Hr P). reflexivity.
      + cbn [ProofsStorage.adds_all]. exact IH.
  Qed.

  (* ---------------------------------------------------------------- a stream among the results of a collection *)
  Definition entry_out (r : nat) (ts : Z) (hr : list (Z * op)) (m : nat) (x : nat * hinfo) : list sdata :=
    let '(h, (m', k, name)) := x in
    if Nat.eqb m' m then
      match out_at (is_mono k) n temps (projh h k hr) r ts with
      | Some md => [mkSData m (sname (m', k, name)) k md]
      | None => []
      end
    else [].

  Lemma gobs_eq : forall hr r ts,
      gobs hr r ts = flat_map (fun m => flat_map (entry_out r ts hr m) (indexed (newsr hr))) (seq 0 (c_meters c)).
  Proof. intros. unfold ProofsWorld.gobs. apply flat_map_ext. intros m. apply flat_map_ext. intros [h [[m' k] name]]. reflexivity. Qed.

  Lemma gobs_in : forall hr r ts o, In o (gobs hr r ts) ->
      exists h m k name md, nth_error (newsr hr) h = Some (m, k, name) /\
                            o = mkSData m (sname (m, k, name)) k md /\
                            out_at (is_mono k) n temps (projh h k hr) r ts = Some md.
  Proof.
    intros hr r ts o H. rewrite gobs_eq in H. apply in_flat_map in H. destruct H as [m [_ H]].
    apply in_flat_map in H. destruct H as [[h [[m' k] name]] [Hin H]]. unfold entry_out in H.
    destruct (Nat.eqb m' m) eqn:E; [|inversion H]. apply Nat.eqb_eq in E. subst m'.
    destruct (out_at (is_mono k) n temps (projh h k hr) r ts) as [md|] eqn:Eo; [|inversion H].
    destruct H as [H|[]]. subst o. unfold indexed in Hin. apply in_indexed_nth in Hin. rewrite Nat.sub_0_r in Hin.
    exists h, m, k, name, md. tauto.
  Qed.

  Lemma names_distinct_index : forall l i j x y,
      names_distinct l -> nth_error l i = Some x -> nth_error l j = Some y ->
      fst (fst x) = fst (fst y) -> sname x = sname y -> i = j.
  Proof.
    intros l i j x y Hnd Hi Hj Hm Hs. unfold names_distinct in Hnd. rewrite NoDup_nth_error in Hnd.
    apply Hnd.
    - rewrite map_length. apply nth_error_Some. congruence.
    - rewrite (map_nth_error _ _ _ Hi), (map_nth_error _ _ _ Hj). rewrite Hm, Hs. reflexivity.
  Qed.

  Theorem stream_of_gobs : forall hr r ts h m k name,
      names_distinct (newsr hr) -> (m < c_meters c)%nat -> nth_error (newsr hr) h = Some (m, k, name) ->
      filter (is_stream m (sname (m, k, name))) (gobs hr r ts) =
      match out_at (is_mono k) n temps (projh h k hr) r ts with
      | Some md => [mkSData m (sname (m, k, name)) k md]
      | None => []
      end.
  Proof.
    intros hr r ts h m k name Hnd Hm Hn. rewrite gobs_eq, filter_flat_map.
    rewrite (flat_map_single _ _ _ m).
    - rewrite filter_flat_map. rewrite (flat_map_single _ _ _ (h, (m, k, name))).
      + unfold entry_out. rewrite Nat.eqb_refl. destruct (out_at (is_mono k) n temps (projh h k hr) r ts); cbn [filter]; auto.
        unfold is_stream. cbn [o_meter o_name]. rewrite Nat.eqb_refl. cbn [andb].
        replace (bytes_eqb (sname (m, k, name)) (sname (m, k, name))) with true; auto.
        symmetry. apply bytes_eqb_eq. reflexivity.
      + apply indexed_from_NoDup.
      + unfold indexed. apply (indexed_from_In _ _ 0%nat). exact Hn.
      + intros [h' [[m' k'] name']] Hin Hne. unfold entry_out. destruct (Nat.eqb m' m) eqn:E; auto.
        destruct (out_at (is_mono k') n temps (projh h' k' hr) r ts); auto. cbn [filter]. unfold is_stream. cbn [o_meter o_name].
        rewrite Nat.eqb_refl. cbn [andb]. destruct (bytes_eqb (sname (m, k, name)) (sname (m', k', name'))) eqn:Eb; auto.
        exfalso. apply Hne. apply bytes_eqb_eq in Eb. apply Nat.eqb_eq in E. subst m'.
        unfold indexed in Hin. apply in_indexed_nth in Hin. rewrite Nat.sub_0_r in Hin. destruct Hin as [_ Hin].
        assert (h' = h) by (eapply names_distinct_index; eauto). subst h'. rewrite Hn in Hin. inversion Hin. reflexivity.
    - apply seq_NoDup.
    - apply in_seq. lia.
    - intros m2 _ Hne. rewrite filter_flat_map. apply flat_map_nil. intros [h' [[m' k'] name']] _. unfold entry_out.
      destruct (Nat.eqb m' m2) eqn:E; auto. destruct (out_at (is_mono k') n temps (projh h' k' hr) r ts); auto.
      cbn [filter]. unfold is_stream. cbn [o_meter o_name]. replace (Nat.eqb m m2) with false; auto. symmetry. apply Nat.eqb_neq. auto.
  Qed.

  (* ---------------------------------------------------------------- the end of the previous MetricData of a stream *)
  Fixpoint gobs_list (hr : list (Z * op)) : list (nat * list sdata) :=
    match hr with
    | [] => []
    | (t, OCol r) :: rest => (r, gobs rest r t) :: gobs_list rest
    | _ :: rest => gobs_list rest
    end.

  Lemma filter_none : forall A (p : A -> bool) l, (forall x, In x l -> p x = false) -> filter p l = [].
  Proof. induction l as [|x l IH]; intros H; cbn; auto. rewrite (H x) by (left; auto). apply IH. intros; apply H; right; auto. Qed.

  Lemma prev_end_unknown : forall hr r m sn,
      (forall x, In x (newsr hr) -> ~ (fst (fst x) = m /\ sname x = sn)) -> prev_end (gobs_list hr) r m sn = 0.
  Proof.
    induction hr as [|[t o] rest IH]; intros r m sn H; cbn; auto.
    destruct o as [m' k name|h v a|r']; cbn [ProofsWorld.newsr] in H.
    - apply IH. intros x Hx. apply H. apply in_or_app. left; auto.
    - apply IH; auto.
    - cbn [gobs_list prev_end]. destruct (Nat.eqb r r'); [|apply IH; auto].
      rewrite filter_none; [apply IH; auto|]. intros o Ho. apply gobs_in in Ho.
      destruct Ho as [h [m2 [k [name [md [Hn [Eo _]]]]]]]. subst o. unfold is_stream. cbn [o_meter o_name].
      destruct (Nat.eqb m m2) eqn:E1; auto. destruct (bytes_eqb sn (sname (m2, k, name))) eqn:E2; auto.
      exfalso. apply Nat.eqb_eq in E1. apply bytes_eqb_eq in E2. apply nth_error_In in Hn. apply (H _ Hn). split; [cbn [fst]; congruence | congruence].
  Qed.

  Theorem prev_end_is_prev_ts : forall hr r h m k name,
      hist_ok hr -> names_distinct (newsr hr) -> (r < n)%nat -> nth_error (newsr hr) h = Some (m, k, name) ->
      prev_end (gobs_list hr) r m (sname (m, k, name)) = prev_ts akey (is_mono k) n temps r (projh h k hr).
  Proof.
    induction hr as [|[t o] rest IH]; intros r h m k name Hok Hnd Hr Hn; [destruct h; discriminate|].
    destruct Hok as [Ho [_ Hok]]. destruct o as [m' k' name'|h' v a|r'].
    - cbn [gobs_list projh]. cbn [ProofsWorld.newsr] in Hn, Hnd.
      assert (Hnd' : names_distinct (newsr rest)).
      { unfold names_distinct in *. rewrite map_app in Hnd. cbn [map] in Hnd. apply NoDup_remove_1 in Hnd. rewrite app_nil_r in Hnd. exact Hnd. }
      destruct (Nat.eqb (length (newsr rest)) h) eqn:E.
      + apply Nat.eqb_eq in E. subst h. rewrite nth_error_app2 in Hn by lia. rewrite Nat.sub_diag in Hn. cbn in Hn.
        inversion Hn; subst m' k' name'. cbn. apply prev_end_unknown. intros x Hx [H1 H2].
        unfold names_distinct in Hnd. rewrite map_app in Hnd. cbn in Hnd.
        apply NoDup_remove_2 in Hnd. apply Hnd. rewrite app_nil_r. apply in_map_iff. exists x. split; auto.
        rewrite H1, H2. reflexivity.
      + apply Nat.eqb_neq in E. assert (h < length (newsr rest))%nat.
        { assert (h < length (newsr rest ++ [(m', k', name')]))%nat by (apply nth_error_Some; congruence).
          rewrite app_length in H. cbn in H. lia. }
        rewrite nth_error_app1 in Hn by auto. apply IH; auto.
    - cbn [gobs_list projh]. cbn [ProofsWorld.newsr] in Hn, Hnd.
      destruct (Nat.eqb h' h); [destruct (api_value k v)|]; cbn [ProofsStorage.prev_ts]; apply IH; auto.
    - cbn [gobs_list projh prev_end ProofsStorage.prev_ts]. cbn [ProofsWorld.newsr] in Hn, Hnd.
      rewrite (Nat.eqb_sym r' r). destruct (Nat.eqb r r') eqn:E; [|apply IH; auto].
      apply Nat.eqb_eq in E. subst r'.
      pose proof (newsr_meters_ok rest Hok) as Hm. rewrite Forall_forall in Hm. specialize (Hm _ (nth_error_In _ _ Hn)). cbn in Hm.
      rewrite (stream_of_gobs rest r t h m k name Hnd Hm Hn).
      pose proof (out_at_ok akey akey_eqb akey_eqb_ok (is_mono k) n temps (projh h k rest) r t (projh_wf h k rest Hok) Hr) as Hout.
      unfold out_ok in Hout. destruct (present akey (is_mono k) n temps r (projh h k rest)).
      + destruct Hout as [md [Eo [_ [_ [He _]]]]]. rewrite Eo. cbn. exact He.
      + rewrite Hout. apply IH; auto.
  Qed.
End SpecLink.
