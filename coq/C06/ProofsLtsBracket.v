(* C06 proofs, part 9: calls and returns.  For every accepted trace of the lock-granularity model (strict or not) the
   measurements whose Add has returned are among those that have taken effect, which are among those whose Add was
   called; what a reader's callbacks were given equals what was computed under the lock.  Under the SDK's discipline
   ([strict]) this gives the bracket C06/SpecSched.v checks on the implementation's traces: the value a reader has after a
   Collect - the sum of its delta points so far, or the cumulative point - is exactly the sum of the measurements whose
   critical section precedes the Collect's swap, which lies between the measurements returned before the Collect was
   called and those called before it returned. *)
From V Require Import C06.Model C06.Lts C06.ProofsTable C06.ProofsStorage C06.ProofsReaders C06.ProofsLts.
From Coq Require Import Lia ZifyBool ZifyNat.
Local Open Scope Z_scope.

Fixpoint fsum (N : nat) (f : nat -> Z) : Z := match N with O => 0 | S m => fsum m f + f m end.

Lemma fsum_ext : forall N f g, (forall i, (i < N)%nat -> f i = g i) -> fsum N f = fsum N g.
Proof. induction N as [|N IH]; intros f g H; cbn; auto. rewrite (H N) by lia. rewrite (IH f g) by (intros; apply H; lia). reflexivity. Qed.

Lemma fsum_upd : forall A (g : A -> Z) N (f : nat -> A) t x, (t < N)%nat ->
    fsum N (fun i => g (upd f t x i)) = fsum N (fun i => g (f i)) - g (f t) + g x.
Proof.
  induction N as [|N IH]; intros f t x H; [lia|]. cbn [fsum]. destruct (Nat.eq_dec t N) as [E|E].
  - subst t. rewrite (fsum_ext N (fun i => g (upd f N x i)) (fun i => g (f i))).
    + unfold upd at 1. rewrite Nat.eqb_refl. lia.
    + intros i Hi. unfold upd. replace (Nat.eqb i N) with false; auto. symmetry; apply Nat.eqb_neq; lia.
  - rewrite IH by lia. unfold upd. replace (Nat.eqb N t) with false by (symmetry; apply Nat.eqb_neq; lia). lia.
Qed.

Lemma fsum_nonneg : forall N f, (forall i, (i < N)%nat -> 0 <= f i) -> 0 <= fsum N f.
Proof. induction N as [|N IH]; intros f H; cbn; [lia|]. specialize (IH f). assert (0 <= f N) by (apply H; lia). assert (0 <= fsum N f) by (apply IH; intros; apply H; lia). lia. Qed.

Section Ghost.
  Variable K : Type.
  Variable keqb : K -> K -> bool.
  Hypothesis keqb_ok : forall a b, keqb a b = true <-> a = b.
  Variable mono : bool.
  Variable n : nat.
  Variable temps : nat -> temporality.
  Variable T : nat.
  Variable strict : bool.

  Notation ev := (ev K).
  Notation lstate := (lstate K).
  Notation lin := (lin K).
  Notation called := (called K mono).
  Notation returned := (returned K mono).
  Notation adds_all := (adds_all K mono).
  Notation sumv := (sumv K keqb).
  Notation pointv := (pointv K keqb).
  Notation accept := (accept K keqb mono n temps T strict).
  Notation lrun := (lrun K keqb mono n temps T strict).

  Definition hitv (k k' : K) (v : Z) : Z := if keqb k k' then agg_value mono v else 0.
  Definition pre (k : K) (p : rphase K) : Z := match p with RCalled k' v | RLocked k' v => hitv k k' v | _ => 0 end.
  Definition post (k : K) (p : rphase K) : Z := match p with RDone k' v => hitv k k' v | _ => 0 end.
  Definition inflight (p : rphase K) : option (K * Z) :=
    match p with RCalled k v | RLocked k v | RDone k v => Some (k, agg_value mono v) | RNone => None end.

  (* what reader r's callbacks have been given so far for attribute set k *)
  Fixpoint got (r : nat) (k : K) (tr : list (nat * ev)) : Z :=
    match tr with
    | [] => 0
    | (_, EColRet r' o) :: tr' => (if Nat.eqb r' r then pointv o k else 0) + got r k tr'
    | _ :: tr' => got r k tr'
    end.
  Definition built (k : K) (p : cphase K) : Z := match p with CBuilt o | CBuiltFree o => pointv o k | _ => 0 end.

  Lemma sumv_cons' : forall k k' v l, sumv k ((k', v) :: l) = (if keqb k k' then v else 0) + sumv k l.
  Proof. intros. unfold ProofsReaders.sumv. cbn. rewrite oz_oplus. unfold hit. destruct (keqb k k'); reflexivity. Qed.

  Record GInv (tr : list (nat * ev)) (s : lstate) : Prop := mkGInv {
    G_called : forall k, sumv k (called tr) = sumv k (adds_all (lin tr)) + fsum T (fun t => pre k (l_rec K s t));
    G_ret : forall k, sumv k (adds_all (lin tr)) = sumv k (returned tr) + fsum T (fun t => post k (l_rec K s t));
    G_in : forall t x, inflight (l_rec K s t) = Some x -> In x (called tr);
    G_done : forall x, In x (adds_all (lin tr)) -> In x (called tr);
    G_got : forall r k, got r k tr + built k (l_col K s r) = recv K keqb r k (l_outs K s)
  }.

  Lemma GInv_init : GInv [] (linit K).
  Proof.
    constructor; cbn; auto; try (intros; discriminate); try tauto.
    - intros k. induction T; cbn; auto. rewrite <- IHn0. reflexivity.
    - intros k. induction T; cbn; auto. rewrite <- IHn0. reflexivity.
  Qed.

  (* a step that touches neither the recorders, nor the history, nor any output *)
  Lemma GInv_frame : forall tr e s s',
      GInv tr s -> lin (e :: tr) = lin tr -> called (e :: tr) = called tr -> returned (e :: tr) = returned tr ->
      l_rec K s' = l_rec K s -> l_outs K s' = l_outs K s ->
      (forall r k, got r k (e :: tr) + built k (l_col K s' r) = got r k tr + built k (l_col K s r)) ->
      GInv (e :: tr) s'.
  Proof.
    intros tr e s s' [G1 G2 G3 G4 G5] H1 H2 H3 H4 H5 H6. constructor.
    - intros k. rewrite H1, H2, H4. apply G1.
    - intros k. rewrite H1, H3, H4. apply G2.
    - intros t x. rewrite H4, H2. apply G3.
    - intros x. rewrite H1, H2. apply G4.
    - intros r k. rewrite H6, H5. apply G5.
  Qed.

  Lemma recv_snoc : forall r k l r' ts o,
      recv K keqb r k (l ++ [(r', ts, o)]) = recv K keqb r k l + (if Nat.eqb r' r then pointv o k else 0).
  Proof. induction l as [|x l IH]; intros; cbn [app recv fst snd]; [lia|]. rewrite IH. lia. Qed.

  Lemma mdo_eqb_pointv : forall a b k, mdo_eqb K keqb a b = true -> pointv a k = pointv b k.
  Proof.
    intros a b k H. apply (mdo_eqb_equiv K keqb keqb_ok temps n) in H. destruct a as [x|], b as [y|]; cbn in *; try tauto.
    destruct H as [_ [_ [_ H]]]. rewrite H. reflexivity.
  Qed.

  Theorem GInv_step : forall tr s te s', GInv tr s -> accept s te = Some s' -> GInv (te :: tr) s'.
  Proof.
    intros tr s [t e] s' I Ha. unfold Lts.accept in Ha.
    destruct (negb (Nat.ltb t T)) eqn:Et; [discriminate|]. apply negb_false_iff, Nat.ltb_lt in Et.
    destruct e as [k v| |k v|k v|r|r|r|r ts|r|r|r|r o'| ].
    - (* AddCall *)
      destruct (l_rec K s t) eqn:Er; try discriminate. inversion Ha; subst s'. clear Ha.
      destruct I as [G1 G2 G3 G4 G5]. constructor; cbn [set_rec l_rec l_col l_outs Lts.lin Lts.called Lts.returned got]; auto.
      + intros k0. rewrite sumv_cons', G1. rewrite (fsum_upd _ (pre k0)) by auto. rewrite Er. cbn [pre]. unfold hitv. lia.
      + intros k0. rewrite G2. rewrite (fsum_upd _ (post k0)) by auto. rewrite Er. cbn [post]. lia.
      + intros t0 x H. unfold upd in H. destruct (Nat.eqb t0 t); [inversion H; left; reflexivity | right; eapply G3; eauto].
      + intros x H. right. auto.
    - (* ALock *)
      destruct (l_rec K s t) as [|k v| | ] eqn:Er; try discriminate. destruct (l_hA K s); [discriminate|]. inversion Ha; subst s'. clear Ha.
      destruct I as [G1 G2 G3 G4 G5]. constructor; cbn [l_rec l_col l_outs Lts.lin Lts.called Lts.returned got]; auto.
      + intros k0. rewrite G1. rewrite (fsum_upd _ (pre k0)) by auto. rewrite Er. cbn [pre]. lia.
      + intros k0. rewrite G2. rewrite (fsum_upd _ (post k0)) by auto. rewrite Er. cbn [post]. lia.
      + intros t0 x H. unfold upd in H. destruct (Nat.eqb t0 t) eqn:E; [|eapply G3; eauto].
        apply (G3 t). rewrite Er. exact H.
    - (* AUnlock *)
      destruct (l_rec K s t) as [|k' v'|k' v'|k' v'] eqn:Er; try discriminate.
      destruct (keqb k k' && (v =? v'))%bool eqn:Ek; [|discriminate]. apply andb_prop in Ek as [Ek Ev].
      apply keqb_ok in Ek. subst k'. assert (v' = v) by lia. subst v'. inversion Ha; subst s'. clear Ha.
      destruct I as [G1 G2 G3 G4 G5]. constructor; cbn [l_rec l_col l_outs Lts.lin Lts.called Lts.returned got ProofsStorage.adds_all]; auto.
      + intros k0. rewrite sumv_cons', G1. rewrite (fsum_upd _ (pre k0)) by auto. rewrite Er. cbn [pre]. unfold hitv, av. lia.
      + intros k0. rewrite sumv_cons', G2. rewrite (fsum_upd _ (post k0)) by auto. rewrite Er. cbn [post]. unfold hitv, av. lia.
      + intros t0 x H. unfold upd in H. destruct (Nat.eqb t0 t) eqn:E; [|eapply G3; eauto].
        apply (G3 t). rewrite Er. exact H.
      + intros x [H|H]; auto. subst x. apply (G3 t). rewrite Er. reflexivity.
    - (* AddRet *)
      destruct (l_rec K s t) as [|k' v'|k' v'|k' v'] eqn:Er; try discriminate.
      destruct (keqb k k' && (v =? v'))%bool eqn:Ek; [|discriminate]. apply andb_prop in Ek as [Ek Ev].
      apply keqb_ok in Ek. subst k'. assert (v' = v) by lia. subst v'. inversion Ha; subst s'. clear Ha.
      destruct I as [G1 G2 G3 G4 G5]. constructor; cbn [set_rec l_rec l_col l_outs Lts.lin Lts.called Lts.returned got]; auto.
      + intros k0. rewrite G1. rewrite (fsum_upd _ (pre k0)) by auto. rewrite Er. cbn [pre]. lia.
      + intros k0. rewrite sumv_cons', G2. rewrite (fsum_upd _ (post k0)) by auto. rewrite Er. cbn [post]. unfold hitv. lia.
      + intros t0 x H. unfold upd in H. destruct (Nat.eqb t0 t) eqn:E; [discriminate|eapply G3; eauto].
    - (* ColCall *)
      destruct (negb (Nat.ltb r n)); [discriminate|]. destruct (l_col K s r) eqn:Ec; try discriminate.
      inversion Ha; subst s'. eapply GInv_frame; eauto. intros q k. cbn [got l_col]. unfold upd.
      destruct (Nat.eqb q r) eqn:E; auto. apply Nat.eqb_eq in E. subst q. rewrite Ec. reflexivity.
    - (* CLockM *)
      destruct (negb (Nat.ltb r n && Nat.eqb (l_own K s r) t)); [discriminate|].
      destruct (l_col K s r) eqn:Ec; try discriminate. destruct (l_hM K s); [discriminate|].
      inversion Ha; subst s'. eapply GInv_frame; eauto. intros q k. cbn [got l_col]. unfold upd.
      destruct (Nat.eqb q r) eqn:E; auto. apply Nat.eqb_eq in E. subst q. rewrite Ec. reflexivity.
    - (* CLockA *)
      destruct (negb (Nat.ltb r n && Nat.eqb (l_own K s r) t)); [discriminate|]. destruct (l_hA K s); [discriminate|].
      destruct (l_col K s r) eqn:Ec; try discriminate; [destruct strict; [discriminate|]|];
        inversion Ha; subst s'; (eapply GInv_frame; eauto); intros q k; cbn [got l_col]; unfold upd;
        (destruct (Nat.eqb q r) eqn:E; auto); apply Nat.eqb_eq in E; subst q; rewrite Ec; reflexivity.
    - (* CUnlockA *)
      destruct (negb (Nat.ltb r n && Nat.eqb (l_own K s r) t)); [discriminate|].
      destruct (l_col K s r) eqn:Ec; try discriminate. inversion Ha; subst s'. clear Ha.
      destruct I as [G1 G2 G3 G4 G5]. constructor; cbn [l_rec l_col l_outs Lts.lin Lts.called Lts.returned got ProofsStorage.adds_all]; auto.
      intros q k. rewrite <- G5. unfold upd. destruct (Nat.eqb q r) eqn:E; auto. apply Nat.eqb_eq in E. subst q. rewrite Ec. reflexivity.
    - (* CLockT *)
      destruct (negb (Nat.ltb r n && Nat.eqb (l_own K s r) t)); [discriminate|]. destruct (l_hT K s); [discriminate|].
      destruct (l_col K s r) eqn:Ec; try discriminate.
      inversion Ha; subst s'. eapply GInv_frame; eauto. intros q k. cbn [got l_col]. unfold upd.
      destruct (Nat.eqb q r) eqn:E; auto. apply Nat.eqb_eq in E. subst q. rewrite Ec. reflexivity.
    - (* CUnlockT *)
      destruct (negb (Nat.ltb r n && Nat.eqb (l_own K s r) t)); [discriminate|].
      destruct (l_col K s r) as [| | | |d ts|d ts| | ] eqn:Ec; try discriminate.
      destruct (build K keqb n temps (l_st K s) d r ts) as [st' o] eqn:Eb. inversion Ha; subst s'. clear Ha.
      destruct I as [G1 G2 G3 G4 G5]. constructor; cbn [l_rec l_col l_outs Lts.lin Lts.called Lts.returned got]; auto.
      intros q k. rewrite recv_snoc, <- G5. unfold upd. rewrite (Nat.eqb_sym r q). destruct (Nat.eqb q r) eqn:E.
      + apply Nat.eqb_eq in E. subst q. rewrite Ec. cbn [built]. lia.
      + lia.
    - (* CUnlockM *)
      destruct (negb (Nat.ltb r n && Nat.eqb (l_own K s r) t)); [discriminate|].
      destruct (l_col K s r) eqn:Ec; try discriminate. destruct (l_hM K s) as [r'|]; [|discriminate].
      destruct (Nat.eqb r r'); [|discriminate].
      inversion Ha; subst s'. eapply GInv_frame; eauto. intros q k. cbn [got l_col]. unfold upd.
      destruct (Nat.eqb q r) eqn:E; auto. apply Nat.eqb_eq in E. subst q. rewrite Ec. reflexivity.
    - (* ColRet *)
      destruct (negb (Nat.ltb r n && Nat.eqb (l_own K s r) t)); [discriminate|].
      assert (Hgen : forall o, (l_col K s r = CBuilt o \/ l_col K s r = CBuiltFree o) -> mdo_eqb K keqb o o' = true ->
                               GInv ((t, EColRet r o') :: tr) (set_col K s r CNone)).
      { intros o Hc Hm. eapply GInv_frame; eauto. intros q k. cbn [got set_col l_col]. unfold upd.
        rewrite (Nat.eqb_sym r q). destruct (Nat.eqb q r) eqn:E; [|lia]. apply Nat.eqb_eq in E. subst q.
        rewrite <- (mdo_eqb_pointv o o' k Hm). destruct Hc as [Hc|Hc]; rewrite Hc; cbn [built]; lia. }
      destruct (l_col K s r) eqn:Ec; try discriminate.
      + destruct strict; [discriminate|]. destruct (mdo_eqb K keqb o o') eqn:Em; [|discriminate]. inversion Ha; subst s'. eapply Hgen; eauto.
      + destruct (mdo_eqb K keqb o o') eqn:Em; [|discriminate]. inversion Ha; subst s'. eapply Hgen; eauto.
    - (* Other *)
      destruct (l_rec K s t); try discriminate; destruct (between_sections K n s t); try discriminate;
        inversion Ha; subst s'; eapply GInv_frame; eauto.
  Qed.

  Theorem ghost_invariant : forall tr s, lrun tr = Some s -> GInv tr s.
  Proof.
    induction tr as [|te tr IH]; intros s H; cbn [Lts.lrun] in H.
    - inversion H; subst. apply GInv_init.
    - destruct (Lts.lrun K keqb mono n temps T strict tr) as [s0|] eqn:E; [|discriminate]. eapply GInv_step; eauto.
  Qed.

  (* ---------------------------------------------------------------- returned <= done <= called *)
  Definition nonneg (l : list (K * Z)) : Prop := forall x, In x l -> 0 <= snd x.

  Lemma sumv_nonneg : forall k l, nonneg l -> 0 <= sumv k l.
  Proof.
    induction l as [|[k' v] l IH]; intros H; [cbn; lia|]. rewrite sumv_cons'.
    assert (0 <= v) by (apply (H (k', v)); left; reflexivity). assert (0 <= sumv k l) by (apply IH; intros x Hx; apply H; right; auto).
    destruct (keqb k k'); lia.
  Qed.

  Theorem returned_done_called : forall tr s k, lrun tr = Some s -> nonneg (called tr) ->
      sumv k (returned tr) <= sumv k (adds_all (lin tr)) <= sumv k (called tr).
  Proof.
    intros tr s k H Hn. destruct (ghost_invariant tr s H) as [G1 G2 G3 G4 G5]. rewrite (G1 k), (G2 k).
    assert (0 <= fsum T (fun t => pre k (l_rec K s t))).
    { apply fsum_nonneg. intros t _. destruct (l_rec K s t) eqn:E; cbn; try lia; unfold hitv; destruct (keqb k k0); try lia;
        (assert (In (k0, agg_value mono v) (called tr)) by (apply (G3 t); rewrite E; reflexivity)); apply (Hn _ H0). }
    assert (0 <= fsum T (fun t => post k (l_rec K s t))).
    { apply fsum_nonneg. intros t _. destruct (l_rec K s t) eqn:E; cbn; try lia; unfold hitv; destruct (keqb k k0); try lia;
        (assert (In (k0, agg_value mono v) (called tr)) by (apply (G3 t); rewrite E; reflexivity)); apply (Hn _ H1). }
    lia.
  Qed.

  Lemma lrun_suffix : forall a b s, lrun (a ++ b) = Some s -> exists s0, lrun b = Some s0.
  Proof.
    induction a as [|e a IH]; intros b s H; [eauto|]. cbn [app Lts.lrun] in H.
    destruct (Lts.lrun K keqb mono n temps T strict (a ++ b)) as [s1|] eqn:E; [|discriminate]. eapply IH; eauto.
  Qed.

  Lemma called_app : forall a b, called (a ++ b) = called a ++ called b.
  Proof. induction a as [|[t e] a IH]; intros; cbn; auto. destruct e; cbn; rewrite ?IH; auto. Qed.
  Lemma lin_app : forall a b, lin (a ++ b) = lin a ++ lin b.
  Proof. induction a as [|[t e] a IH]; intros; cbn; auto. destruct e; cbn; rewrite ?IH; auto. Qed.
  Lemma adds_all_app : forall a b, adds_all (a ++ b) = adds_all a ++ adds_all b.
  Proof. induction a as [|[k v|r ts] a IH]; intros; cbn; auto. rewrite IH. reflexivity. Qed.
End Ghost.

(* ================================================================================================ the bracket *)
Section Bracket.
  Variable K : Type.
  Variable keqb : K -> K -> bool.
  Hypothesis keqb_ok : forall a b, keqb a b = true <-> a = b.
  Variable mono : bool.
  Variable n : nat.
  Variable temps : nat -> temporality.
  Variable T : nat.

  Notation ev := (ev K).
  Notation lin := (lin K).
  Notation called := (called K mono).
  Notation returned := (returned K mono).
  Notation adds_all := (adds_all K mono).
  Notation sumv := (sumv K keqb).
  Notation pointv := (pointv K keqb).
  Notation lrun := (lrun K keqb mono n temps T true).
  Notation out_at := (out_at K keqb mono n temps).
  Notation outs := (outs K keqb mono n temps).
  Notation hist_wf := (hist_wf K n).

  (* the trace before reader r's latest Collect call *)
  Fixpoint before_call (r : nat) (tr : list (nat * ev)) : list (nat * ev) :=
    match tr with
    | [] => []
    | (_, EColCall r') :: tr' => if Nat.eqb r' r then tr' else before_call r tr'
    | _ :: tr' => before_call r tr'
    end.

  Lemma before_call_suffix : forall r tr, exists a, tr = a ++ before_call r tr.
  Proof.
    induction tr as [|[t e] tr [a IH]]; [exists []; reflexivity|].
    assert (Hdef : exists a0, (t, e) :: tr = a0 ++ before_call r tr) by (exists ((t, e) :: a); cbn; f_equal; exact IH).
    destruct e; cbn [before_call]; auto. destruct (Nat.eqb r0 r); auto. exists [(t, EColCall r0)]. reflexivity.
  Qed.

  (* where a collector stands relative to its own call: the history at the call is a suffix of the history at the swap *)
  Definition call_inv (tr : list (nat * ev)) (s : lstate K) : Prop :=
    forall r, match l_col K s r with
              | CNone => True
              | CCalled | CHoldM | CLockedA => exists x, lin tr = x ++ lin (before_call r tr)
              | _ => exists ts hr0 x, before_last_col K r (lin tr) = Some (ts, hr0) /\ hr0 = x ++ lin (before_call r tr)
              end.

  Lemma call_inv_step : forall tr s te s',
      call_inv tr s -> Lts.accept K keqb mono n temps T true s te = Some s' -> call_inv (te :: tr) s'.
  Proof.
    intros tr s [t e] s' I Ha r0. specialize (I r0). unfold Lts.accept in Ha.
    destruct (negb (Nat.ltb t T)); [discriminate|].
    destruct e as [k v| |k v|k v|r|r|r|r ts|r|r|r|r o'| ].
    - destruct (l_rec K s t); try discriminate. inversion Ha; subst s'. exact I.
    - destruct (l_rec K s t); try discriminate. destruct (l_hA K s); [discriminate|]. inversion Ha; subst s'. exact I.
    - destruct (l_rec K s t); try discriminate. destruct (keqb k k0 && (v =? v0))%bool; [|discriminate]. inversion Ha; subst s'.
      cbn [l_col Lts.lin before_call before_last_col]. destruct (l_col K s r0); auto.
      all: try (destruct I as [x I]; exists (SAdd k v :: x); rewrite I; reflexivity).
    - destruct (l_rec K s t); try discriminate. destruct (keqb k k0 && (v =? v0))%bool; [|discriminate]. inversion Ha; subst s'. exact I.
    - destruct (negb (Nat.ltb r n)); [discriminate|]. destruct (l_col K s r) eqn:Ec; try discriminate. inversion Ha; subst s'.
      cbn [l_col Lts.lin before_call]. unfold upd. destruct (Nat.eqb r0 r) eqn:E.
      + apply Nat.eqb_eq in E. subst r0. rewrite Nat.eqb_refl. exists []. reflexivity.
      + rewrite (Nat.eqb_sym r r0), E. exact I.
    - destruct (negb (Nat.ltb r n && Nat.eqb (l_own K s r) t)); [discriminate|].
      destruct (l_col K s r) eqn:Ec; try discriminate. destruct (l_hM K s); [discriminate|]. inversion Ha; subst s'.
      cbn [l_col Lts.lin before_call]. unfold upd. destruct (Nat.eqb r0 r) eqn:E; auto.
      apply Nat.eqb_eq in E. subst r0. rewrite Ec in I. exact I.
    - destruct (negb (Nat.ltb r n && Nat.eqb (l_own K s r) t)); [discriminate|]. destruct (l_hA K s); [discriminate|].
      destruct (l_col K s r) eqn:Ec; try discriminate. inversion Ha; subst s'.
      cbn [l_col Lts.lin before_call]. unfold upd. destruct (Nat.eqb r0 r) eqn:E; auto.
      apply Nat.eqb_eq in E. subst r0. rewrite Ec in I. exact I.
    - destruct (negb (Nat.ltb r n && Nat.eqb (l_own K s r) t)); [discriminate|].
      destruct (l_col K s r) eqn:Ec; try discriminate. inversion Ha; subst s'.
      cbn [l_col Lts.lin before_call before_last_col]. unfold upd. destruct (Nat.eqb r0 r) eqn:E.
      + apply Nat.eqb_eq in E. subst r0. rewrite Nat.eqb_refl. rewrite Ec in I. destruct I as [x I]. exists ts, (lin tr), x. auto.
      + rewrite (Nat.eqb_sym r r0), E. destruct (l_col K s r0); auto.
        all: try (destruct I as [x I]; exists (SCol r ts :: x); rewrite I; reflexivity).
    - destruct (negb (Nat.ltb r n && Nat.eqb (l_own K s r) t)); [discriminate|]. destruct (l_hT K s); [discriminate|].
      destruct (l_col K s r) eqn:Ec; try discriminate. inversion Ha; subst s'.
      cbn [l_col Lts.lin before_call]. unfold upd. destruct (Nat.eqb r0 r) eqn:E; auto.
      apply Nat.eqb_eq in E. subst r0. rewrite Ec in I. exact I.
    - destruct (negb (Nat.ltb r n && Nat.eqb (l_own K s r) t)); [discriminate|].
      destruct (l_col K s r) as [| | | |d ts|d ts| | ] eqn:Ec; try discriminate.
      destruct (build K keqb n temps (l_st K s) d r ts) as [st' o]. inversion Ha; subst s'.
      cbn [l_col Lts.lin before_call]. unfold upd. destruct (Nat.eqb r0 r) eqn:E; auto.
      apply Nat.eqb_eq in E. subst r0. rewrite Ec in I. exact I.
    - destruct (negb (Nat.ltb r n && Nat.eqb (l_own K s r) t)); [discriminate|].
      destruct (l_col K s r) eqn:Ec; try discriminate. destruct (l_hM K s) as [r'|]; [|discriminate].
      destruct (Nat.eqb r r'); [|discriminate]. inversion Ha; subst s'.
      cbn [l_col Lts.lin before_call]. unfold upd. destruct (Nat.eqb r0 r) eqn:E; auto.
      apply Nat.eqb_eq in E. subst r0. rewrite Ec in I. exact I.
    - destruct (negb (Nat.ltb r n && Nat.eqb (l_own K s r) t)); [discriminate|].
      destruct (l_col K s r) eqn:Ec; try discriminate. destruct (mdo_eqb K keqb o o'); [|discriminate]. inversion Ha; subst s'.
      cbn [set_col l_col Lts.lin before_call]. unfold upd. destruct (Nat.eqb r0 r) eqn:E; auto.
    - destruct (l_rec K s t); try discriminate; destruct (between_sections K n s t); try discriminate; inversion Ha; subst s'; exact I.
  Qed.

  Lemma call_invariant : forall tr s, lrun tr = Some s -> call_inv tr s.
  Proof.
    induction tr as [|te tr IH]; intros s H; cbn [Lts.lrun] in H.
    - inversion H; subst. intros r. exact I.
    - destruct (Lts.lrun K keqb mono n temps T true tr) as [s0|] eqn:E; [|discriminate]. eapply call_inv_step; eauto.
  Qed.

  Lemma before_last_col_split : forall r hr ts hr0, before_last_col K r hr = Some (ts, hr0) ->
      exists x, hr = x ++ SCol r ts :: hr0 /\ adds_all hr = adds_since K mono r hr ++ adds_all hr0.
  Proof.
    induction hr as [|[k v|r' ts'] hr IH]; intros ts hr0 H; cbn in H; [discriminate| |].
    - destruct (IH _ _ H) as [x [E1 E2]]. exists (SAdd k v :: x). split; [rewrite E1; reflexivity|]. cbn. rewrite E2. reflexivity.
    - cbn. destruct (Nat.eqb r' r) eqn:E.
      + inversion H; subst. apply Nat.eqb_eq in E. subst r'. exists []. split; reflexivity.
      + destruct (IH _ _ H) as [x [E1 E2]]. exists (SCol r' ts' :: x). split; [rewrite E1; reflexivity|exact E2].
  Qed.

  (* the SPEC's bracket, for every accepted interleaving: at the return of a Collect by reader r, the value the reader has
     - everything its callbacks were given so far (delta) / the point it was just given (cumulative) - is exactly the sum
     of the measurements that took effect before this Collect detached the live map; that sum is at least what had
     returned before the Collect was called and at most what had been called when it returned *)
  Theorem strict_bracket : forall tr t r o' s k,
      lrun ((t, EColRet r o') :: tr) = Some s -> nonneg K (called tr) ->
      exists ts hr0,
        before_last_col K r (lin tr) = Some (ts, hr0) /\
        md_equiv K keqb (out_at hr0 r ts) o' /\
        (if is_delta (temps r) then got K keqb r k ((t, EColRet r o') :: tr) else pointv o' k) = sumv k (adds_all hr0) /\
        sumv k (returned (before_call r tr)) <= sumv k (adds_all hr0) <= sumv k (called tr).
  Proof.
    intros tr t r o' s k H Hn.
    destruct (strict_colret_output K keqb keqb_ok mono n temps T tr t r o' s H) as [ts [hr0 [E1 [Hw0 [Hr Heq]]]]].
    exists ts, hr0. split; auto. split; auto.
    pose proof H as H'. cbn [Lts.lrun] in H'. destruct (Lts.lrun K keqb mono n temps T true tr) as [s0|] eqn:E; [|discriminate].
    destruct (before_last_col_split r (lin tr) ts hr0 E1) as [x [Ex Ea]].
    pose proof (strict_invariant K keqb mono n temps T tr s0 E) as [I1 I2 I3 I4].
    assert (Hpv : pointv o' k = pointv (out_at hr0 r ts) k).
    { destruct (out_at hr0 r ts) as [a|], o' as [b|]; cbn in Heq |- *; try tauto. destruct Heq as [_ [_ [_ Hq]]]. rewrite Hq. reflexivity. }
    split.
    - (* the value *)
      destruct (temps r) eqn:Et; cbn [is_delta].
      + (* delta: everything received so far = recv over the linearized outputs *)
        pose proof (ghost_invariant K keqb keqb_ok mono n temps T true _ s H) as [_ _ _ _ G5]. specialize (G5 r k).
        assert (Hc : l_col K s r = CNone).
        { unfold Lts.accept in H'. destruct (negb (Nat.ltb t T)); [discriminate|].
          destruct (negb (Nat.ltb r n && Nat.eqb (l_own K s0 r) t)); [discriminate|].
          destruct (l_col K s0 r); try discriminate; destruct (mdo_eqb K keqb o o'); try discriminate;
            inversion H'; subst s; cbn; unfold upd; rewrite Nat.eqb_refl; reflexivity. }
        rewrite Hc in G5. cbn [built] in G5. rewrite Z.add_0_r in G5. rewrite G5.
        (* the outputs recorded so far are those of a history that contains r's latest collection *)
        assert (Hs_outs : l_outs K s = l_outs K s0).
        { unfold Lts.accept in H'. destruct (negb (Nat.ltb t T)); [discriminate|].
          destruct (negb (Nat.ltb r n && Nat.eqb (l_own K s0 r) t)); [discriminate|].
          destruct (l_col K s0 r); try discriminate; destruct (mdo_eqb K keqb o o'); try discriminate; inversion H'; reflexivity. }
        rewrite Hs_outs.
        assert (Hgen : forall h, hist_wf h -> before_last_col K r h = Some (ts, hr0) ->
                                 recv K keqb r k (outs h) = sumv k (adds_all hr0)).
        { intros h Hwh Hb. pose proof (delta_conservation_general K keqb keqb_ok mono n temps h r k Hwh Hr Et) as Hd.
          destruct (before_last_col_split r h ts hr0 Hb) as [_ [_ Eh]]. rewrite Eh, sumv_app in Hd. lia. }
        unfold pend in I3. destruct (l_hM K s0) as [q|] eqn:Em.
        * destruct (l_col K s0 q) as [| | | |d tq|d tq| | ] eqn:Eq;
            try (destruct I3 as [_ [_ [_ Eo]]]; rewrite Eo; apply Hgen; auto).
          -- destruct I3 as [adds [h0 [El [Fa [_ [_ [_ [_ Eo]]]]]]]]. rewrite Eo. apply Hgen.
             ++ rewrite El in I2. unfold ProofsStorage.hist_wf in *. apply Forall_app in I2. destruct I2 as [_ I2]. inversion I2; auto.
             ++ assert (q <> r).
                { intros C. subst q. unfold Lts.accept in H'. destruct (negb (Nat.ltb t T)); [discriminate|].
                  destruct (negb (Nat.ltb r n && Nat.eqb (l_own K s0 r) t)); [discriminate|]. rewrite Eq in H'. discriminate. }
                rewrite El in E1. clear - E1 Fa H0. induction adds as [|a adds IH]; cbn in E1.
                ** replace (Nat.eqb q r) with false in E1 by (symmetry; apply Nat.eqb_neq; auto). exact E1.
                ** inversion Fa; subst. destruct a; [apply IH; auto|contradiction].
          -- destruct I3 as [adds [h0 [El [Fa [_ [_ [_ [_ Eo]]]]]]]]. rewrite Eo. apply Hgen.
             ++ rewrite El in I2. unfold ProofsStorage.hist_wf in *. apply Forall_app in I2. destruct I2 as [_ I2]. inversion I2; auto.
             ++ assert (q <> r).
                { intros C. subst q. unfold Lts.accept in H'. destruct (negb (Nat.ltb t T)); [discriminate|].
                  destruct (negb (Nat.ltb r n && Nat.eqb (l_own K s0 r) t)); [discriminate|]. rewrite Eq in H'. discriminate. }
                rewrite El in E1. clear - E1 Fa H0. induction adds as [|a adds IH]; cbn in E1.
                ** replace (Nat.eqb q r) with false in E1 by (symmetry; apply Nat.eqb_neq; auto). exact E1.
                ** inversion Fa; subst. destruct a; [apply IH; auto|contradiction].
        * destruct I3 as [_ [_ [_ Eo]]]. rewrite Eo. apply Hgen; auto.
      + (* cumulative *)
        rewrite Hpv. apply cumulative_point_is_running_total; auto.
    - (* the bracket *)
      destruct (before_call_suffix r tr) as [a Ea'].
      pose proof (call_invariant tr s0 E r) as Hci.
      assert (Hpost : exists y, hr0 = y ++ lin (before_call r tr)).
      { unfold Lts.accept in H'. destruct (negb (Nat.ltb t T)); [discriminate|].
        destruct (negb (Nat.ltb r n && Nat.eqb (l_own K s0 r) t)); [discriminate|].
        destruct (l_col K s0 r); try discriminate; destruct Hci as [ts' [h' [y [Eb Ey]]]]; rewrite E1 in Eb; inversion Eb; subst; eauto. }
      destruct Hpost as [y Ey].
      assert (Hbc : exists sb, Lts.lrun K keqb mono n temps T true (before_call r tr) = Some sb).
      { rewrite Ea' in E. eapply lrun_suffix; eauto. }
      destruct Hbc as [sb Hsb].
      assert (Hnn_all : nonneg K (adds_all (lin tr))).
      { intros z Hz. apply Hn. pose proof (ghost_invariant K keqb keqb_ok mono n temps T true tr s0 E) as [_ _ _ G4 _]. auto. }
      assert (Hnn_bc : nonneg K (called (before_call r tr))).
      { intros z Hz. apply Hn. rewrite Ea', called_app. apply in_or_app. right; auto. }
      pose proof (returned_done_called K keqb keqb_ok mono n temps T true (before_call r tr) sb k Hsb Hnn_bc) as [B1 _].
      pose proof (returned_done_called K keqb keqb_ok mono n temps T true tr s0 k E Hn) as [_ B2].
      assert (Hy : 0 <= sumv k (adds_all y)).
      { apply (sumv_nonneg K keqb keqb_ok temps n). intros z Hz. apply Hnn_all. rewrite Ex, adds_all_app. apply in_or_app. right. cbn.
        rewrite Ey, adds_all_app. apply in_or_app. left; auto. }
      assert (Hx : 0 <= sumv k (adds_all x)).
      { apply (sumv_nonneg K keqb keqb_ok temps n). intros z Hz. apply Hnn_all. rewrite Ex, adds_all_app. apply in_or_app. left; auto. }
      split.
      + rewrite Ey, adds_all_app, sumv_app. lia.
      + rewrite Ex, adds_all_app, sumv_app in B2. cbn [ProofsStorage.adds_all] in B2. lia.
  Qed.

  (* intervals: the MetricData given to a delta reader starts where the previous one computed for it ended (SDK start if
     none) and ends at the collection time; a cumulative one starts at SDK start *)
  Theorem strict_intervals : forall tr t r md' s,
      lrun ((t, EColRet r (Some md')) :: tr) = Some s ->
      exists ts hr0,
        before_last_col K r (lin tr) = Some (ts, hr0) /\ md_end md' = ts /\
        md_start md' = (if is_delta (temps r) then last_end K r (outs hr0) else sdk_start).
  Proof.
    intros tr t r md' s H.
    destruct (strict_colret_output K keqb keqb_ok mono n temps T tr t r (Some md') s H) as [ts [hr0 [E1 [Hw0 [Hr Heq]]]]].
    exists ts, hr0. split; auto. destruct (out_at hr0 r ts) as [md|] eqn:Eo; cbn in Heq; [|contradiction].
    destruct Heq as [_ [Hs [He _]]]. destruct (temps r) eqn:Et; cbn [is_delta].
    - destruct (delta_intervals_abut K keqb keqb_ok mono n temps hr0 r ts md Hw0 Hr Et Eo) as [A B]. split; congruence.
    - destruct (cumulative_starts_at_sdk_start K keqb keqb_ok mono n temps hr0 r ts md Hw0 Hr Et Eo) as [A [B _]]. split; congruence.
  Qed.
End Bracket.
