(* C06 proofs, part 2: one SyncMetricStorage + TemporalMetricStorage over every history of its atomic operations.
   Histories are written newest operation first ([hr]); the state after a history is [state hr].
   [Inv] ties the state to the history; [collect_char] says what a Collect returns in any reachable state. *)
From V Require Import C06.Model C06.ProofsTable.
From Coq Require Import Lia ZifyBool ZifyNat.
Local Open Scope Z_scope.

Local Arguments s_cur {K}.
Local Arguments s_unrep {K}.
Local Arguments s_last {K}.

Section Storage.
  Variable K : Type.
  Variable keqb : K -> K -> bool.
  Hypothesis keqb_ok : forall a b, keqb a b = true <-> a = b.
  Variable mono : bool.
  Variable n : nat.
  Variable temps : nat -> temporality.

  Notation sop := (sop K).
  Notation stor := (stor K).
  Notation hsum := (hsum K keqb).
  Notation twf := (twf K keqb).
  Notation collect := (collect K keqb).

  Definition av (v : Z) : Z := agg_value mono v.

  (* ---------------------------------------------------------------- what a history says, declaratively *)
  (* every measurement, newest first *)
  Fixpoint adds_all (hr : list sop) : list (K * Z) :=
    match hr with
    | [] => []
    | SAdd k v :: t => (k, av v) :: adds_all t
    | SCol _ _ :: t => adds_all t
    end.
  (* the measurements made after reader r's latest collection *)
  Fixpoint adds_since (r : nat) (hr : list sop) : list (K * Z) :=
    match hr with
    | [] => []
    | SAdd k v :: t => (k, av v) :: adds_since r t
    | SCol r' _ :: t => if Nat.eqb r' r then [] else adds_since r t
    end.
  (* the measurements made after anybody's latest collection *)
  Fixpoint adds_cur (hr : list sop) : list (K * Z) :=
    match hr with
    | [] => []
    | SAdd k v :: t => (k, av v) :: adds_cur t
    | SCol _ _ :: _ => []
    end.
  (* the history up to (excluding) the latest collection *)
  Fixpoint older (hr : list sop) : list sop :=
    match hr with
    | [] => []
    | SAdd _ _ :: t => older t
    | SCol _ _ :: t => t
    end.
  (* measurements after r's latest collection that have been swapped out already *)
  Fixpoint stash (r : nat) (hr : list sop) : list (K * Z) :=
    match hr with
    | [] => []
    | SAdd _ _ :: t => stash r t
    | SCol r' _ :: t => if Nat.eqb r' r then [] else adds_since r t
    end.
  (* the measurements made before r's latest collection *)
  Fixpoint reported (r : nat) (hr : list sop) : list (K * Z) :=
    match hr with
    | [] => []
    | SAdd _ _ :: t => reported r t
    | SCol r' _ :: t => if Nat.eqb r' r then adds_all t else reported r t
    end.

  Definition slow : bool := negb (Nat.eqb n 1 && is_delta (temps 0)).

  (* does a collection by r after history hr hand a MetricData to the callback *)
  Definition present (r : nat) (hr : list sop) : bool :=
    if slow then negb (is_nil (adds_all hr)) else negb (is_nil (adds_since r hr)).
  (* the time of r's latest collection that did *)
  Fixpoint prev_ts (r : nat) (hr : list sop) : Z :=
    match hr with
    | [] => 0
    | SAdd _ _ :: t => prev_ts r t
    | SCol r' ts :: t => if Nat.eqb r' r then (if present r t then ts else prev_ts r t) else prev_ts r t
    end.

  Definition hist_wf (hr : list sop) : Prop :=
    Forall (fun o => match o with SCol r _ => (r < n)%nat | SAdd _ _ => True end) hr.

  Definition state (hr : list sop) : stor := srun K keqb mono n temps (stor0 K) (rev hr).

  (* ---------------------------------------------------------------- list facts *)
  Lemma adds_all_split : forall hr, adds_all hr = adds_cur hr ++ adds_all (older hr).
  Proof. induction hr as [|[k v|r ts] t IH]; cbn; auto. f_equal; exact IH. Qed.

  Lemma adds_since_split : forall r hr, adds_since r hr = adds_cur hr ++ stash r hr.
  Proof.
    induction hr as [|[k v|r' ts] t IH]; cbn; auto.
    all: try (f_equal; exact IH). all: try (destruct (Nat.eqb r' r); reflexivity).
  Qed.

  Lemma adds_all_reported : forall r hr, adds_all hr = adds_since r hr ++ reported r hr.
  Proof.
    induction hr as [|[k v|r' ts] t IH]; cbn; auto.
    all: try (f_equal; exact IH). all: try (destruct (Nat.eqb r' r); auto).
  Qed.

  Lemma adds_since_nil : forall r hr, adds_all hr = [] -> adds_since r hr = [].
  Proof. intros r hr H. rewrite (adds_all_reported r) in H. apply app_eq_nil in H. tauto. Qed.

  Lemma stash_nil : forall r hr, adds_all (older hr) = [] -> stash r hr = [].
  Proof.
    induction hr as [|[k v|r' ts] t IH]; cbn; auto. intros H. destruct (Nat.eqb r' r); auto.
    apply adds_since_nil, H.
  Qed.

  Lemma adds_cur_since0 : forall hr, n = 1%nat -> hist_wf hr -> adds_cur hr = adds_since 0 hr.
  Proof.
    induction hr as [|[k v|r ts] t IH]; intros Hn Hw; cbn; auto.
    - inversion Hw; subst. f_equal. auto.
    - inversion Hw; subst. assert (r = 0)%nat by lia. subst. reflexivity.
  Qed.

  (* ---------------------------------------------------------------- the invariant *)
  Definition last_ts (x : option (table K * Z)) : Z := match x with Some (_, t) => t | None => 0 end.
  Definition last_tab (x : option (table K * Z)) : table K := match x with Some (m, _) => m | None => [] end.

  Record Inv (hr : list sop) (st : stor) : Prop := mkInv {
    I_cur_wf : twf (s_cur st);
    I_cur : forall k, hsum k (s_cur st) = hsum k (adds_cur hr);
    I_unrep : slow = true -> forall r, (r < n)%nat ->
              match s_unrep st r with
              | None => adds_all (older hr) = []
              | Some l => adds_all (older hr) <> [] /\ forall k, hsum k (concat l) = hsum k (stash r hr)
              end;
    I_ts : forall r, (r < n)%nat -> last_ts (s_last st r) = prev_ts r hr;
    I_tab : slow = true -> forall r, (r < n)%nat -> is_delta (temps r) = false ->
            forall k, hsum k (last_tab (s_last st r)) = hsum k (reported r hr)
  }.

  Lemma Inv_init : Inv [] (stor0 K).
  Proof. constructor; cbn; auto. Qed.

  Lemma cur_nil_iff : forall hr st, Inv hr st -> (is_nil (s_cur st) = true <-> adds_cur hr = []).
  Proof.
    intros hr st I. rewrite is_nil_spec. split; intros H.
    - apply (hsum_nil_all K keqb keqb_ok). intros k. rewrite <- (I_cur _ _ I), H. reflexivity.
    - apply (hsum_nil_all K keqb keqb_ok). intros k. rewrite (I_cur _ _ I), H. reflexivity.
  Qed.

  Lemma Inv_add : forall hr st k v, Inv hr st -> Inv (SAdd k v :: hr) (record K keqb mono st k v).
  Proof.
    intros hr st k v I. destruct I as [I1 I2 I3 I4 I5]. constructor; cbn [record s_cur s_unrep s_last]; auto.
    - apply twf_tadd; auto.
    - intros k'. rewrite hsum_tadd by auto. cbn. rewrite I2. fold (av v). apply oplus_comm.
  Qed.

  (* what a collection must return, read off the history: None, or (temporality, start, end, the measurements it sums) *)
  Definition exp_adds (r : nat) (hr : list sop) : list (K * Z) :=
    if is_delta (temps r) then adds_since r hr else adds_all hr.
  Definition exp_start (r : nat) (hr : list sop) : Z := if is_delta (temps r) then prev_ts r hr else 0.

  Definition out_ok (r : nat) (ts : Z) (hr : list sop) (o : option (@mdata K)) : Prop :=
    if present r hr then
      exists md, o = Some md /\ md_temp md = temps r /\ md_start md = exp_start r hr /\ md_end md = ts /\
                 twf (md_points md) /\ forall k, hsum k (md_points md) = hsum k (exp_adds r hr)
    else o = None.

  Lemma not_nil_true : forall (A : Type) (l : list A), negb (is_nil l) = true <-> l <> [].
  Proof. intros A [|x l]; cbn; split; intros H; try discriminate; try congruence; auto. Qed.
  Lemma not_nil_false : forall (A : Type) (l : list A), negb (is_nil l) = false <-> l = [].
  Proof. intros A [|x l]; cbn; split; intros H; try discriminate; auto. Qed.

  (* ---------------------------------------------------------------- the fast path *)
  Lemma collect_fast : forall hr st r ts,
      slow = false -> hist_wf hr -> (r < n)%nat -> Inv hr st ->
      Inv (SCol r ts :: hr) (fst (collect n (temps r) st r ts)) /\ out_ok r ts hr (snd (collect n (temps r) st r ts)).
  Proof.
    intros hr st r ts Hs Hw Hr I. unfold slow in Hs. apply negb_false_iff in Hs. apply andb_prop in Hs as [Hn Hd].
    apply Nat.eqb_eq in Hn. assert (r = 0)%nat by lia. subst r.
    pose proof (adds_cur_since0 hr Hn Hw) as Hcs.
    unfold Model.collect. rewrite Hn, Hd. cbn [Nat.eqb andb].
    unfold out_ok, present, exp_start, exp_adds, slow. rewrite Hn, Hd. cbn [Nat.eqb andb negb].
    destruct (is_nil (s_cur st)) eqn:E.
    - (* nothing recorded since the last collection: no MetricData, nothing remembered *)
      apply (cur_nil_iff _ _ I) in E. rewrite <- Hcs, E. cbn [is_nil negb fst snd]. split; auto.
      destruct I as [I1 I2 I3 I4 I5]. constructor; cbn [s_cur s_unrep s_last]; cbn; auto.
      + unfold slow. rewrite Hn, Hd. discriminate.
      + intros r Hr'. assert (r = 0)%nat by lia. subst r. cbn. unfold present, slow. rewrite Hn, Hd. cbn [Nat.eqb andb negb].
        rewrite <- Hcs, E. cbn. apply I4; lia.
      + unfold slow. rewrite Hn, Hd. discriminate.
    - assert (Hne : adds_cur hr <> []) by (intros C; apply (cur_nil_iff _ _ I) in C; congruence).
      rewrite <- Hcs. apply not_nil_true in Hne. rewrite Hne. cbn [fst snd]. split.
      + destruct I as [I1 I2 I3 I4 I5]. constructor; cbn [s_cur s_unrep s_last]; cbn; auto.
        * unfold slow. rewrite Hn, Hd. discriminate.
        * intros r Hr'. assert (r = 0)%nat by lia. subst r. unfold upd. cbn. unfold present, slow. rewrite Hn, Hd. cbn [Nat.eqb andb negb].
          rewrite <- Hcs, Hne. reflexivity.
        * unfold slow. rewrite Hn, Hd. discriminate.
      + eexists; split; [reflexivity|]. cbn. destruct I as [I1 I2 I3 I4 I5]. repeat split; auto.
        * destruct (temps 0); [reflexivity | discriminate].
        * specialize (I4 0%nat Hr). unfold last_ts in I4. rewrite <- I4. destruct (s_last st 0) as [[m t]|]; reflexivity.
  Qed.

  (* ---------------------------------------------------------------- the general path *)
  Definition pushed (st : stor) : nat -> option (list (table K)) :=
    if is_nil (s_cur st) then s_unrep st
    else fun q => if Nat.ltb q n
                  then Some (match s_unrep st q with Some l => l | None => [] end ++ [s_cur st])
                  else s_unrep st q.

  Lemma pushed_char : forall hr st q, slow = true -> Inv hr st -> (q < n)%nat ->
      match pushed st q with
      | None => adds_all hr = []
      | Some l => adds_all hr <> [] /\ forall k, hsum k (concat l) = hsum k (adds_since q hr)
      end.
  Proof.
    intros hr st q Hs I Hq. pose proof (I_unrep _ _ I Hs q Hq) as Hu.
    unfold pushed. destruct (is_nil (s_cur st)) eqn:E.
    - apply (cur_nil_iff _ _ I) in E. rewrite adds_all_split, (adds_since_split q), E. cbn. exact Hu.
    - assert (Hne : adds_cur hr <> []) by (intros C; apply (cur_nil_iff _ _ I) in C; congruence).
      apply Nat.ltb_lt in Hq. rewrite Hq. split.
      + rewrite adds_all_split. intros C. apply app_eq_nil in C. tauto.
      + intros k. rewrite concat_app, hsum_app. cbn [concat]. rewrite app_nil_r, (I_cur _ _ I).
        rewrite (adds_since_split q), hsum_app. rewrite oplus_comm. f_equal.
        destruct (s_unrep st q) as [l|].
        * apply Hu.
        * rewrite (stash_nil q hr Hu). reflexivity.
  Qed.

  Lemma collect_slow : forall hr st r ts,
      slow = true -> (r < n)%nat -> Inv hr st ->
      Inv (SCol r ts :: hr) (fst (collect n (temps r) st r ts)) /\ out_ok r ts hr (snd (collect n (temps r) st r ts)).
  Proof.
    intros hr st r ts Hs Hr I.
    assert (Hpath : (Nat.eqb n 1 && is_delta (temps r))%bool = false).
    { unfold slow in Hs. apply negb_true_iff in Hs. destruct (Nat.eqb n 1) eqn:E; auto.
      apply Nat.eqb_eq in E. assert (r = 0)%nat by lia. subst r. exact Hs. }
    unfold Model.collect. rewrite Hpath. fold (pushed st).
    pose proof (pushed_char hr st r Hs I Hr) as Hp.
    unfold out_ok, present. rewrite Hs.
    destruct (pushed st r) as [lst|] eqn:Ep.
    - destruct Hp as [Hne Hsum]. apply not_nil_true in Hne. rewrite Hne.
      set (merged := fold_left (tmerge K keqb) lst []).
      assert (Hmw : twf merged) by (apply twf_fold_tmerge; cbn; auto).
      assert (Hms : forall k, hsum k merged = hsum k (adds_since r hr)).
      { intros k. unfold merged. rewrite hsum_fold_tmerge by auto. cbn. apply Hsum. }
      (* the table that is reported and remembered *)
      set (final := match s_last st r with
                    | Some (lm, _) => if is_delta (temps r) then merged else tmerge K keqb merged lm
                    | None => merged end).
      assert (Hfw : twf final).
      { unfold final. destruct (s_last st r) as [[lm lts]|]; auto. destruct (is_delta (temps r)); auto. apply twf_tmerge; auto. }
      assert (Hfs : forall k, hsum k final = hsum k (exp_adds r hr)).
      { intros k. unfold final, exp_adds. destruct (is_delta (temps r)) eqn:Ed.
        - destruct (s_last st r) as [[lm lts]|]; apply Hms.
        - pose proof (I_tab _ _ I Hs r Hr Ed k) as Ht. rewrite (adds_all_reported r), hsum_app, <- Ht.
          destruct (s_last st r) as [[lm lts]|]; cbn [last_tab].
          + rewrite hsum_tmerge by auto. rewrite Hms. reflexivity.
          + cbn. rewrite oplus_none_r. apply Hms. }
      assert (Hstart : (match s_last st r with
                        | Some (_, lts) => if is_delta (temps r) then lts else sdk_start
                        | None => sdk_start end) = exp_start r hr).
      { unfold exp_start. pose proof (I_ts _ _ I r Hr) as Ht. unfold last_ts in Ht.
        destruct (is_delta (temps r)) eqn:Ed.
        - rewrite <- Ht. destruct (s_last st r) as [[lm lts]|]; reflexivity.
        - destruct (s_last st r) as [[lm lts]|]; reflexivity. }
      assert (Hst : fst (match s_last st r with
             | Some (lm, lts) =>
                 (mkSt K [] (upd (pushed st) r (Some [])) (upd (s_last st) r (Some (if is_delta (temps r) then merged else tmerge K keqb merged lm, ts))),
                  Some (mkMD (temps r) (if is_delta (temps r) then lts else sdk_start) ts (if is_delta (temps r) then merged else tmerge K keqb merged lm)))
             | None => (mkSt K [] (upd (pushed st) r (Some [])) (upd (s_last st) r (Some (merged, ts))), Some (mkMD (temps r) sdk_start ts merged))
             end) = mkSt K [] (upd (pushed st) r (Some [])) (upd (s_last st) r (Some (final, ts)))).
      { unfold final. destruct (s_last st r) as [[lm lts]|]; reflexivity. }
      assert (Hout : snd (match s_last st r with
             | Some (lm, lts) =>
                 (mkSt K [] (upd (pushed st) r (Some [])) (upd (s_last st) r (Some (if is_delta (temps r) then merged else tmerge K keqb merged lm, ts))),
                  Some (mkMD (temps r) (if is_delta (temps r) then lts else sdk_start) ts (if is_delta (temps r) then merged else tmerge K keqb merged lm)))
             | None => (mkSt K [] (upd (pushed st) r (Some [])) (upd (s_last st) r (Some (merged, ts))), Some (mkMD (temps r) sdk_start ts merged))
             end) = Some (mkMD (temps r) (exp_start r hr) ts final)).
      { rewrite <- Hstart. unfold final. destruct (s_last st r) as [[lm lts]|]; reflexivity. }
      fold merged. rewrite Hst, Hout. split.
      + constructor; cbn [s_cur s_unrep s_last]; cbn [adds_cur older stash prev_ts reported]; auto.
        * cbn; auto.
        * intros _ q Hq. unfold upd. destruct (Nat.eqb q r) eqn:E.
          -- apply Nat.eqb_eq in E; subst q. rewrite Nat.eqb_refl. split; [apply not_nil_true; exact Hne | reflexivity].
          -- rewrite (Nat.eqb_sym r q), E. pose proof (pushed_char hr st q Hs I Hq) as Hq'.
             destruct (pushed st q) as [l|]; auto.
        * intros q Hq. unfold upd. destruct (Nat.eqb q r) eqn:E.
          -- apply Nat.eqb_eq in E; subst q. rewrite Nat.eqb_refl. unfold present. rewrite Hs, Hne. reflexivity.
          -- rewrite (Nat.eqb_sym r q), E. apply (I_ts _ _ I); auto.
        * intros _ q Hq Hd k. unfold upd. destruct (Nat.eqb q r) eqn:E.
          -- apply Nat.eqb_eq in E; subst q. rewrite Nat.eqb_refl. cbn [last_tab]. rewrite Hfs. unfold exp_adds. rewrite Hd. reflexivity.
          -- rewrite (Nat.eqb_sym r q), E. apply (I_tab _ _ I); auto.
      + eexists; split; [reflexivity|]. cbn. repeat split; auto.
    - apply not_nil_false in Hp. rewrite Hp. cbn [fst snd]. split; auto. apply not_nil_false in Hp.
      constructor; cbn [s_cur s_unrep s_last]; cbn [adds_cur older stash prev_ts reported]; auto.
      + cbn; auto.
      + intros _ q Hq. pose proof (pushed_char hr st q Hs I Hq) as Hq'. destruct (pushed st q) as [l|]; auto. tauto.
      + intros q Hq. rewrite (I_ts _ _ I) by auto. destruct (Nat.eqb r q); auto. unfold present. rewrite Hs, Hp. reflexivity.
      + intros _ q Hq Hd k. rewrite (I_tab _ _ I) by auto. destruct (Nat.eqb r q) eqn:E; auto.
        apply Nat.eqb_eq in E; subst q. rewrite Hp. rewrite (adds_all_reported r) in Hp. apply app_eq_nil in Hp. destruct Hp as [_ Hp]. rewrite Hp. reflexivity.
  Qed.

  Theorem collect_char : forall hr st r ts,
      hist_wf hr -> (r < n)%nat -> Inv hr st ->
      Inv (SCol r ts :: hr) (fst (collect n (temps r) st r ts)) /\ out_ok r ts hr (snd (collect n (temps r) st r ts)).
  Proof.
    intros. destruct slow eqn:E; [apply collect_slow | apply collect_fast]; auto.
  Qed.

  (* ---------------------------------------------------------------- every reachable state *)
  Lemma state_cons : forall o hr, state (o :: hr) = fst (sstep K keqb mono n temps (state hr) o).
  Proof.
    intros. unfold state. cbn [rev].
    generalize (stor0 K). induction (rev hr) as [|x l IH]; intros s; cbn; auto.
  Qed.

  Theorem Inv_reachable : forall hr, hist_wf hr -> Inv hr (state hr).
  Proof.
    induction hr as [|o t IH]; intros Hw.
    - apply Inv_init.
    - inversion Hw; subst. rewrite state_cons. destruct o as [k v|r ts]; cbn [sstep fst].
      + apply Inv_add; auto.
      + apply collect_char; auto.
  Qed.

  (* the MetricData a collection by reader r at time ts returns after history hr *)
  Definition out_at (hr : list sop) (r : nat) (ts : Z) : option (@mdata K) := snd (collect n (temps r) (state hr) r ts).

  Theorem out_at_ok : forall hr r ts, hist_wf hr -> (r < n)%nat -> out_ok r ts hr (out_at hr r ts).
  Proof. intros. apply collect_char; auto. apply Inv_reachable; auto. Qed.
End Storage.
