(* C06 proofs, part 10: conservation at lock granularity WITHOUT assuming that Collects of a storage are serialized
   ([strict] arbitrary: collectors of different readers may overlap between their two critical sections).  For every
   accepted trace, every registered reader r and every attribute set k:

       recorded  =  reported_r  +  stash_r  +  (detached maps not yet distributed)  +  live

   recorded: the measurements whose critical section has ended; reported_r: the sum of the points r's callbacks were
   computed so far (delta) / r's last cumulative table; stash_r: r's unreported list; detached: the maps collectors hold
   between the two critical sections, each counted once (it will be pushed onto every reader's stash); live: the map
   recorders add to.  No measurement is lost or duplicated by any interleaving; when no collector is between its critical
   sections, a Collect by r leaves  reported_r + live = recorded. *)
From V Require Import C06.Model C06.Lts C06.ProofsTable C06.ProofsStorage C06.ProofsReaders C06.ProofsLts C06.ProofsLtsBracket.
From Coq Require Import Lia ZifyBool ZifyNat.
Local Open Scope Z_scope.

Local Arguments s_cur {K}.
Local Arguments s_unrep {K}.
Local Arguments s_last {K}.

Section Cons.
  Variable K : Type.
  Variable keqb : K -> K -> bool.
  Hypothesis keqb_ok : forall a b, keqb a b = true <-> a = b.
  Variable mono : bool.
  Variable n : nat.
  Variable temps : nat -> temporality.
  Variable T : nat.
  Variable strict : bool.

  Notation ev := (ev K).
  Notation lstate := (lstate K).
  Notation lin := (lin K).
  Notation adds_all := (adds_all K mono).
  Notation sumv := (sumv K keqb).
  Notation pointv := (pointv K keqb).
  Notation hsum := (hsum K keqb).
  Notation twf := (twf K keqb).
  Notation accept := (accept K keqb mono n temps T strict).
  Notation lrun := (lrun K keqb mono n temps T strict).
  Notation collect := (collect K keqb).

  Definition ul (x : option (list (table K))) : list (table K) := match x with Some l => l | None => [] end.
  Definition osum (k : K) (t : table K) : Z := oz (hsum k t).
  Definition stash (k : K) (st : stor K) (q : nat) : Z := osum k (concat (ul (s_unrep st q))).
  Definition lastsum (k : K) (st : stor K) (q : nat) : Z := osum k (last_tab K (s_last st q)).
  Definition detmap (p : cphase K) : table K := match p with CDetached d _ | CLockedT d _ => d | _ => [] end.
  Definition det (k : K) (p : cphase K) : Z := osum k (detmap p).
  Definition rep (k : K) (s : lstate) (q : nat) : Z :=
    if is_delta (temps q) then recv K keqb q k (l_outs K s) else lastsum k (l_st K s) q.
  Definition fastp (tp : temporality) : bool := Nat.eqb n 1 && is_delta tp.

  Lemma osum_app : forall k a b, osum k (a ++ b) = osum k a + osum k b.
  Proof. intros. unfold osum. rewrite hsum_app, oz_oplus. reflexivity. Qed.
  Lemma osum_nil : forall k, osum k [] = 0.
  Proof. reflexivity. Qed.
  Lemma osum_tadd : forall k0 k v t, osum k0 (tadd K keqb k v t) = osum k0 t + (if keqb k0 k then v else 0).
  Proof. intros. unfold osum. rewrite hsum_tadd by auto. rewrite oz_oplus. unfold hit. destruct (keqb k0 k); reflexivity. Qed.

  (* ---------------------------------------------------------------- buildMetrics in sums, without any history *)
  Lemma collect_sums : forall tp s0 r ts k,
      (r < n)%nat -> twf (s_cur s0) -> (fastp tp = true -> forall q, s_unrep s0 q = None) ->
      let s1 := fst (collect n tp s0 r ts) in
      let o := snd (collect n tp s0 r ts) in
      (forall q, (q < n)%nat -> q <> r -> stash k s1 q = stash k s0 q + osum k (s_cur s0) /\ s_last s1 q = s_last s0 q) /\
      stash k s1 r = 0 /\
      (is_delta tp = true -> pointv o k = stash k s0 r + osum k (s_cur s0)) /\
      (is_delta tp = false -> lastsum k s1 r = lastsum k s0 r + stash k s0 r + osum k (s_cur s0)).
  Proof.
    intros tp s0 r ts k Hr Hw Hf. cbv zeta. unfold Model.collect. fold (fastp tp). destruct (fastp tp) eqn:Ef.
    - (* fast path: n = 1, so r = 0 is the only reader *)
      specialize (Hf eq_refl). unfold fastp in Ef. apply andb_prop in Ef as [En Ed]. apply Nat.eqb_eq in En.
      assert (Hst : forall q, stash k s0 q = 0) by (intros q; unfold stash; rewrite Hf; reflexivity).
      destruct (is_nil (s_cur s0)) eqn:Enil; cbn [fst snd].
      + apply is_nil_spec in Enil. split; [intros q Hq Hne; exfalso; lia|].
        split; [unfold stash; cbn [s_unrep]; rewrite Hf; reflexivity|]. split.
        * intros _. cbn [ProofsReaders.pointv]. rewrite Hst, Enil. reflexivity.
        * intros Hd. rewrite Hd in Ed. discriminate.
      + split; [intros q Hq Hne; exfalso; lia|].
        split; [unfold stash; cbn [s_unrep]; rewrite Hf; reflexivity|]. split.
        * intros _. cbn [ProofsReaders.pointv md_points]. rewrite (twf_tget_hsum K keqb keqb_ok) by auto. rewrite Hst. unfold osum. lia.
        * intros Hd. rewrite Hd in Ed. discriminate.
    - (* general path *)
      set (u1 := if is_nil (s_cur s0) then s_unrep s0
                 else fun q => if Nat.ltb q n then Some (ul (s_unrep s0 q) ++ [s_cur s0]) else s_unrep s0 q).
      assert (Hu1 : forall q, (q < n)%nat -> osum k (concat (ul (u1 q))) = stash k s0 q + osum k (s_cur s0)).
      { intros q Hq. unfold u1, stash. destruct (is_nil (s_cur s0)) eqn:Enil.
        - apply is_nil_spec in Enil. rewrite Enil. cbn. lia.
        - apply Nat.ltb_lt in Hq. rewrite Hq. cbn [ul]. rewrite concat_app, osum_app. cbn [concat]. rewrite app_nil_r. reflexivity. }
      assert (Hu1' : u1 = (if is_nil (s_cur s0) then s_unrep s0
                           else fun q => if Nat.ltb q n then Some (match s_unrep s0 q with Some l => l | None => [] end ++ [s_cur s0])
                                         else s_unrep s0 q)) by reflexivity.
      rewrite <- Hu1'. clear Hu1'.
      destruct (u1 r) as [lst|] eqn:Eu.
      + set (merged := fold_left (tmerge K keqb) lst []).
        assert (Hmw : twf merged) by (apply twf_fold_tmerge; cbn; auto).
        assert (Hms : osum k merged = stash k s0 r + osum k (s_cur s0)).
        { rewrite <- (Hu1 r Hr), Eu. unfold merged, osum. rewrite hsum_fold_tmerge by auto. reflexivity. }
        assert (Hothers : forall l q, (q < n)%nat -> q <> r ->
                   stash k (mkSt K [] (upd u1 r (Some [])) (upd (s_last s0) r l)) q = stash k s0 q + osum k (s_cur s0) /\
                   s_last (mkSt K [] (upd u1 r (Some [])) (upd (s_last s0) r l)) q = s_last s0 q).
        { intros l q Hq Hne. unfold stash. cbn [s_unrep s_last]. rewrite !upd_other by auto. split; [apply Hu1; auto | reflexivity]. }
        destruct (s_last s0 r) as [[lm lts]|] eqn:El; cbn [fst snd].
        * split; [intros q Hq Hne; apply Hothers; auto|].
          split; [unfold stash; cbn [s_unrep]; rewrite upd_same; reflexivity|]. split.
          -- intros Hd. rewrite Hd. cbn [ProofsReaders.pointv md_points]. rewrite (twf_tget_hsum K keqb keqb_ok) by auto. exact Hms.
          -- intros Hd. rewrite Hd. unfold lastsum. cbn [s_last]. rewrite upd_same, El. cbn [last_tab].
             unfold osum in *. rewrite hsum_tmerge by auto. rewrite oz_oplus. lia.
        * split; [intros q Hq Hne; apply Hothers; auto|].
          split; [unfold stash; cbn [s_unrep]; rewrite upd_same; reflexivity|]. split.
          -- intros Hd. cbn [ProofsReaders.pointv md_points]. rewrite (twf_tget_hsum K keqb keqb_ok) by auto. exact Hms.
          -- intros Hd. unfold lastsum. cbn [s_last]. rewrite upd_same, El. cbn [last_tab]. rewrite osum_nil. lia.
      + cbn [fst snd]. pose proof (Hu1 r Hr) as Hz. rewrite Eu in Hz. cbn [ul concat] in Hz. rewrite osum_nil in Hz.
        split; [intros q Hq Hne; split; [unfold stash at 1; cbn [s_unrep]; apply Hu1; auto | reflexivity]|].
        split; [unfold stash; cbn [s_unrep]; rewrite Eu; reflexivity|]. split.
        * intros _. cbn [ProofsReaders.pointv]. lia.
        * intros _. unfold lastsum. cbn [s_last]. lia.
  Qed.

  Lemma collect_fast_unrep : forall tp s0 r ts, fastp tp = true -> (forall q, s_unrep s0 q = None) ->
      forall q, s_unrep (fst (collect n tp s0 r ts)) q = None.
  Proof.
    intros tp s0 r ts Hf Hn q. unfold Model.collect. fold (fastp tp). rewrite Hf.
    destruct (is_nil (s_cur s0)); cbn [fst s_unrep]; apply Hn.
  Qed.

  (* ---------------------------------------------------------------- the invariant *)
  Record CInv (tr : list (nat * ev)) (s : lstate) : Prop := mkCInv {
    C_eq : forall r k, (r < n)%nat ->
           sumv k (adds_all (lin tr)) =
           rep k s r + stash k (l_st K s) r + fsum n (fun q => det k (l_col K s q)) + osum k (s_cur (l_st K s));
    C_wf : twf (s_cur (l_st K s)) /\ forall q, twf (detmap (l_col K s q));
    C_fast : forall r, (r < n)%nat -> fastp (temps r) = true -> forall q, s_unrep (l_st K s) q = None
  }.

  Lemma fsum_zero : forall N, fsum N (fun _ => 0) = 0.
  Proof. induction N; cbn; lia. Qed.

  Lemma CInv_init : CInv [] (linit K).
  Proof.
    constructor; cbn; auto.
    - intros r k Hr. unfold rep, stash, lastsum. cbn. rewrite fsum_zero. destruct (is_delta (temps r)); reflexivity.
  Qed.

  Lemma CInv_frame : forall tr e s s',
      CInv tr s -> lin (e :: tr) = lin tr -> l_st K s' = l_st K s -> l_outs K s' = l_outs K s ->
      (forall q, detmap (l_col K s' q) = detmap (l_col K s q)) -> CInv (e :: tr) s'.
  Proof.
    intros tr e s s' [C1 C2 C3] H1 H2 H3 H4. constructor.
    - intros r k Hr. rewrite H1, H2. unfold rep. rewrite H2, H3. rewrite (C1 r k Hr). unfold rep. do 2 f_equal.
      apply fsum_ext. intros q _. unfold det. rewrite H4. reflexivity.
    - rewrite H2. split; [apply C2|]. intros q. rewrite H4. apply C2.
    - rewrite H2. exact C3.
  Qed.

  Lemma fast_all : forall r q, (r < n)%nat -> (q < n)%nat -> fastp (temps r) = true -> fastp (temps q) = true.
  Proof.
    intros r q Hr Hq H. unfold fastp in *. apply andb_prop in H as [H1 H2]. pose proof H1 as H1'. apply Nat.eqb_eq in H1'.
    assert (r = 0 /\ q = 0)%nat as [-> ->] by lia. rewrite H1, H2. reflexivity.
  Qed.

  Theorem CInv_step : forall tr s te s', CInv tr s -> accept s te = Some s' -> CInv (te :: tr) s'.
  Proof.
    intros tr s [t e] s' I Ha. unfold Lts.accept in Ha.
    destruct (negb (Nat.ltb t T)); [discriminate|].
    destruct e as [k v| |k v|k v|r|r|r|r ts|r|r|r|r o'| ].
    - destruct (l_rec K s t); try discriminate. inversion Ha; subst s'. eapply CInv_frame; eauto.
    - destruct (l_rec K s t); try discriminate. destruct (l_hA K s); [discriminate|]. inversion Ha; subst s'. eapply CInv_frame; eauto.
    - (* AUnlock *)
      destruct (l_rec K s t) as [|k' v'|k' v'|k' v']; try discriminate.
      destruct (keqb k k' && (v =? v'))%bool; [|discriminate]. inversion Ha; subst s'. clear Ha.
      destruct I as [C1 [C2 C2'] C3]. constructor; cbn [l_st l_col l_outs Lts.lin ProofsStorage.adds_all record s_cur s_unrep s_last].
      + intros r k0 Hr. rewrite sumv_cons', (C1 r k0 Hr). unfold rep, stash, lastsum. cbn [l_st l_outs record s_cur s_unrep s_last].
        rewrite osum_tadd. unfold av. destruct (keqb k0 k); lia.
      + split; auto. apply twf_tadd; auto.
      + exact C3.
    - destruct (l_rec K s t) as [|k' v'|k' v'|k' v']; try discriminate.
      destruct (keqb k k' && (v =? v'))%bool; [|discriminate]. inversion Ha; subst s'. eapply CInv_frame; eauto.
    - destruct (negb (Nat.ltb r n)); [discriminate|]. destruct (l_col K s r) eqn:Ec; try discriminate.
      inversion Ha; subst s'. eapply CInv_frame; eauto. intros q. cbn [l_col]. unfold upd. destruct (Nat.eqb q r) eqn:E; auto.
      apply Nat.eqb_eq in E. subst q. rewrite Ec. reflexivity.
    - destruct (negb (Nat.ltb r n && Nat.eqb (l_own K s r) t)); [discriminate|].
      destruct (l_col K s r) eqn:Ec; try discriminate. destruct (l_hM K s); [discriminate|].
      inversion Ha; subst s'. eapply CInv_frame; eauto. intros q. cbn [l_col]. unfold upd. destruct (Nat.eqb q r) eqn:E; auto.
      apply Nat.eqb_eq in E. subst q. rewrite Ec. reflexivity.
    - destruct (negb (Nat.ltb r n && Nat.eqb (l_own K s r) t)); [discriminate|]. destruct (l_hA K s); [discriminate|].
      destruct (l_col K s r) eqn:Ec; try discriminate; [destruct strict; [discriminate|]|];
        inversion Ha; subst s'; (eapply CInv_frame; eauto); intros q; cbn [l_col]; unfold upd;
        (destruct (Nat.eqb q r) eqn:E; auto); apply Nat.eqb_eq in E; subst q; rewrite Ec; reflexivity.
    - (* CUnlockA: detach *)
      destruct (negb (Nat.ltb r n && Nat.eqb (l_own K s r) t)) eqn:Eg; [discriminate|]. apply guard_split in Eg.
      destruct (l_col K s r) eqn:Ec; try discriminate. inversion Ha; subst s'. clear Ha.
      destruct I as [C1 [C2 C2'] C3]. constructor; cbn [l_st l_col l_outs Lts.lin ProofsStorage.adds_all s_cur s_unrep s_last].
      + intros q k Hq. rewrite (C1 q k Hq). unfold rep, stash, lastsum. cbn [l_st l_outs s_cur s_unrep s_last].
        rewrite (fsum_upd _ (det k)) by auto. rewrite Ec. change (det k CLockedA) with 0. change (det k (CDetached (s_cur (l_st K s)) ts)) with (osum k (s_cur (l_st K s))). rewrite osum_nil. lia.
      + split; [exact I|]. intros q. unfold upd. destruct (Nat.eqb q r); auto.
      + exact C3.
    - destruct (negb (Nat.ltb r n && Nat.eqb (l_own K s r) t)); [discriminate|]. destruct (l_hT K s); [discriminate|].
      destruct (l_col K s r) eqn:Ec; try discriminate.
      inversion Ha; subst s'. eapply CInv_frame; eauto. intros q. cbn [l_col]. unfold upd. destruct (Nat.eqb q r) eqn:E; auto.
      apply Nat.eqb_eq in E. subst q. rewrite Ec. reflexivity.
    - (* CUnlockT: buildMetrics on the detached map *)
      destruct (negb (Nat.ltb r n && Nat.eqb (l_own K s r) t)) eqn:Eg; [discriminate|]. apply guard_split in Eg.
      destruct (l_col K s r) as [| | | |d ts|d ts| | ] eqn:Ec; try discriminate.
      destruct I as [C1 [C2 C2'] C3].
      set (s0 := mkSt K d (s_unrep (l_st K s)) (s_last (l_st K s))).
      assert (Hwd : twf (s_cur s0)) by (specialize (C2' r); rewrite Ec in C2'; exact C2').
      assert (Hf0 : fastp (temps r) = true -> forall q, s_unrep s0 q = None) by (intros Hf; apply (C3 r Eg Hf)).
      unfold build in Ha. fold s0 in Ha. destruct (collect n (temps r) s0 r ts) as [st' o] eqn:Eco. inversion Ha; subst s'. clear Ha.
      constructor; cbn [l_st l_col l_outs Lts.lin s_cur s_unrep s_last].
      + intros q k Hq. pose proof (collect_sums (temps r) s0 r ts k Eg Hwd Hf0) as Hcs. cbv zeta in Hcs. rewrite Eco in Hcs.
        cbn [fst snd] in Hcs. destruct Hcs as [Hoth [Hsr [Hdel Hcum]]].
        rewrite (C1 q k Hq). rewrite (fsum_upd _ (det k)) by auto. rewrite Ec. change (det k (CBuilt o)) with 0. change (det k (CLockedT d ts)) with (osum k d).
        unfold rep. cbn [l_st l_outs]. unfold stash at 2, lastsum at 2. cbn [s_unrep s_last]. fold (stash k st' q). fold (lastsum k st' q).
        destruct (Nat.eq_dec q r) as [E|E].
        * subst q. rewrite Hsr. destruct (is_delta (temps r)) eqn:Ed.
          -- rewrite (recv_snoc K keqb keqb_ok temps), Nat.eqb_refl. rewrite (Hdel eq_refl). unfold stash, s0. cbn [s_unrep s_cur]. lia.
          -- rewrite (Hcum eq_refl). unfold stash, lastsum, s0. cbn [s_unrep s_last s_cur]. lia.
        * destruct (Hoth q Hq E) as [Hs Hl]. rewrite Hs. unfold stash at 1, s0. cbn [s_unrep s_cur].
          destruct (is_delta (temps q)) eqn:Ed.
          -- rewrite (recv_snoc K keqb keqb_ok temps). replace (Nat.eqb r q) with false by (symmetry; apply Nat.eqb_neq; auto). unfold stash. cbn [s_unrep s_last s_cur]. lia.
          -- unfold lastsum. rewrite Hl. unfold s0, stash. cbn [s_unrep s_last s_cur]. lia.
      + split; [exact C2|]. intros q. unfold upd. destruct (Nat.eqb q r); cbn; auto.
      + intros q Hq Hf qq. assert (Hfr : fastp (temps r) = true) by (apply (fast_all q r); auto).
        pose proof (collect_fast_unrep (temps r) s0 r ts Hfr (Hf0 Hfr) qq) as Hu. rewrite Eco in Hu. exact Hu.
    - destruct (negb (Nat.ltb r n && Nat.eqb (l_own K s r) t)); [discriminate|].
      destruct (l_col K s r) eqn:Ec; try discriminate. destruct (l_hM K s) as [r'|]; [|discriminate].
      destruct (Nat.eqb r r'); [|discriminate].
      inversion Ha; subst s'. eapply CInv_frame; eauto. intros q. cbn [l_col]. unfold upd. destruct (Nat.eqb q r) eqn:E; auto.
      apply Nat.eqb_eq in E. subst q. rewrite Ec. reflexivity.
    - destruct (negb (Nat.ltb r n && Nat.eqb (l_own K s r) t)); [discriminate|].
      destruct (l_col K s r) eqn:Ec; try discriminate; [destruct strict; [discriminate|]|];
        (destruct (mdo_eqb K keqb o o'); [|discriminate]); inversion Ha; subst s'; (eapply CInv_frame; eauto);
        intros q; cbn [set_col l_col]; unfold upd; (destruct (Nat.eqb q r) eqn:E; auto);
        apply Nat.eqb_eq in E; subst q; rewrite Ec; reflexivity.
    - destruct (l_rec K s t); try discriminate; destruct (between_sections K n s t); try discriminate;
        inversion Ha; subst s'; eapply CInv_frame; eauto.
  Qed.

  (* no interleaving loses or duplicates a measurement *)
  Theorem lts_conservation : forall tr s, lrun tr = Some s -> CInv tr s.
  Proof.
    induction tr as [|te tr IH]; intros s H; cbn [Lts.lrun] in H.
    - inversion H; subst. apply CInv_init.
    - destruct (Lts.lrun K keqb mono n temps T strict tr) as [s0|] eqn:E; [|discriminate]. eapply CInv_step; eauto.
  Qed.

  (* when no collector is between its two critical sections, nothing is in flight: reported + stash + live = recorded;
     in particular right after reader r's own buildMetrics (its stash is empty): reported_r + live = recorded *)
  Definition no_detached (s : lstate) : Prop := forall q, detmap (l_col K s q) = [].

  Theorem quiescent_conservation : forall tr s r k, lrun tr = Some s -> (r < n)%nat -> no_detached s ->
      sumv k (adds_all (lin tr)) = rep k s r + stash k (l_st K s) r + osum k (s_cur (l_st K s)).
  Proof.
    intros tr s r k H Hr Hq. destruct (lts_conservation tr s H) as [C1 _ _]. rewrite (C1 r k Hr).
    rewrite (fsum_ext n _ (fun _ => 0)); [rewrite fsum_zero; lia|]. intros q _. unfold det. rewrite Hq. reflexivity.
  Qed.

  Theorem quiescent_collect_exact : forall tr t r s k, lrun ((t, ECUnlockT r) :: tr) = Some s -> no_detached s ->
      rep k s r + osum k (s_cur (l_st K s)) = sumv k (adds_all (lin tr)).
  Proof.
    intros tr t r s k H Hq. pose proof H as H'. cbn [Lts.lrun] in H'.
    destruct (Lts.lrun K keqb mono n temps T strict tr) as [s0|] eqn:E; [|discriminate]. unfold Lts.accept in H'.
    destruct (negb (Nat.ltb t T)); [discriminate|].
    destruct (negb (Nat.ltb r n && Nat.eqb (l_own K s0 r) t)) eqn:Eg; [discriminate|]. apply guard_split in Eg.
    pose proof (quiescent_conservation _ s r k H Eg Hq) as Hc. cbn [Lts.lin] in Hc. rewrite Hc.
    assert (stash k (l_st K s) r = 0); [|lia].
    destruct (l_col K s0 r) as [| | | |d ts|d ts| | ] eqn:Ec; try discriminate.
    pose proof (lts_conservation tr s0 E) as [_ [_ C2'] C3].
    set (s00 := mkSt K d (s_unrep (l_st K s0)) (s_last (l_st K s0))).
    assert (Hwd : twf (s_cur s00)) by (specialize (C2' r); rewrite Ec in C2'; exact C2').
    assert (Hf0 : fastp (temps r) = true -> forall q, s_unrep s00 q = None) by (intros Hf; apply (C3 r Eg Hf)).
    unfold build in H'. fold s00 in H'. destruct (collect n (temps r) s00 r ts) as [st' o] eqn:Eco. inversion H'; subst s.
    pose proof (collect_sums (temps r) s00 r ts k Eg Hwd Hf0) as Hcs. cbv zeta in Hcs. rewrite Eco in Hcs. cbn [fst snd] in Hcs.
    destruct Hcs as [_ [Hsr _]]. cbn [l_st]. unfold stash in *. cbn [s_unrep] in *. exact Hsr.
  Qed.
End Cons.
