(* C06 proofs, part 6: model_meets_spec - for every history in which no instrument is created twice and exactly one
   view (or the default view) applies to every instrument, the SPEC accepts everything the model's readers are given. *)
From V Require Import C06.Model C06.Spec C06.Good C06.ProofsTable C06.ProofsStorage C06.ProofsReaders C06.ProofsWorld C06.ProofsSpec.
From Coq Require Import Lia ZifyBool ZifyNat.
Local Open Scope Z_scope.

Definition strip (x : Z * nat * ikind * bytes) : hinfo := let '(_, m, k, name) := x in (m, k, name).
Definition keyof (x : hinfo) : nat * bytes := (fst (fst x), snd x).

Lemma news_app : forall a b, news (a ++ b) = news a ++ news b.
Proof. induction a as [|[t [m k name|h v at_|r]] a IH]; intros; cbn; auto. f_equal; auto. Qed.
Lemma measurements_app : forall N a b, measurements N (a ++ b) = measurements N a ++ measurements N b.
Proof.
  induction a as [|[t [m k name|h v at_|r]] a IH]; intros; cbn; auto.
  destruct (nth_error N h) as [[[[t0 m] k] name]|]; cbn; auto. f_equal; auto.
Qed.
Lemma cols_app : forall a b, cols (a ++ b) = cols a ++ cols b.
Proof. induction a as [|[t [m k name|h v at_|r]] a IH]; intros; cbn; auto. f_equal; auto. Qed.

Lemma newsr_app : forall a b, newsr (a ++ b) = newsr b ++ newsr a.
Proof.
  induction a as [|[t [m k name|h v at_|r]] a IH]; intros; cbn; auto.
  - rewrite app_nil_r; reflexivity.
  - rewrite IH, app_assoc. reflexivity.
Qed.
Lemma news_strip : forall hr, map strip (news (rev hr)) = newsr hr.
Proof.
  induction hr as [|[t o] hr IH]; cbn; auto. rewrite news_app, map_app, IH.
  destruct o; cbn; auto using app_nil_r.
Qed.

Lemma news_in : forall l t m k name, In (t, m, k, name) (news l) -> In (t, ONew m k name) l.
Proof.
  induction l as [|[t0 [m0 k0 name0|h v a|r]] l IH]; intros t m k name H; cbn in *; auto.
  destruct H as [H|H]; [left; inversion H; reflexivity | right; auto].
Qed.

Lemma timed_from_ge : forall l t, Forall (fun x : Z * op => t <= fst x) (timed_from t l).
Proof.
  induction l as [|o l IH]; intros t; cbn; constructor; cbn; try lia.
  specialize (IH (t + 1)). rewrite Forall_forall in *. intros x Hx. specialize (IH x Hx). lia.
Qed.

Lemma nth_error_map_inv : forall A B (f : A -> B) l i y, nth_error (map f l) i = Some y -> exists x, nth_error l i = Some x /\ f x = y.
Proof.
  induction l as [|z l IH]; intros [|i] y H; cbn in *; try discriminate.
  - inversion H. eauto.
  - apply IH; auto.
Qed.

Lemma negb_existsb_false : forall A (f : A -> bool) l, negb (existsb f l) = true -> forall x, In x l -> f x = false.
Proof.
  intros A f l H x Hx. apply negb_true_iff in H. destruct (f x) eqn:E; auto.
  assert (existsb f l = true) by (apply existsb_exists; eauto). congruence.
Qed.

Lemma check_true : forall b s, b = true -> check b s = [].
Proof. intros; subst; reflexivity. Qed.

Lemma dedup_nil : forall l, l = [] -> dedup l = [].
Proof. intros; subst; reflexivity. Qed.

Section Meets.
  Variable c : config.
  Notation n := (nreaders c).
  Notation temps := (temp_of c).
  Notation sname := (sname c).
  Notation gobs := (gobs c).
  Notation hist_ok := (hist_ok c).
  Notation okstep := (okstep c).
  Notation out_at := (out_at akey akey_eqb).

  (* ---------------------------------------------------------------- running forward *)
  Fixpoint gouts (hr : list (Z * op)) (t : Z) (l : list op) : list (nat * list sdata) :=
    match l with
    | [] => []
    | o :: l' =>
        match o with
        | OCol r => (r, gobs hr r t) :: gouts ((t, o) :: hr) (t + 1) l'
        | _ => gouts ((t, o) :: hr) (t + 1) l'
        end
    end.

  Fixpoint fwd_ok (hr : list (Z * op)) (t : Z) (l : list op) : Prop :=
    match l with
    | [] => True
    | o :: l' => okstep hr o /\ okval hr o /\ fwd_ok ((t, o) :: hr) (t + 1) l'
    end.

  Lemma run_gouts : forall l hr w t, GW c hr w -> hist_ok hr -> fwd_ok hr t l -> run_from c w t l = gouts hr t l.
  Proof.
    induction l as [|o l IH]; intros hr w t G Hok Hf; cbn [run_from gouts]; auto.
    destruct Hf as [H1 [H2 H3]].
    pose proof (GW_step c hr w t o G (newsr_meters_ok c hr Hok) H1) as [G' Hout].
    destruct (step c w t o) as [w' out] eqn:E. cbn [fst snd] in *. subst out.
    assert (Hok' : hist_ok ((t, o) :: hr)) by (cbn; auto).
    destruct o; rewrite (IH _ _ _ G' Hok' H3); reflexivity.
  Qed.

  Lemma fwd_ok_hist : forall l hr t, hist_ok hr -> fwd_ok hr t l -> hist_ok (rev (timed_from t l) ++ hr).
  Proof.
    induction l as [|o l IH]; intros hr t Hok Hf; cbn; auto. destruct Hf as [H1 [H2 H3]].
    rewrite <- app_assoc. cbn. apply IH; auto. cbn; auto.
  Qed.

  Definition kindof (x : hinfo) : ikind := snd (fst x).

  Lemma fwd_ok_of_bool : forall l hr t,
      ops_wf c (map kindof (newsr hr)) l = true -> ops_good c (newsr hr) l = true -> fwd_ok hr t l.
  Proof.
    induction l as [|o l IH]; intros hr t Hw Hg; cbn [fwd_ok]; auto. destruct o as [m k name|h v a|r].
    - cbn [ops_wf ops_good] in *. rewrite !andb_true_iff in *. destruct Hw as [[Hm _] Hw]. destruct Hg as [[Hs Hf] Hg].
      split; [|split; [exact I|]].
      + cbn. split; [apply Nat.eqb_eq; exact Hs | split; [apply Nat.ltb_lt; exact Hm |]].
        intros x Hx. exact (negb_existsb_false _ _ _ Hf x Hx).
      + apply IH; cbn [newsr]; auto. rewrite map_app. exact Hw.
    - cbn [ops_wf ops_good] in *. rewrite !andb_true_iff in *. destruct Hw as [Hv Hw].
      destruct (nth_error (map kindof (newsr hr)) h) as [k|] eqn:En; [|discriminate].
      split; [|split].
      + cbn. assert (h < length (map kindof (newsr hr)))%nat by (apply nth_error_Some; congruence).
        rewrite map_length in H. exact H.
      + cbn. intros m k' name Hn. rewrite (map_nth_error _ _ _ Hn) in En. inversion En. subst k. exact Hv.
      + apply IH; auto.
    - cbn [ops_wf ops_good] in *. rewrite !andb_true_iff in *. destruct Hw as [Hr Hw].
      split; [cbn; apply Nat.ltb_lt; exact Hr | split; [exact I | apply IH; auto]].
  Qed.

  (* no instrument is created twice *)
  Lemma hist_ok_nodup : forall hr, hist_ok hr -> NoDup (map keyof (newsr hr)).
  Proof.
    induction hr as [|[t o] rest IH]; intros H; cbn; [constructor|]. destruct H as [H1 [_ H3]].
    destruct o as [m k name|h v a|r]; auto. rewrite map_app. cbn.
    assert (Hn : ~ In (m, name) (map keyof (newsr rest))).
    { intros C. apply in_map_iff in C. destruct C as [x [E Hx]]. destruct H1 as [_ [_ Hf]]. specialize (Hf x Hx).
      unfold reg_key_eqb in Hf. cbn in Hf. unfold keyof in E. inversion E; subst.
      rewrite Nat.eqb_refl in Hf. cbn in Hf. assert (bytes_eqb (snd x) (snd x) = true) by (apply bytes_eqb_eq; reflexivity). congruence. }
    specialize (IH H3). clear - IH Hn. induction (map keyof (newsr rest)) as [|y l IHl]; cbn.
    - constructor; [intros []|constructor].
    - inversion IH; subst. constructor.
      + intros C. apply in_app_or in C. destruct C as [C|[C|[]]]; [contradiction|]. subst. apply Hn. left; reflexivity.
      + apply IHl; auto. intros C. apply Hn. right; auto.
  Qed.

  (* ---------------------------------------------------------------- the streams the SPEC expects *)
  Definition mkstream (x : Z * nat * ikind * bytes) : sstream :=
    let '(t, m, k, name) := x in mkSS m name k (sname (m, k, name)) t false false.

  Lemma same_new_key : forall m name x, same_new m name x = true <-> keyof (strip x) = (m, name).
  Proof.
    intros m name [[[t m'] k'] n']. unfold same_new, keyof. cbn. rewrite andb_true_iff, Nat.eqb_eq, bytes_eqb_eq.
    split; [intros [A B]; subst; reflexivity | intros H; inversion H; auto].
  Qed.

  Lemma count_one_key : forall N m name, NoDup (map (fun y => keyof (strip y)) N) ->
      In (m, name) (map (fun y => keyof (strip y)) N) -> length (filter (same_new m name) N) = 1%nat.
  Proof.
    induction N as [|y N IH]; intros m name Hnd Hin; [inversion Hin|]. cbn [map] in Hnd, Hin. inversion Hnd; subst. cbn [filter].
    destruct (same_new m name y) eqn:E.
    - apply same_new_key in E. cbn [length]. f_equal. rewrite filter_none; auto. intros z Hz.
      destruct (same_new m name z) eqn:E'; auto. apply same_new_key in E'. exfalso. apply H1. rewrite E, <- E'.
      apply in_map_iff. exists z. split; auto.
    - destruct Hin as [Hin|Hin]; [|apply IH; auto]. apply same_new_key in Hin. congruence.
  Qed.

  Lemma count_one : forall N x, NoDup (map (fun y => keyof (strip y)) N) -> In x N ->
      length (filter (same_new (fst (keyof (strip x))) (snd (keyof (strip x)))) N) = 1%nat.
  Proof.
    intros N x Hnd Hin. apply count_one_key; auto. apply in_map_iff. exists x. split; auto.
  Qed.

  Lemma streams_of_char : forall all hs seen,
      NoDup (map (fun y => keyof (strip y)) hs) ->
      (forall x, In x hs -> existsb (same_new (fst (keyof (strip x))) (snd (keyof (strip x)))) seen = false) ->
      (forall x, In x hs -> length (filter (same_new (fst (keyof (strip x))) (snd (keyof (strip x)))) all) = 1%nat) ->
      (forall x, In x hs -> single_view c (strip x)) ->
      streams_of c all seen hs = map mkstream hs.
  Proof.
    induction hs as [|[[[t m] k] name] hs IH]; intros seen Hnd Hseen Hcount Hsv; cbn [streams_of map]; auto.
    pose proof (Hseen _ (or_introl eq_refl)) as H1. cbn in H1. rewrite H1.
    pose proof (Hcount _ (or_introl eq_refl)) as H2. cbn in H2. rewrite H2.
    pose proof (Hsv _ (or_introl eq_refl)) as H3. cbn in H3.
    destruct (find_views (c_views c) m k name) as [|vn [|vn2 vs]] eqn:Ev; cbn in H3; try lia.
    cbn [map app length Nat.ltb Nat.leb]. f_equal.
    - unfold mkstream. cbn. rewrite Ev. reflexivity.
    - inversion Hnd as [|? ? Hnotin Hnd']; subst. apply IH; auto.
      + intros x Hx. cbn [existsb]. rewrite (Hseen x (or_intror Hx)), orb_false_r.
        destruct (same_new _ _ (t, m, k, name)) eqn:E; auto. apply same_new_key in E. exfalso. apply Hnotin.
        apply in_map_iff. exists x. split; auto.
      + intros x Hx. apply Hcount. right; auto.
      + intros x Hx. apply Hsv. right; auto.
  Qed.

  (* ---------------------------------------------------------------- the setting of one collection *)
  Variable ops : list op.
  Let L := timed ops.
  Let N := news L.
  Let ms := measurements N L.
  Let hrF := rev L.

  Hypothesis HokF : hist_ok hrF.
  Hypothesis HndF : names_distinct c (newsr hrF).

  Lemma N_strip : map strip N = newsr hrF.
  Proof. unfold N, hrF. rewrite <- news_strip, rev_involutive. reflexivity. Qed.

  Lemma single_all : forall hr, hist_ok hr -> forall x, In x (newsr hr) -> single_view c x.
  Proof.
    induction hr as [|[t o] rest IH]; intros H x Hx; cbn in *; [tauto|]. destruct H as [H1 [_ H3]].
    destruct o as [m k name|h v a|r]; auto. apply in_app_or in Hx. destruct Hx as [Hx|[Hx|[]]]; auto.
    subst x. cbn in H1. tauto.
  Qed.

  Lemma streams_eq : streams c L = map mkstream N.
  Proof.
    unfold streams. fold N. pose proof (hist_ok_nodup hrF HokF) as Hnd. rewrite <- N_strip, map_map in Hnd.
    apply streams_of_char; auto.
    - intros x Hx. apply count_one; auto.
    - intros x Hx. apply (single_all hrF HokF). rewrite <- N_strip. apply in_map. exact Hx.
  Qed.

  (* a moment of the run: [hr] has happened, the next operation happens at time t *)
  Record moment (hr : list (Z * op)) (t : Z) (l : list op) : Prop := mkMoment {
    M_split : L = rev hr ++ timed_from t l;
    M_sorted : sorted hr;
    M_lt : times_lt t hr;
    M_pos : 0 < t;
    M_ok : hist_ok hr
  }.

  Lemma moment_newsr : forall hr t l, moment hr t l -> exists q, newsr hrF = newsr hr ++ q.
  Proof.
    intros hr t l M. unfold hrF. rewrite (M_split _ _ _ M), rev_app_distr, rev_involutive, newsr_app. eauto.
  Qed.

  Lemma moment_nth : forall hr t l h y, moment hr t l -> nth_error (newsr hr) h = Some y ->
      exists tau, nth_error N h = Some (tau, fst (fst y), snd (fst y), snd y) /\ tau < t.
  Proof.
    intros hr t l h y M Hn.
    assert (HN : N = news (rev hr) ++ news (timed_from t l)) by (unfold N; rewrite (M_split _ _ _ M), news_app; reflexivity).
    pose proof (news_strip hr) as Hs. rewrite <- Hs in Hn. apply nth_error_map_inv in Hn. destruct Hn as [x [Hx Ex]].
    destruct x as [[[tau m] k] name]. cbn in Ex. subst y. exists tau. split.
    - rewrite HN. rewrite nth_error_app1; auto. apply nth_error_Some. congruence.
    - apply nth_error_In in Hx. apply news_in in Hx. apply in_rev in Hx. pose proof (M_lt _ _ _ M) as Hl.
      unfold times_lt in Hl. rewrite Forall_forall in Hl. apply (Hl _ Hx).
  Qed.

  Lemma moment_names : forall hr t l, moment hr t l -> names_distinct c (newsr hr).
  Proof.
    intros hr t l M. destruct (moment_newsr hr t l M) as [q Hq]. unfold names_distinct in *. rewrite Hq, map_app in HndF.
    clear - HndF. induction (map (fun x : hinfo => (fst (fst x), sname x)) (newsr hr)) as [|y l' IH]; [constructor|].
    cbn in HndF. inversion HndF; subst. constructor; auto. intros C. apply H1. apply in_or_app. left; auto.
  Qed.

  (* ---------------------------------------------------------------- the SPEC's sums are the window sums *)
  Definition mpred (m : nat) (name : bytes) (key : akey) (lo hi : Z) (x : meas) : bool :=
    same_instr m name x && akey_eqb key (ms_key x) && (lo <? ms_time x) && (ms_time x <? hi).
  Definition msum' (l : list meas) m name key lo hi : Z := fold_right Z.add 0 (map ms_val (filter (mpred m name key lo hi) l)).

  Lemma msum_eq : forall l m name key lo hi, msum l m name key lo hi = msum' l m name key lo hi.
  Proof. reflexivity. Qed.
  Lemma msum'_app : forall a b m name key lo hi, msum' (a ++ b) m name key lo hi = msum' a m name key lo hi + msum' b m name key lo hi.
  Proof.
    intros. unfold msum'. rewrite filter_app, map_app. induction (map ms_val (filter (mpred m name key lo hi) a)) as [|z l IH]; cbn; auto. lia.
  Qed.

  Lemma msum'_future : forall fut m name key lo t, Forall (fun x : Z * op => t <= fst x) fut ->
      msum' (measurements N fut) m name key lo t = 0.
  Proof.
    induction fut as [|[tau o] fut IH]; intros m name key lo t H; [reflexivity|]. inversion H; subst. cbn in H2.
    destruct o as [m0 k0 name0|h v a|r]; cbn [measurements]; auto.
    destruct (nth_error N h) as [[[[t0 m0] k0] name0]|]; auto.
    change (mkMeas tau m0 name0 (canon a) (spec_value k0 v) :: measurements N fut)
      with ([mkMeas tau m0 name0 (canon a) (spec_value k0 v)] ++ measurements N fut).
    rewrite msum'_app, IH by auto. unfold msum', mpred. cbn. replace (tau <? t) with false by lia. rewrite andb_false_r. reflexivity.
  Qed.

  Lemma msum'_past : forall hr t l h m k name key lo,
      moment hr t l -> nth_error (newsr hr) h = Some (m, k, name) ->
      forall sub, (exists pre, hr = pre ++ sub) ->
      msum' (measurements N (rev sub)) m name key lo t = wsum h k key lo sub.
  Proof.
    intros hr t l h m k name key lo M Hn. induction sub as [|[tau o] sub IH]; intros [pre Hpre]; cbn [rev wsum]; auto.
    assert (Hsub : exists pre', hr = pre' ++ sub) by (exists (pre ++ [(tau, o)]); rewrite <- app_assoc; exact Hpre).
    rewrite measurements_app, msum'_app, (IH Hsub).
    assert (Htau : tau < t).
    { pose proof (M_lt _ _ _ M) as Hl. unfold times_lt in Hl. rewrite Forall_forall in Hl. apply (Hl (tau, o)).
      rewrite Hpre. apply in_or_app. right. left. reflexivity. }
    destruct o as [m0 k0 name0|h' v a|r]; cbn [measurements]; try (unfold msum'; cbn; lia).
    (* the handle of the measurement exists at that point of the history *)
    assert (Hok : hist_ok ((tau, OAdd h' v a) :: sub)).
    { pose proof (M_ok _ _ _ M) as Hh. rewrite Hpre in Hh. clear - Hh. induction pre as [|[t0 o0] pre IHp]; cbn in *; tauto. }
    destruct Hok as [Hstep _]. cbn in Hstep.
    assert (Hh' : exists y, nth_error (newsr hr) h' = Some y).
    { assert (h' < length (newsr hr))%nat.
      { rewrite Hpre, newsr_app, app_length. destruct Hsub as [p' _]. cbn [newsr]. lia. }
      destruct (nth_error (newsr hr) h') eqn:E; eauto. apply nth_error_None in E. lia. }
    destruct Hh' as [[[m1 k1] name1] Hy]. destruct (moment_nth _ _ _ _ _ M Hy) as [tau1 [HN1 _]]. cbn [fst snd] in HN1.
    rewrite HN1. unfold msum', mpred, same_instr. cbn [filter ms_time ms_key ms_val ms_meter ms_iname].
    replace (tau <? t) with true by lia. rewrite andb_true_r.
    assert (Hinst : (Nat.eqb m m1 && bytes_eqb name name1)%bool = Nat.eqb h' h).
    { destruct (Nat.eqb h' h) eqn:E.
      - apply Nat.eqb_eq in E. subst h'. rewrite Hn in Hy. inversion Hy; subst m1 k1 name1.
        rewrite Nat.eqb_refl. cbn [andb]. apply bytes_eqb_eq. reflexivity.
      - destruct (Nat.eqb m m1 && bytes_eqb name name1)%bool eqn:E2; auto.
        exfalso. apply andb_true_iff in E2 as [A B]. apply Nat.eqb_eq in A. apply bytes_eqb_eq in B. subst m1 name1.
        pose proof (hist_ok_nodup hr (M_ok _ _ _ M)) as Hnd. rewrite NoDup_nth_error in Hnd.
        apply Nat.eqb_neq in E. apply E. apply Hnd.
        + rewrite map_length. apply nth_error_Some. congruence.
        + rewrite (map_nth_error _ _ _ Hy), (map_nth_error _ _ _ Hn). reflexivity. }
    rewrite Hinst. destruct (Nat.eqb h' h) eqn:E; cbn [andb].
    - apply Nat.eqb_eq in E. subst h'. rewrite Hn in Hy. inversion Hy; subst m1 k1 name1.
      destruct (akey_eqb key (canon a) && (lo <? tau))%bool; cbn; lia.
    - cbn. lia.
  Qed.

  Theorem msum_is_wsum : forall hr t l h m k name key lo,
      moment hr t l -> nth_error (newsr hr) h = Some (m, k, name) ->
      msum ms m name key lo t = wsum h k key lo hr.
  Proof.
    intros hr t l h m k name key lo M Hn. rewrite msum_eq. unfold ms. rewrite (M_split _ _ _ M).
    rewrite measurements_app, msum'_app, (msum'_future (timed_from t l)) by apply timed_from_ge.
    rewrite (msum'_past hr t l h m k name key lo M Hn hr) by (exists []; reflexivity). lia.
  Qed.

  (* ---------------------------------------------------------------- one stream of one collection *)
  Lemma pointv_exp_adds : forall mono hs r ts key, hist_wf akey n hs -> (r < n)%nat ->
      pointv akey akey_eqb (out_at mono n temps hs r ts) key = sumv akey akey_eqb key (exp_adds akey mono temps r hs).
  Proof.
    intros mono hs r ts key Hw Hr. unfold exp_adds. destruct (temps r) eqn:Et; cbn [is_delta].
    - apply delta_point_is_interval_sum; auto using akey_eqb_ok.
    - apply cumulative_point_is_running_total; auto using akey_eqb_ok.
  Qed.

  Lemma temp_eqb_refl : forall a, temp_eqb a a = true.
  Proof. destruct a; reflexivity. Qed.
  Lemma kind_eqb_refl : forall a, kind_eqb a a = true.
  Proof. destruct a; reflexivity. Qed.

  Theorem spec_stream_ok : forall hr t l r h x,
      moment hr t (OCol r :: l) -> (r < n)%nat -> nth_error N h = Some x ->
      spec_stream c ms (gobs_list c hr) t r (gobs hr r t) (mkstream x) = [].
  Proof.
    intros hr t l r h [[[born m] k] name] M Hr HNx. unfold spec_stream. cbn [mkstream ss_born ss_meter ss_iname ss_name ss_kind].
    destruct (born <? t) eqn:Eb; cbn [negb]; auto.
    (* the instrument exists: it is handle h of the history so far *)
    assert (HN : N = news (rev hr) ++ news (timed_from t (OCol r :: l))) by (unfold N; rewrite (M_split _ _ _ M), news_app; reflexivity).
    assert (Hh : nth_error (newsr hr) h = Some (m, k, name)).
    { rewrite <- news_strip. rewrite HN in HNx. destruct (Nat.ltb h (length (news (rev hr)))) eqn:El.
      - apply Nat.ltb_lt in El. rewrite nth_error_app1 in HNx by auto. rewrite (map_nth_error _ _ _ HNx). reflexivity.
      - apply Nat.ltb_ge in El. rewrite nth_error_app2 in HNx by auto. apply nth_error_In in HNx. apply news_in in HNx.
        pose proof (timed_from_ge (OCol r :: l) t) as Hg. rewrite Forall_forall in Hg. specialize (Hg _ HNx). cbn in Hg. lia. }
    pose proof (M_ok _ _ _ M) as Hok. pose proof (moment_names _ _ _ M) as Hnd.
    pose proof (newsr_meters_ok c hr Hok) as Hm. rewrite Forall_forall in Hm. specialize (Hm _ (nth_error_In _ _ Hh)). cbn in Hm.
    rewrite (stream_of_gobs c hr r t h m k name Hnd Hm Hh).
    pose proof (projh_wf c h k hr Hok) as Hwf.
    pose proof (out_at_ok akey akey_eqb akey_eqb_ok (is_mono k) n temps (projh h k hr) r t Hwf Hr) as Hout.
    assert (Hlo : (if is_delta (temps r) then prev_end (gobs_list c hr) r m (sname (m, k, name)) else 0) = exp_lo c r k (projh h k hr)).
    { unfold exp_lo. destruct (is_delta (temps r)); auto. apply prev_end_is_prev_ts; auto. }
    rewrite Hlo.
    assert (Hsum : forall key, msum ms m name key (exp_lo c r k (projh h k hr)) t =
                               pointv akey akey_eqb (out_at (is_mono k) n temps (projh h k hr) r t) key).
    { intros key. rewrite (msum_is_wsum hr t (OCol r :: l) h m k name key _ M Hh).
      rewrite (wsum_exp_adds c h k key r hr (M_sorted _ _ _ M) Hok Hr).
      - symmetry. apply pointv_exp_adds; auto.
      - apply nth_error_Some. congruence.
      - eauto. }
    unfold out_ok in Hout. destruct (present akey (is_mono k) n temps r (projh h k hr)).
    - destruct Hout as [md [Eo [Ht [Hs [He [Hw Hp]]]]]]. rewrite Eo in *. cbn [o_kind o_md retag ss_dup ss_multi].
      rewrite kind_eqb_refl, Ht, temp_eqb_refl, He, Z.eqb_refl. cbn [check app].
      assert (Hst : (if is_delta (temps r) then check (md_start md =? exp_lo c r k (projh h k hr))
                        (if exp_lo c r k (projh h k hr) =? 0 then "delta_intervals_abut:first_not_at_sdk_start"%string
                         else "delta_intervals_abut:gap_or_overlap"%string)
                     else check (md_start md =? 0) "cumulative_starts_at_sdk_start:later_start"%string) = []).
      { rewrite Hs. unfold exp_start, exp_lo. destruct (is_delta (temps r)); apply check_true; apply Z.eqb_refl. }
      rewrite Hst. cbn [app]. apply check_true. apply forallb_forall. intros key _. rewrite Hsum. cbn [pointv].
      unfold point. apply Z.eqb_refl.
    - rewrite Hout in *. apply check_true. apply forallb_forall. intros key _. rewrite Hsum. reflexivity.
  Qed.

  Theorem spec_one_ok : forall hr t l r,
      moment hr t (OCol r :: l) -> (r < n)%nat ->
      spec_one c ms (streams c L) (gobs_list c hr) t r (gobs hr r t) = [].
  Proof.
    intros hr t l r M Hr. unfold spec_one. rewrite streams_eq.
    rewrite flat_map_nil.
    - cbn [app]. apply check_true. apply forallb_forall. intros o Ho. apply gobs_in in Ho.
      destruct Ho as [h [m [k [name [md [Hn [Eo _]]]]]]]. subst o.
      destruct (moment_nth _ _ _ _ _ M Hn) as [tau [HN Hlt]]. cbn [fst snd] in HN.
      unfold expected. apply existsb_exists. exists (mkstream (tau, m, k, name)). split.
      + apply in_map. apply nth_error_In in HN. exact HN.
      + cbn. rewrite Nat.eqb_refl. replace (tau <? t) with true by lia. cbn. apply bytes_eqb_eq. reflexivity.
    - intros s Hs. apply in_map_iff in Hs. destruct Hs as [x [Es Hx]]. subst s.
      apply In_nth_error in Hx. destruct Hx as [h Hx]. eapply spec_stream_ok; eauto.
  Qed.

  (* ---------------------------------------------------------------- the whole run *)
  Theorem spec_cols_ok : forall l hr t,
      moment hr t l -> fwd_ok hr t l ->
      spec_cols c ms (streams c L) (gobs_list c hr) (cols (timed_from t l)) (gouts hr t l) = [].
  Proof.
    induction l as [|o l IH]; intros hr t M Hf; cbn [timed_from cols gouts spec_cols]; auto.
    destruct Hf as [H1 [H2 H3]].
    assert (M' : moment ((t, o) :: hr) (t + 1) l).
    { destruct M as [Ms Mso Ml Mp Mo]. constructor.
      - rewrite Ms. cbn [rev timed_from]. rewrite <- app_assoc. reflexivity.
      - cbn. auto.
      - constructor; [cbn; lia|]. eapply times_lt_weaken; eauto. lia.
      - lia.
      - cbn; auto. }
    destruct o as [m k name|h v a|r]; cbn [cols spec_cols].
    1: exact (IH ((t, ONew m k name) :: hr) (t + 1) M' H3).
    1: exact (IH ((t, OAdd h v a) :: hr) (t + 1) M' H3).
    rewrite Nat.eqb_refl. cbn [check app]. cbn in H1. rewrite (spec_one_ok hr t l r M H1). cbn [app].
    apply (IH ((t, OCol r) :: hr) (t + 1) M' H3).
  Qed.
End Meets.
