(* C06 proofs, part 11: examples for the lock-granularity model (vm_compute on concrete traces; attribute sets are numbers,
   reader 0 is a delta reader, reader 1 a cumulative reader, three threads). *)
From V Require Import C06.Model C06.Lts C06.ProofsReaders.
Local Open Scope Z_scope.

Definition ex_tp (r : nat) : temporality := match r with O => Delta | _ => Cumulative end.
Definition ex_run (strict : bool) (tr : list (nat * ev nat)) : option (lstate nat) :=
  lrun nat Nat.eqb false 2 ex_tp 3 strict (rev tr).
Definition ex_add (t k : nat) (v : Z) : list (nat * ev nat) :=
  [(t, EAddCall k v); (t, EALock); (t, EAUnlock k v); (t, EAddRet k v)].

(* thread 2 records 3; the collectors of readers 0 and 1 both detach the live map (first 0, then 1: the Collects overlap
   between their critical sections); thread 2 records 4 - between the critical sections of both Collects; then reader 1
   distributes (nothing: its detached map was empty and reader 0 has not distributed yet), then reader 0 *)
Definition ex_overlap : list (nat * ev nat) :=
  ex_add 2 7%nat 3 ++
  [(0, EColCall 0); (0, ECLockA 0); (0, ECUnlockA 0 10); (1, EColCall 1); (1, ECLockA 1); (1, ECUnlockA 1 11)]%nat ++
  ex_add 2 7%nat 4 ++
  [(1, ECLockT 1); (1, ECUnlockT 1); (0, ECLockT 0); (0, ECUnlockT 0)]%nat.

(* accepted when Collects may overlap; nothing is lost: reader 0 got the 3, reader 1 has it in its stash, the 4 is live *)
Example ex_overlap_accepted :
  option_map (fun s => (l_outs nat s, s_cur nat (l_st nat s), s_unrep nat (l_st nat s) 1%nat)) (ex_run false ex_overlap) =
  Some ([(1%nat, 11, None); (0%nat, 10, Some (mkMD Delta 0 10 [(7%nat, 3)]))], [(7%nat, 4)], Some [[(7%nat, 3)]]).
Proof. vm_compute. reflexivity. Qed.

(* but the cumulative reader was given nothing although the 3 had been recorded (and its Add had returned) before its
   Collect was even called: without the serialization of a storage's Collects the SPEC's bracket does not hold.  The SDK
   serializes them (Meter::storage_lock_): under that discipline the interleaving is not possible *)
Example ex_overlap_not_strict : ex_run true ex_overlap = None.
Proof. vm_compute. reflexivity. Qed.

(* the discipline of the SDK, an Add landing between the two critical sections of a Collect: it is in the next interval *)
Definition ex_between : list (nat * ev nat) :=
  [(0, EColCall 0); (0, ECLockM 0); (0, ECLockA 0); (0, ECUnlockA 0 10)]%nat ++ ex_add 2 7%nat 4 ++
  [(0, ECLockT 0); (0, ECUnlockT 0); (0, ECUnlockM 0); (0, EColRet 0 None);
   (0, EColCall 0); (0, ECLockM 0); (0, ECLockA 0); (0, ECUnlockA 0 20); (0, ECLockT 0); (0, ECUnlockT 0); (0, ECUnlockM 0);
   (0, EColRet 0 (Some (mkMD Delta 0 20 [(7%nat, 4%Z)])))]%nat.

Example ex_between_accepted :
  option_map (l_outs nat) (ex_run true ex_between) = Some [(0%nat, 10, None); (0%nat, 20, Some (mkMD Delta 0 20 [(7%nat, 4)]))].
Proof. vm_compute. reflexivity. Qed.

(* the defect of seeded/C06_c (the empty live map is kept in place, so the Add that lands between the critical sections is
   reported by the Collect in progress - and again by the next one): such a trace is rejected, strict or not *)
Definition ex_c06c : list (nat * ev nat) :=
  [(0, EColCall 0); (0, ECLockM 0); (0, ECLockA 0); (0, ECUnlockA 0 10)]%nat ++ ex_add 2 7%nat 4 ++
  [(0, ECLockT 0); (0, ECUnlockT 0); (0, ECUnlockM 0); (0, EColRet 0 (Some (mkMD Delta 0 10 [(7%nat, 4%Z)])))]%nat.

Example ex_c06c_rejected : ex_run true ex_c06c = None /\ ex_run false ex_c06c = None.
Proof. vm_compute. split; reflexivity. Qed.

(* the defect of seeded/C06_e (Aggregate after attribute_hashmap_lock_ was released): the aggregation's own lock is taken
   between the recorder's AUnlock and its return - rejected *)
Example ex_c06e_rejected :
  ex_run true [(2, EAddCall 7%nat 4); (2, EALock); (2, EAUnlock 7%nat 4); (2, EOther)]%nat = None.
Proof. vm_compute. reflexivity. Qed.
