(* C06 proofs, part 4: the SDK level (Meter registry, handles, views, MetricCollector::Produce) for histories in which
   no instrument is created twice and at most one view applies to an instrument: every handle has exactly one storage,
   every storage is registered, and a Collect returns, stream by stream, what the storage-level theorems describe for
   the storage's own history ([projh]). *)
From V Require Import C06.Model C06.ProofsTable C06.ProofsStorage.
From Coq Require Import Lia ZifyBool ZifyNat.
Local Open Scope Z_scope.

Definition hinfo := (nat * ikind * bytes)%type.

Fixpoint indexed_from {A} (a : nat) (l : list A) : list (nat * A) :=
  match l with [] => [] | x :: l' => (a, x) :: indexed_from (S a) l' end.
Definition indexed {A} (l : list A) : list (nat * A) := indexed_from 0 l.

Lemma indexed_from_app : forall A (l1 l2 : list A) a,
    indexed_from a (l1 ++ l2) = indexed_from a l1 ++ indexed_from (a + length l1) l2.
Proof.
  induction l1 as [|x l1 IH]; intros; cbn.
  - rewrite Nat.add_0_r; reflexivity.
  - rewrite IH. do 3 f_equal. lia.
Qed.

Lemma indexed_from_bounds : forall A (l : list A) a x, In x (indexed_from a l) -> (a <= fst x < a + length l)%nat.
Proof.
  induction l as [|y l IH]; intros a x H; cbn in *; [tauto|]. destruct H as [H|H].
  - subst; cbn; lia.
  - apply IH in H. lia.
Qed.

Lemma indexed_from_length : forall A (l : list A) a, length (indexed_from a l) = length l.
Proof. induction l; intros; cbn; auto. Qed.

Lemma upd_nth_map_indexed : forall A B (F : nat * A -> B) (f : B -> B) (l : list A) a h,
    upd_nth h f (map F (indexed_from a l)) =
    map (fun x => if Nat.eqb (fst x) (a + h) then f (F x) else F x) (indexed_from a l).
Proof.
  induction l as [|y l IH]; intros a h; cbn; [destruct h; reflexivity|].
  destruct h as [|h]; cbn [upd_nth].
  - rewrite Nat.add_0_r, Nat.eqb_refl. f_equal. apply map_ext_in. intros x Hx.
    apply indexed_from_bounds in Hx. destruct (Nat.eqb (fst x) a) eqn:E; auto. apply Nat.eqb_eq in E. lia.
  - replace (Nat.eqb a (a + S h)) with false by (symmetry; apply Nat.eqb_neq; lia). f_equal.
    rewrite IH. apply map_ext. intros x. replace (S a + h)%nat with (a + S h)%nat by lia. reflexivity.
Qed.

Lemma nth_error_map_indexed : forall A B (F : nat * A -> B) (l : list A) a h,
    nth_error (map F (indexed_from a l)) h = option_map (fun y => F ((a + h)%nat, y)) (nth_error l h).
Proof.
  induction l as [|y l IH]; intros a h; destruct h; cbn; auto.
  - rewrite Nat.add_0_r; reflexivity.
  - rewrite IH. replace (S a + h)%nat with (a + S h)%nat by lia. reflexivity.
Qed.

Section World.
  Variable c : config.
  Notation n := (nreaders c).
  Notation temps := (temp_of c).
  Notation state := (state akey akey_eqb).
  Notation out_at := (out_at akey akey_eqb).
  Notation collect := (collect akey akey_eqb).

  (* the stream of an instrument to which exactly one view (or the default view) applies *)
  Definition sname (x : hinfo) : bytes :=
    let '(m, k, name) := x in stream_name name (hd [] (find_views (c_views c) m k name)).
  Definition single_view (x : hinfo) : Prop :=
    let '(m, k, name) := x in length (find_views (c_views c) m k name) = 1%nat.

  (* histories: timed operations, newest first *)
  Fixpoint newsr (hr : list (Z * op)) : list hinfo :=
    match hr with
    | [] => []
    | (_, ONew m k name) :: t => newsr t ++ [(m, k, name)]
    | _ :: t => newsr t
    end.

  (* the history of the storage behind handle h (of kind k), newest first *)
  Fixpoint projh (h : nat) (k : ikind) (hr : list (Z * op)) : list (sop akey) :=
    match hr with
    | [] => []
    | (_, ONew _ _ _) :: t => if Nat.eqb (length (newsr t)) h then [] else projh h k t
    | (_, OAdd h' v a) :: t =>
        if Nat.eqb h' h then
          match api_value k v with
          | Some v' => SAdd (canon a) v' :: projh h k t
          | None => projh h k t
          end
        else projh h k t
    | (ts, OCol r) :: t => SCol r ts :: projh h k t
    end.

  Definition gdesc (x : hinfo) : sdesc := let '(m, k, name) := x in mkSD m name (sname x) k.
  Definition gentry (hr : list (Z * op)) (x : nat * hinfo) : sdesc * astor :=
    (gdesc (snd x), state (is_mono (snd (fst (snd x)))) n temps (projh (fst x) (snd (fst (snd x))) hr)).
  Definition gstor (hr : list (Z * op)) : list (sdesc * astor) := map (gentry hr) (indexed (newsr hr)).
  Definition reg_of (x : nat * (sdesc * astor)) : nat * bytes * nat :=
    (sd_meter (fst (snd x)), sd_iname (fst (snd x)), fst x).

  Record GW (hr : list (Z * op)) (w : world) : Prop := mkGW {
    G_stor : w_stor w = gstor hr;
    G_reg : w_reg w = map reg_of (indexed (w_stor w));
    G_handles : w_handles w = map (fun x : nat * hinfo => (snd (fst (snd x)), [fst x])) (indexed (newsr hr))
  }.

  (* what makes one more operation keep the history in the region the positive theorems are about *)
  Definition okstep (hr : list (Z * op)) (o : op) : Prop :=
    match o with
    | ONew m k name =>
        single_view (m, k, name) /\ (m < c_meters c)%nat /\
        forall x, In x (newsr hr) -> reg_key_eqb m name (fst (fst x), snd x, 0%nat) = false
    | OAdd h _ _ => (h < length (newsr hr))%nat
    | OCol r => (r < n)%nat
    end.

  Lemma GW_init : GW [] world0.
  Proof. constructor; reflexivity. Qed.

  Lemma state_nil : forall mono, state mono n temps [] = stor0 akey.
  Proof. reflexivity. Qed.

  (* ---------------------------------------------------------------- collecting one meter, all meters *)
  Section Collect.
    Variable r : nat.
    Variable ts : Z.

    Definition cm (m : nat) (ds : sdesc * astor) : sdesc * astor :=
      if Nat.eqb (sd_meter (fst ds)) m then (fst ds, fst (collect n (temps r) (snd ds) r ts)) else ds.
    Definition om (m : nat) (ds : sdesc * astor) : list sdata :=
      if Nat.eqb (sd_meter (fst ds)) m then
        match snd (collect n (temps r) (snd ds) r ts) with
        | Some md => [mkSData m (sd_name (fst ds)) (sd_kind (fst ds)) md]
        | None => []
        end
      else [].

    Definition cstep (m : nat) (acc : world * list sdata) (e : nat * bytes * nat) : world * list sdata :=
      let '(w1, outs) := acc in
      let '(m', _, sid) := e in
      if Nat.eqb m' m then
        match nth_error (w_stor w1) sid with
        | None => (w1, outs)
        | Some (d, s) =>
            let '(s', o) := collect n (temps r) s r ts in
            (mkW (upd_nth sid (fun _ => (d, s')) (w_stor w1)) (w_reg w1) (w_handles w1),
             match o with Some md => outs ++ [mkSData m (sd_name d) (sd_kind d) md] | None => outs end)
        end
      else (w1, outs).

    Lemma collect_meter_eq : forall m w, collect_meter c r ts m w = fold_left (cstep m) (w_reg w) (w, []).
    Proof. reflexivity. Qed.

    Lemma upd_nth_app_here : forall A (pre post : list A) x f, upd_nth (length pre) f (pre ++ x :: post) = pre ++ f x :: post.
    Proof. induction pre; intros; cbn; auto. f_equal; auto. Qed.
    Lemma nth_error_app_here : forall A (pre post : list A) x, nth_error (pre ++ x :: post) (length pre) = Some x.
    Proof. induction pre; intros; cbn; auto. Qed.

    Lemma cstep_fold : forall m R H post pre outs,
        fold_left (cstep m) (map reg_of (indexed_from (length pre) post)) (mkW (pre ++ post) R H, outs) =
        (mkW (pre ++ map (cm m) post) R H, outs ++ flat_map (om m) post).
    Proof.
      induction post as [|[d s] post IH]; intros pre outs.
      - cbn. rewrite !app_nil_r. reflexivity.
      - cbn [indexed_from map fold_left]. unfold cstep at 2. cbn [reg_of fst snd w_stor w_reg w_handles].
        unfold cm at 1, om at 1. cbn [fst snd flat_map map].
        destruct (Nat.eqb (sd_meter d) m) eqn:E.
        + rewrite nth_error_app_here. destruct (collect n (temps r) s r ts) as [s' o] eqn:Ec. cbn [fst snd].
          rewrite upd_nth_app_here.
          replace (pre ++ (d, s') :: post) with ((pre ++ [(d, s')]) ++ post) by (rewrite <- app_assoc; reflexivity).
          replace (S (length pre)) with (length (pre ++ [(d, s')])) by (rewrite app_length; cbn; lia).
          rewrite IH. rewrite <- !app_assoc. cbn [app]. destruct o; [rewrite <- app_assoc|]; reflexivity.
        + replace (pre ++ (d, s) :: post) with ((pre ++ [(d, s)]) ++ post) by (rewrite <- app_assoc; reflexivity).
          replace (S (length pre)) with (length (pre ++ [(d, s)])) by (rewrite app_length; cbn; lia).
          rewrite IH. rewrite <- !app_assoc. reflexivity.
    Qed.

    Lemma reg_of_map_cm : forall m S a, map reg_of (indexed_from a (map (cm m) S)) = map reg_of (indexed_from a S).
    Proof.
      induction S as [|ds S IH]; intros; cbn; auto. f_equal; auto.
      unfold reg_of, cm; cbn. destruct (Nat.eqb (sd_meter (fst ds)) m); reflexivity.
    Qed.

    Lemma collect_meter_char : forall m w,
        w_reg w = map reg_of (indexed (w_stor w)) ->
        collect_meter c r ts m w = (mkW (map (cm m) (w_stor w)) (w_reg w) (w_handles w), flat_map (om m) (w_stor w)).
    Proof.
      intros m [S R H] Hreg. cbn [w_stor w_reg w_handles] in *. rewrite collect_meter_eq. cbn [w_reg].
      rewrite Hreg at 1. exact (cstep_fold m R H S [] []).
    Qed.

    (* all meters of a list, one after the other *)
    Definition cms (ms : list nat) (ds : sdesc * astor) : sdesc * astor := fold_left (fun x m => cm m x) ms ds.

    Lemma cms_meter : forall ms ds, sd_meter (fst (cms ms ds)) = sd_meter (fst ds).
    Proof.
      induction ms as [|m ms IH]; intros; cbn; auto. unfold cms in *. rewrite IH. unfold cm.
      destruct (Nat.eqb (sd_meter (fst ds)) m); reflexivity.
    Qed.

    Lemma cms_nil_map : forall S, map (cms []) S = S.
    Proof. intros. unfold cms. cbn. apply map_id. Qed.

    Lemma collect_all_fold : forall ms w outs,
        w_reg w = map reg_of (indexed (w_stor w)) ->
        fold_left (fun acc m => let '(w1, o1) := acc in let '(w2, o) := collect_meter c r ts m w1 in (w2, o1 ++ o)) ms (w, outs) =
        (mkW (map (cms ms) (w_stor w)) (w_reg w) (w_handles w),
         outs ++ concat (map (fun i => flat_map (om (nth i ms 0%nat)) (map (cms (firstn i ms)) (w_stor w))) (seq 0 (length ms)))).
    Proof.
      induction ms as [|m ms IH]; intros w outs Hreg.
      - cbn [fold_left length seq map concat]. rewrite app_nil_r, cms_nil_map. destruct w; reflexivity.
      - cbn [fold_left]. rewrite collect_meter_char by auto.
        rewrite IH.
        + cbn [w_stor w_reg w_handles length seq map concat firstn nth]. f_equal.
          * f_equal. rewrite map_map. reflexivity.
          * rewrite <- app_assoc. f_equal. rewrite cms_nil_map. f_equal.
            rewrite <- seq_shift, map_map. f_equal. apply map_ext. intros i. cbn [nth firstn]. rewrite map_map. reflexivity.
        + cbn [w_stor w_reg]. rewrite Hreg. unfold indexed. rewrite reg_of_map_cm. reflexivity.
    Qed.

    (* a storage whose meter is among [a, a+len) is collected exactly once by seq a len *)
    Lemma cms_seq_out : forall len a ds, ((sd_meter (fst ds) < a)%nat \/ (a + len <= sd_meter (fst ds))%nat) -> cms (seq a len) ds = ds.
    Proof.
      induction len as [|len IH]; intros a ds Hm; cbn; auto. unfold cms in *. cbn.
      unfold cm at 2. destruct (Nat.eqb (sd_meter (fst ds)) a) eqn:E.
      - apply Nat.eqb_eq in E. lia.
      - apply IH. lia.
    Qed.
    Lemma cms_seq_in : forall len a ds, (a <= sd_meter (fst ds) < a + len)%nat ->
        cms (seq a len) ds = (fst ds, fst (collect n (temps r) (snd ds) r ts)).
    Proof.
      induction len as [|len IH]; intros a ds Hm; [lia|]. unfold cms in *. cbn.
      unfold cm at 2. destruct (Nat.eqb (sd_meter (fst ds)) a) eqn:E.
      - apply (cms_seq_out len (S a)). cbn. apply Nat.eqb_eq in E. lia.
      - apply IH. apply Nat.eqb_neq in E. lia.
    Qed.

    Lemma firstn_seq : forall i a len, (i <= len)%nat -> firstn i (seq a len) = seq a i.
    Proof.
      induction i as [|i IH]; intros a len H; cbn; auto. destruct len as [|len]; [lia|]. cbn. f_equal. apply IH. lia.
    Qed.

    Lemma om_cms_before : forall i ds, flat_map (om i) [cms (seq 0 i) ds] = flat_map (om i) [ds].
    Proof.
      intros i ds. cbn. rewrite !app_nil_r. unfold om. rewrite cms_meter.
      destruct (Nat.eqb (sd_meter (fst ds)) i) eqn:E; auto.
      rewrite cms_seq_out; auto. apply Nat.eqb_eq in E. lia.
    Qed.

    Theorem collect_all_char : forall w,
        w_reg w = map reg_of (indexed (w_stor w)) ->
        Forall (fun ds => (sd_meter (fst ds) < c_meters c)%nat) (w_stor w) ->
        collect_all c w r ts =
        (mkW (map (fun ds => (fst ds, fst (collect n (temps r) (snd ds) r ts))) (w_stor w)) (w_reg w) (w_handles w),
         flat_map (fun m => flat_map (om m) (w_stor w)) (seq 0 (c_meters c))).
    Proof.
      intros w Hreg Hm. unfold collect_all. rewrite collect_all_fold by auto. cbn [app]. f_equal.
      - f_equal. apply map_ext_in. intros ds Hin. rewrite Forall_forall in Hm. apply cms_seq_in. specialize (Hm ds Hin). lia.
      - rewrite seq_length. rewrite flat_map_concat_map. f_equal. apply map_ext_in. intros i Hi. apply in_seq in Hi.
        rewrite seq_nth by lia. cbn [Nat.add]. rewrite firstn_seq by lia. clear Hreg Hm.
        induction (w_stor w) as [|ds S IH]; cbn [map flat_map]; auto. rewrite IH. f_equal.
        pose proof (om_cms_before i ds) as H. cbn in H. rewrite !app_nil_r in H. exact H.
    Qed.
  End Collect.

  (* ---------------------------------------------------------------- one operation *)
  Lemma newsr_meters : forall hr, Forall (fun x : hinfo => (fst (fst x) < c_meters c)%nat) (newsr hr) ->
      Forall (fun ds => (sd_meter (fst ds) < c_meters c)%nat) (gstor hr).
  Proof.
    intros hr H. unfold gstor, indexed. generalize 0%nat. induction (newsr hr) as [|[[m k] name] l IH]; intros a; cbn; constructor.
    - inversion H; subst. cbn in *. auto.
    - apply IH. inversion H; auto.
  Qed.

  (* what a Collect by reader r at time ts returns after history hr *)
  Definition gobs (hr : list (Z * op)) (r : nat) (ts : Z) : list sdata :=
    flat_map (fun m =>
      flat_map (fun x : nat * hinfo =>
                  let '(h, (m', k, name)) := x in
                  if Nat.eqb m' m then
                    match out_at (is_mono k) n temps (projh h k hr) r ts with
                    | Some md => [mkSData m (sname (m', k, name)) k md]
                    | None => []
                    end
                  else []) (indexed (newsr hr))) (seq 0 (c_meters c)).

  Lemma state_cons' : forall mono o hr, state mono n temps (o :: hr) = fst (sstep akey akey_eqb mono n temps (state mono n temps hr) o).
  Proof. intros. apply state_cons. Qed.

  Lemma reg_set_fresh : forall reg m name sid,
      (forall e, In e reg -> reg_key_eqb m name e = false) -> reg_set reg m name sid = reg ++ [(m, name, sid)].
  Proof.
    intros reg m name sid H. unfold reg_set. f_equal. induction reg as [|e reg IH]; cbn; auto.
    rewrite (H e) by (left; auto). cbn. f_equal. apply IH. intros; apply H; right; auto.
  Qed.

  Lemma in_indexed_gstor : forall hr l a b h' ds,
      In (h', ds) (indexed_from a (map (gentry hr) (indexed_from b l))) -> exists x, In x l /\ fst ds = gdesc x.
  Proof.
    induction l as [|y l IH]; intros a b h' ds Hin; cbn in Hin; [tauto|]. destruct Hin as [Hin|Hin].
    - inversion Hin; subst. exists y. split; [left; auto|reflexivity].
    - destruct (IH _ _ _ _ Hin) as [x [Hx Hd]]. exists x. split; [right; auto|auto].
  Qed.

  Lemma in_indexed_nth : forall A (l : list A) a h (y : A),
      In (h, y) (indexed_from a l) -> (a <= h)%nat /\ nth_error l (h - a) = Some y.
  Proof.
    induction l as [|z l IH]; intros a h y Hin; cbn in Hin; [tauto|]. destruct Hin as [Hin|Hin].
    - inversion Hin; subst. split; [lia|]. rewrite Nat.sub_diag. reflexivity.
    - apply IH in Hin. destruct Hin as [H1 H2]. split; [lia|]. replace (h - a)%nat with (S (h - S a)) by lia. exact H2.
  Qed.

  Lemma reg_of_upd_nth : forall (S : list (sdesc * astor)) h f b,
      (forall ds, fst (f ds) = fst ds) -> map reg_of (indexed_from b (upd_nth h f S)) = map reg_of (indexed_from b S).
  Proof.
    induction S as [|ds S IH]; intros h f b Hf; destruct h; cbn; auto.
    - unfold reg_of at 1 3. cbn. rewrite Hf. reflexivity.
    - f_equal. apply IH; auto.
  Qed.

  Lemma reg_of_map_fst : forall (S : list (sdesc * astor)) g b,
      (forall ds, fst (g ds) = fst ds) -> map reg_of (indexed_from b (map g S)) = map reg_of (indexed_from b S).
  Proof.
    induction S as [|ds S IH]; intros g b Hg; cbn; auto. f_equal; auto.
    unfold reg_of. cbn. rewrite Hg. reflexivity.
  Qed.

  Theorem GW_step : forall hr w t o,
      GW hr w -> Forall (fun x : hinfo => (fst (fst x) < c_meters c)%nat) (newsr hr) -> okstep hr o ->
      GW ((t, o) :: hr) (fst (step c w t o)) /\
      snd (step c w t o) = match o with OCol r => Some (r, gobs hr r t) | _ => None end.
  Proof.
    intros hr w t o [Gs Gr Gh] Hm Hok. destruct o as [m k name | h v a | r].
    - (* Create *)
      destruct Hok as [Hsv [Hmm Hfresh]]. cbn [step fst snd]. split; auto.
      unfold create. unfold single_view in Hsv.
      destruct (find_views (c_views c) m k name) as [|vn [|vn2 vs]] eqn:Ev; cbn in Hsv; try lia.
      cbn [fold_left]. rewrite Gs, Gr.
      assert (Hlen : length (gstor hr) = length (newsr hr)).
      { unfold gstor, indexed. rewrite map_length, indexed_from_length. reflexivity. }
      rewrite reg_set_fresh.
      + constructor; cbn [w_stor w_reg w_handles newsr].
        * unfold gstor, indexed. cbn [newsr]. rewrite indexed_from_app, map_app. cbn [indexed_from map Nat.add]. f_equal.
          -- apply map_ext_in. intros [h' [[m' k'] name']] Hin. apply indexed_from_bounds in Hin. cbn in Hin.
             unfold gentry. cbn [fst snd projh]. replace (Nat.eqb (length (newsr hr)) h') with false; auto.
             symmetry. apply Nat.eqb_neq. lia.
          -- unfold gentry. cbn [fst snd projh gdesc sname]. rewrite Nat.eqb_refl, Ev. cbn [hd]. reflexivity.
        * rewrite Gs. unfold indexed. rewrite indexed_from_app, map_app. cbn [indexed_from map Nat.add]. rewrite Hlen. reflexivity.
        * rewrite Gh. unfold indexed. rewrite indexed_from_app, map_app. cbn [indexed_from map Nat.add fst snd]. rewrite Hlen. reflexivity.
      + intros e He. rewrite Gs in He. apply in_map_iff in He. destruct He as [[h' ds] [E Hin]]. subst e.
        unfold indexed in Hin. unfold gstor, indexed in Hin.
        destruct (in_indexed_gstor hr _ _ _ _ _ Hin) as [x [Hx Hd]].
        specialize (Hfresh x Hx). unfold reg_key_eqb in *. unfold reg_of. cbn [fst snd] in *. rewrite Hd.
        destruct x as [[m' k'] name']. cbn in *. exact Hfresh.
    - (* Add *)
      cbn [step fst snd okstep] in *. split; auto. unfold add. rewrite Gh.
      unfold indexed. rewrite nth_error_map_indexed. destruct (nth_error (newsr hr) h) as [[[m k] name]|] eqn:En.
      2:{ apply nth_error_None in En. lia. }
      cbn [option_map fst snd Nat.add].
      assert (Hproj : forall (x : nat * hinfo), fst x <> h ->
                 projh (fst x) (snd (fst (snd x))) ((t, OAdd h v a) :: hr) = projh (fst x) (snd (fst (snd x))) hr).
      { intros x Hx. cbn [projh]. replace (Nat.eqb h (fst x)) with false; auto. symmetry; apply Nat.eqb_neq; auto. }
      destruct (api_value k v) as [v'|] eqn:Ea.
      + constructor; cbn [w_stor w_reg w_handles newsr fold_left]; auto.
        * rewrite Gs. unfold gstor, indexed. rewrite upd_nth_map_indexed. apply map_ext_in.
          intros x Hin. cbn [Nat.add]. destruct (Nat.eqb (fst x) h) eqn:E.
          -- apply Nat.eqb_eq in E. destruct x as [h' [[m' k'] name']]. cbn in E; subst h'.
             assert (Hx : nth_error (newsr hr) h = Some (m', k', name')).
             { apply in_indexed_nth in Hin. rewrite Nat.sub_0_r in Hin. tauto. }
             rewrite En in Hx. inversion Hx; subst m' k' name'.
             unfold gentry. cbn [fst snd projh]. rewrite Nat.eqb_refl, Ea. rewrite state_cons'. reflexivity.
          -- unfold gentry. rewrite Hproj; auto. apply Nat.eqb_neq; auto.
        * unfold indexed. rewrite reg_of_upd_nth by reflexivity. exact Gr.
      + constructor; cbn [w_stor w_reg w_handles newsr]; auto. rewrite Gs. unfold gstor. apply map_ext_in.
        intros x Hin. unfold gentry. f_equal. f_equal. cbn [projh]. destruct (Nat.eqb h (fst x)) eqn:E; auto.
        apply Nat.eqb_eq in E. subst h. destruct x as [h' [[m' k'] name']]. cbn [fst snd] in *.
        assert (Hx : nth_error (newsr hr) h' = Some (m', k', name')).
        { unfold indexed in Hin. apply in_indexed_nth in Hin. rewrite Nat.sub_0_r in Hin. tauto. }
        rewrite En in Hx. inversion Hx; subst. rewrite Ea. reflexivity.
    - (* Collect *)
      cbn [step okstep] in *. rewrite collect_all_char; auto.
      2:{ rewrite Gs. apply newsr_meters; auto. }
      cbn [fst snd]. split.
      + constructor; cbn [w_stor w_reg w_handles newsr]; auto.
        * rewrite Gs. unfold gstor. rewrite map_map. apply map_ext. intros x. unfold gentry. cbn [fst snd projh].
          rewrite state_cons'. reflexivity.
        * unfold indexed. rewrite reg_of_map_fst by reflexivity. exact Gr.
      + f_equal. f_equal. unfold gobs. apply flat_map_ext. intros m. rewrite Gs. unfold gstor. rewrite flat_map_concat_map, map_map, <- flat_map_concat_map.
        apply flat_map_ext. intros [h [[m' k] name]]. unfold om, gentry. cbn [fst snd gdesc sd_meter sd_name sd_kind].
        destruct (Nat.eqb m' m); auto.
  Qed.
End World.
