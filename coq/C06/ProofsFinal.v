(* C06 proofs, part 7: the statements of Properties_C06.v assembled: model_meets_spec, the two refuted clauses with their
   witnesses and partial versions, and examples showing that the hypotheses of the theorems are satisfiable. *)
From V Require Import C06.Model C06.Spec C06.Glue C06.ProofsTable C06.ProofsStorage C06.ProofsReaders C06.ProofsWorld
     C06.ProofsSpec C06.ProofsMeets.
From Coq Require Import Lia ZifyBool ZifyNat.
Local Open Scope Z_scope.

Lemma distinct_names_NoDup : forall l, distinct_names l = true -> NoDup l.
Proof.
  induction l as [|[m nm] l IH]; intros H; [constructor|]. cbn in H. apply andb_true_iff in H as [H1 H2].
  constructor; auto. intros C. apply negb_true_iff in H1.
  assert (existsb (fun x => Nat.eqb m (fst x) && bytes_eqb nm (snd x)) l = true).
  { apply existsb_exists. exists (m, nm). split; auto. cbn. rewrite Nat.eqb_refl. cbn. apply bytes_eqb_eq. reflexivity. }
  congruence.
Qed.

Section Final.
  Variable c : config.
  Variable ops : list op.
  Hypothesis Hgood : case_good c ops = true.

  Let L := timed ops.
  Let hrF := rev L.

  Lemma good_parts : ops_wf c [] ops = true /\ ops_good c [] ops = true /\
                     distinct_names (map (fun s => (ss_meter s, ss_name s)) (streams c L)) = true.
  Proof.
    unfold case_good, case_wf in Hgood. rewrite !andb_true_iff in Hgood. tauto.
  Qed.

  Lemma good_fwd : fwd_ok c [] 1 ops.
  Proof. destruct good_parts as [H1 [H2 _]]. apply fwd_ok_of_bool; cbn; auto. Qed.

  Lemma good_hist : hist_ok c hrF.
  Proof.
    pose proof (fwd_ok_hist c ops [] 1 I good_fwd) as H. rewrite app_nil_r in H. exact H.
  Qed.

  Lemma good_names : names_distinct c (newsr hrF).
  Proof.
    destruct good_parts as [_ [_ H3]]. apply distinct_names_NoDup in H3.
    unfold L in H3. rewrite (streams_eq c ops good_hist) in H3. rewrite map_map in H3.
    unfold names_distinct, hrF, L. rewrite <- (N_strip ops), map_map.
    erewrite map_ext; [exact H3|]. intros [[[t m] k] name]. reflexivity.
  Qed.

  Theorem model_meets_spec_lemma : spec_run c ops (run c ops) = [].
  Proof.
    unfold spec_run, run. apply dedup_nil.
    rewrite (run_gouts c ops [] world0 1 (GW_init c) I good_fwd).
    apply (spec_cols_ok c ops good_hist good_names ops [] 1); [|exact good_fwd].
    constructor; cbn; auto; try lia. constructor.
  Qed.

  (* the SDK after the whole script *)
  Fixpoint wrun (w : world) (t : Z) (l : list op) : world :=
    match l with [] => w | o :: l' => wrun (fst (step c w t o)) (t + 1) l' end.

  Lemma wrun_GW : forall l hr w t, GW c hr w -> hist_ok c hr -> fwd_ok c hr t l -> GW c (rev (timed_from t l) ++ hr) (wrun w t l).
  Proof.
    induction l as [|o l IH]; intros hr w t G Hok Hf; cbn; auto. destruct Hf as [H1 [H2 H3]].
    pose proof (GW_step c hr w t o G (newsr_meters_ok c hr Hok) H1) as [G' _].
    rewrite <- app_assoc. cbn. apply IH; auto. cbn; auto.
  Qed.

  (* every handle is backed by exactly one storage, that storage is registered for collection under the handle's meter,
     carries the stream name of the one view that applies, and holds exactly the history of the handle's measurements and
     of all collections since its creation *)
  Theorem good_world : forall h m k name,
      nth_error (newsr hrF) h = Some (m, k, name) ->
      nth_error (w_handles (wrun world0 1 ops)) h = Some (k, [h]) /\
      In (m, name, h) (w_reg (wrun world0 1 ops)) /\
      nth_error (w_stor (wrun world0 1 ops)) h =
        Some (mkSD m name (sname c (m, k, name)) k,
              state akey akey_eqb (is_mono k) (nreaders c) (temp_of c) (projh h k hrF)).
  Proof.
    intros h m k name Hn. pose proof (wrun_GW ops [] world0 1 (GW_init c) I good_fwd) as G. rewrite app_nil_r in G.
    unfold hrF, L, timed in *. destruct G as [Gs Gr Gh].
    assert (Hs : nth_error (w_stor (wrun world0 1 ops)) h =
                 Some (mkSD m name (sname c (m, k, name)) k, state akey akey_eqb (is_mono k) (nreaders c) (temp_of c) (projh h k hrF))).
    { rewrite Gs. unfold gstor, indexed. rewrite nth_error_map_indexed, Hn. reflexivity. }
    split; [|split]; auto.
    - rewrite Gh. unfold indexed. rewrite nth_error_map_indexed, Hn. reflexivity.
    - rewrite Gr. apply in_map_iff. exists (h, (mkSD m name (sname c (m, k, name)) k, state akey akey_eqb (is_mono k) (nreaders c) (temp_of c) (projh h k hrF))).
      split; [reflexivity|]. unfold indexed. apply (indexed_from_In _ _ 0%nat). exact Hs.
  Qed.
End Final.

(* ------------------------------------------------------------------------------------------------ the refuted clauses *)
Definition c1 : bytes := bs "c1".

(* F13: the same counter created twice; 10 through the first handle, 1 through the second; one cumulative reader *)
Definition f13_cfg : config := mkCfg [Cumulative] [] 1.
Definition f13_ops : list op := [ONew 0 LongCounter c1; ONew 0 LongCounter c1; OAdd 0 10 []; OAdd 1 1 []; OCol 0].

Lemma every_handle_counts_refuted_lemma :
  case_wf f13_cfg f13_ops = true /\
  run f13_cfg f13_ops = [(0%nat, [mkSData 0 c1 LongCounter (mkMD Cumulative 0 5 [([], 1)])])] /\
  spec_run f13_cfg f13_ops (run f13_cfg f13_ops) = fail "every_handle_counts:duplicate_instrument".
Proof. vm_compute. repeat split; reflexivity. Qed.

(* F14: two views for one counter; one cumulative reader *)
Definition f14_cfg : config :=
  mkCfg [Cumulative] [mkView true (Some c1) None (bs "v1"); mkView true (Some c1) None (bs "v2")] 1.
Definition f14_ops : list op := [ONew 0 LongCounter c1; OAdd 0 3 []; OCol 0].

Lemma every_view_stream_collected_refuted_lemma :
  case_wf f14_cfg f14_ops = true /\
  run f14_cfg f14_ops = [(0%nat, [mkSData 0 (bs "v2") LongCounter (mkMD Cumulative 0 3 [([], 3)])])] /\
  spec_run f14_cfg f14_ops (run f14_cfg f14_ops) = fail "every_view_stream_collected:two_views".
Proof. vm_compute. repeat split; reflexivity. Qed.

(* F12 is repaired: the single delta reader's second point starts where the first ended (regression example) *)
Example f12_fixed :
  run (mkCfg [Delta] [] 1) [ONew 0 LongCounter c1; OAdd 0 5 []; OCol 0; OCol 0; OAdd 0 7 []; OCol 0] =
  [(0%nat, [mkSData 0 c1 LongCounter (mkMD Delta 0 3 [([], 5)])]); (0%nat, []);
   (0%nat, [mkSData 0 c1 LongCounter (mkMD Delta 3 6 [([], 7)])])].
Proof. vm_compute. reflexivity. Qed.

(* ------------------------------------------------------------------------------------------------ non-vacuity *)
(* a good script with two readers of different temporality, two instruments in two meters, a renaming view, attribute
   sets written in different orders, an ignored negative value, interleaved collections *)
Definition ex_cfg : config := mkCfg [Delta; Cumulative] [mkView true (Some c1) None (bs "v1")] 2.
Definition ex_ops : list op :=
  [ONew 0 LongCounter c1; OAdd 0 5 [(bs "k", bs "a"); (bs "j", bs "b")]; OCol 0; ONew 1 DoubleUpDown (bs "up");
   OAdd 0 7 [(bs "j", bs "b"); (bs "k", bs "a")]; OAdd 1 (-3) []; OCol 1; OAdd 0 (2 ^ 63) []; OCol 0; OCol 1].

Example good_case_exists : case_good ex_cfg ex_ops = true /\ length (run ex_cfg ex_ops) = 4%nat.
Proof. vm_compute. split; reflexivity. Qed.

(* a storage history satisfying the hypotheses of the per-reader theorems, with a non-trivial outcome *)
Definition ex_temps (r : nat) : temporality := match r with O => Delta | _ => Cumulative end.
Definition ex_hist : list (sop nat) := [SAdd 1%nat 4; SCol 1 30; SAdd 1%nat 2; SCol 0 20; SAdd 2%nat 1; SAdd 1%nat 5].

Lemma nat_eqb_ok : forall a b : nat, Nat.eqb a b = true <-> a = b.
Proof. intros; apply Nat.eqb_eq. Qed.

Example storage_hypotheses_satisfiable :
  hist_wf nat 2 ex_hist /\ (0 < 2)%nat /\ ex_temps 0 = Delta /\ ex_temps 1 = Cumulative /\
  pointv nat Nat.eqb (out_at nat Nat.eqb false 2 ex_temps ex_hist 0 40) 1%nat = 6 /\
  pointv nat Nat.eqb (out_at nat Nat.eqb false 2 ex_temps ex_hist 1 40) 1%nat = 11 /\
  own nat 0 ex_hist = own nat 0 (SCol 1 35 :: ex_hist) /\
  exists md, out_at nat Nat.eqb false 2 ex_temps ex_hist 0 40 = Some md /\ md_start md = 20.
Proof.
  repeat split; try (vm_compute; reflexivity); try lia.
  - repeat constructor.
  - eexists. split; vm_compute; reflexivity.
Qed.
