(* placeholder until Batch/Proofs*.v land: nothing is claimed proved yet *)
From V Require Import C03.Glue.
Theorem c03_placeholder : True. Proof. exact I. Qed.
Print Assumptions c03_placeholder.
