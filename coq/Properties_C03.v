(* C03 - Exporters are driven one call at a time and within the configured batch bounds (batch processors).
   Property theorems only; proofs are in Batch/Proofs*.v and Batch/Theorems.v. *)
From V Require Import Batch.Model Batch.Glue Batch.Spec Batch.ProofsA Batch.ProofsB Batch.Theorems Batch.TraceSpec Batch.Simple Batch.SimpleProofs Batch.SimpleTrace Batch.Periodic Batch.PeriodicProofs Batch.PeriodicTrace.
From Coq Require Import List Arith.
Import ListNotations.

Theorem c03_batch_size_bounds : forall q b s, reachable q b s ->
  Forall (fun x => 1 <= length x <= Bsz s) (exported s) /\
  (forall x, inflight s = Some x -> 1 <= length x <= Bsz s).
Proof. exact batch_size_bounds. Qed.
Print Assumptions c03_batch_size_bounds.

Theorem c03_export_never_overlaps : forall q b s t e s', reachable q b s -> accept s (t, e) = Some s' ->
  match e with
  | EExpBegin _ | EExpFlush _ => t = 0 /\ inflight s = None
  | EExpEnd _ => t = 0 /\ inflight s <> None /\ inflight s' = None
  | EExpShutdown _ => inflight s = None /\ wp s = WDone
  | _ => True
  end.
Proof. exact export_never_overlaps. Qed.
Print Assumptions c03_export_never_overlaps.

(* every trace the acceptor accepts passes the history checker that ./check runs on the implementation's traces *)
Theorem c03_accepted_trace_meets_spec : forall q b tr s, run (init q b) tr = Some s -> spec_c03 b (pevs tr) = [].
Proof. exact accepted_trace_meets_spec_c03. Qed.
Print Assumptions c03_accepted_trace_meets_spec.

(* simple processors called from any number of threads (Batch/Simple.v) *)
Theorem c03_simple_lock_is_mutex : forall s t1 t2, sreachable s ->
  holds (spc_of s t1) = true -> holds (spc_of s t2) = true -> t1 = t2.
Proof. exact simple_lock_is_mutex. Qed.
Print Assumptions c03_simple_lock_is_mutex.

Theorem c03_simple_export_never_overlaps : forall s t ids s', sreachable s ->
  saccept s (t, SExpBegin ids) = Some s' -> sfly s = None /\ sfly s' = Some t.
Proof. exact simple_export_never_overlaps. Qed.
Print Assumptions c03_simple_export_never_overlaps.

Theorem c03_simple_nonvacuous :
  exists s, srun sinit [(1, SCallOnEnd 7); (2, SCallOnEnd 8); (1, SXchgFlag false); (2, SXchgFlag true); (2, SLdFlag true);
                        (1, SExpBegin [7]); (2, SSpin); (1, SExpEnd true); (1, SStFlag0); (2, SLdFlag false);
                        (2, SXchgFlag false); (2, SExpBegin [8]); (1, SRetOnEnd 7)] = Some s /\ sexported s = [7; 8].
Proof. exact simple_demo. Qed.
Print Assumptions c03_simple_nonvacuous.

(* every trace the simple-processor acceptor accepts passes the C03 history checker run on the implementation's traces *)
Theorem c03_simple_accepted_trace_meets_spec : forall tr s, srun sinit tr = Some s -> simple_walk false 0 (spevs tr) = [].
Proof. exact accepted_trace_meets_simple_spec. Qed.
Print Assumptions c03_simple_accepted_trace_meets_spec.

(* periodic exporting metric reader racing ForceFlush and Shutdown (Batch/Periodic.v) *)
Theorem c03_periodic_export_never_overlaps : forall s t n s', rreachable s ->
  raccept s (t, RExpBegin n) = Some s' -> r_fly s = None.
Proof. exact periodic_export_never_overlaps. Qed.
Print Assumptions c03_periodic_export_never_overlaps.

(* every trace the periodic-reader acceptor accepts passes the C03 history checker (periodic_spec3's walker) *)
Theorem c03_periodic_accepted_trace_meets_spec : forall tr s, rrun rinit tr = Some s -> periodic_walk3 false (rpevs tr) = [].
Proof. exact accepted_trace_meets_periodic_spec3. Qed.
Print Assumptions c03_periodic_accepted_trace_meets_spec.

Theorem c03_nonvacuous : exists s, run (init 1 1) demo_trace = Some s /\ In (2, 1, true) (fl_done s) /\ sh_done s <> [] /\
  dropped s = [12] /\ exported s = [[11]].
Proof. exact demo_reachable. Qed.
Print Assumptions c03_nonvacuous.
