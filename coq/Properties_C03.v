(* C03 - Exporters are driven one call at a time and within the configured batch bounds (batch processors).
   Property theorems only; proofs are in Batch/Proofs*.v and Batch/Theorems.v. *)
From V Require Import Batch.Model Batch.ProofsA Batch.ProofsB Batch.Theorems.
From Coq Require Import List Arith.
Import ListNotations.

Theorem c03_batch_size_bounds : forall q b s, reachable q b s ->
  Forall (fun x => 1 <= length x <= Bsz s) (exported s) /\
  (forall x, inflight s = Some x -> 1 <= length x <= Bsz s).
Proof. exact batch_size_bounds. Qed.
Print Assumptions c03_batch_size_bounds.

Theorem c03_export_never_overlaps : forall q b s t e s', reachable q b s -> accept s (t, e) = Some s' ->
  match e with
  | EExpBegin _ | EExpFlush _ => t = 0 /\ inflight s = None
  | EExpEnd _ => t = 0 /\ inflight s <> None /\ inflight s' = None
  | EExpShutdown _ => inflight s = None /\ wp s = WDone
  | _ => True
  end.
Proof. exact export_never_overlaps. Qed.
Print Assumptions c03_export_never_overlaps.

Theorem c03_nonvacuous : exists s, run (init 1 1) demo_trace = Some s /\ In (2, 1, true) (fl_done s) /\ sh_done s <> [] /\
  dropped s = [12] /\ exported s = [[11]].
Proof. exact demo_reachable. Qed.
Print Assumptions c03_nonvacuous.
