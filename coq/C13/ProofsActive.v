(* C13 proofs, part 6: which identity CreateLogRecord sees.  The runtime context is C10's model (heap of context
   nodes, per-thread Stack); here: an invariant of the log machine over every operation sequence, and on top of
   it - a scope makes its value the active one on ITS thread only, a context without the span key hides it,
   a context derived from the current one inherits it, closing the innermost scope re-activates what was active
   before, operations that are not context operations never change what is active. *)
From V Require Import C13.Spec C13.ProofsBase C13.ProofsFields C10.ProofsCtx C10.ProofsStack.
From Coq Require Import Lia.
Local Open Scope nat_scope.

Record CInv (st : lstate) : Prop := mkCI {
  ci_len : length (s_stks st) = nthreads;
  ci_wf : forall t, stack_wf (stk_of st t);
  ci_ok : forall t c, In c (abs (stk_of st t)) -> ctx_ok (s_nodes st) c
}.

Lemma stk_of_default : forall st t, nthreads <= t -> length (s_stks st) = nthreads -> stk_of st t = stack0.
Proof. intros. unfold stk_of. apply nth_overflow. lia. Qed.

Lemma CInv_init : forall m ps, CInv (lstate0 m ps).
Proof.
  intros. constructor.
  - reflexivity.
  - intro t. unfold stk_of, lstate0. cbn [s_stks]. destruct t as [|[|[|[|t]]]]; cbn; apply stack0_wf.
  - intros t c Hin. unfold stk_of, lstate0 in Hin. cbn [s_stks] in Hin. destruct t as [|[|[|[|t]]]]; cbn in Hin; contradiction.
Qed.

Lemma top_ok : forall st t, CInv st -> ctx_ok (s_nodes st) (top (stk_of st t)).
Proof.
  intros st t H. rewrite (top_abs _ (ci_wf _ H t)). destruct (abs (stk_of st t)) as [|c r] eqn:A; [exact I|].
  apply (ci_ok _ H t). rewrite A. left. reflexivity.
Qed.

Lemma get_value_cons_old : forall n h c key, ctx_ok h c -> get_value (n :: h) c key = get_value h c key.
Proof. intros. unfold get_value. rewrite chain_cons_old by assumption. reflexivity. Qed.

Lemma stk_of_set_same : forall st nodes t s toks, t < nthreads -> length (s_stks st) = nthreads ->
  stk_of (with_stack st nodes t s toks) t = s.
Proof. intros. unfold stk_of, with_stack. cbn [s_stks]. apply nth_set_nth_same. lia. Qed.
Lemma stk_of_set_other : forall st nodes t s toks t', t' <> t ->
  stk_of (with_stack st nodes t s toks) t' = stk_of st t'.
Proof. intros. unfold stk_of, with_stack. cbn [s_stks]. apply nth_set_nth_other. congruence. Qed.

Lemma nodes_with_stack : forall st nodes t s toks, s_nodes (with_stack st nodes t s toks) = nodes.
Proof. reflexivity. Qed.

(* ------------------------------------------------------------------ Attach *)
Lemma attach_CInv : forall st t base k v, CInv st -> t < nthreads -> ctx_ok (s_nodes st) base -> CInv (attach st t base k v).
Proof.
  intros st t base k v H T B. unfold attach, set_value, alloc.
  constructor.
  - cbn [s_stks with_stack]. rewrite set_nth_length. apply (ci_len _ H).
  - intro t'. destruct (Nat.eq_dec t' t) as [->|N].
    + rewrite stk_of_set_same by (try assumption; apply (ci_len _ H)). apply push_abs. apply (ci_wf _ H).
    + rewrite stk_of_set_other by assumption. apply (ci_wf _ H).
  - intros t' c Hin. cbn [with_stack s_nodes]. destruct (Nat.eq_dec t' t) as [->|N].
    + rewrite stk_of_set_same in Hin by (try assumption; apply (ci_len _ H)).
      rewrite (proj2 (push_abs _ _ (ci_wf _ H t))) in Hin. destruct Hin as [<-|Hin].
      * cbn. lia.
      * apply (ctx_ok_app [_]). apply (ci_ok _ H t). assumption.
    + rewrite stk_of_set_other in Hin by assumption. apply (ctx_ok_app [_]). apply (ci_ok _ H t'). assumption.
Qed.

(* what is active after Attach(base.SetValue(k, v)) on thread t *)
Lemma attach_active : forall st t base k v, CInv st -> t < nthreads -> ctx_ok (s_nodes st) base ->
  active_value (attach st t base k v) t =
    (if bytes_eqb k span_key then v else get_value (s_nodes st) base span_key) /\
  forall t', t' <> t -> active_value (attach st t base k v) t' = active_value st t'.
Proof.
  intros st t base k v H T B. unfold active_value. split.
  - unfold attach. destruct (set_value (s_nodes st) base k v) as [hh cc] eqn:SV. cbn [with_stack s_nodes].
    rewrite stk_of_set_same by (try assumption; apply (ci_len _ H)).
    rewrite (top_abs _ (proj1 (push_abs _ cc (ci_wf _ H t)))), (proj2 (push_abs _ cc (ci_wf _ H t))). cbn [hd].
    assert (E1 : hh = fst (set_value (s_nodes st) base k v)) by (rewrite SV; reflexivity).
    assert (E2 : cc = snd (set_value (s_nodes st) base k v)) by (rewrite SV; reflexivity).
    rewrite E1, E2. destruct (bytes_eqb k span_key) eqn:E.
    + apply bytes_eqb_eq in E. subst k. apply set_value_get_same.
    + apply set_value_get_other. intro X. subst k. rewrite bytes_eqb_refl in E. discriminate.
  - intros t' N. unfold attach, set_value, alloc. cbn [with_stack s_nodes].
    rewrite stk_of_set_other by assumption. apply get_value_cons_old. apply top_ok. assumption.
Qed.

(* ------------------------------------------------------------------ Detach *)
Lemma lunwind_sub : forall c l r, lunwind c l = Some r -> forall x, In x r -> In x l.
Proof.
  induction l as [|y l IH]; intros r E x Hin; cbn in E; [discriminate|].
  destruct (ctx_eqb c y); [inversion E; subst; right; assumption|]. right. eapply IH; eassumption.
Qed.
Lemma ldetach_sub : forall l c x, In x (fst (ldetach l c)) -> In x l.
Proof.
  intros l c x Hin. unfold ldetach in Hin. destruct (lunwind c l) as [r|] eqn:E; cbn [fst] in Hin; [|assumption].
  eapply lunwind_sub; eassumption.
Qed.

Lemma close_CInv : forall st t cx toks, CInv st -> t < nthreads ->
  CInv (with_stack st (s_nodes st) t (fst (detach (stk_of st t) cx)) toks).
Proof.
  intros st t cx toks H T. destruct (detach_abs _ cx (ci_wf _ H t)) as [W A].
  constructor.
  - cbn [s_stks with_stack]. rewrite set_nth_length. apply (ci_len _ H).
  - intro t'. destruct (Nat.eq_dec t' t) as [->|N].
    + rewrite stk_of_set_same by (try assumption; apply (ci_len _ H)). exact W.
    + rewrite stk_of_set_other by assumption. apply (ci_wf _ H).
  - intros t' c Hin. cbn [with_stack s_nodes]. destruct (Nat.eq_dec t' t) as [->|N].
    + rewrite stk_of_set_same in Hin by (try assumption; apply (ci_len _ H)).
      apply (ci_ok _ H t). apply (ldetach_sub _ cx). rewrite <- A. exact Hin.
    + rewrite stk_of_set_other in Hin by assumption. apply (ci_ok _ H t'). assumption.
Qed.

(* ------------------------------------------------------------------ every operation *)
Definition is_ctx_op (o : lop) : bool :=
  match o with LScope _ _ | LAttachOther _ | LAttachBare _ | LClose _ => true | _ => false end.

(* operations of the log API never touch the runtime context *)
Lemma emit_with_args_frame : forall c st l sl args st', emit_with_args c st l sl args = Ok st' ->
  s_nodes st' = s_nodes st /\ s_stks st' = s_stks st /\ s_toks st' = s_toks st.
Proof.
  intros c st l sl args st' E. unfold emit_with_args in E. destruct sl.
  - inversion E; subst. repeat split.
  - destruct (logger_enabled c l); [discriminate|].
    inversion E; subst. repeat split.
  - destruct (logger_enabled c l); inversion E; subst; repeat split.
Qed.
Lemma emit_variadic_frame : forall c st t l args st', emit_variadic c st t l args = Ok st' ->
  s_nodes st' = s_nodes st /\ s_stks st' = s_stks st /\ s_toks st' = s_toks st.
Proof.
  intros c st t l args st' E. unfold emit_variadic in E.
  destruct (emit_with_args c st l _ args) as [s1|] eqn:EW; try discriminate. inversion E; subst.
  apply emit_with_args_frame in EW. exact EW.
Qed.

Theorem log_ops_frame : forall c st o st', is_ctx_op o = false -> lstep c st o = Ok st' ->
  s_nodes st' = s_nodes st /\ s_stks st' = s_stks st /\ s_toks st' = s_toks st.
Proof.
  intros c st o st' N E. destruct o; try discriminate N; cbn [lstep] in E.
  - destruct (Nat.ltb t nthreads && Nat.ltb l (length (c_loggers c))); [|discriminate]. inversion E; subst. repeat split.
  - destruct (negb (arg_ok (s_mem st) a)); [discriminate|].
    destruct (nth_error (s_slots st) r) as [[| |ch]|]; try discriminate; inversion E; subst; repeat split.
  - destruct (negb _); [discriminate|]. destruct (nth_error (s_slots st) r) as [sl|]; [|discriminate].
    destruct (negb (logger_enabled c l)); [inversion E; subst; repeat split|].
    destruct sl; try discriminate; inversion E; subst; repeat split.
  - destruct (Nat.ltb t nthreads && Nat.ltb l (length (c_loggers c))); [|discriminate]. inversion E; subst. repeat split.
  - destruct (negb _); [discriminate|]. eapply emit_variadic_frame; eassumption.
  - destruct (negb _); [discriminate|]. destruct (nth_error (s_slots st) r) as [sl|]; [|discriminate].
    destruct (emit_with_args c st l sl args) as [s1|] eqn:EW; try discriminate. inversion E; subst.
    apply emit_with_args_frame in EW. exact EW.
  - destruct (log_args form sev id name msg kvs) as [args|]; [|discriminate].
    destruct (negb _); [discriminate|]. eapply emit_variadic_frame; eassumption.
  - destruct (negb _); [discriminate|]. eapply emit_variadic_frame; eassumption.
  - destruct (nth_error (s_mem st) a) as [old|]; [|discriminate]. destruct (same_shape (s_mem st) old b); [|discriminate].
    inversion E; subst. repeat split.
  - inversion E; subst. repeat split.
  - destruct (nth_error (c_loggers c) l) as [[[[? ?] ?] ?]|]; [|discriminate]. inversion E; subst. repeat split.
  - destruct (negb _); [discriminate|]. inversion E; subst; clear E. cbn [with_out s_nodes s_stks s_toks].
    destruct (logger_enabled c l); [|repeat split].
    generalize (map_children (fun r => fold_left (fun r a => set_arg a r) args r) (create_multi st (active_ident c st t))). intro ch.
    clear N. revert st. induction n as [|n IH]; intro st; cbn [emit_n]; [repeat split|].
    destruct (IH (emit_children c st l ch)) as (E1 & E2 & E3). rewrite E1, E2, E3. repeat split.
Qed.

Lemma CInv_frame : forall st st', s_nodes st' = s_nodes st -> s_stks st' = s_stks st -> CInv st -> CInv st'.
Proof.
  intros st st' E1 E2 H. constructor.
  - rewrite E2. apply (ci_len _ H).
  - intro t. unfold stk_of. rewrite E2. apply (ci_wf _ H t).
  - intros t c Hin. unfold stk_of in Hin. rewrite E2 in Hin. rewrite E1. apply (ci_ok _ H t). exact Hin.
Qed.
Lemma CInv_with_out : forall st o, CInv st -> CInv (with_out st o).
Proof. intros. eapply CInv_frame; [| |eassumption]; reflexivity. Qed.

Theorem step_CInv : forall c st o st', CInv st -> lstep c st o = Ok st' -> CInv st'.
Proof.
  intros c st o st' H E. destruct (is_ctx_op o) eqn:K.
  - destruct o; try discriminate K; cbn [lstep] in E.
    + destruct (Nat.ltb t nthreads) eqn:T; cbn [andb] in E; [|discriminate]. destruct (sval_ok c v); [|discriminate].
      inversion E; subst. apply CInv_with_out. apply Nat.ltb_lt in T. apply attach_CInv; [assumption | assumption | apply top_ok; assumption].
    + destruct (Nat.ltb t nthreads) eqn:T; [|discriminate]. inversion E; subst. apply CInv_with_out. apply Nat.ltb_lt in T.
      apply attach_CInv; [assumption | assumption | apply top_ok; assumption].
    + destruct (Nat.ltb t nthreads) eqn:T; [|discriminate]. inversion E; subst. apply CInv_with_out. apply Nat.ltb_lt in T.
      apply attach_CInv; [assumption | assumption | exact I].
    + destruct (nth_error (s_toks st) k) as [[[t cx] [|]]|]; try discriminate. inversion E; subst. apply CInv_with_out.
      destruct (Nat.lt_ge_cases t nthreads) as [T|T]; [apply close_CInv; assumption|].
      (* a token of a thread that does not exist cannot have been made; the stack touched is the default one *)
      eapply CInv_frame; [| |exact H]; [reflexivity|]. cbn [with_stack s_stks].
      clear -T H. pose proof (ci_len _ H) as L. revert L. generalize (s_stks st). intros l L.
      assert (G : forall (l : list stack) t v, length l <= t -> set_nth t v l = l).
      { induction l0 as [|x l0 IH]; intros [|t0] v0 Hl; cbn in *; try reflexivity; try lia. rewrite IH by lia. reflexivity. }
      apply G. lia.
  - destruct (log_ops_frame c st o st' K E) as (E1 & E2 & _). eapply CInv_frame; eassumption.
Qed.

Theorem run_CInv : forall c ops st st', CInv st -> lrun c st ops = Ok st' -> CInv st'.
Proof.
  induction ops as [|o ops IH]; intros st st' H E; cbn [lrun] in E; [inversion E; subst; assumption|].
  destruct (lstep c st o) as [s1|] eqn:S; try discriminate. eapply IH; [eapply step_CInv; eassumption | exact E].
Qed.

(* ------------------------------------------------------------------ the named facts *)
Lemma with_out_active : forall st o t, active_value (with_out st o) t = active_value st t.
Proof. reflexivity. Qed.

(* a Scope / Attach makes its value the active one on its own thread and leaves every other thread alone *)
Theorem scope_activates : forall c st t v st', CInv st -> lstep c st (LScope t v) = Ok st' ->
  active_value st' t = value_of_sval v /\ forall t', t' <> t -> active_value st' t' = active_value st t'.
Proof.
  intros c st t v st' H E. cbn [lstep] in E. destruct (Nat.ltb t nthreads) eqn:T; cbn [andb] in E; [|discriminate].
  destruct (sval_ok c v); [|discriminate]. inversion E; subst; clear E. apply Nat.ltb_lt in T.
  destruct (attach_active st t (top (stk_of st t)) span_key (value_of_sval v) H T (top_ok _ _ H)) as [A1 A2].
  rewrite bytes_eqb_refl in A1. split; [exact A1 | exact A2].
Qed.

(* a context derived from the current one by another key inherits what is active *)
Theorem attach_other_inherits : forall c st t st', CInv st -> lstep c st (LAttachOther t) = Ok st' ->
  forall t', active_value st' t' = active_value st t'.
Proof.
  intros c st t st' H E t'. cbn [lstep] in E. destruct (Nat.ltb t nthreads) eqn:T; [|discriminate].
  inversion E; subst; clear E. apply Nat.ltb_lt in T.
  destruct (attach_active st t (top (stk_of st t)) other_key (KB, 1%Z) H T (top_ok _ _ H)) as [A1 A2].
  destruct (Nat.eq_dec t' t) as [->|N]; [|apply A2; assumption].
  rewrite with_out_active, A1. reflexivity.
Qed.

(* a context that does not descend from the current one hides the active span on its thread *)
Theorem attach_bare_hides : forall c st t st', CInv st -> lstep c st (LAttachBare t) = Ok st' ->
  active_value st' t = vnone /\ forall t', t' <> t -> active_value st' t' = active_value st t'.
Proof.
  intros c st t st' H E. cbn [lstep] in E. destruct (Nat.ltb t nthreads) eqn:T; [|discriminate].
  inversion E; subst; clear E. apply Nat.ltb_lt in T.
  destruct (attach_active st t root other_key (KB, 1%Z) H T I) as [A1 A2]. split; [|exact A2].
  rewrite with_out_active, A1. assert (X : bytes_eqb other_key span_key = false) by (vm_compute; reflexivity). rewrite X.
  unfold get_value, root. destruct (s_nodes st); reflexivity.
Qed.

(* closing the innermost scope re-activates what was active before it was opened, on every thread *)
Theorem close_innermost_restores : forall c st t v st1 st2, CInv st ->
  lstep c st (LScope t v) = Ok st1 -> lstep c st1 (LClose (length (s_toks st))) = Ok st2 ->
  forall t', active_value st2 t' = active_value st t'.
Proof.
  intros c st t v st1 st2 H E1 E2 t'. cbn [lstep] in E1.
  destruct (Nat.ltb t nthreads) eqn:T; cbn [andb] in E1; [|discriminate]. destruct (sval_ok c v); [|discriminate].
  inversion E1; subst st1; clear E1. apply Nat.ltb_lt in T.
  unfold attach, set_value, alloc in E2. cbn [lstep with_out with_stack s_toks] in E2.
  rewrite nth_error_app2 in E2 by lia. rewrite Nat.sub_diag in E2. cbn [nth_error] in E2.
  inversion E2; subst st2; clear E2. rewrite with_out_active.
  set (c0 := Some (length (s_nodes st))) in *.
  set (n0 := mk_node (Some span_key) (value_of_sval v) (top (stk_of st t))) in *.
  unfold active_value. rewrite nodes_with_stack.
  destruct (Nat.eq_dec t' t) as [->|N].
  - rewrite stk_of_set_same; [|assumption|cbn [with_out with_stack s_stks]; rewrite set_nth_length; apply (ci_len _ H)].
    match goal with |- context [detach (stk_of ?X t) _] =>
      assert (S1 : stk_of X t = push (stk_of st t) c0) by (apply (stk_of_set_same st); [assumption | apply (ci_len _ H)]);
      rewrite S1 end.
    destruct (push_abs _ c0 (ci_wf _ H t)) as [W A].
    destruct (detach_abs _ c0 W) as [W2 A2]. rewrite A, ldetach_top in A2.
    rewrite (top_abs _ W2). inversion A2 as [[A3 A4]]. rewrite A3. rewrite <- (top_abs _ (ci_wf _ H t)).
    apply get_value_cons_old. apply top_ok. assumption.
  - rewrite stk_of_set_other by assumption.
    match goal with |- context [top (stk_of ?X t')] =>
      assert (S2 : stk_of X t' = stk_of st t') by (apply (stk_of_set_other st); assumption);
      rewrite S2 end.
    apply get_value_cons_old. apply top_ok. assumption.
Qed.

(* what the log API does never changes what is active on any thread *)
Theorem log_ops_keep_active : forall c st o st' t, is_ctx_op o = false -> lstep c st o = Ok st' ->
  active_value st' t = active_value st t.
Proof.
  intros c st o st' t K E. destruct (log_ops_frame c st o st' K E) as (E1 & E2 & _).
  unfold active_value, stk_of. rewrite E1, E2. reflexivity.
Qed.

(* ------------------------------------------------------------------ from the active value to the identity copied *)
Lemma ident_span : forall c s i, nth_error (c_spans c) s = Some i -> ident_of_value c (value_of_sval (SVSpan s)) = Some i.
Proof.
  intros c s i E. unfold ident_of_value. cbn [value_of_sval is_none fst snd].
  destruct (0 <=? Z.of_nat s)%Z eqn:L; [|apply Z.leb_gt in L; lia]. rewrite Nat2Z.id. exact E.
Qed.
Lemma ident_ctx : forall c s i, nth_error (c_spans c) s = Some i -> ident_of_value c (value_of_sval (SVCtx s)) = Some i.
Proof.
  intros c s i E. unfold ident_of_value. cbn [value_of_sval is_none fst snd].
  destruct (0 <=? Z.of_nat s)%Z eqn:L; [|apply Z.leb_gt in L; lia]. rewrite Nat2Z.id. exact E.
Qed.
Lemma ident_none : forall c, ident_of_value c vnone = None /\ ident_of_value c (value_of_sval SVNullSpan) = None /\
  ident_of_value c (value_of_sval SVNullCtx) = None /\ ident_of_value c (value_of_sval SVBool) = None.
Proof. intro c. repeat split; reflexivity. Qed.
