(* C13 proofs, part 1: tokens and chunks (the checker's eating of an observation), "the last one supplied",
   unique decoding of printed values. *)
From V Require Import C13.Spec C10.ProofsCtx.
From Coq Require Import Lia.
Local Open Scope nat_scope.

(* ------------------------------------------------------------------ token equality *)
Lemma tok_eqb_eq : forall a b, tok_eqb a b = true <-> a = b.
Proof.
  intros [x|x|x] [y|y|y]; cbn; split; intro H; try discriminate; try (inversion H; subst).
  - apply bytes_eqb_eq in H. congruence.
  - apply bytes_eqb_refl.
  - apply Z.eqb_eq in H. congruence.
  - apply Z.eqb_refl.
  - apply bytes_eqb_eq in H. congruence.
  - apply bytes_eqb_refl.
Qed.
Lemma tok_eqb_refl : forall a, tok_eqb a a = true.
Proof. intro a. apply tok_eqb_eq. reflexivity. Qed.

Lemma strip_prefix_spec : forall p l r, strip_prefix p l = Some r <-> l = p ++ r.
Proof.
  induction p as [|x p IH]; intros l r; cbn.
  - split; intro H; [inversion H; reflexivity | subst; reflexivity].
  - destruct l as [|y l].
    + split; intro H; discriminate.
    + destruct (tok_eqb x y) eqn:E.
      * apply tok_eqb_eq in E. subst y. rewrite IH. split; intro H; [subst; reflexivity | inversion H; reflexivity].
      * split; intro H; [discriminate|]. inversion H. subst. rewrite tok_eqb_refl in E. discriminate.
Qed.
Lemma strip_prefix_app : forall p r, strip_prefix p (p ++ r) = Some r.
Proof. intros. apply strip_prefix_spec. reflexivity. Qed.

(* ------------------------------------------------------------------ eating *)
Lemma eat_app : forall cs1 cs2 obs known,
  eat (cs1 ++ cs2) obs known =
  match eat cs1 obs known with EOk r k => eat cs2 r k | EFail t => EFail t end.
Proof.
  induction cs1 as [|[[e alt] cl] cs1 IH]; intros; cbn; [reflexivity|].
  destruct (strip_prefix e obs) as [r|]; [apply IH|].
  destruct alt as [[e' cl']|]; [|reflexivity].
  destruct (strip_prefix e' obs) as [r|]; [apply IH | reflexivity].
Qed.

Lemma eat_plain : forall e cl rest known, eat [plain e cl] (e ++ rest) known = EOk rest known.
Proof. intros. cbn. rewrite strip_prefix_app. reflexivity. Qed.

(* a list of plain chunks eats exactly the concatenation of its tokens *)
Definition all_plain (cs : list chunk) : Prop := Forall (fun c => snd (fst c) = None) cs.
Definition toks_of (cs : list chunk) : list tok := flat_map (fun c => fst (fst c)) cs.

Lemma eat_all_plain : forall cs rest known, all_plain cs -> eat cs (toks_of cs ++ rest) known = EOk rest known.
Proof.
  induction cs as [|[[e alt] cl] cs IH]; intros rest known H; cbn; [reflexivity|].
  inversion H as [|? ? H1 H2]; subst. cbn in H1. subst alt.
  rewrite <- app_assoc, strip_prefix_app. apply IH. assumption.
Qed.

(* ------------------------------------------------------------------ "the last one supplied" *)
Lemma picks_app : forall A (f : arg -> option A) h1 h2, picks f (h1 ++ h2) = picks f h1 ++ picks f h2.
Proof. intros. unfold picks. apply flat_map_app. Qed.

Lemma lastof_snoc : forall A (f : arg -> option A) h a,
  lastof f (h ++ [a]) = match f a with Some x => Some x | None => lastof f h end.
Proof.
  intros. unfold lastof. rewrite picks_app, rev_app_distr. cbn. destruct (f a); cbn; [reflexivity|].
  reflexivity.
Qed.
Lemma lastof_nil : forall A (f : arg -> option A), lastof f [] = None.
Proof. reflexivity. Qed.

Lemma lastof_app_none : forall A (f : arg -> option A) h1 h2,
  lastof f h2 = None -> lastof f (h1 ++ h2) = lastof f h1.
Proof.
  intros A f h1 h2. revert h1. induction h2 as [|a h2 IH] using rev_ind; intros h1 H.
  - rewrite app_nil_r. reflexivity.
  - rewrite lastof_snoc in H. rewrite app_assoc, lastof_snoc. destruct (f a); [discriminate|]. apply IH. assumption.
Qed.
Lemma lastof_app_some : forall A (f : arg -> option A) h1 h2 x,
  lastof f h2 = Some x -> lastof f (h1 ++ h2) = Some x.
Proof.
  intros A f h1 h2. revert h1. induction h2 as [|a h2 IH] using rev_ind; intros h1 x H.
  - discriminate.
  - rewrite lastof_snoc in H. rewrite app_assoc, lastof_snoc. destruct (f a); [assumption|]. apply IH. assumption.
Qed.

(* ------------------------------------------------------------------ printed values decode uniquely *)
Lemma map_app_inv : forall A B (f : A -> B) (l1 l2 : list A) r1 r2,
  (forall x y, f x = f y -> x = y) -> length l1 = length l2 ->
  map f l1 ++ r1 = map f l2 ++ r2 -> l1 = l2 /\ r1 = r2.
Proof.
  induction l1 as [|x l1 IH]; destruct l2 as [|y l2]; cbn; intros r1 r2 Hi Hl H; try discriminate.
  - split; [reflexivity | assumption].
  - inversion H as [[H0 H1]]. apply Hi in H0. subst y.
    destruct (IH l2 r1 r2 Hi) as [E1 E2]; [lia | assumption | subst; split; reflexivity].
Qed.

Lemma akind_tag_inj : forall a b, akind_tag a = akind_tag b -> a = b.
Proof. intros [] [] H; try reflexivity; cbv in H; discriminate. Qed.

Lemma tbool_inj : forall a b, tbool a = tbool b -> a = b.
Proof. intros [] [] H; try reflexivity; cbv in H; discriminate. Qed.

Lemma tnat_inj : forall a b, tnat a = tnat b -> a = b.
Proof. intros a b H. unfold tnat in H. inversion H. lia. Qed.

Lemma print_oval_inj : forall o1 o2 r1 r2,
  print_oval o1 ++ r1 = print_oval o2 ++ r2 -> o1 = o2 /\ r1 = r2.
Proof.
  intros o1 o2 r1 r2 H.
  destruct o1, o2; cbn in H; try (exfalso; cbv in H; discriminate H);
    try (inversion H; subst; split; reflexivity).
  - inversion H as [[H0 H1]]. destruct b, b0; try discriminate H0; split; reflexivity.
  - inversion H as [[H0 H1 H2]].
    assert (K : k = k0) by (destruct k, k0; try reflexivity; cbv in H0; discriminate H0). subst k0.
    assert (L : length l = length l0) by lia.
    destruct (map_app_inv _ _ TZ l l0 r1 r2) as [E1 E2]; [intros x y E; inversion E; reflexivity | exact L | exact H2 |].
    subst. split; reflexivity.
  - inversion H as [[H0 H1]].
    assert (L : length l = length l0) by lia.
    destruct (map_app_inv _ _ TB l l0 r1 r2) as [E1 E2]; [intros x y E; inversion E; reflexivity | exact L | exact H1 |].
    subst. split; reflexivity.
Qed.

Lemma oval_eq_dec : forall a b : oval, {a = b} + {a <> b}.
Proof.
  assert (BD : forall x y : byte, {x = y} + {x <> y}) by (intros; destruct (Byte.eqb x y) eqn:E; [left; apply byte_eqb_eq; assumption | right; intro; subst; rewrite (proj2 (byte_eqb_eq y y) eq_refl) in E; discriminate]).
  assert (LB : forall x y : bytes, {x = y} + {x <> y}) by (apply list_eq_dec; exact BD).
  decide equality; try apply Z.eq_dec; try apply Bool.bool_dec; try apply LB.
  - apply list_eq_dec. apply Z.eq_dec.
  - decide equality.
  - apply list_eq_dec. exact LB.
Qed.
