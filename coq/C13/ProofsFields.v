(* C13 proofs, part 2: a record is its history.  For EVERY argument list, folding the setter traits left to
   right over a freshly created record gives, field by field, "the last one supplied, else the default / the
   identity active at creation"; the attribute map is "per key the last value written". *)
From V Require Import C13.Spec C13.ProofsBase C10.ProofsCtx.
From Coq Require Import Lia.
Local Open Scope nat_scope.

Definition apply_args (args : list arg) (r : rec) : rec := fold_left (fun r a => set_arg a r) args r.
Definition build (act : option ident) (hist : list arg) : rec := apply_args hist (rec_created act).
Definition sealed (l : nat) (r : rec) : rec := set_scope l (set_res r).

Lemma apply_args_app : forall a b r, apply_args (a ++ b) r = apply_args b (apply_args a r).
Proof. intros. unfold apply_args. apply fold_left_app. Qed.
Lemma build_snoc : forall act h a, build act (h ++ [a]) = set_arg a (build act h).
Proof. intros. unfold build. rewrite apply_args_app. reflexivity. Qed.
Lemma build_app : forall act h1 h2, build act (h1 ++ h2) = apply_args h2 (build act h1).
Proof. intros. unfold build. apply apply_args_app. Qed.

(* ------------------------------------------------------------------ the attribute fold only touches the map *)
Definition ups (l : list (bytes * aval)) (kv : bytes * aval) : list (bytes * aval) := upsert (fst kv) (snd kv) l.

Lemma fold_attr_eq : forall kvs r,
  fold_left (fun r kv => set_attr (fst kv) (snd kv) r) kvs r =
  mk_rec (r_sev r) (r_body r) (r_ts r) (r_obs r) (r_eid r) (r_ename r) (r_trace r) (fold_left ups kvs (r_attrs r))
         (r_res r) (r_scope r) (r_nobs r) (r_nres r) (r_nscope r).
Proof.
  induction kvs as [|kv kvs IH]; intro r; cbn [fold_left].
  - destruct r; reflexivity.
  - rewrite IH. reflexivity.
Qed.

Definition tid_of (r : rec) : bytes := fst (fst (trace_or_new r)).
Definition sid_of (r : rec) : bytes := snd (fst (trace_or_new r)).
Definition fl_of (r : rec) : Z := snd (trace_or_new r).

Ltac crush_set a r :=
  destruct a as [s|id [n|]|h v|t s f|s|t|f|z|z|h kvs|z|id n]; cbn [set_arg];
  rewrite ?fold_attr_eq;
  unfold set_fl, set_tid, set_sid, set_sev, set_body, set_ts, set_obs, set_eid, with_trace;
  repeat match goal with |- context [trace_or_new ?x] => destruct (trace_or_new x) as [[? ?] ?] eqn:? end;
  cbn; try reflexivity.

Lemma sev_set : forall a r, r_sev (set_arg a r) = match x_sev a with Some s => s | None => r_sev r end.
Proof. intros a r. crush_set a r. Qed.
Lemma body_set : forall a r, r_body (set_arg a r) = match x_body a with Some s => s | None => r_body r end.
Proof. intros a r. crush_set a r. Qed.
Lemma ts_set : forall a r, r_ts (set_arg a r) = match x_ts a with Some s => s | None => r_ts r end.
Proof. intros a r. crush_set a r. Qed.
Lemma obs_set : forall a r, r_obs (set_arg a r) = match x_obs a with Some s => Some s | None => r_obs r end.
Proof. intros a r. crush_set a r. Qed.
Lemma nobs_set : forall a r, r_nobs (set_arg a r) = if is_obs a then S (r_nobs r) else r_nobs r.
Proof. intros a r. crush_set a r. Qed.
Lemma eid_set : forall a r,
  (r_eid (set_arg a r), r_ename (set_arg a r)) = match x_eid a with Some p => p | None => (r_eid r, r_ename r) end.
Proof. intros a r. crush_set a r. Qed.
Lemma res_set : forall a r, r_res (set_arg a r) = r_res r /\ r_scope (set_arg a r) = r_scope r /\
                            r_nres (set_arg a r) = r_nres r /\ r_nscope (set_arg a r) = r_nscope r.
Proof. intros a r. crush_set a r; repeat split. Qed.
Lemma attrs_set : forall a r, r_attrs (set_arg a r) = fold_left ups (kvs_of a) (r_attrs r).
Proof. intros a r. crush_set a r. Qed.

Lemma trace_set : forall a r,
  tid_of (set_arg a r) = match x_tid a with Some t => t | None => tid_of r end /\
  sid_of (set_arg a r) = match x_sid a with Some t => t | None => sid_of r end /\
  fl_of (set_arg a r) = match x_fl a with Some t => t | None => fl_of r end.
Proof.
  intros a r. unfold tid_of, sid_of, fl_of.
  destruct a as [s|id [n|]|h v|t s f|s|t|f|z|z|h kvs|z|id n]; cbn [set_arg x_tid x_sid x_fl];
    rewrite ?fold_attr_eq;
    unfold set_fl, set_tid, set_sid, set_sev, set_body, set_ts, set_obs, set_eid, with_trace, trace_or_new;
    cbn; destruct (r_trace r) as [[[? ?] ?]|]; cbn; repeat split; reflexivity.
Qed.

(* ------------------------------------------------------------------ the freshly created record *)
Lemma created_fields : forall act,
  let r := rec_created act in
  r_sev r = 0%Z /\ r_body r = VStr 0 0 /\ r_ts r = 0%Z /\ r_obs r = None /\ r_nobs r = 1 /\ r_eid r = 0%Z /\ r_ename r = [] /\
  r_attrs r = [] /\ r_res r = false /\ r_scope r = None /\ r_nres r = 0 /\ r_nscope r = 0 /\
  trace_or_new r = match act with Some i => i | None => zero_ident end.
Proof. intros [[[t s] f]|]; cbn; repeat split; reflexivity. Qed.

(* ------------------------------------------------------------------ every field of build = the last one supplied *)
Section Fields.
  Variable act : option ident.

  Lemma build_sev : forall h, r_sev (build act h) = dflt 0%Z (lastof x_sev h).
  Proof.
    induction h as [|a h IH] using rev_ind.
    - destruct act as [[[? ?] ?]|]; reflexivity.
    - rewrite build_snoc, sev_set, lastof_snoc. destruct (x_sev a); [reflexivity | exact IH].
  Qed.
  Lemma build_body : forall h, r_body (build act h) = dflt (VStr 0 0) (lastof x_body h).
  Proof.
    induction h as [|a h IH] using rev_ind.
    - destruct act as [[[? ?] ?]|]; reflexivity.
    - rewrite build_snoc, body_set, lastof_snoc. destruct (x_body a); [reflexivity | exact IH].
  Qed.
  Lemma build_ts : forall h, r_ts (build act h) = dflt 0%Z (lastof x_ts h).
  Proof.
    induction h as [|a h IH] using rev_ind.
    - destruct act as [[[? ?] ?]|]; reflexivity.
    - rewrite build_snoc, ts_set, lastof_snoc. destruct (x_ts a); [reflexivity | exact IH].
  Qed.
  Lemma build_obs : forall h, r_obs (build act h) = lastof x_obs h.
  Proof.
    induction h as [|a h IH] using rev_ind.
    - destruct act as [[[? ?] ?]|]; reflexivity.
    - rewrite build_snoc, obs_set, lastof_snoc. destruct (x_obs a); [reflexivity | exact IH].
  Qed.
  Lemma build_nobs : forall h, r_nobs (build act h) = S (count_if is_obs h).
  Proof.
    induction h as [|a h IH] using rev_ind.
    - destruct act as [[[? ?] ?]|]; reflexivity.
    - rewrite build_snoc, nobs_set. unfold count_if in *. rewrite filter_app, app_length. cbn.
      destruct (is_obs a); cbn; lia.
  Qed.
  Lemma build_eid : forall h, (r_eid (build act h), r_ename (build act h)) = dflt (0%Z, []) (lastof x_eid h).
  Proof.
    induction h as [|a h IH] using rev_ind.
    - destruct act as [[[? ?] ?]|]; reflexivity.
    - rewrite build_snoc, eid_set, lastof_snoc. destruct (x_eid a); [reflexivity | exact IH].
  Qed.
  Lemma build_res : forall h, r_res (build act h) = false /\ r_scope (build act h) = None /\
                              r_nres (build act h) = 0 /\ r_nscope (build act h) = 0.
  Proof.
    induction h as [|a h IH] using rev_ind.
    - destruct act as [[[? ?] ?]|]; repeat split; reflexivity.
    - rewrite build_snoc. destruct (res_set a (build act h)) as (E1 & E2 & E3 & E4). rewrite E1, E2, E3, E4. exact IH.
  Qed.
  Lemma build_attrs : forall h, r_attrs (build act h) = fold_left ups (all_kvs h) [].
  Proof.
    induction h as [|a h IH] using rev_ind.
    - destruct act as [[[? ?] ?]|]; reflexivity.
    - rewrite build_snoc, attrs_set, IH. unfold all_kvs. rewrite flat_map_app, fold_left_app. cbn. rewrite app_nil_r. reflexivity.
  Qed.

  (* identity: explicit (the last supplied, per component) wins; else what was active at creation; else zero *)
  Definition comp {A} (explicit : option A) (a : option A) (zero : A) : A :=
    match explicit, a with Some x, _ => x | None, Some x => x | None, None => zero end.

  Lemma build_trace : forall h,
    tid_of (build act h) = comp (lastof x_tid h) (option_map (fun i => fst (fst i)) act) zero16 /\
    sid_of (build act h) = comp (lastof x_sid h) (option_map (fun i => snd (fst i)) act) zero8 /\
    fl_of (build act h) = comp (lastof x_fl h) (option_map (fun i => snd i) act) 0%Z.
  Proof.
    induction h as [|a h IH] using rev_ind.
    - unfold tid_of, sid_of, fl_of. destruct act as [[[? ?] ?]|]; cbn; repeat split; reflexivity.
    - rewrite build_snoc. destruct (trace_set a (build act h)) as (E1 & E2 & E3). rewrite E1, E2, E3, !lastof_snoc.
      destruct IH as (I1 & I2 & I3). unfold comp in *.
      destruct (x_tid a), (x_sid a), (x_fl a); repeat split; assumption || reflexivity.
  Qed.
End Fields.

(* ------------------------------------------------------------------ the attribute map: per key the last value *)
Lemma key_mem_attr_mem : forall k (l : list (bytes * aval)), attr_mem k l = key_mem k (map fst l).
Proof. intros k l. unfold attr_mem, key_mem. induction l as [|x l IH]; cbn; [reflexivity | rewrite IH; reflexivity]. Qed.

Lemma last_value_snoc : forall k kvs k0 v,
  last_value k (kvs ++ [(k0, v)]) = if bytes_eqb k0 k then v else last_value k kvs.
Proof.
  intros. unfold last_value. rewrite rev_app_distr. cbn. destruct (bytes_eqb k0 k); reflexivity.
Qed.

Lemma insert_sorted_map : forall k v (g g' : bytes -> bytes * aval) l,
  (forall x, fst (g x) = x) -> g' k = (k, v) -> (forall x, In x l -> g' x = g x) ->
  insert_sorted k v (map g l) = map g' (ins_sorted k l).
Proof.
  induction l as [|x l IH]; intros Hf Hk Hl; cbn.
  - rewrite Hk. reflexivity.
  - destruct (g x) as [k' v'] eqn:G. assert (K : k' = x) by (rewrite <- (Hf x), G; reflexivity). subst k'.
    destruct (bytes_cmp k x) eqn:C; cbn.
    + rewrite Hk, Hl by (left; reflexivity). rewrite G. do 2 f_equal. apply map_ext_in. intros y Hy. symmetry. apply Hl. right. assumption.
    + rewrite Hk, Hl by (left; reflexivity). rewrite G. do 2 f_equal. apply map_ext_in. intros y Hy. symmetry. apply Hl. right. assumption.
    + rewrite Hl by (left; reflexivity). rewrite G. f_equal. apply IH; [assumption | assumption |].
      intros y Hy. apply Hl. right. assumption.
Qed.

Theorem attrs_canonical : forall kvs,
  fold_left ups kvs [] = map (fun k => (k, last_value k kvs)) (distinct_keys kvs).
Proof.
  induction kvs as [|[k v] kvs IH] using rev_ind; [reflexivity|].
  rewrite fold_left_app. cbn [fold_left]. rewrite IH. unfold ups. cbn [fst snd].
  unfold distinct_keys. rewrite map_app, fold_left_app. cbn [map fold_left fst].
  fold (distinct_keys kvs). unfold upsert, add_key.
  rewrite key_mem_attr_mem, map_map. cbn [fst]. rewrite map_id.
  destruct (key_mem k (distinct_keys kvs)) eqn:M.
  - rewrite map_map. apply map_ext. intro x. cbn [fst]. rewrite last_value_snoc. destruct (bytes_eqb k x); reflexivity.
  - apply insert_sorted_map.
    + intro x. reflexivity.
    + rewrite last_value_snoc, bytes_eqb_refl. reflexivity.
    + intros x Hx. rewrite last_value_snoc.
      destruct (bytes_eqb k x) eqn:E; [|reflexivity].
      exfalso. unfold key_mem in M. assert (T : existsb (bytes_eqb k) (distinct_keys kvs) = true).
      { apply existsb_exists. exists x. split; assumption. }
      rewrite T in M. discriminate.
Qed.

Lemma build_attrs_canonical : forall act h,
  r_attrs (build act h) = map (fun k => (k, last_value k (all_kvs h))) (distinct_keys (all_kvs h)).
Proof. intros. rewrite build_attrs. apply attrs_canonical. Qed.

(* ------------------------------------------------------------------ sealing (EmitLogRecord) *)
Lemma sealed_fields : forall l r,
  r_sev (sealed l r) = r_sev r /\ r_body (sealed l r) = r_body r /\ r_ts (sealed l r) = r_ts r /\ r_obs (sealed l r) = r_obs r /\
  r_eid (sealed l r) = r_eid r /\ r_ename (sealed l r) = r_ename r /\ r_trace (sealed l r) = r_trace r /\
  r_attrs (sealed l r) = r_attrs r /\ r_res (sealed l r) = true /\ r_scope (sealed l r) = Some l /\
  r_nobs (sealed l r) = r_nobs r /\ r_nres (sealed l r) = S (r_nres r) /\ r_nscope (sealed l r) = S (r_nscope r).
Proof. intros. cbn. repeat split; reflexivity. Qed.
