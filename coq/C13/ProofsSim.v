(* C13 proofs, part 4: the model refines the SPEC's abstract machine, operation by operation, for every
   operation sequence: a live record slot IS (processors at creation, identity active at creation, history);
   what the exporters hold IS the list of emissions. *)
From V Require Import C13.Spec C13.ProofsBase C13.ProofsFields C13.ProofsPrint C10.ProofsCtx.
From Coq Require Import Lia.
Local Open Scope nat_scope.

Definition children (pids : list nat) (r : rec) : list (nat * rec) := map (fun p => (p, r)) pids.
Definition slot_of (xs : xslot) : slot :=
  match xs with
  | XNull => RNull | XNoop => RNoop
  | XLive pids act hist => RMulti (children pids (build act hist))
  end.
Definition rec_of (e : xem) : rec := sealed (e_logger e) (build (e_act e) (e_hist e)).
Definition entry_of (procs : list pkind) (pe : nat * xem) : nat * entry :=
  (fst pe, entry_for (nth (fst pe) procs PImm) (e_mem (snd pe)) (rec_of (snd pe))).
Definition pids_ok (n : nat) (xs : xslot) : Prop :=
  match xs with XLive pids _ _ => exists k, pids = seq 0 k /\ k <= n | _ => True end.

Record R (st : lstate) (x : xstate) : Prop := mkR {
  R_mem : s_mem st = x_mem x;
  R_procs : s_procs st = x_procs x;
  R_slots : s_slots st = map slot_of (x_slots x);
  R_exp : s_exp st = map (entry_of (x_procs x)) (x_exp x);
  R_pids : Forall (pids_ok (length (x_procs x))) (x_slots x);
  R_bound : Forall (fun pe => fst pe < length (x_procs x)) (x_exp x)
}.

Lemma R_init : forall m ps, R (lstate0 m ps) (xstate0 m ps).
Proof. intros. constructor; cbn; try reflexivity; constructor. Qed.

(* ------------------------------------------------------------------ lists *)
Lemma nth_error_map' : forall A B (f : A -> B) l n, nth_error (map f l) n = option_map f (nth_error l n).
Proof. induction l as [|x l IH]; intros [|n]; cbn; try reflexivity. apply IH. Qed.

Lemma set_nth_slot_map : forall r v l, set_nth r (slot_of v) (map slot_of l) = map slot_of (set_nth r v l).
Proof. induction r as [|r IH]; intros v [|x l]; cbn; try reflexivity. rewrite IH. reflexivity. Qed.

Lemma Forall_set_nth_x : forall (P : xslot -> Prop) r v l, Forall P l -> P v -> Forall P (set_nth r v l).
Proof.
  induction r as [|r IH]; intros v [|x l] H Hv; cbn; try assumption; inversion H; subst; constructor; try assumption.
  apply IH; assumption.
Qed.

Lemma nth_error_Forall : forall A (P : A -> Prop) l n x, Forall P l -> nth_error l n = Some x -> P x.
Proof. intros A P l n x H E. apply nth_error_In in E. rewrite Forall_forall in H. apply H. assumption. Qed.

Lemma map_children_children : forall f pids r, map_children f (children pids r) = children pids (f r).
Proof. intros. unfold map_children, children. rewrite map_map. reflexivity. Qed.

Lemma find_child_seq : forall r k a p,
  find_child p (children (seq a k) r) = if (a <=? p) && (p <? a + k) then Some r else None.
Proof.
  induction k as [|k IH]; intros a p.
  - cbn [seq children map find_child].
    destruct ((a <=? p) && (p <? a + 0)) eqn:E; [|reflexivity].
    apply andb_true_iff in E. destruct E as [E1 E2]. apply Nat.leb_le in E1. apply Nat.ltb_lt in E2. lia.
  - unfold children. cbn [seq map find_child]. fold (children (seq (S a) k) r). rewrite IH.
    destruct (Nat.eqb a p) eqn:E.
    + apply Nat.eqb_eq in E. subst p.
      replace ((a <=? a) && (a <? a + S k)) with true; [reflexivity|].
      symmetry. apply andb_true_iff. split; [apply Nat.leb_le; lia | apply Nat.ltb_lt; lia].
    + apply Nat.eqb_neq in E.
      replace ((S a <=? p) && (p <? S a + k)) with ((a <=? p) && (p <? a + S k)); [reflexivity|].
      apply eq_true_iff_eq. rewrite !andb_true_iff, !Nat.leb_le, !Nat.ltb_lt. lia.
Qed.

(* every processor that exists now and existed at creation receives the child made for it, in order *)
Lemma fan_out_seq : forall m r k ps p0, k <= p0 + length ps ->
  fan_out m ps p0 (children (seq 0 k) r) =
  map (fun i => (p0 + i, entry_for (nth i ps PImm) m r)) (seq 0 (k - p0)).
Proof.
  induction ps as [|kd ps IH]; intros p0 H; cbn [fan_out].
  - cbn in H. replace (k - p0) with 0 by lia. reflexivity.
  - rewrite find_child_seq. cbn [Nat.leb andb Nat.add]. destruct (p0 <? k) eqn:E.
    + apply Nat.ltb_lt in E. rewrite IH by (cbn in H; lia).
      replace (k - p0) with (S (k - S p0)) by lia. cbn [seq map nth]. rewrite Nat.add_0_r. f_equal.
      rewrite <- seq_shift, map_map. apply map_ext. intro i. cbn [nth]. f_equal. lia.
    + apply Nat.ltb_ge in E. rewrite IH by (cbn in H; lia).
      replace (k - p0) with 0 by lia. replace (k - S p0) with 0 by lia. reflexivity.
Qed.

Lemma filter_entry_of : forall ps p l,
  filter (fun x => Nat.eqb (fst x) p) (map (entry_of ps) l) = map (entry_of ps) (filter (fun pe => Nat.eqb (fst pe) p) l).
Proof.
  induction l as [|pe l IH]; cbn; [reflexivity|]. destruct (Nat.eqb (fst pe) p); cbn; rewrite IH; reflexivity.
Qed.

Lemma counts_sim : forall st x, R st x ->
  counts st = tag "N" :: map (fun p => tnat (length (ems_for p x))) (seq 0 (length (x_procs x))).
Proof.
  intros st x H. unfold counts, enum_from. rewrite (R_procs _ _ H). f_equal. apply map_ext. intro p.
  unfold count_for, ems_for. rewrite (R_exp _ _ H), filter_entry_of, !map_length. reflexivity.
Qed.

Lemma entry_of_app : forall ps k pe, fst pe < length ps -> entry_of (ps ++ [k]) pe = entry_of ps pe.
Proof. intros. unfold entry_of. rewrite app_nth1 by assumption. reflexivity. Qed.

(* ------------------------------------------------------------------ output bookkeeping *)
Lemma R_with_out : forall st x o, R st x -> R (with_out st o) x.
Proof. intros st x o H. destruct H. constructor; assumption. Qed.

Lemma eat_active_print : forall a rest, eat_active (print_active a ++ rest) = Some (a, rest).
Proof. intros [[[t s] f]|] rest; reflexivity. Qed.

Lemma finish_plain : forall x cs rest known, all_plain cs ->
  finish_op x cs ((toks_of cs ++ [bar]) ++ rest) known = SOk x rest known.
Proof.
  intros. unfold finish_op. rewrite <- app_assoc, eat_all_plain by assumption. reflexivity.
Qed.
Lemma finish_nil : forall x rest known, finish_op x [] ([bar] ++ rest) known = SOk x rest known.
Proof. intros. apply (finish_plain x [] rest known). constructor. Qed.

Lemma count_chunk_toks : forall st x cl, R st x -> toks_of [count_chunk x cl] = counts st.
Proof. intros. rewrite (counts_sim st x) by assumption. unfold toks_of, count_chunk. cbn. rewrite app_nil_r. reflexivity. Qed.
Lemma count_chunk_plain : forall x cl, all_plain [count_chunk x cl].
Proof. intros. repeat constructor. Qed.

(* ------------------------------------------------------------------ emission *)
Lemma emit_sim : forall c st x l k act h,
  R st x -> k <= length (x_procs x) ->
  R (emit_children c st l (children (seq 0 k) (build act h))) (emit_to x (seq 0 k) act h l).
Proof.
  intros c st x l k act h H K. destruct H as [Hm Hp Hs He Hpi Hb].
  constructor; cbn [emit_children emit_to s_mem s_procs s_slots s_exp x_mem x_procs x_slots x_exp]; try assumption.
  - rewrite map_app, <- He. f_equal. rewrite map_children_children, Hp, Hm.
    rewrite fan_out_seq by lia. rewrite Nat.sub_0_r, map_map. apply map_ext. intro p. reflexivity.
  - apply Forall_app. split; [assumption|]. apply Forall_forall. intros pe Hin. apply in_map_iff in Hin.
    destruct Hin as [p [E Hin]]. subst pe. apply in_seq in Hin. cbn. lia.
Qed.

Lemma emit_n_sim : forall c l k act h n st x,
  R st x -> k <= length (x_procs x) ->
  R (emit_n c st l (children (seq 0 k) (build act h)) n) (emit_to_n x (seq 0 k) act h l n).
Proof.
  induction n as [|n IH]; intros st x H K; cbn [emit_n emit_to_n]; [assumption|].
  apply IH; [apply emit_sim; assumption | exact K].
Qed.

Lemma R_slots_upd : forall st x sl xs,
  R st x -> sl = map slot_of xs -> Forall (pids_ok (length (x_procs x))) xs ->
  R (with_slots st sl) (with_xslots x xs).
Proof. intros st x sl xs H E F. destruct H. constructor; cbn; assumption. Qed.

(* EmitLogRecord(args...) and everything defined as such a call *)
Lemma variadic_sim : forall c st x t l args st',
  R st x -> emit_variadic c st t l args = Ok st' ->
  exists d x', s_out st' = s_out st ++ d /\
               (forall rest known, x_variadic c x l args (d ++ rest) known = SOk x' rest known) /\ R st' x'.
Proof.
  intros c st x t l args st' H E. unfold emit_variadic in E.
  set (act := active_ident c st t) in *.
  destruct (logger_enabled c l) eqn:EN.
  - (* enabled *)
    unfold emit_with_args in E. rewrite EN in E.
    inversion E; subst st'; clear E.
    unfold create_multi, enum_from. fold (children (seq 0 (length (s_procs st))) (rec_created act)).
    rewrite map_children_children. fold (apply_args args (rec_created act)). fold (build act args).
    assert (RE : R (emit_children c st l (children (seq 0 (length (s_procs st))) (build act args)))
                   (emit_to x (all_pids x) act args l)).
    { unfold all_pids. rewrite (R_procs _ _ H). apply emit_sim; [assumption | lia]. }
    set (st1 := emit_children c st l (children (seq 0 (length (s_procs st))) (build act args))) in *.
    exists ((print_active act ++ counts st1) ++ [bar]), (emit_to x (all_pids x) act args l).
    split; [reflexivity|]. split; [|apply R_with_out; assumption].
    intros rest known. unfold x_variadic. rewrite <- !app_assoc, eat_active_print, EN.
    rewrite <- (count_chunk_toks st1 _ "each_processor_once:exported_count" RE).
    rewrite app_assoc. apply finish_plain. apply count_chunk_plain.
  - (* disabled: a NoopLogRecord, nothing happens *)
    unfold emit_with_args in E. rewrite EN in E.
    inversion E; subst st'; clear E.
    exists ((print_active act ++ counts st) ++ [bar]), x.
    split; [reflexivity|]. split; [|apply R_with_out; assumption].
    intros rest known. unfold x_variadic. rewrite <- !app_assoc, eat_active_print, EN.
    rewrite <- (count_chunk_toks st _ "disabled_emits_nothing:exported_count" H).
    rewrite app_assoc. apply finish_plain. apply count_chunk_plain.
Qed.

(* ------------------------------------------------------------------ one step *)
Lemma attach_R : forall st x t base k v, R st x -> R (attach st t base k v) x.
Proof.
  intros st x t base k v H. unfold attach. destruct (set_value (s_nodes st) base k v) as [hh cc].
  destruct H. constructor; assumption.
Qed.
Lemma attach_out : forall st t base k v, s_out (attach st t base k v) = s_out st.
Proof. intros. unfold attach. destruct (set_value (s_nodes st) base k v). reflexivity. Qed.

Ltac ctx_case H :=
  eexists ([] ++ [bar]), _; split; [cbn [s_out with_out]; rewrite ?attach_out; reflexivity|];
  split; [intros rest known; apply finish_nil | apply R_with_out; try apply attach_R; exact H].

Theorem step_sim : forall c st x o st',
  R st x -> lstep c st o = Ok st' ->
  exists d x', s_out st' = s_out st ++ d /\
               (forall rest known, xstep c x o (d ++ rest) known = SOk x' rest known) /\ R st' x'.
Proof.
  intros c st x o st' H E. destruct o; cbn [lstep] in E.
  - (* LScope *)
    destruct (Nat.ltb t nthreads && sval_ok c v); [|discriminate]. inversion E; subst. ctx_case H.
  - destruct (Nat.ltb t nthreads); [|discriminate]. inversion E; subst. ctx_case H.
  - destruct (Nat.ltb t nthreads); [|discriminate]. inversion E; subst. ctx_case H.
  - (* LClose *)
    destruct (nth_error (s_toks st) k) as [[[tt cx] [|]]|]; try discriminate. inversion E; subst.
    eexists ([] ++ [bar]), x. split; [reflexivity|]. split; [intros; apply finish_nil|].
    apply R_with_out. destruct H. constructor; assumption.
  - (* LCreate *)
    destruct (Nat.ltb t nthreads && Nat.ltb l (length (c_loggers c))); [|discriminate]. inversion E; subst; clear E.
    set (act := active_ident c st t).
    set (xs := if logger_enabled c l then XLive (all_pids x) act [] else XNoop).
    exists (print_active act ++ [bar]), (with_xslots x (x_slots x ++ [xs])).
    split; [reflexivity|]. split.
    + intros rest known. cbn [xstep]. rewrite <- app_assoc, eat_active_print. apply finish_nil.
    + apply R_with_out. apply R_slots_upd; [assumption| |].
      * rewrite (R_slots _ _ H), map_app. f_equal. unfold xs. cbn [map].
        destruct (logger_enabled c l); [|reflexivity]. cbn [slot_of]. unfold create_multi, enum_from, all_pids.
        rewrite (R_procs _ _ H). reflexivity.
      * apply Forall_app. split; [apply (R_pids _ _ H)|]. constructor; [|constructor]. unfold xs.
        destruct (logger_enabled c l); cbn; [|exact I]. exists (length (x_procs x)). split; [reflexivity | lia].
  - (* LApply *)
    destruct (negb (arg_ok (s_mem st) a)); [discriminate|].
    assert (NS : nth_error (s_slots st) r = option_map slot_of (nth_error (x_slots x) r)) by (rewrite (R_slots _ _ H); apply nth_error_map').
    rewrite NS in E; clear NS.
    destruct (nth_error (x_slots x) r) as [[| |pids act hist]|] eqn:N; cbn [option_map slot_of] in E; try discriminate.
    + inversion E; subst.
      exists ([] ++ [bar]), x. split; [reflexivity|]. split; [|apply R_with_out; assumption].
      intros. cbn [xstep]. rewrite N. apply finish_nil.
    + inversion E; subst; clear E.
      exists ([] ++ [bar]), (with_xslots x (set_nth r (XLive pids act (hist ++ [a])) (x_slots x))).
      split; [reflexivity|]. split.
      * intros. cbn [xstep]. rewrite N. apply finish_nil.
      * apply R_with_out. apply R_slots_upd; [assumption| |].
        -- rewrite (R_slots _ _ H), <- set_nth_slot_map. cbn [slot_of]. rewrite build_snoc, <- map_children_children. reflexivity.
        -- apply Forall_set_nth_x; [apply (R_pids _ _ H)|]. apply (nth_error_Forall _ _ _ _ _ (R_pids _ _ H) N).
  - (* LEmit *)
    destruct (negb (Nat.ltb t nthreads && Nat.ltb l (length (c_loggers c)))); [discriminate|].
    assert (NS : nth_error (s_slots st) r = option_map slot_of (nth_error (x_slots x) r)) by (rewrite (R_slots _ _ H); apply nth_error_map').
    rewrite NS in E; clear NS.
    destruct (nth_error (x_slots x) r) as [xs|] eqn:N; cbn [option_map] in E; [|discriminate].
    destruct (logger_enabled c l) eqn:EN; cbn [negb] in E.
    + destruct xs as [| |pids act hist]; cbn [slot_of] in E; try discriminate.
      * inversion E; subst.
        exists (counts st ++ [bar]), x. split; [reflexivity|]. split; [|apply R_with_out; assumption].
        intros. cbn [xstep]. rewrite N, EN. cbn [negb].
        rewrite <- (count_chunk_toks st x "null_ignored:exported_count" H). apply finish_plain. apply count_chunk_plain.
      * inversion E; subst; clear E.
        pose proof (nth_error_Forall _ _ _ _ _ (R_pids _ _ H) N) as [k [Ek Kle]]. subst pids.
        set (x1 := with_xslots (emit_to x (seq 0 k) act hist l) (set_nth r XNull (x_slots x))).
        assert (RE : R (with_slots (emit_children c st l (children (seq 0 k) (build act hist))) (set_nth r RNull (s_slots st))) x1).
        { unfold x1. apply R_slots_upd.
          - apply emit_sim; assumption.
          - rewrite (R_slots _ _ H). apply (set_nth_slot_map r XNull).
          - apply Forall_set_nth_x; [apply (R_pids _ _ H) | exact I]. }
        eexists (counts _ ++ [bar]), x1. split; [reflexivity|]. split; [|apply R_with_out; exact RE].
        intros. cbn [xstep]. rewrite N, EN. cbn [negb]. fold x1.
        rewrite <- (count_chunk_toks _ x1 "each_processor_once:exported_count" RE). apply finish_plain. apply count_chunk_plain.
    + inversion E; subst.
      exists (counts st ++ [bar]), x. split; [reflexivity|]. split; [|apply R_with_out; assumption].
      intros. cbn [xstep]. rewrite N, EN. cbn [negb].
      rewrite <- (count_chunk_toks st x "disabled_emits_nothing:exported_count" H). apply finish_plain. apply count_chunk_plain.
  - (* LEmitNull *)
    destruct (Nat.ltb t nthreads && Nat.ltb l (length (c_loggers c))); [|discriminate]. inversion E; subst.
    exists (counts st ++ [bar]), x. split; [reflexivity|]. split; [|apply R_with_out; assumption].
    intros. cbn [xstep].
    rewrite <- (count_chunk_toks st x (if logger_enabled c l then "null_ignored:exported_count" else "disabled_emits_nothing:exported_count") H).
    apply finish_plain. apply count_chunk_plain.
  - (* LEmitV *)
    destruct (negb _); [discriminate|]. cbn [xstep]. eapply variadic_sim; eassumption.
  - (* LEmitRV *)
    destruct (negb _); [discriminate|].
    assert (NS : nth_error (s_slots st) r = option_map slot_of (nth_error (x_slots x) r)) by (rewrite (R_slots _ _ H); apply nth_error_map').
    rewrite NS in E; clear NS.
    destruct (nth_error (x_slots x) r) as [xs|] eqn:N; cbn [option_map] in E; [|discriminate].
    destruct xs as [| |pids act hist]; cbn [slot_of emit_with_args] in E.
    + (* null record: ignored before any setter *)
      inversion E; subst; clear E.
      assert (RE : R (with_slots st (set_nth r RNull (s_slots st))) x).
      { replace x with (with_xslots x (x_slots x)) by (destruct x; reflexivity). apply R_slots_upd; [assumption| |apply (R_pids _ _ H)].
        rewrite (R_slots _ _ H). rewrite (set_nth_slot_map r XNull).
        f_equal. clear -N. revert r N. induction (x_slots x) as [|y ys IH]; intros [|r] N; cbn in *; try discriminate; try reflexivity.
        - inversion N. reflexivity.
        - rewrite IH by assumption. reflexivity. }
      eexists (counts _ ++ [bar]), x. split; [reflexivity|]. split; [|apply R_with_out; exact RE].
      intros. cbn [xstep]. rewrite N.
      rewrite <- (count_chunk_toks _ x (if logger_enabled c l then "null_ignored:exported_count" else "disabled_emits_nothing:exported_count") RE).
      apply finish_plain. apply count_chunk_plain.
    + destruct (logger_enabled c l) eqn:EN; [discriminate|]. inversion E; subst; clear E.
      assert (RE : R (with_slots st (set_nth r RNoop (s_slots st))) x).
      { replace x with (with_xslots x (x_slots x)) by (destruct x; reflexivity). apply R_slots_upd; [assumption| |apply (R_pids _ _ H)].
        rewrite (R_slots _ _ H). rewrite (set_nth_slot_map r XNoop).
        f_equal. clear -N. revert r N. induction (x_slots x) as [|y ys IH]; intros [|r] N; cbn in *; try discriminate; try reflexivity.
        - inversion N. reflexivity.
        - rewrite IH by assumption. reflexivity. }
      eexists (counts _ ++ [bar]), x. split; [reflexivity|]. split; [|apply R_with_out; exact RE].
      intros. cbn [xstep]. rewrite N, EN.
      rewrite <- (count_chunk_toks _ x "disabled_emits_nothing:exported_count" RE).
      apply finish_plain. apply count_chunk_plain.
    + pose proof (nth_error_Forall _ _ _ _ _ (R_pids _ _ H) N) as [k [Ek Kle]]. subst pids.
      rewrite map_children_children in E. fold (apply_args args (build act hist)) in E. rewrite <- build_app in E.
      destruct (logger_enabled c l) eqn:EN; inversion E; subst; clear E.
      * set (x1 := with_xslots (emit_to x (seq 0 k) act (hist ++ args) l) (set_nth r XNull (x_slots x))).
        assert (RE : R (with_slots (emit_children c st l (children (seq 0 k) (build act (hist ++ args)))) (set_nth r RNull (s_slots st))) x1).
        { unfold x1. apply R_slots_upd.
          - apply emit_sim; assumption.
          - rewrite (R_slots _ _ H). apply (set_nth_slot_map r XNull).
          - apply Forall_set_nth_x; [apply (R_pids _ _ H) | exact I]. }
        eexists (counts _ ++ [bar]), x1. split; [reflexivity|]. split; [|apply R_with_out; exact RE].
        intros. cbn [xstep]. rewrite N, EN. fold x1.
        rewrite <- (count_chunk_toks _ x1 "each_processor_once:exported_count" RE). apply finish_plain. apply count_chunk_plain.
      * set (x1 := with_xslots x (set_nth r (XLive (seq 0 k) act (hist ++ args)) (x_slots x))).
        assert (RE : R (with_slots st (set_nth r (RMulti (children (seq 0 k) (build act (hist ++ args)))) (s_slots st))) x1).
        { unfold x1. apply R_slots_upd; [assumption| |].
          - rewrite (R_slots _ _ H). apply (set_nth_slot_map r (XLive (seq 0 k) act (hist ++ args))).
          - apply Forall_set_nth_x; [apply (R_pids _ _ H)|]. exists k. split; [reflexivity | assumption]. }
        eexists (counts _ ++ [bar]), x1. split; [reflexivity|].
        split; [|apply R_with_out; exact RE].
        intros. cbn [xstep]. rewrite N, EN. fold x1.
        rewrite <- (count_chunk_toks _ x1 "disabled_emits_nothing:exported_count" RE). apply finish_plain. apply count_chunk_plain.
  - (* LLog *)
    destruct (log_args form sev id name msg kvs) as [args|] eqn:LA; [|discriminate].
    destruct (negb _); [discriminate|]. cbn [xstep]. rewrite LA. eapply variadic_sim; eassumption.
  - (* LLevel *)
    destruct (negb _); [discriminate|]. cbn [xstep]. eapply variadic_sim; eassumption.
  - (* LMut *)
    destruct (nth_error (s_mem st) a) as [old|]; [|discriminate].
    destruct (same_shape (s_mem st) old b); [|discriminate]. inversion E; subst; clear E.
    eexists ([] ++ [bar]), (mk_x (set_nth a b (x_mem x)) (x_procs x) (x_slots x) (x_exp x)).
    split; [reflexivity|]. split; [intros; apply finish_nil|].
    apply R_with_out. destruct H as [Hm Hp Hs He Hpi Hb]. constructor; cbn; try assumption. rewrite Hm. reflexivity.
  - (* LAddProc *)
    inversion E; subst; clear E.
    eexists ([] ++ [bar]), (mk_x (x_mem x) (x_procs x ++ [k]) (x_slots x) (x_exp x)).
    split; [reflexivity|]. split; [intros; apply finish_nil|].
    apply R_with_out. destruct H as [Hm Hp Hs He Hpi Hb]. constructor; cbn; try assumption.
    + rewrite Hp. reflexivity.
    + rewrite He. apply map_ext_in. intros pe Hin. symmetry. apply entry_of_app.
      rewrite Forall_forall in Hb. apply Hb. assumption.
    + eapply Forall_impl; [|exact Hpi]. intros [| |pids act hist]; cbn; try exact (fun _ => I).
      intros [kk [E1 E2]]. exists kk. split; [assumption|]. rewrite app_length. cbn [length]. lia.
    + eapply Forall_impl; [|exact Hb]. intros pe Hlt. cbn beta in Hlt. rewrite app_length. cbn [length]. lia.
  - (* LName *)
    destruct (nth_error (c_loggers c) l) as [[[[ln lib] ver] sch]|] eqn:N; [|discriminate]. inversion E; subst; clear E.
    eexists ([TB _] ++ [bar]), x. split; [reflexivity|]. split; [|apply R_with_out; assumption].
    intros. cbn [xstep]. rewrite N. destruct (logger_enabled c l).
    + apply (finish_plain x [plain [TB ln] "log_fields_as_supplied:logger_name"]). repeat constructor.
    + apply (finish_plain x [plain [TB (map n2b kNoopLoggerName)] "disabled_emits_nothing:logger_name"]). repeat constructor.
  - (* LBurst *)
    destruct (negb _); [discriminate|]. inversion E; subst st'; clear E.
    set (act := active_ident c st t).
    destruct (logger_enabled c l) eqn:EN.
    + unfold create_multi, enum_from. fold (children (seq 0 (length (s_procs st))) (rec_created act)).
      rewrite map_children_children. fold (apply_args args (rec_created act)). fold (build act args).
      assert (RE : R (emit_n c st l (children (seq 0 (length (s_procs st))) (build act args)) n)
                     (emit_to_n x (all_pids x) act args l n)).
      { unfold all_pids. rewrite (R_procs _ _ H). apply emit_n_sim; [assumption | lia]. }
      set (st1 := emit_n c st l (children (seq 0 (length (s_procs st))) (build act args)) n) in *.
      assert (SO : s_out st1 = s_out st).
      { unfold st1. generalize (children (seq 0 (length (s_procs st))) (build act args)). intro ch.
        clear. revert st. induction n as [|n IH]; intro st; cbn [emit_n]; [reflexivity|]. rewrite IH. reflexivity. }
      exists ((print_active act ++ (if flush then counts st1 else [])) ++ [bar]), (emit_to_n x (all_pids x) act args l n).
      split; [cbn [with_out s_out]; rewrite SO; reflexivity|]. split; [|apply R_with_out; assumption].
      intros rest known. cbn [xstep]. rewrite <- !app_assoc, eat_active_print, EN. destruct flush.
      * rewrite <- (count_chunk_toks st1 _ "each_processor_once:burst_exported_count" RE).
        rewrite app_assoc. apply finish_plain. apply count_chunk_plain.
      * apply finish_nil.
    + exists ((print_active act ++ (if flush then counts st else [])) ++ [bar]), x.
      split; [reflexivity|]. split; [|apply R_with_out; assumption].
      intros rest known. cbn [xstep]. rewrite <- !app_assoc, eat_active_print, EN. destruct flush.
      * rewrite <- (count_chunk_toks st _ "disabled_emits_nothing:exported_count" H).
        rewrite app_assoc. apply finish_plain. apply count_chunk_plain.
      * apply finish_nil.
Qed.

(* ------------------------------------------------------------------ every operation sequence *)
Theorem run_sim : forall c ops st x st',
  R st x -> lrun c st ops = Ok st' ->
  exists d x', s_out st' = s_out st ++ d /\
               (forall rest known, check_ops c x ops (d ++ rest) known = SOk x' rest known) /\ R st' x'.
Proof.
  induction ops as [|o ops IH]; intros st x st' H E; cbn [lrun] in E.
  - inversion E; subst. exists [], x. split; [rewrite app_nil_r; reflexivity|]. split; [reflexivity | assumption].
  - destruct (lstep c st o) as [st1|] eqn:S; try discriminate.
    destruct (step_sim c st x o st1 H S) as [d1 [x1 [O1 [X1 R1]]]].
    destruct (IH st1 x1 st' R1 E) as [d2 [x2 [O2 [X2 R2]]]].
    exists (d1 ++ d2), x2. split; [rewrite O2, O1, app_assoc; reflexivity|]. split; [|assumption].
    intros. cbn [check_ops]. rewrite <- app_assoc, X1. apply X2.
Qed.
