(* C13 proofs, part 5: model_meets_spec.  For EVERY case the SPEC checker run on the model's own observation
   reports nothing but the open finding F15 (its alternatives); it reports nothing at all when the caller never
   overwrites a buffer.  (F29, the EventId{id} crash, is repaired in /repo: be9979e.) *)
From V Require Import C13.Spec C13.Glue C13.ProofsBase C13.ProofsFields C13.ProofsPrint C13.ProofsSim C10.ProofsCtx.
From Coq Require Import Lia.
Local Open Scope nat_scope.
Local Open Scope string_scope.
Local Open Scope list_scope.

(* ------------------------------------------------------------------ the dump *)
Definition stable_em (final : mem) (e : xem) : Prop := forall v, read (e_mem e) v = read final v.

Lemma entry_eats : forall c k final e,
  exists ks, eats (rec_chunks c k final e) (print_entry c k final (entry_for k (e_mem e) (rec_of e))) ks /\ all_f15 ks /\
             (stable_em final e -> ks = []).
Proof.
  intros c k final [act h l m]. unfold entry_for, rec_of. cbn [e_act e_hist e_logger e_mem].
  destruct (deferred k) eqn:D; cbn [print_entry].
  - destruct (oval_eq_dec (OBool true) (OBool true)) as [_|N]; [|exfalso; apply N; reflexivity].
    destruct (rec_eats_final c k final act h l m D) as [ks [H F]].
    (* decide stability classically is not needed: give both answers *)
    assert (Q : (forall v, read m v = read final v) -> eats (rec_chunks c k final (mk_xem act h l m)) (print_rec c k final (sealed l (build act h))) []).
    { intro S. apply rec_eats_final_quiet. assumption. }
    (* the eater is deterministic: same chunks, same tokens => same known list *)
    exists ks. split; [assumption|]. split; [assumption|].
    intro S. specialize (Q S).
    pose proof (eats_eat _ _ _ H [] []) as E1. pose proof (eats_eat _ _ _ Q [] []) as E2.
    rewrite E1 in E2. inversion E2. reflexivity.
  - exists []. split; [apply rec_eats_same|]. split; [constructor | reflexivity].
Qed.

Lemma entries_eat : forall c k final es,
  exists ks, eats (flat_map (rec_chunks c k final) es)
                  (flat_map (print_entry c k final) (map (fun e => entry_for k (e_mem e) (rec_of e)) es)) ks /\ all_f15 ks /\
             (Forall (stable_em final) es -> ks = []).
Proof.
  induction es as [|e es [ks [IH [F Q]]]]; cbn [flat_map map].
  - exists []. split; [constructor|]. split; [constructor | reflexivity].
  - destruct (entry_eats c k final e) as [k1 [H1 [F1 Q1]]].
    exists (k1 ++ ks). split; [apply eats_app; assumption|]. split; [apply all_f15_app; assumption|].
    intro S. inversion S; subst. rewrite Q1, Q by assumption. reflexivity.
Qed.

Lemma dump_from_sim : forall c st x, R st x -> forall ps pre, x_procs x = pre ++ ps ->
  exists ks, eats (dump_chunks_from c x (length pre) ps) (dump_from c st (length pre) ps) ks /\ all_f15 ks /\
             (Forall (fun pe => stable_em (x_mem x) (snd pe)) (x_exp x) -> ks = []).
Proof.
  intros c st x H. induction ps as [|k ps IH]; intros pre E.
  - exists []. split; [constructor|]. split; [constructor | reflexivity].
  - cbn [dump_chunks_from dump_from].
    assert (E' : x_procs x = (pre ++ [k]) ++ ps) by (rewrite <- app_assoc; exact E).
    destruct (IH (pre ++ [k]) E') as [k2 [H2 [F2 Q2]]]. rewrite app_length in H2. cbn [length] in H2. rewrite Nat.add_1_r in H2.
    set (p := length pre) in *.
    assert (ES : map snd (filter (fun xx => Nat.eqb (fst xx) p) (s_exp st)) = map (fun e => entry_for k (e_mem e) (rec_of e)) (ems_for p x)).
    { rewrite (R_exp _ _ H), filter_entry_of. unfold ems_for. rewrite !map_map. apply map_ext_in. intros pe Hin.
      apply filter_In in Hin. destruct Hin as [_ Hp]. apply Nat.eqb_eq in Hp. unfold entry_of. cbn [snd]. rewrite Hp, E.
      unfold p. rewrite nth_middle. reflexivity. }
    destruct (entries_eat c k (x_mem x) (ems_for p x)) as [k1 [H1 [F1 Q1]]].
    exists (([] ++ k1) ++ k2). split; [|split].
    + apply eats_app; [|exact H2]. unfold proc_chunks, dump_proc. rewrite ES, map_length, (R_mem _ _ H).
      change (tag "P" :: pkind_tag k :: tnat (length (ems_for p x)) :: flat_map (print_entry c k (x_mem x)) (map (fun e => entry_for k (e_mem e) (rec_of e)) (ems_for p x)))
        with ([tag "P"; pkind_tag k; tnat (length (ems_for p x))] ++ flat_map (print_entry c k (x_mem x)) (map (fun e => entry_for k (e_mem e) (rec_of e)) (ems_for p x))).
      change (plain [tag "P"; pkind_tag k; tnat (length (ems_for p x))] "each_processor_once:final_count" :: flat_map (rec_chunks c k (x_mem x)) (ems_for p x))
        with ([plain [tag "P"; pkind_tag k; tnat (length (ems_for p x))] "each_processor_once:final_count"] ++ flat_map (rec_chunks c k (x_mem x)) (ems_for p x)).
      apply eats_app; [apply eats_prim1 | exact H1].
    + apply all_f15_app; [apply all_f15_app; [constructor | assumption] | assumption].
    + intro S. rewrite Q2 by assumption. rewrite Q1; [reflexivity|].
      unfold ems_for. apply Forall_forall. intros e Hin. apply in_map_iff in Hin. destruct Hin as [pe [Ee Hin]]. subst e.
      apply filter_In in Hin. destruct Hin as [Hin _]. rewrite Forall_forall in S. apply S. assumption.
Qed.

Lemma dump_sim : forall c st x, R st x ->
  exists ks, eats (dump_chunks c x) (dump c st) ks /\ all_f15 ks /\
             (Forall (fun pe => stable_em (x_mem x) (snd pe)) (x_exp x) -> ks = []).
Proof.
  intros c st x H. destruct (dump_from_sim c st x H (x_procs x) [] eq_refl) as [ks [H1 [F1 Q1]]].
  exists (ks ++ []). unfold dump_chunks, dump. rewrite (R_procs _ _ H). split; [|split].
  - apply eats_app; [exact H1 | apply eats_prim1].
  - apply all_f15_app; [assumption | constructor].
  - intro S. rewrite Q1 by assumption. reflexivity.
Qed.

(* ------------------------------------------------------------------ the finding the checker may report on the model *)
Definition is_known (t : tok) : bool := is_f15 t.

Lemma single_tag_end : forall l, single_tag "ILL" (l ++ [tag "E"]) = false.
Proof. intros [|a [|b l]]; reflexivity. Qed.

Theorem model_meets_spec_modulo_known : forall k t, In t (check_case k (run_case k)) -> is_known t = true.
Proof.
  intros k t Hin. unfold run_case in Hin.
  destruct (negb (mem_ok (k_mem k))); [cbn in Hin; contradiction|].
  destruct (lrun (k_cfg k) (lstate0 (k_mem k) (k_procs k)) (k_ops k)) as [st|] eqn:E.
  - destruct (run_sim _ _ _ _ _ (R_init (k_mem k) (k_procs k)) E) as [d [x [O [X RR]]]].
    cbn [lstate0 s_out app] in O. rewrite O in Hin.
    unfold check_case in Hin. unfold dump in Hin.
    rewrite app_assoc in Hin. rewrite single_tag_end in Hin.
    rewrite <- app_assoc in Hin. fold (dump (k_cfg k) st) in Hin.
    unfold check_run in Hin. rewrite X in Hin.
    destruct (dump_sim (k_cfg k) st x RR) as [ks [H1 [F1 _]]].
    pose proof (eats_eat _ _ _ H1 [] []) as EE. rewrite app_nil_r in EE. rewrite EE in Hin. cbn [app] in Hin.
    unfold is_known. unfold all_f15 in F1. rewrite Forall_forall in F1. exact (F1 t Hin).
  - cbn in Hin. contradiction.
Qed.

(* ------------------------------------------------------------------ ... and nothing at all when buffers are left alone *)
Definition is_mut (o : lop) : bool := match o with LMut _ _ => true | _ => false end.
Definition mem_fixed (x : xstate) : Prop := Forall (fun pe => e_mem (snd pe) = x_mem x) (x_exp x).

Lemma finish_op_inv : forall x1 cs obs known x2 r k2, finish_op x1 cs obs known = SOk x2 r k2 -> x2 = x1.
Proof.
  intros x1 cs obs known x2 r k2 H. unfold finish_op in H. destruct (eat cs obs known) as [[|b rest] kn|]; try discriminate.
  destruct (is_tag "|" b); inversion H. reflexivity.
Qed.

Lemma emit_to_fixed : forall x pids act h l, mem_fixed x -> mem_fixed (emit_to x pids act h l).
Proof.
  intros x pids act h l F. unfold mem_fixed, emit_to in *. cbn [x_exp x_mem]. apply Forall_app. split; [assumption|].
  apply Forall_forall. intros pe Hin. apply in_map_iff in Hin. destruct Hin as [p [E _]]. subst pe. reflexivity.
Qed.

Lemma emit_to_n_fixed : forall n x pids act h l, mem_fixed x -> mem_fixed (emit_to_n x pids act h l n).
Proof. induction n as [|n IH]; intros; cbn [emit_to_n]; [assumption|]. apply IH. apply emit_to_fixed. assumption. Qed.

Lemma variadic_fixed : forall c x l args obs known x' r k', mem_fixed x ->
  x_variadic c x l args obs known = SOk x' r k' -> mem_fixed x'.
Proof.
  intros c x l args obs known x' r k' F H. unfold x_variadic in H.
  destruct (eat_active obs) as [[act rest]|]; [|discriminate].
  destruct (logger_enabled c l); apply finish_op_inv in H; subst x'; [apply emit_to_fixed|]; assumption.
Qed.

Lemma xstep_fixed : forall c x o obs known x' r k', is_mut o = false -> mem_fixed x ->
  xstep c x o obs known = SOk x' r k' -> mem_fixed x'.
Proof.
  intros c x o obs known x' r k' M F H. destruct o; cbn [xstep] in H; try discriminate M.
  - apply finish_op_inv in H. subst. assumption.
  - apply finish_op_inv in H. subst. assumption.
  - apply finish_op_inv in H. subst. assumption.
  - apply finish_op_inv in H. subst. assumption.
  - destruct (eat_active obs) as [[act rest]|]; [|discriminate]. apply finish_op_inv in H. subst. exact F.
  - destruct (nth_error (x_slots x) r0) as [[| |pids act hist]|]; try discriminate; apply finish_op_inv in H; subst; exact F.
  - destruct (nth_error (x_slots x) r0) as [sl|]; [|discriminate].
    destruct (negb (logger_enabled c l)); [apply finish_op_inv in H; subst; exact F|].
    destruct sl as [| |pids act hist]; try discriminate; apply finish_op_inv in H; subst; [exact F|].
    unfold mem_fixed, with_xslots. cbn [x_exp x_mem]. apply (emit_to_fixed x pids act hist l F).
  - apply finish_op_inv in H. subst. assumption.
  - eapply variadic_fixed; eassumption.
  - destruct (nth_error (x_slots x) r0) as [[| |pids act hist]|]; try discriminate.
    + apply finish_op_inv in H. subst. assumption.
    + destruct (logger_enabled c l); [discriminate|]. apply finish_op_inv in H. subst. assumption.
    + destruct (logger_enabled c l); apply finish_op_inv in H; subst; [|exact F].
      unfold mem_fixed, with_xslots. cbn [x_exp x_mem]. apply (emit_to_fixed x pids act (hist ++ args) l F).
  - destruct (log_args form sev id name msg kvs) as [args|]; [|discriminate]. eapply variadic_fixed; eassumption.
  - eapply variadic_fixed; eassumption.
  - apply finish_op_inv in H. subst. unfold mem_fixed in *. cbn [x_exp x_mem]. exact F.
  - destruct (nth_error (c_loggers c) l) as [[[[? ?] ?] ?]|]; [|discriminate].
    destruct (logger_enabled c l); apply finish_op_inv in H; subst; assumption.
  - destruct (eat_active obs) as [[act rest]|]; [|discriminate]. apply finish_op_inv in H. subst.
    destruct (logger_enabled c l); [apply emit_to_n_fixed|]; assumption.
Qed.

Lemma check_ops_fixed : forall c ops x obs known x' r k', forallb (fun o => negb (is_mut o)) ops = true -> mem_fixed x ->
  check_ops c x ops obs known = SOk x' r k' -> mem_fixed x'.
Proof.
  induction ops as [|o ops IH]; intros x obs known x' r k' M F H; cbn [check_ops] in H.
  - inversion H; subst. assumption.
  - cbn [forallb] in M. apply andb_true_iff in M. destruct M as [M1 M2]. apply negb_true_iff in M1.
    destruct (xstep c x o obs known) as [x1 r1 k1| |] eqn:S; try discriminate.
    eapply IH; [exact M2 | eapply xstep_fixed; eassumption | exact H].
Qed.

Theorem model_meets_spec_strict : forall k,
  forallb (fun o => negb (is_mut o)) (k_ops k) = true ->
  check_case k (run_case k) = [].
Proof.
  intros k NM. unfold run_case.
  destruct (negb (mem_ok (k_mem k))); [reflexivity|].
  destruct (lrun (k_cfg k) (lstate0 (k_mem k) (k_procs k)) (k_ops k)) as [st|] eqn:E.
  - destruct (run_sim _ _ _ _ _ (R_init (k_mem k) (k_procs k)) E) as [d [x [O [X RR]]]].
    cbn [lstate0 s_out app] in O. rewrite O.
    unfold check_case, dump. rewrite app_assoc, single_tag_end.
    rewrite <- app_assoc. fold (dump (k_cfg k) st).
    unfold check_run. rewrite X.
    destruct (dump_sim (k_cfg k) st x RR) as [ks [H1 [_ Q1]]].
    pose proof (eats_eat _ _ _ H1 [] []) as EE. rewrite app_nil_r in EE. rewrite EE. cbn [app].
    apply Q1.
    assert (MF : mem_fixed x).
    { eapply check_ops_fixed; [exact NM | | apply (X [] [])]. constructor. }
    eapply Forall_impl; [|exact MF]. intros pe Em v. cbn beta in Em. rewrite Em. reflexivity.
  - reflexivity.
Qed.

(* ------------------------------------------------------------------ on the wire *)
Theorem model_meets_spec_wire : forall l k, parse_case l = Some k ->
  (forall t, In t (run_spec l (run_model l)) -> is_known t = true) /\
  (forallb (fun o => negb (is_mut o)) (k_ops k) = true -> run_spec l (run_model l) = []).
Proof.
  intros l k P. unfold run_spec, run_model. rewrite P. split.
  - apply model_meets_spec_modulo_known.
  - apply model_meets_spec_strict.
Qed.
