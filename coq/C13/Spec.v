(* SPEC for C13, written from the property text and independently of how the SDK stores a record.
   The checker replays the program on an abstract machine in which a log record is nothing but
     - the identity that was ACTIVE on the calling thread when it was created (read from the observation:
       the driver prints what the public context API returns just before the call; which span that is, is C10),
     - the HISTORY of arguments given to it, in order,
   and an emission is (history, emitting logger, caller memory at the time of Emit).  What every exporter must
   then show is stated field by field with "the last one supplied wins"; values are those caller memory held
   when Emit was called.  The observation (of the implementation, or of the model) is consumed chunk by chunk;
   the first chunk that differs names the clause of the property it contradicts.  A deferred exporter that shows
   a string/array value as caller memory holds it at the END of the case instead is reported under
   log_independent_of_later_mutation (open finding F15) and checking continues. *)
From V Require Export C13.Model.
Local Open Scope string_scope.
Local Open Scope list_scope.
Local Open Scope nat_scope.

(* ------------------------------------------------------------------ "the last one supplied" *)
Definition picks {A} (f : arg -> option A) (h : list arg) : list A :=
  flat_map (fun a => match f a with Some x => [x] | None => [] end) h.
Definition lastof {A} (f : arg -> option A) (h : list arg) : option A :=
  match rev (picks f h) with x :: _ => Some x | [] => None end.
Definition dflt {A} (d : A) (o : option A) : A := match o with Some x => x | None => d end.

Definition x_sev (a : arg) : option Z := match a with ASev s => Some s | _ => None end.
Definition x_body (a : arg) : option aval := match a with ABody _ v => Some v | _ => None end.
Definition x_ts (a : arg) : option Z := match a with ATs z | ATp z => Some z | _ => None end.
Definition x_obs (a : arg) : option Z := match a with AObs z => Some z | _ => None end.
(* an EventId carries its name as a C string; one without a name has the empty name *)
Definition x_eid (a : arg) : option (Z * bytes) :=
  match a with
  | AEid id (Some n) => Some (id, until_nul n) | AEid id None => Some (id, []) | AEidRaw id n => Some (id, n)
  | _ => None
  end.
Definition x_tid (a : arg) : option bytes := match a with ATid t | ACtx t _ _ => Some t | _ => None end.
Definition x_sid (a : arg) : option bytes := match a with ASid s | ACtx _ s _ => Some s | _ => None end.
Definition x_fl (a : arg) : option Z := match a with AFl f | ACtx _ _ f => Some f | _ => None end.
Definition kvs_of (a : arg) : list (bytes * aval) := match a with AAttrs _ kvs => kvs | _ => [] end.
Definition all_kvs (h : list arg) : list (bytes * aval) := flat_map kvs_of h.

(* attributes: the distinct keys in canonical order; per key the last value written *)
Definition key_mem (k : bytes) (l : list bytes) : bool := existsb (bytes_eqb k) l.
Fixpoint ins_sorted (k : bytes) (l : list bytes) : list bytes :=
  match l with
  | [] => [k]
  | k' :: r => match bytes_cmp k k' with Gt => k' :: ins_sorted k r | _ => k :: l end
  end.
Definition add_key (l : list bytes) (k : bytes) : list bytes := if key_mem k l then l else ins_sorted k l.
Definition distinct_keys (kvs : list (bytes * aval)) : list bytes := fold_left add_key (map fst kvs) [].
Definition last_value (k : bytes) (kvs : list (bytes * aval)) : aval :=
  match find (fun kv => bytes_eqb (fst kv) k) (rev kvs) with Some kv => snd kv | None => VBool false end.

(* ------------------------------------------------------------------ abstract machine *)
Inductive xslot :=
| XNull | XNoop
| XLive (pids : list nat) (act : option ident) (hist : list arg).

Record xem := mk_xem {
  e_act : option ident;      (* identity active when the record was created *)
  e_hist : list arg;         (* everything supplied, in order *)
  e_logger : nat;            (* the logger it was emitted through *)
  e_mem : mem                (* caller memory when Emit was called *)
}.

Record xstate := mk_x {
  x_mem : mem;
  x_procs : list pkind;
  x_slots : list xslot;
  x_exp : list (nat * xem)   (* (processor, emission) in order *)
}.
Definition xstate0 (m : mem) (ps : list pkind) : xstate := mk_x m ps [] [].


(* ------------------------------------------------------------------ chunks *)
(* expected tokens; what a deferred reader of mutated caller memory would show instead + the clause that is;
   the clause contradicted if neither is found *)
Definition chunk := (list tok * option (list tok * string) * string)%type.
Definition plain (e : list tok) (clause : string) : chunk := (e, None, clause).

Fixpoint strip_prefix (p l : list tok) : option (list tok) :=
  match p with
  | [] => Some l
  | x :: p' => match l with
               | y :: l' => if tok_eqb x y then strip_prefix p' l' else None
               | [] => None
               end
  end.

Inductive eres := EOk (rest : list tok) (known : list tok) | EFail (tags : list tok).

Fixpoint eat (cs : list chunk) (obs : list tok) (known : list tok) : eres :=
  match cs with
  | [] => EOk obs known
  | (e, alt, clause) :: cs' =>
      match strip_prefix e obs with
      | Some rest => eat cs' rest known
      | None =>
          match alt with
          | Some (e', clause') =>
              match strip_prefix e' obs with
              | Some rest => eat cs' rest (known ++ fail clause')
              | None => EFail (fail clause)
              end
          | None => EFail (fail clause)
          end
      end
  end.

Definition kind_name (v : aval) : string :=
  match v with
  | VCStr _ => "cstring" | VStr _ _ => "string" | VArr _ _ _ => "array" | VStrArr _ _ => "string_array"
  | _ => "scalar"
  end.

(* a value: as caller memory held it at Emit; a deferred exporter may instead show it as memory is at the end *)
Definition val_chunk (d : bool) (m final : mem) (pre : list tok) (v : aval) (name : string) : chunk :=
  (pre ++ print_oval (read m v),
   if d && negb (is_scalar v)
   then Some (pre ++ print_oval (read final v),
              ("log_independent_of_later_mutation:" ++ name ++ "_" ++ kind_name v)%string)
   else None,
   ("log_fields_as_supplied:" ++ name)%string).

Definition zero16 : bytes := repeat x00 16.
Definition zero8 : bytes := repeat x00 8.

(* "explicitly supplied identity wins; else the span active at creation; else all-zero" - per component *)
Definition id_chunk {A} (pr : A -> tok) (explicit : option A) (act : option A) (zero : A) (name : string) : chunk :=
  match explicit, act with
  | Some x, _ => plain [pr x] ("explicit_identity_wins:" ++ name)
  | None, Some x => plain [pr x] ("active_span_identity:" ++ name)
  | None, None => plain [pr zero] ("no_span_zero_ids:" ++ name)
  end.

Definition count_if {A} (f : A -> bool) (l : list A) : nat := length (filter f l).
Definition is_obs (a : arg) : bool := match a with AObs _ => true | _ => false end.

Definition scope_toks (c : cfg) (l : nat) : list tok :=
  match nth_error (c_loggers c) l with
  | Some lg => let '(_, _, ver, sch) := lg in [TB (scope_name lg); TB ver; TB sch; tbool true]
  | None => [tag "noscope"]
  end.

(* what exporter of kind [k] must show for emission [e] *)
Definition rec_chunks (c : cfg) (k : pkind) (final : mem) (e : xem) : list chunk :=
  let h := e_hist e in
  let m := e_mem e in
  let d := deferred k in
  let kvs := all_kvs h in
  let ev := dflt (0%Z, []) (lastof x_eid h) in
  [ plain [tag "R"] "format:record";
    plain [TZ (dflt 0%Z (lastof x_sev h))] "log_fields_as_supplied:severity";
    val_chunk d m final [] (dflt (VStr 0 0) (lastof x_body h)) "body";
    plain [TZ (dflt 0%Z (lastof x_ts h))] "log_fields_as_supplied:timestamp";
    plain (match lastof x_obs h with None => [tag "now"] | Some z => [tag "set"; TZ z] end)
          "log_fields_as_supplied:observed_timestamp";
    plain [TZ (fst ev); TB (snd ev)] "log_fields_as_supplied:event_id";
    id_chunk TB (lastof x_tid h) (option_map (fun i => fst (fst i)) (e_act e)) zero16 "trace_id";
    id_chunk TB (lastof x_sid h) (option_map (fun i => snd (fst i)) (e_act e)) zero8 "span_id";
    id_chunk TZ (lastof x_fl h) (option_map (fun i => snd i) (e_act e)) 0%Z "trace_flags";
    plain [tnat (length (distinct_keys kvs))] "log_fields_as_supplied:attribute_count" ] ++
  map (fun key => val_chunk d m final [TB key] (last_value key kvs) "attribute") (distinct_keys kvs) ++
  [ plain (scope_toks c (e_logger e)) "log_fields_as_supplied:instrumentation_scope";
    plain [tbool true; TB (c_res c)] "log_fields_as_supplied:resource" ] ++
  match k with
  | PProbe => [ plain [tag "calls"; tnat (S (count_if is_obs h)); tnat 1; tnat 1] "log_fields_as_supplied:sdk_setter_calls" ]
  | _ => []
  end.

Definition ems_for (p : nat) (x : xstate) : list xem := map snd (filter (fun pe => Nat.eqb (fst pe) p) (x_exp x)).

Definition proc_chunks (c : cfg) (x : xstate) (p : nat) (k : pkind) : list chunk :=
  plain [tag "P"; pkind_tag k; tnat (length (ems_for p x))] "each_processor_once:final_count" ::
  flat_map (rec_chunks c k (x_mem x)) (ems_for p x).

Fixpoint dump_chunks_from (c : cfg) (x : xstate) (p : nat) (ps : list pkind) : list chunk :=
  match ps with
  | [] => []
  | k :: ps' => proc_chunks c x p k ++ dump_chunks_from c x (S p) ps'
  end.
Definition dump_chunks (c : cfg) (x : xstate) : list chunk :=
  dump_chunks_from c x 0 (x_procs x) ++ [plain [tag "E"] "format:end"].

(* the running totals printed after every emitting call *)
Definition count_chunk (x : xstate) (clause : string) : chunk :=
  plain (tag "N" :: map (fun p => tnat (length (ems_for p x))) (seq 0 (length (x_procs x)))) clause.

(* ------------------------------------------------------------------ one operation *)
Inductive sres := SOk (x : xstate) (rest : list tok) (known : list tok) | SFail (tags : list tok) | SIll.

Definition eat_active (obs : list tok) : option (option ident * list tok) :=
  match obs with
  | a :: TB t :: TB s :: TZ f :: rest => if is_tag "A" a then Some (Some (t, s, f), rest) else None
  | a :: n :: rest => if is_tag "A" a && is_tag "none" n then Some (None, rest) else None
  | _ => None
  end.

(* after the chunks of an operation comes the separator *)
Definition finish_op (x : xstate) (cs : list chunk) (obs known : list tok) : sres :=
  match eat cs obs known with
  | EOk (b :: rest) known' => if is_tag "|" b then SOk x rest known' else SFail (fail "format:separator")
  | EOk [] _ => SFail (fail "format:truncated")
  | EFail t => SFail t
  end.

Definition with_xslots (x : xstate) (sl : list xslot) : xstate := mk_x (x_mem x) (x_procs x) sl (x_exp x).

(* an emission of (act, hist) through enabled logger [l]: once to every processor the record was created for *)
Definition emit_to (x : xstate) (pids : list nat) (act : option ident) (hist : list arg) (l : nat) : xstate :=
  mk_x (x_mem x) (x_procs x) (x_slots x)
       (x_exp x ++ map (fun p => (p, mk_xem act hist l (x_mem x))) pids).

Definition all_pids (x : xstate) : list nat := seq 0 (length (x_procs x)).
Fixpoint emit_to_n (x : xstate) (pids : list nat) (act : option ident) (hist : list arg) (l n : nat) : xstate :=
  match n with 0 => x | S n' => emit_to_n (emit_to x pids act hist l) pids act hist l n' end.

(* logger->EmitLogRecord(args...) and everything that is defined as such a call *)
Definition x_variadic (c : cfg) (x : xstate) (l : nat) (args : list arg) (obs known : list tok) : sres :=
  match eat_active obs with
  | None => SFail (fail "format:active")
  | Some (act, rest) =>
      if logger_enabled c l
      then let x' := emit_to x (all_pids x) act args l in
           finish_op x' [count_chunk x' "each_processor_once:exported_count"] rest known
      else finish_op x [count_chunk x "disabled_emits_nothing:exported_count"] rest known
  end.

Definition xstep (c : cfg) (x : xstate) (o : lop) (obs known : list tok) : sres :=
  match o with
  | LScope _ _ | LAttachOther _ | LAttachBare _ | LClose _ => finish_op x [] obs known
  | LCreate t l =>
      match eat_active obs with
      | None => SFail (fail "format:active")
      | Some (act, rest) =>
          let sl := if logger_enabled c l then XLive (all_pids x) act [] else XNoop in
          finish_op (with_xslots x (x_slots x ++ [sl])) [] rest known
      end
  | LApply r a =>
      match nth_error (x_slots x) r with
      | Some (XLive pids act hist) =>
          finish_op (with_xslots x (set_nth r (XLive pids act (hist ++ [a])) (x_slots x))) [] obs known
      | Some XNoop => finish_op x [] obs known
      | _ => SIll
      end
  | LEmit t l r =>
      match nth_error (x_slots x) r with
      | None => SIll
      | Some sl =>
          if negb (logger_enabled c l) then finish_op x [count_chunk x "disabled_emits_nothing:exported_count"] obs known
          else match sl with
               | XNull => finish_op x [count_chunk x "null_ignored:exported_count"] obs known
               | XNoop => SIll
               | XLive pids act hist =>
                   let x' := with_xslots (emit_to x pids act hist l) (set_nth r XNull (x_slots x)) in
                   finish_op x' [count_chunk x' "each_processor_once:exported_count"] obs known
               end
      end
  | LEmitNull t l =>
      finish_op x [count_chunk x (if logger_enabled c l then "null_ignored:exported_count"
                                  else "disabled_emits_nothing:exported_count")] obs known
  | LEmitV t l args => x_variadic c x l args obs known
  | LEmitRV t l r args =>
      match nth_error (x_slots x) r with
      | None => SIll
      | Some XNull =>
          finish_op x [count_chunk x (if logger_enabled c l then "null_ignored:exported_count"
                                      else "disabled_emits_nothing:exported_count")] obs known
      | Some XNoop =>
          if logger_enabled c l then SIll
          else finish_op x [count_chunk x "disabled_emits_nothing:exported_count"] obs known
      | Some (XLive pids act hist) =>
          if logger_enabled c l
          then let x' := with_xslots (emit_to x pids act (hist ++ args) l) (set_nth r XNull (x_slots x)) in
               finish_op x' [count_chunk x' "each_processor_once:exported_count"] obs known
          else let x' := with_xslots x (set_nth r (XLive pids act (hist ++ args)) (x_slots x)) in
               finish_op x' [count_chunk x' "disabled_emits_nothing:exported_count"] obs known
      end
  | LLog t l named form sev id name msg kvs =>
      match log_args form sev id name msg kvs with
      | Some args => x_variadic c x l args obs known
      | None => SIll
      end
  | LLevel t l sev args => x_variadic c x l (ASev sev :: args) obs known
  | LMut a b => finish_op (mk_x (set_nth a b (x_mem x)) (x_procs x) (x_slots x) (x_exp x)) [] obs known
  | LAddProc k => finish_op (mk_x (x_mem x) (x_procs x ++ [k]) (x_slots x) (x_exp x)) [] obs known
  | LName l =>
      match nth_error (c_loggers c) l with
      | Some (ln, _, _, _) =>
          if logger_enabled c l then finish_op x [plain [TB ln] "log_fields_as_supplied:logger_name"] obs known
          else finish_op x [plain [TB (map n2b kNoopLoggerName)] "disabled_emits_nothing:logger_name"] obs known
      | None => SIll
      end
  | LBurst t l n flush args =>
      (* n emissions of the same arguments: every processor n more, each exactly as supplied *)
      match eat_active obs with
      | None => SFail (fail "format:active")
      | Some (act, rest) =>
          let x' := if logger_enabled c l then emit_to_n x (all_pids x) act args l n else x in
          finish_op x' (if flush
                        then [count_chunk x' (if logger_enabled c l then "each_processor_once:burst_exported_count"
                                              else "disabled_emits_nothing:exported_count")]
                        else []) rest known
      end
  end.

Fixpoint check_ops (c : cfg) (x : xstate) (ops : list lop) (obs known : list tok) : sres :=
  match ops with
  | [] => SOk x obs known
  | o :: ops' =>
      match xstep c x o obs known with
      | SOk x' rest known' => check_ops c x' ops' rest known'
      | r => r
      end
  end.

(* the whole case against an observation *)
Definition check_run (k : case) (obs : list tok) : list tok :=
  match check_ops (k_cfg k) (xstate0 (k_mem k) (k_procs k)) (k_ops k) obs [] with
  | SOk x rest known =>
      match eat (dump_chunks (k_cfg k) x) rest known with
      | EOk [] known' => known'
      | EOk _ known' => known' ++ fail "format:trailing"
      | EFail t => known ++ t
      end
  | SFail t => t
  | SIll => []
  end.

Definition single_tag (s : string) (obs : list tok) : bool :=
  match obs with [t] => is_tag s t | _ => false end.

Definition check_case (k : case) (obs : list tok) : list tok :=
  if single_tag "ILL" obs then []              (* the program itself is not well defined: nothing is claimed *)
  else check_run k obs.
