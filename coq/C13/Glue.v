(* Glue between the token wire format and the C13 model/spec.  Extracted.
   case    := CFG def_dis {xname dis} ; LG {xlogger xlibrary xversion xschema} ; SP {xtid xsid flags kind} ;
              RES xmarker ; PR {pkind} ; HP buf {, buf} ; OPS op { | op }
   buf     := hb xbytes | hc xbytes | hz akind {z} | hv {addr len}
   aval    := b 0/1 | i z | l z | u z | d bits | U z | c addr | s addr len | A akind addr len | S addr len
   arg     := sev n | eid id xname | eidn id | bsv aval | bcs aval | bav aval | ctx xtid xsid fl | sid x | tid x
            | tfl n | ts z | tp z | kvi kvs | vec kvs | spn kvs | kvv kvs | obs z | eidraw id xname
   kvs     := [ xkey aval { / xkey aval } ]
   op      := SC t vk s | AO t | AB t | CL k | CR t l | AP r arg | EM t l r | EN t l | EV t l [arg {, arg}]
            | ER t l r [arg {, arg}] | LG t l named form sev id xname addr len kvs | LV t l sev [arg {, arg}]
            | MU addr buf | AD pkind | NM l | BU t l n flush [arg {, arg}]       pkind := I | K | B | P | Q1..Q4 *)
From V Require Export C13.Spec.
Local Open Scope Z_scope.

Definition two63 : Z := 9223372036854775808.
Definition two64 : Z := 18446744073709551616.
Definition two31 : Z := 2147483648.
Definition two32 : Z := 4294967296.

Definition parse_nat (t : tok) : option nat :=
  match t with TZ n => if (0 <=? n) && (n <? 65536) then Some (Z.to_nat n) else None | _ => None end.
Definition parse_bool (t : tok) : option bool :=
  match t with TZ 0 => Some false | TZ 1 => Some true | _ => None end.
Definition in_range (lo hi z : Z) : bool := (lo <=? z) && (z <? hi).

Definition parse_akind (t : tok) : option akind :=
  if is_tag "b" t then Some AKBool else if is_tag "i" t then Some AKI32 else if is_tag "l" t then Some AKI64
  else if is_tag "u" t then Some AKU32 else if is_tag "d" t then Some AKDbl else if is_tag "U" t then Some AKU64
  else if is_tag "y" t then Some AKU8 else None.
Definition elem_ok (k : akind) (z : Z) : bool :=
  match k with
  | AKBool => in_range 0 2 z | AKI32 => in_range (- two31) two31 z | AKI64 => in_range (- two63) two63 z
  | AKU32 => in_range 0 two32 z | AKDbl | AKU64 => in_range 0 two64 z | AKU8 => in_range 0 256 z
  end.

Fixpoint parse_zs (k : akind) (l : list tok) : option (list Z) :=
  match l with
  | [] => Some []
  | TZ z :: l' => if elem_ok k z then option_map (cons z) (parse_zs k l') else None
  | _ => None
  end.
Fixpoint parse_views (l : list tok) : option (list (nat * nat)) :=
  match l with
  | [] => Some []
  | ta :: tl :: l' =>
      match parse_nat ta, parse_nat tl, parse_views l' with
      | Some a, Some n, Some r => Some ((a, n) :: r)
      | _, _, _ => None
      end
  | _ => None
  end.

Definition parse_buf (l : list tok) : option buf :=
  match l with
  | [t; TB b] => if is_tag "hb" t then Some (HB b) else if is_tag "hc" t then Some (HC b) else None
  | t :: rest =>
      if is_tag "hz" t then
        match rest with
        | tk :: zs => match parse_akind tk with
                      | Some k => option_map (HZ k) (parse_zs k zs)
                      | None => None
                      end
        | [] => None
        end
      else if is_tag "hv" t then option_map HV (parse_views rest)
      else None
  | [] => None
  end.

(* a value and the tokens after it *)
Definition parse_aval (l : list tok) : option (aval * list tok) :=
  match l with
  | t :: TZ z :: rest =>
      if is_tag "b" t then match z with 0 => Some (VBool false, rest) | 1 => Some (VBool true, rest) | _ => None end
      else if is_tag "i" t then if elem_ok AKI32 z then Some (VI32 z, rest) else None
      else if is_tag "l" t then if elem_ok AKI64 z then Some (VI64 z, rest) else None
      else if is_tag "u" t then if elem_ok AKU32 z then Some (VU32 z, rest) else None
      else if is_tag "d" t then if elem_ok AKDbl z then Some (VDbl z, rest) else None
      else if is_tag "U" t then if elem_ok AKU64 z then Some (VU64 z, rest) else None
      else if is_tag "c" t then match parse_nat (TZ z) with Some a => Some (VCStr a, rest) | None => None end
      else if is_tag "s" t then
        match rest with
        | tl :: rest' => match parse_nat (TZ z), parse_nat tl with
                         | Some a, Some n => Some (VStr a n, rest')
                         | _, _ => None
                         end
        | [] => None
        end
      else if is_tag "S" t then
        match rest with
        | tl :: rest' => match parse_nat (TZ z), parse_nat tl with
                         | Some a, Some n => Some (VStrArr a n, rest')
                         | _, _ => None
                         end
        | [] => None
        end
      else None
  | t :: tk :: ta :: tl :: rest =>
      if is_tag "A" t then
        match parse_akind tk, parse_nat ta, parse_nat tl with
        | Some k, Some a, Some n => Some (VArr k a n, rest)
        | _, _, _ => None
        end
      else None
  | _ => None
  end.

Definition parse_kv (l : list tok) : option (bytes * aval) :=
  match l with
  | TB k :: rest => match parse_aval rest with Some (v, []) => Some (k, v) | _ => None end
  | _ => None
  end.
Fixpoint parse_all {A} (f : list tok -> option A) (l : list (list tok)) : option (list A) :=
  match l with
  | [] => Some []
  | x :: l' => match f x, parse_all f l' with Some a, Some r => Some (a :: r) | _, _ => None end
  end.
Definition parse_kvs (l : list tok) : option (list (bytes * aval)) :=
  match l with [] => Some [] | _ => parse_all parse_kv (split_toks "/" l) end.

Definition id_ok (n : nat) (b : bytes) : bool := Nat.eqb (length b) n.

Definition parse_arg (l : list tok) : option arg :=
  match l with
  | [] => None
  | t :: a =>
      if is_tag "sev" t then match a with [TZ s] => if in_range 0 256 s then Some (ASev s) else None | _ => None end
      else if is_tag "eid" t then match a with [TZ id; TB n] => if elem_ok AKI64 id then Some (AEid id (Some n)) else None | _ => None end
      else if is_tag "eidn" t then match a with [TZ id] => if elem_ok AKI64 id then Some (AEid id None) else None | _ => None end
      else if is_tag "bsv" t then match parse_aval a with Some (v, []) => Some (ABody BSv v) | _ => None end
      else if is_tag "bcs" t then match parse_aval a with Some (v, []) => Some (ABody BCs v) | _ => None end
      else if is_tag "bav" t then match parse_aval a with Some (v, []) => Some (ABody BAv v) | _ => None end
      else if is_tag "ctx" t then
        match a with [TB ti; TB si; TZ f] => if id_ok 16 ti && id_ok 8 si && in_range 0 256 f then Some (ACtx ti si f) else None | _ => None end
      else if is_tag "sid" t then match a with [TB si] => if id_ok 8 si then Some (ASid si) else None | _ => None end
      else if is_tag "tid" t then match a with [TB ti] => if id_ok 16 ti then Some (ATid ti) else None | _ => None end
      else if is_tag "tfl" t then match a with [TZ f] => if in_range 0 256 f then Some (AFl f) else None | _ => None end
      else if is_tag "ts" t then match a with [TZ z] => if elem_ok AKI64 z then Some (ATs z) else None | _ => None end
      else if is_tag "tp" t then match a with [TZ z] => if elem_ok AKI64 z then Some (ATp z) else None | _ => None end
      else if is_tag "kvi" t then option_map (AAttrs HKvi) (parse_kvs a)
      else if is_tag "vec" t then option_map (AAttrs HVec) (parse_kvs a)
      else if is_tag "spn" t then option_map (AAttrs HSpan) (parse_kvs a)
      else if is_tag "kvv" t then option_map (AAttrs HView) (parse_kvs a)
      else if is_tag "obs" t then match a with [TZ z] => if elem_ok AKI64 z then Some (AObs z) else None | _ => None end
      else if is_tag "eidraw" t then match a with [TZ id; TB n] => if elem_ok AKI64 id then Some (AEidRaw id n) else None | _ => None end
      else None
  end.
Definition parse_args (l : list tok) : option (list arg) :=
  match l with [] => Some [] | _ => parse_all parse_arg (split_toks "," l) end.

Definition parse_pkind (t : tok) : option pkind :=
  if is_tag "I" t then Some PImm else if is_tag "K" t then Some PKeep else if is_tag "B" t then Some PBatch
  else if is_tag "P" t then Some PProbe
  else if is_tag "Q1" t then Some (PRead 1) else if is_tag "Q2" t then Some (PRead 2)
  else if is_tag "Q3" t then Some (PRead 3) else if is_tag "Q4" t then Some (PRead 4) else None.

Definition parse_sval (t : tok) (s : nat) : option sval :=
  if is_tag "S" t then Some (SVSpan s) else if is_tag "SN" t then Some SVNullSpan else if is_tag "C" t then Some (SVCtx s)
  else if is_tag "CN" t then Some SVNullCtx else if is_tag "B" t then Some SVBool else None.

Definition parse_op (l : list tok) : option lop :=
  match l with
  | [] => None
  | t :: a =>
      if is_tag "SC" t then
        match a with [tth; tv; ts] =>
          match parse_nat tth, parse_nat ts with
          | Some th, Some s => option_map (LScope th) (parse_sval tv s)
          | _, _ => None
          end
        | _ => None end
      else if is_tag "AO" t then match a with [tth] => option_map LAttachOther (parse_nat tth) | _ => None end
      else if is_tag "AB" t then match a with [tth] => option_map LAttachBare (parse_nat tth) | _ => None end
      else if is_tag "CL" t then match a with [tk] => option_map LClose (parse_nat tk) | _ => None end
      else if is_tag "CR" t then
        match a with [tth; tl] => match parse_nat tth, parse_nat tl with Some th, Some lg => Some (LCreate th lg) | _, _ => None end | _ => None end
      else if is_tag "AP" t then
        match a with tr :: rest => match parse_nat tr, parse_arg rest with Some r, Some x => Some (LApply r x) | _, _ => None end | _ => None end
      else if is_tag "EM" t then
        match a with [tth; tl; tr] =>
          match parse_nat tth, parse_nat tl, parse_nat tr with Some th, Some lg, Some r => Some (LEmit th lg r) | _, _, _ => None end
        | _ => None end
      else if is_tag "EN" t then
        match a with [tth; tl] => match parse_nat tth, parse_nat tl with Some th, Some lg => Some (LEmitNull th lg) | _, _ => None end | _ => None end
      else if is_tag "EV" t then
        match a with tth :: tl :: rest =>
          match parse_nat tth, parse_nat tl, parse_args rest with Some th, Some lg, Some xs => Some (LEmitV th lg xs) | _, _, _ => None end
        | _ => None end
      else if is_tag "ER" t then
        match a with tth :: tl :: tr :: rest =>
          match parse_nat tth, parse_nat tl, parse_nat tr, parse_args rest with
          | Some th, Some lg, Some r, Some xs => Some (LEmitRV th lg r xs)
          | _, _, _, _ => None
          end
        | _ => None end
      else if is_tag "LG" t then
        match a with tth :: tl :: tn :: tf :: TZ sev :: TZ id :: TB name :: ta :: tlen :: rest =>
          match parse_nat tth, parse_nat tl, parse_bool tn, parse_nat tf, parse_nat ta, parse_nat tlen, parse_kvs rest with
          | Some th, Some lg, Some named, Some form, Some ad, Some len, Some kvs =>
              if in_range 0 256 sev && elem_ok AKI64 id then Some (LLog th lg named form sev id name (VStr ad len) kvs) else None
          | _, _, _, _, _, _, _ => None
          end
        | _ => None end
      else if is_tag "LV" t then
        match a with tth :: tl :: TZ sev :: rest =>
          match parse_nat tth, parse_nat tl, parse_args rest with
          | Some th, Some lg, Some xs => if in_range 0 256 sev then Some (LLevel th lg sev xs) else None
          | _, _, _ => None
          end
        | _ => None end
      else if is_tag "MU" t then
        match a with ta :: rest => match parse_nat ta, parse_buf rest with Some ad, Some b => Some (LMut ad b) | _, _ => None end | _ => None end
      else if is_tag "AD" t then match a with [tk] => option_map LAddProc (parse_pkind tk) | _ => None end
      else if is_tag "NM" t then match a with [tl] => option_map LName (parse_nat tl) | _ => None end
      else if is_tag "BU" t then
        match a with tth :: tl :: tn :: tf :: rest =>
          match parse_nat tth, parse_nat tl, parse_nat tn, parse_bool tf, parse_args rest with
          | Some th, Some lg, Some n, Some fl, Some xs => Some (LBurst th lg n fl xs)
          | _, _, _, _, _ => None
          end
        | _ => None end
      else None
  end.

Fixpoint parse_conds (l : list tok) : option (list (bytes * bool)) :=
  match l with
  | [] => Some []
  | TB n :: td :: l' => match parse_bool td, parse_conds l' with Some d, Some r => Some ((n, d) :: r) | _, _ => None end
  | _ => None
  end.
Fixpoint parse_loggers (l : list tok) : option (list (bytes * bytes * bytes * bytes)) :=
  match l with
  | [] => Some []
  | TB a :: TB b :: TB c :: TB d :: l' => option_map (cons (a, b, c, d)) (parse_loggers l')
  | _ => None
  end.
Fixpoint parse_spans (l : list tok) : option (list ident) :=
  match l with
  | [] => Some []
  | TB ti :: TB si :: TZ f :: TT _ :: l' =>
      if id_ok 16 ti && id_ok 8 si && in_range 0 256 f then option_map (cons (ti, si, f)) (parse_spans l') else None
  | _ => None
  end.
Fixpoint parse_pkinds (l : list tok) : option (list pkind) :=
  match l with
  | [] => Some []
  | t :: l' => match parse_pkind t, parse_pkinds l' with Some k, Some r => Some (k :: r) | _, _ => None end
  end.

Definition nonempty (l : list (list tok)) : list (list tok) := filter (fun x => match x with [] => false | _ => true end) l.

(* a burst that is not flushed is delivered when the provider shuts down: only as the last operation *)
Definition unflushed (o : lop) : bool := match o with LBurst _ _ _ false _ => true | _ => false end.
Definition bursts_ok (ops : list lop) : bool :=
  match rev ops with [] => true | _ :: r => negb (existsb unflushed r) end.

Definition parse_case (l : list tok) : option case :=
  match split_toks ";" l with
  | [tc :: td :: conds; tlg :: lgs; tsp :: sps; [tres; TB marker]; tpr :: prs; thp :: bufs; tops :: ops] =>
      if is_tag "CFG" tc && is_tag "LG" tlg && is_tag "SP" tsp && is_tag "RES" tres && is_tag "PR" tpr
         && is_tag "HP" thp && is_tag "OPS" tops then
        match parse_bool td, parse_conds conds, parse_loggers lgs, parse_spans sps, parse_pkinds prs,
              parse_all parse_buf (nonempty (split_toks "," bufs)), parse_all parse_op (nonempty (split_toks "|" ops)) with
        | Some d, Some cs, Some lg, Some sp, Some pr, Some m, Some os =>
            if bursts_ok os then Some (mk_case (mk_cfg d cs lg sp marker) m pr os) else None
        | _, _, _, _, _, _, _ => None
        end
      else None
  | _ => None
  end.

(* independence probe (harness/c13_purity.cc, ThreadSanitizer build): PURITY <scenario> <threads> <rounds> <iters>.
   A run-time probe, not part of the model: the model's answer is "PURE", the SPEC reads the probe's verdict. *)
Definition is_purity (l : list tok) : bool :=
  match l with [t; TZ _; TZ _; TZ _; TZ _] => is_tag "PURITY" t | _ => false end.
Definition spec_purity (obs : list tok) : list tok :=
  match obs with
  | [t] => if is_tag "PURE" t then [] else if is_tag "HANG" t then fail "purity:hang" else fail "obs:unparsable"
  | t :: _ => if is_tag "RACE" t then fail "purity:data_race"
              else if is_tag "DIFFERS" t then fail "purity:result_differs"
              else if is_tag "HARNESSRACE" t then fail "harness:probe_race"
              else if is_tag "CRASH" t then fail "purity:crash"
              else fail "obs:unparsable"
  | [] => fail "obs:unparsable"
  end.

Definition run_model (l : list tok) : list tok :=
  match parse_case l with Some k => run_case k | None => if is_purity l then [tag "PURE"] else bad_case end.

(* ------------------------------------------------------------------ branch tag for coverage accounting *)
Definition op_tag (o : lop) : string :=
  match o with
  | LScope _ _ | LAttachOther _ | LAttachBare _ | LClose _ => "x"
  | LCreate _ _ => "c" | LApply _ _ => "a" | LEmit _ _ _ => "e" | LEmitNull _ _ => "n"
  | LEmitV _ _ _ => "v" | LEmitRV _ _ _ _ => "r" | LLog _ _ _ _ _ _ _ _ _ => "g" | LLevel _ _ _ _ => "l"
  | LMut _ _ => "m" | LAddProc _ => "p" | LName _ => "q" | LBurst _ _ _ _ _ => "b"
  end.
Definition has_op (s : string) (ops : list lop) : bool := existsb (fun o => String.eqb (op_tag o) s) ops.
Definition run_tag (l : list tok) : list tok :=
  match parse_case l with
  | None => if is_purity l then [tag "purity"] else bad_case
  | Some k =>
      match run_case k with
      | [t] => if is_tag "ILL" t then [tag "ill"] else [tag "odd"]
      | out =>
          let spec := check_case k out in
          let ops := k_ops k in
          [tag ((if has_op "m" ops then "mut_" else "nomut_") ++
                (if has_op "v" ops || has_op "g" ops || has_op "l" ops then "variadic_" else "") ++
                (if has_op "e" ops || has_op "r" ops then "stepwise_" else "") ++
                (if has_op "b" ops then "burst_" else "") ++
                (if has_op "x" ops then "spans_" else "nospans_") ++
                (match spec with [] => "clean" | _ => "f15" end))%string]
      end
  end.

Definition run_spec (l obs : list tok) : list tok :=
  match parse_case l with Some k => check_case k obs | None => if is_purity l then spec_purity obs else bad_case end.
