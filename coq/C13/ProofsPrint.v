(* C13 proofs, part 3: what an exporter prints for an emitted record is, chunk by chunk, what the SPEC expects
   when it reads caller memory as it was at Emit; when it reads caller memory as it is at the end (deferred
   exporters) every chunk is still accepted, string/array values possibly through the
   log_independent_of_later_mutation alternative (F15) and nothing else. *)
From V Require Import C13.Spec C13.ProofsBase C13.ProofsFields C10.ProofsCtx.
From Coq Require Import Lia.
Local Open Scope nat_scope.
Local Open Scope string_scope.
Local Open Scope list_scope.

(* ------------------------------------------------------------------ eating with alternatives *)
Inductive eats : list chunk -> list tok -> list tok -> Prop :=
| eats_nil : eats [] [] []
| eats_prim : forall e alt cl cs ts ks, eats cs ts ks -> eats ((e, alt, cl) :: cs) (e ++ ts) ks
| eats_alt : forall e e' cl cl' cs ts ks,
    eats cs ts ks -> (forall r, strip_prefix e (e' ++ r) = None) ->
    eats ((e, Some (e', cl'), cl) :: cs) (e' ++ ts) (fail cl' ++ ks).

Lemma eats_eat : forall cs ts ks, eats cs ts ks ->
  forall rest known, eat cs (ts ++ rest) known = EOk rest (known ++ ks).
Proof.
  induction 1 as [|e alt cl cs ts ks H IH|e e' cl cl' cs ts ks H IH N]; intros rest known.
  - cbn. rewrite app_nil_r. reflexivity.
  - cbn. rewrite <- app_assoc, strip_prefix_app. apply IH.
  - cbn. rewrite <- app_assoc, N, strip_prefix_app, IH, <- app_assoc. reflexivity.
Qed.

Lemma eats_app : forall cs1 ts1 ks1 cs2 ts2 ks2,
  eats cs1 ts1 ks1 -> eats cs2 ts2 ks2 -> eats (cs1 ++ cs2) (ts1 ++ ts2) (ks1 ++ ks2).
Proof.
  induction 1 as [|e alt cl cs ts ks H IH|e e' cl cl' cs ts ks H IH N]; intro H2; cbn.
  - assumption.
  - rewrite <- app_assoc. constructor. apply IH. assumption.
  - rewrite <- !app_assoc. cbn. apply (eats_alt e e' cl cl' (cs ++ cs2) (ts ++ ts2) (ks ++ ks2)); [apply IH; assumption | assumption].
Qed.

Lemma eats_prim1 : forall e alt cl, eats [(e, alt, cl)] e [].
Proof. intros. pose proof (eats_prim e alt cl [] [] [] eats_nil) as H. rewrite app_nil_r in H. exact H. Qed.
Lemma eats_alt1 : forall e e' cl cl', (forall r, strip_prefix e (e' ++ r) = None) -> eats [(e, Some (e', cl'), cl)] e' (fail cl').
Proof.
  intros e e' cl cl' N. pose proof (eats_alt e e' cl cl' [] [] [] eats_nil N) as H. rewrite !app_nil_r in H. exact H.
Qed.

Lemma eats_plains : forall cs, all_plain cs -> eats cs (toks_of cs) [].
Proof.
  induction cs as [|[[e alt] cl] cs IH]; intro H; cbn; [constructor|].
  inversion H; subst. constructor. apply IH. assumption.
Qed.

(* ------------------------------------------------------------------ the tags of the open finding *)
Definition f15_tags : list string :=
  [ "log_independent_of_later_mutation:body_cstring"; "log_independent_of_later_mutation:body_string";
    "log_independent_of_later_mutation:body_array"; "log_independent_of_later_mutation:body_string_array";
    "log_independent_of_later_mutation:attribute_cstring"; "log_independent_of_later_mutation:attribute_string";
    "log_independent_of_later_mutation:attribute_array"; "log_independent_of_later_mutation:attribute_string_array" ].
Definition is_f15 (t : tok) : bool := existsb (fun s => tok_eqb t (tag s)) f15_tags.
Definition all_f15 (ks : list tok) : Prop := Forall (fun t => is_f15 t = true) ks.

Lemma all_f15_app : forall a b, all_f15 a -> all_f15 b -> all_f15 (a ++ b).
Proof. intros. apply Forall_app. split; assumption. Qed.

Lemma scalar_read : forall m1 m2 v, is_scalar v = true -> read m1 v = read m2 v.
Proof. intros m1 m2 [] H; try discriminate; reflexivity. Qed.

(* a value read from the memory the SPEC expects *)
Lemma val_chunk_same : forall d m final pre v name,
  eats [val_chunk d m final pre v name] (pre ++ print_oval (read m v)) [].
Proof. intros. unfold val_chunk. apply eats_prim1. Qed.

(* a value read from caller memory at the end, by a deferred exporter *)
Lemma val_chunk_final : forall m final pre v name,
  name = "body" \/ name = "attribute" ->
  exists ks, eats [val_chunk true m final pre v name] (pre ++ print_oval (read final v)) ks /\ all_f15 ks.
Proof.
  intros m final pre v name Hn.
  destruct (oval_eq_dec (read m v) (read final v)) as [E|NE].
  - exists []. split; [|constructor]. rewrite <- E. apply val_chunk_same.
  - destruct (is_scalar v) eqn:S; [exfalso; apply NE; apply scalar_read; assumption|].
    unfold val_chunk. rewrite S. cbn [andb negb].
    eexists. split.
    + apply eats_alt1.
      intro r. destruct (strip_prefix (pre ++ print_oval (read m v)) ((pre ++ print_oval (read final v)) ++ r)) as [r'|] eqn:P; [|reflexivity].
      exfalso. apply strip_prefix_spec in P. rewrite <- !app_assoc in P. apply app_inv_head in P.
      apply print_oval_inj in P. destruct P as [P _]. apply NE. symmetry. assumption.
    + constructor; [|constructor].
      destruct Hn; subst name; destruct v; try discriminate S; vm_compute; reflexivity.
Qed.

(* ------------------------------------------------------------------ normal form of a printed record *)
Definition obs_toks (o : option Z) : list tok := match o with None => [tag "now"] | Some z => [tag "set"; TZ z] end.
Definition probe_toks (k : pkind) (h : list arg) : list tok :=
  match k with PProbe => [tag "calls"; tnat (S (count_if is_obs h)); tnat 1; tnat 1] | _ => [] end.
Definition attr_toks (mm : mem) (kvs : list (bytes * aval)) (key : bytes) : list tok :=
  TB key :: print_oval (read mm (last_value key kvs)).

Lemma flat_map_map : forall A B C (f : B -> list C) (g : A -> B) l, flat_map f (map g l) = flat_map (fun x => f (g x)) l.
Proof. induction l as [|x l IH]; cbn; [reflexivity | rewrite IH; reflexivity]. Qed.

Lemma print_rec_norm : forall c k mm act h l,
  print_rec c k mm (sealed l (build act h)) =
  [tag "R"; TZ (dflt 0%Z (lastof x_sev h))] ++ print_oval (read mm (dflt (VStr 0 0) (lastof x_body h))) ++
  [TZ (dflt 0%Z (lastof x_ts h))] ++ obs_toks (lastof x_obs h) ++
  [TZ (fst (dflt (0%Z, []) (lastof x_eid h))); TB (snd (dflt (0%Z, []) (lastof x_eid h)));
   TB (comp (lastof x_tid h) (option_map (fun i => fst (fst i)) act) zero16);
   TB (comp (lastof x_sid h) (option_map (fun i => snd (fst i)) act) zero8);
   TZ (comp (lastof x_fl h) (option_map (fun i => snd i) act) 0%Z);
   tnat (length (distinct_keys (all_kvs h)))] ++
  flat_map (attr_toks mm (all_kvs h)) (distinct_keys (all_kvs h)) ++
  scope_toks c l ++ [tbool true; TB (c_res c)] ++ probe_toks k h.
Proof.
  intros. unfold print_rec.
  set (b := build act h).
  assert (T : trace_or_new (sealed l b) = (tid_of b, sid_of b, fl_of b)).
  { assert (T0 : trace_or_new (sealed l b) = trace_or_new b) by reflexivity.
    rewrite T0. unfold tid_of, sid_of, fl_of. destruct (trace_or_new b) as [[? ?] ?]. reflexivity. }
  rewrite T. destruct (sealed_fields l b) as (F1 & F2 & F3 & F4 & F5 & F6 & _ & F8 & F9 & F10 & F11 & F12 & F13).
  rewrite F1, F2, F3, F4, F5, F6, F8, F9, F10, F11, F12, F13.
  destruct (build_trace act h) as (T1 & T2 & T3). fold b in T1, T2, T3. rewrite T1, T2, T3.
  destruct (build_res act h) as (_ & _ & R3 & R4). fold b in R3, R4. rewrite R3, R4.
  pose proof (build_eid act h) as E. fold b in E.
  assert (E1 : r_eid b = fst (dflt (0%Z, []) (lastof x_eid h))) by (rewrite <- E; reflexivity).
  assert (E2 : r_ename b = snd (dflt (0%Z, []) (lastof x_eid h))) by (rewrite <- E; reflexivity).
  rewrite E1, E2. unfold b.
  rewrite build_sev, build_body, build_ts, build_obs, build_nobs, build_attrs_canonical.
  rewrite map_length, flat_map_map. cbn [fst snd].
  unfold obs_toks, probe_toks, attr_toks, print_scope, scope_toks.
  reflexivity.
Qed.

(* the chunks of a record, grouped *)
Lemma id_chunk_plain : forall A (pr : A -> tok) ex a z name,
  snd (fst (id_chunk pr ex a z name)) = None /\ fst (fst (id_chunk pr ex a z name)) = [pr (comp ex a z)].
Proof. intros. unfold id_chunk, comp. destruct ex, a; split; reflexivity. Qed.

Definition head_chunks (h : list arg) : list chunk :=
  [ plain [tag "R"] "format:record"; plain [TZ (dflt 0%Z (lastof x_sev h))] "log_fields_as_supplied:severity" ].
Definition mid_chunks (act : option ident) (h : list arg) : list chunk :=
  let ev := dflt (0%Z, []) (lastof x_eid h) in
  [ plain [TZ (dflt 0%Z (lastof x_ts h))] "log_fields_as_supplied:timestamp";
    plain (match lastof x_obs h with None => [tag "now"] | Some z => [tag "set"; TZ z] end) "log_fields_as_supplied:observed_timestamp";
    plain [TZ (fst ev); TB (snd ev)] "log_fields_as_supplied:event_id";
    id_chunk TB (lastof x_tid h) (option_map (fun i => fst (fst i)) act) zero16 "trace_id";
    id_chunk TB (lastof x_sid h) (option_map (fun i => snd (fst i)) act) zero8 "span_id";
    id_chunk TZ (lastof x_fl h) (option_map (fun i => snd i) act) 0%Z "trace_flags";
    plain [tnat (length (distinct_keys (all_kvs h)))] "log_fields_as_supplied:attribute_count" ].
Definition tail_chunks (c : cfg) (k : pkind) (h : list arg) (l : nat) : list chunk :=
  [ plain (scope_toks c l) "log_fields_as_supplied:instrumentation_scope";
    plain [tbool true; TB (c_res c)] "log_fields_as_supplied:resource" ] ++
  match k with
  | PProbe => [ plain [tag "calls"; tnat (S (count_if is_obs h)); tnat 1; tnat 1] "log_fields_as_supplied:sdk_setter_calls" ]
  | _ => []
  end.

Lemma rec_chunks_split : forall c k final act h l m,
  rec_chunks c k final (mk_xem act h l m) =
  head_chunks h ++ [val_chunk (deferred k) m final [] (dflt (VStr 0 0) (lastof x_body h)) "body"] ++ mid_chunks act h ++
  map (fun key => val_chunk (deferred k) m final [TB key] (last_value key (all_kvs h)) "attribute") (distinct_keys (all_kvs h)) ++
  tail_chunks c k h l.
Proof. intros. unfold rec_chunks, head_chunks, mid_chunks, tail_chunks. cbn [e_hist e_mem e_act e_logger app]. reflexivity. Qed.

Lemma head_plain : forall h, all_plain (head_chunks h).
Proof. intro. repeat constructor. Qed.
Lemma mid_plain : forall act h, all_plain (mid_chunks act h).
Proof.
  intros. unfold mid_chunks. repeat (constructor; [try reflexivity; try (apply (proj1 (id_chunk_plain _ _ _ _ _ _)))|]). constructor.
Qed.
Lemma tail_plain : forall c k h l, all_plain (tail_chunks c k h l).
Proof. intros. unfold tail_chunks. destruct k; repeat constructor. Qed.

Lemma mid_toks : forall act h,
  toks_of (mid_chunks act h) =
  [TZ (dflt 0%Z (lastof x_ts h))] ++ obs_toks (lastof x_obs h) ++
  [TZ (fst (dflt (0%Z, []) (lastof x_eid h))); TB (snd (dflt (0%Z, []) (lastof x_eid h)));
   TB (comp (lastof x_tid h) (option_map (fun i => fst (fst i)) act) zero16);
   TB (comp (lastof x_sid h) (option_map (fun i => snd (fst i)) act) zero8);
   TZ (comp (lastof x_fl h) (option_map (fun i => snd i) act) 0%Z);
   tnat (length (distinct_keys (all_kvs h)))].
Proof.
  intros. unfold mid_chunks, toks_of. cbn [flat_map].
  rewrite !(proj2 (id_chunk_plain _ _ _ _ _ _)). cbn [plain fst snd]. unfold obs_toks.
  destruct (lastof x_obs h); reflexivity.
Qed.
Lemma tail_toks : forall c k h l, toks_of (tail_chunks c k h l) = scope_toks c l ++ [tbool true; TB (c_res c)] ++ probe_toks k h.
Proof. intros. unfold tail_chunks, toks_of, probe_toks. destruct k; cbn; rewrite ?app_nil_r; reflexivity. Qed.

(* attributes *)
Lemma attrs_same : forall d m final kvs keys,
  eats (map (fun key => val_chunk d m final [TB key] (last_value key kvs) "attribute") keys)
       (flat_map (attr_toks m kvs) keys) [].
Proof.
  induction keys as [|key keys IH]; cbn; [constructor|].
  change (eats ([val_chunk d m final [TB key] (last_value key kvs) "attribute"] ++ map (fun key0 => val_chunk d m final [TB key0] (last_value key0 kvs) "attribute") keys)
               (attr_toks m kvs key ++ flat_map (attr_toks m kvs) keys) ([] ++ [])).
  apply eats_app; [apply (val_chunk_same d m final [TB key]) | exact IH].
Qed.
Lemma attrs_final : forall m final kvs keys,
  exists ks, eats (map (fun key => val_chunk true m final [TB key] (last_value key kvs) "attribute") keys)
                  (flat_map (attr_toks final kvs) keys) ks /\ all_f15 ks.
Proof.
  induction keys as [|key keys [ks [IH F]]]; cbn.
  - exists []. split; constructor.
  - destruct (val_chunk_final m final [TB key] (last_value key kvs) "attribute") as [k1 [H1 F1]]; [right; reflexivity|].
    exists (k1 ++ ks). split; [|apply all_f15_app; assumption].
    change (eats ([val_chunk true m final [TB key] (last_value key kvs) "attribute"] ++ map (fun key0 => val_chunk true m final [TB key0] (last_value key0 kvs) "attribute") keys)
                 (attr_toks final kvs key ++ flat_map (attr_toks final kvs) keys) (k1 ++ ks)).
    apply eats_app; assumption.
Qed.

(* ------------------------------------------------------------------ one record *)
(* read against the memory of the emission: exactly what is expected *)
Theorem rec_eats_same : forall c k final act h l m,
  eats (rec_chunks c k final (mk_xem act h l m)) (print_rec c k m (sealed l (build act h))) [].
Proof.
  intros. rewrite rec_chunks_split, print_rec_norm.
  change (@nil tok) with ([] ++ [] ++ [] ++ [] ++ @nil tok).
  apply eats_app.
  { apply (eats_plains (head_chunks h)). apply head_plain. }
  apply eats_app.
  { apply (val_chunk_same (deferred k) m final []). }
  rewrite (app_assoc [TZ (dflt 0%Z (lastof x_ts h))]), (app_assoc ([TZ (dflt 0%Z (lastof x_ts h))] ++ _)).
  rewrite <- (app_assoc [TZ (dflt 0%Z (lastof x_ts h))]). rewrite <- mid_toks.
  apply eats_app.
  { apply eats_plains. apply mid_plain. }
  apply eats_app.
  { apply attrs_same. }
  rewrite <- tail_toks. apply eats_plains. apply tail_plain.
Qed.

(* read against the memory at the end of the case by a deferred exporter: accepted, F15 alternatives only *)
Theorem rec_eats_final : forall c k final act h l m, deferred k = true ->
  exists ks, eats (rec_chunks c k final (mk_xem act h l m)) (print_rec c k final (sealed l (build act h))) ks /\ all_f15 ks.
Proof.
  intros c k final act h l m D. rewrite rec_chunks_split, print_rec_norm, D.
  destruct (val_chunk_final m final [] (dflt (VStr 0 0) (lastof x_body h)) "body") as [k1 [H1 F1]]; [left; reflexivity|].
  destruct (attrs_final m final (all_kvs h) (distinct_keys (all_kvs h))) as [k2 [H2 F2]].
  exists ([] ++ k1 ++ [] ++ k2 ++ []). split; [|repeat apply all_f15_app; try assumption; constructor].
  apply eats_app.
  { apply (eats_plains (head_chunks h)). apply head_plain. }
  apply eats_app.
  { exact H1. }
  rewrite (app_assoc [TZ (dflt 0%Z (lastof x_ts h))]), (app_assoc ([TZ (dflt 0%Z (lastof x_ts h))] ++ _)).
  rewrite <- (app_assoc [TZ (dflt 0%Z (lastof x_ts h))]). rewrite <- mid_toks.
  apply eats_app.
  { apply eats_plains. apply mid_plain. }
  apply eats_app.
  { exact H2. }
  rewrite <- tail_toks. apply eats_plains. apply tail_plain.
Qed.

(* when nothing the record refers to differs between the two memories, nothing is flagged *)
Theorem rec_eats_final_quiet : forall c k final act h l m,
  (forall v, read m v = read final v) ->
  eats (rec_chunks c k final (mk_xem act h l m)) (print_rec c k final (sealed l (build act h))) [].
Proof.
  intros c k final act h l m Q.
  assert (E : print_rec c k final (sealed l (build act h)) = print_rec c k m (sealed l (build act h))).
  { rewrite !print_rec_norm. rewrite <- Q.
    replace (flat_map (attr_toks final (all_kvs h)) (distinct_keys (all_kvs h)))
      with (flat_map (attr_toks m (all_kvs h)) (distinct_keys (all_kvs h)))
      by (apply flat_map_ext; intro key; unfold attr_toks; rewrite Q; reflexivity).
    reflexivity. }
  rewrite E. apply rec_eats_same.
Qed.
