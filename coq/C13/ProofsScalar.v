(* C13 proofs, part 8: the proved part of "independent of what the caller does with its buffers afterwards", at the
   level of whole programs: when every body and attribute value a program supplies is a scalar, the SPEC checker
   accepts the model's observation whatever the program overwrites and whenever (no F15 alternative is taken). *)
From V Require Import C13.Spec C13.Glue C13.ProofsBase C13.ProofsFields C13.ProofsPrint C13.ProofsSim C13.ProofsMeets C10.ProofsCtx.
From Coq Require Import Lia.
Local Open Scope nat_scope.

Definition vals_of (a : arg) : list aval :=
  match a with ABody _ v => [v] | AAttrs _ kvs => map snd kvs | _ => [] end.
Definition arg_scalar (a : arg) : bool := forallb is_scalar (vals_of a).
Definition hist_scalar (h : list arg) : bool := forallb arg_scalar h.

Lemma hist_scalar_app : forall a b, hist_scalar (a ++ b) = hist_scalar a && hist_scalar b.
Proof. intros. unfold hist_scalar. apply forallb_app. Qed.

Lemma lastof_body_scalar : forall h v, hist_scalar h = true -> lastof x_body h = Some v -> is_scalar v = true.
Proof.
  induction h as [|a h IH] using rev_ind; intros v S E; [discriminate|].
  rewrite hist_scalar_app in S. apply andb_true_iff in S. destruct S as [S1 S2].
  rewrite lastof_snoc in E. destruct (x_body a) as [w|] eqn:X.
  - inversion E; subst w. destruct a; try discriminate X. cbn in X. inversion X; subst.
    cbn in S2. rewrite !andb_true_r in S2. exact S2.
  - apply IH; assumption.
Qed.

Lemma forallb_map' : forall A B (f : A -> B) (p : B -> bool) l, forallb p (map f l) = forallb (fun x => p (f x)) l.
Proof. induction l as [|x l IH]; cbn; [reflexivity | rewrite IH; reflexivity]. Qed.

Lemma all_kvs_scalar : forall h, hist_scalar h = true -> forallb (fun kv => is_scalar (snd kv)) (all_kvs h) = true.
Proof.
  induction h as [|a h IH]; intro S; [reflexivity|]. cbn [hist_scalar forallb] in S. apply andb_true_iff in S. destruct S as [S1 S2].
  unfold all_kvs. cbn [flat_map]. rewrite forallb_app. apply andb_true_iff. split; [|apply IH; exact S2].
  destruct a; try reflexivity. cbn [kvs_of]. unfold arg_scalar in S1. cbn [vals_of] in S1. rewrite forallb_map' in S1. exact S1.
Qed.

Lemma last_value_scalar : forall kvs k, forallb (fun kv => is_scalar (snd kv)) kvs = true -> is_scalar (last_value k kvs) = true.
Proof.
  intros kvs k S. unfold last_value. destruct (find (fun kv => bytes_eqb (fst kv) k) (rev kvs)) as [kv|] eqn:F; [|reflexivity].
  apply find_some in F. destruct F as [Hin _]. apply in_rev in Hin. rewrite forallb_forall in S. apply (S kv Hin).
Qed.

(* a record whose supplied values are all scalars prints the same against any caller memory *)
Lemma print_scalar : forall c k m1 m2 act h l, hist_scalar h = true ->
  print_rec c k m1 (sealed l (build act h)) = print_rec c k m2 (sealed l (build act h)).
Proof.
  intros c k m1 m2 act h l S. rewrite !print_rec_norm.
  assert (B : read m1 (dflt (VStr 0 0) (lastof x_body h)) = read m2 (dflt (VStr 0 0) (lastof x_body h))).
  { destruct (lastof x_body h) as [v|] eqn:E; cbn [dflt]; [|reflexivity]. apply scalar_read. eapply lastof_body_scalar; eassumption. }
  rewrite B.
  replace (flat_map (attr_toks m1 (all_kvs h)) (distinct_keys (all_kvs h)))
    with (flat_map (attr_toks m2 (all_kvs h)) (distinct_keys (all_kvs h))); [reflexivity|].
  apply flat_map_ext. intro key. unfold attr_toks. f_equal. f_equal. apply scalar_read.
  apply last_value_scalar. apply all_kvs_scalar. exact S.
Qed.

Definition quiet_em (final : mem) (e : xem) : Prop := stable_em final e \/ hist_scalar (e_hist e) = true.

Lemma entry_eats_quiet : forall c k final e, quiet_em final e ->
  eats (rec_chunks c k final e) (print_entry c k final (entry_for k (e_mem e) (rec_of e))) [].
Proof.
  intros c k final e [Q|Q].
  - destruct (entry_eats c k final e) as [ks [H [_ Z]]]. rewrite (Z Q) in H. exact H.
  - destruct e as [act h l m]. unfold entry_for, rec_of. cbn [e_act e_hist e_logger e_mem] in *.
    destruct (deferred k); cbn [print_entry]; [|apply rec_eats_same].
    rewrite (print_scalar c k final m act h l Q). apply rec_eats_same.
Qed.

Lemma entries_eat_quiet : forall c k final es, Forall (quiet_em final) es ->
  eats (flat_map (rec_chunks c k final) es)
       (flat_map (print_entry c k final) (map (fun e => entry_for k (e_mem e) (rec_of e)) es)) [].
Proof.
  induction es as [|e es IH]; intro Q; cbn [flat_map map]; [constructor|]. inversion Q; subst.
  change (@nil tok) with (@nil tok ++ []). apply eats_app; [apply entry_eats_quiet; assumption | apply IH; assumption].
Qed.

Lemma dump_from_quiet : forall c st x, R st x -> Forall (fun pe => quiet_em (x_mem x) (snd pe)) (x_exp x) ->
  forall ps pre, x_procs x = pre ++ ps -> eats (dump_chunks_from c x (length pre) ps) (dump_from c st (length pre) ps) [].
Proof.
  intros c st x H Q. induction ps as [|k ps IH]; intros pre E; [constructor|].
  cbn [dump_chunks_from dump_from].
  assert (E' : x_procs x = (pre ++ [k]) ++ ps) by (rewrite <- app_assoc; exact E).
  pose proof (IH (pre ++ [k]) E') as H2. rewrite app_length in H2. cbn [length] in H2. rewrite Nat.add_1_r in H2.
  set (p := length pre) in *.
  assert (ES : map snd (filter (fun xx => Nat.eqb (fst xx) p) (s_exp st)) = map (fun e => entry_for k (e_mem e) (rec_of e)) (ems_for p x)).
  { rewrite (R_exp _ _ H), filter_entry_of. unfold ems_for. rewrite !map_map. apply map_ext_in. intros pe Hin.
    apply filter_In in Hin. destruct Hin as [_ Hp]. apply Nat.eqb_eq in Hp. unfold entry_of. cbn [snd]. rewrite Hp, E.
    unfold p. rewrite nth_middle. reflexivity. }
  assert (QE : Forall (quiet_em (x_mem x)) (ems_for p x)).
  { unfold ems_for. apply Forall_forall. intros e Hin. apply in_map_iff in Hin. destruct Hin as [pe [Ee Hin]]. subst e.
    apply filter_In in Hin. destruct Hin as [Hin _]. rewrite Forall_forall in Q. apply (Q pe Hin). }
  change (@nil tok) with ((@nil tok ++ []) ++ []). apply eats_app; [|exact H2].
  unfold proc_chunks, dump_proc. rewrite ES, map_length, (R_mem _ _ H).
  change (tag "P" :: pkind_tag k :: tnat (length (ems_for p x)) :: flat_map (print_entry c k (x_mem x)) (map (fun e => entry_for k (e_mem e) (rec_of e)) (ems_for p x)))
    with ([tag "P"; pkind_tag k; tnat (length (ems_for p x))] ++ flat_map (print_entry c k (x_mem x)) (map (fun e => entry_for k (e_mem e) (rec_of e)) (ems_for p x))).
  change (plain [tag "P"; pkind_tag k; tnat (length (ems_for p x))] "each_processor_once:final_count" :: flat_map (rec_chunks c k (x_mem x)) (ems_for p x))
    with ([plain [tag "P"; pkind_tag k; tnat (length (ems_for p x))] "each_processor_once:final_count"] ++ flat_map (rec_chunks c k (x_mem x)) (ems_for p x)).
  apply eats_app; [apply eats_prim1 | apply entries_eat_quiet; exact QE].
Qed.

Lemma dump_quiet : forall c st x, R st x -> Forall (fun pe => quiet_em (x_mem x) (snd pe)) (x_exp x) ->
  eats (dump_chunks c x) (dump c st) [].
Proof.
  intros c st x H Q. unfold dump_chunks, dump. rewrite (R_procs _ _ H).
  change (@nil tok) with (@nil tok ++ []). apply eats_app; [apply (dump_from_quiet c st x H Q (x_procs x) [] eq_refl) | apply eats_prim1].
Qed.

(* ------------------------------------------------------------------ programs that only supply scalars *)
Definition op_scalar (o : lop) : bool :=
  match o with
  | LApply _ a => arg_scalar a
  | LEmitV _ _ args | LEmitRV _ _ _ args | LLevel _ _ _ args | LBurst _ _ _ _ args => hist_scalar args
  | LLog _ _ _ _ _ _ _ _ _ => false        (* Log() always carries a format string *)
  | _ => true
  end.

Definition slot_scalar (xs : xslot) : Prop := match xs with XLive _ _ h => hist_scalar h = true | _ => True end.
Record scalar_inv (x : xstate) : Prop := mkSI {
  si_slots : Forall slot_scalar (x_slots x);
  si_exp : Forall (fun pe => hist_scalar (e_hist (snd pe)) = true) (x_exp x)
}.

Lemma emit_to_scalar : forall x pids act h l, scalar_inv x -> hist_scalar h = true -> scalar_inv (emit_to x pids act h l).
Proof.
  intros x pids act h l [S1 S2] H. constructor; cbn [emit_to x_slots x_exp]; [assumption|].
  apply Forall_app. split; [assumption|]. apply Forall_forall. intros pe Hin. apply in_map_iff in Hin.
  destruct Hin as [p [E _]]. subst pe. exact H.
Qed.

Lemma emit_to_n_scalar : forall n x pids act h l, scalar_inv x -> hist_scalar h = true -> scalar_inv (emit_to_n x pids act h l n).
Proof. induction n as [|n IH]; intros; cbn [emit_to_n]; [assumption|]. apply IH; [apply emit_to_scalar|]; assumption. Qed.

Lemma variadic_scalar : forall c x l args obs known x' r k', scalar_inv x -> hist_scalar args = true ->
  x_variadic c x l args obs known = SOk x' r k' -> scalar_inv x'.
Proof.
  intros c x l args obs known x' r k' S H E. unfold x_variadic in E.
  destruct (eat_active obs) as [[act rest]|]; [|discriminate].
  destruct (logger_enabled c l); apply finish_op_inv in E; subst x'; [apply emit_to_scalar|]; assumption.
Qed.

Lemma Forall_set_nth' : forall A (P : A -> Prop) r v l, Forall P l -> P v -> Forall P (set_nth r v l).
Proof.
  induction r as [|r IH]; intros v [|y l] H Hv; cbn; try assumption; inversion H; subst; constructor; try assumption.
  apply IH; assumption.
Qed.

Lemma xstep_scalar : forall c x o obs known x' r k', op_scalar o = true -> scalar_inv x ->
  xstep c x o obs known = SOk x' r k' -> scalar_inv x'.
Proof.
  intros c x o obs known x' r k' M S H. pose proof S as [S1 S2]. destruct o; cbn [xstep] in H; cbn [op_scalar] in M; try discriminate M.
  - apply finish_op_inv in H. subst. assumption.
  - apply finish_op_inv in H. subst. assumption.
  - apply finish_op_inv in H. subst. assumption.
  - apply finish_op_inv in H. subst. assumption.
  - destruct (eat_active obs) as [[act rest]|]; [|discriminate]. apply finish_op_inv in H. subst.
    constructor; cbn [with_xslots x_slots x_exp]; [|assumption]. apply Forall_app. split; [assumption|].
    constructor; [|constructor]. destruct (logger_enabled c l); [reflexivity | exact I].
  - destruct (nth_error (x_slots x) r0) as [[| |pids act hist]|] eqn:N; try discriminate; apply finish_op_inv in H; subst; [assumption|].
    constructor; cbn [with_xslots x_slots x_exp]; [|assumption]. apply Forall_set_nth'; [assumption|].
    cbn. rewrite hist_scalar_app. pose proof (nth_error_Forall _ _ _ _ _ S1 N) as HS. cbn in HS. rewrite HS. cbn [hist_scalar forallb]. rewrite M. reflexivity.
  - destruct (nth_error (x_slots x) r0) as [sl|] eqn:N; [|discriminate].
    destruct (negb (logger_enabled c l)); [apply finish_op_inv in H; subst; assumption|].
    destruct sl as [| |pids act hist]; try discriminate; apply finish_op_inv in H; subst; [assumption|].
    pose proof (nth_error_Forall _ _ _ _ _ S1 N) as HS. cbn in HS.
    destruct (emit_to_scalar x pids act hist l S HS) as [E1 E2].
    constructor; cbn [with_xslots x_slots x_exp]; [|exact E2]. apply Forall_set_nth'; [assumption | exact I].
  - apply finish_op_inv in H. subst. assumption.
  - eapply variadic_scalar; eassumption.
  - destruct (nth_error (x_slots x) r0) as [[| |pids act hist]|] eqn:N; try discriminate.
    + apply finish_op_inv in H. subst. assumption.
    + destruct (logger_enabled c l); [discriminate|]. apply finish_op_inv in H. subst. assumption.
    + pose proof (nth_error_Forall _ _ _ _ _ S1 N) as HS. cbn in HS.
      assert (HA : hist_scalar (hist ++ args) = true) by (rewrite hist_scalar_app, HS, M; reflexivity).
      destruct (logger_enabled c l); apply finish_op_inv in H; subst.
      * destruct (emit_to_scalar x pids act (hist ++ args) l S HA) as [E1 E2].
        constructor; cbn [with_xslots x_slots x_exp]; [|exact E2]. apply Forall_set_nth'; [assumption | exact I].
      * constructor; cbn [with_xslots x_slots x_exp]; [|assumption]. apply Forall_set_nth'; [assumption | exact HA].
  - eapply variadic_scalar; [eassumption | | eassumption]. unfold hist_scalar in *. cbn [forallb]. rewrite M. reflexivity.
  - apply finish_op_inv in H. subst. constructor; assumption.
  - apply finish_op_inv in H. subst. constructor; assumption.
  - destruct (nth_error (c_loggers c) l) as [[[[? ?] ?] ?]|]; [|discriminate].
    destruct (logger_enabled c l); apply finish_op_inv in H; subst; assumption.
  - destruct (eat_active obs) as [[act rest]|]; [|discriminate]. apply finish_op_inv in H. subst.
    destruct (logger_enabled c l); [apply emit_to_n_scalar|]; assumption.
Qed.

Lemma check_ops_scalar : forall c ops x obs known x' r k', forallb op_scalar ops = true -> scalar_inv x ->
  check_ops c x ops obs known = SOk x' r k' -> scalar_inv x'.
Proof.
  induction ops as [|o ops IH]; intros x obs known x' r k' M S H; cbn [check_ops] in H.
  - inversion H; subst. assumption.
  - cbn [forallb] in M. apply andb_true_iff in M. destruct M as [M1 M2].
    destruct (xstep c x o obs known) as [x1 r1 k1| |] eqn:E; try discriminate.
    eapply IH; [exact M2 | eapply xstep_scalar; eassumption | exact H].
Qed.

(* the proved part of log_independent_of_later_mutation over whole programs: only scalars supplied => the checker
   accepts the model's observation, whatever is overwritten and whenever *)
Theorem model_meets_spec_scalar : forall k,
  forallb op_scalar (k_ops k) = true ->
  check_case k (run_case k) = [].
Proof.
  intros k SC. unfold run_case.
  destruct (negb (mem_ok (k_mem k))); [reflexivity|].
  destruct (lrun (k_cfg k) (lstate0 (k_mem k) (k_procs k)) (k_ops k)) as [st|] eqn:E.
  - destruct (run_sim _ _ _ _ _ (R_init (k_mem k) (k_procs k)) E) as [d [x [O [X RR]]]].
    cbn [lstate0 s_out app] in O. rewrite O.
    unfold check_case, dump. rewrite app_assoc, single_tag_end.
    rewrite <- app_assoc. fold (dump (k_cfg k) st).
    unfold check_run. rewrite X.
    assert (SI : scalar_inv x).
    { eapply check_ops_scalar; [exact SC | | apply (X [] [])]. constructor; constructor. }
    assert (Q : Forall (fun pe => quiet_em (x_mem x) (snd pe)) (x_exp x)).
    { eapply Forall_impl; [|exact (si_exp _ SI)]. intros pe Hs. right. exact Hs. }
    pose proof (eats_eat _ _ _ (dump_quiet (k_cfg k) st x RR Q) [] []) as EE. rewrite app_nil_r in EE. rewrite EE. reflexivity.
  - reflexivity.
Qed.

Example ex_scalar_case :
  let k := mk_case (mk_cfg false [] [(bs "app", [], [], [])] [] (bs "r")) [HZ AKI32 [1%Z]] [PKeep; PBatch]
                   [LEmitV 0 0 [ASev 9%Z; ABody BAv (VI64 5%Z); AAttrs HVec [(bs "k", VDbl 0%Z)]];
                    LMut 0 (HZ AKI32 [2%Z]); LCreate 0 0; LApply 0 (ABody BAv (VBool true)); LMut 0 (HZ AKI32 [3%Z]); LEmit 0 0 0;
                    LMut 0 (HZ AKI32 [4%Z])] in
  forallb op_scalar (k_ops k) = true /\ length (run_case k) = 102.
Proof. vm_compute. repeat split. Qed.
