(* MODEL for C13: the log pipeline of the SDK as the code does it.
     api/logs/logger.h            EmitLogRecord(args...) : the argument pack is folded LEFT TO RIGHT through
     api/logs/logger_type_traits.h  LogRecordSetterTrait<T>::Set; Log()/Trace()/.../Fatal() wrappers
     sdk/src/logs/logger.cc       CreateLogRecord (identity from the runtime context), EmitLogRecord
     sdk/src/logs/read_write_log_record.cc   the record: scalars by value, string / array bodies and attribute
                                  values as NON-OWNING references into caller memory (finding F15),
                                  attribute keys and the event name copied, trace identity allocated lazily
     sdk/src/logs/multi_recordable.cc, multi_log_record_processor.cc, logger_context.cc   fan-out
   The runtime context (what decides the active span) is C10's model: heap of immutable context nodes and the
   per-thread Stack with Attach / Detach as coded.  Caller memory is a store of typed buffers ([mem]); a
   reference is (address, length); [LMut] is the caller overwriting one of its buffers in place.
   Definitions only - no proofs in this file. *)
From V Require Export C10.Model.
Local Open Scope nat_scope.

(* ------------------------------------------------------------------ caller memory *)
Inductive akind := AKBool | AKI32 | AKI64 | AKU32 | AKDbl | AKU64 | AKU8.

Inductive buf :=
| HB (l : bytes)                  (* char[n], exactly n bytes, nothing after them *)
| HC (l : bytes)                  (* char[n+1]: n bytes followed by a NUL the caller never overwrites *)
| HZ (k : akind) (l : list Z)     (* T[n] *)
| HV (l : list (nat * nat)).      (* nostd::string_view[n] : (address of a byte buffer, length) *)
Definition mem := list buf.

(* common::AttributeValue as ReadWriteLogRecord stores it: the variant is copied, i.e. scalars by value, every
   other alternative as the pointer/length pair it is *)
Inductive aval :=
| VBool (b : bool) | VI32 (z : Z) | VI64 (z : Z) | VU32 (z : Z) | VDbl (bits : Z) | VU64 (z : Z)
| VCStr (a : nat)                      (* const char*               *)
| VStr (a len : nat)                   (* nostd::string_view        *)
| VArr (k : akind) (a len : nat)       (* nostd::span<const T>      *)
| VStrArr (a len : nat).               (* nostd::span<const nostd::string_view> *)

(* what a reader of the variant sees *)
Inductive oval :=
| OBool (b : bool) | OI32 (z : Z) | OI64 (z : Z) | OU32 (z : Z) | ODbl (bits : Z) | OU64 (z : Z)
| OCStr (s : bytes) | OStr (s : bytes) | OArr (k : akind) (l : list Z) | OStrArr (l : list bytes).

Definition buf_bytes (b : buf) : bytes := match b with HB l | HC l => l | _ => [] end.
Definition mem_bytes (m : mem) (a : nat) : bytes := match nth_error m a with Some b => buf_bytes b | None => [] end.
Fixpoint until_nul (s : bytes) : bytes :=
  match s with [] => [] | b :: s' => if Byte.eqb b x00 then [] else b :: until_nul s' end.

Definition read_str (m : mem) (a len : nat) : bytes := firstn len (mem_bytes m a).
Definition read_cstr (m : mem) (a : nat) : bytes := until_nul (mem_bytes m a).        (* strlen at the time of reading *)
Definition read_arr (m : mem) (a len : nat) : list Z :=
  match nth_error m a with Some (HZ _ l) => firstn len l | _ => [] end.
Definition read_views (m : mem) (a len : nat) : list (nat * nat) :=
  match nth_error m a with Some (HV l) => firstn len l | _ => [] end.

Definition read (m : mem) (v : aval) : oval :=
  match v with
  | VBool b => OBool b | VI32 z => OI32 z | VI64 z => OI64 z | VU32 z => OU32 z | VDbl z => ODbl z | VU64 z => OU64 z
  | VCStr a => OCStr (read_cstr m a)
  | VStr a len => OStr (read_str m a len)
  | VArr k a len => OArr k (read_arr m a len)
  | VStrArr a len => OStrArr (map (fun p => read_str m (fst p) (snd p)) (read_views m a len))
  end.

Definition is_scalar (v : aval) : bool :=
  match v with VBool _ | VI32 _ | VI64 _ | VU32 _ | VDbl _ | VU64 _ => true | _ => false end.

(* the references are into live storage of the right type (otherwise the C++ call would be undefined) *)
Definition akind_eqb (a b : akind) : bool :=
  match a, b with
  | AKBool, AKBool | AKI32, AKI32 | AKI64, AKI64 | AKU32, AKU32 | AKDbl, AKDbl | AKU64, AKU64 | AKU8, AKU8 => true
  | _, _ => false
  end.
Definition view_ok (m : mem) (p : nat * nat) : bool :=
  match nth_error m (fst p) with
  | Some (HB l) | Some (HC l) => Nat.leb (snd p) (length l)
  | _ => false
  end.
Definition aval_ok (m : mem) (v : aval) : bool :=
  match v with
  | VCStr a => match nth_error m a with Some (HC _) => true | _ => false end
  | VStr a len => view_ok m (a, len)
  | VArr k a len => match nth_error m a with Some (HZ k' l) => akind_eqb k k' && Nat.leb len (length l) | _ => false end
  | VStrArr a len => match nth_error m a with Some (HV l) => Nat.leb len (length l) | _ => false end
  | _ => true
  end.

(* overwriting in place: same type, same extent; the views written into a string_view[] must be valid *)
Definition same_shape (m : mem) (old new : buf) : bool :=
  match old, new with
  | HB a, HB b | HC a, HC b => Nat.eqb (length a) (length b)
  | HZ k a, HZ k' b => akind_eqb k k' && Nat.eqb (length a) (length b)
  | HV a, HV b => Nat.eqb (length a) (length b) && forallb (view_ok m) b
  | _, _ => false
  end.

(* ------------------------------------------------------------------ ReadWriteLogRecord *)
Definition ident := (bytes * bytes * Z)%type.        (* trace id (16 bytes), span id (8 bytes), trace flags *)
Definition zero_ident : ident := (zeros 16, zeros 8, 0%Z).

(* std::string keys compared as unsigned bytes: the canonical order in which both sides list a map *)
Fixpoint bytes_cmp (a b : bytes) : comparison :=
  match a, b with
  | [], [] => Eq
  | [], _ => Lt
  | _, [] => Gt
  | x :: a', y :: b' => match N.compare (b2n x) (b2n y) with Eq => bytes_cmp a' b' | c => c end
  end.

(* attributes_map_[key] = value : assign when the key is present, insert otherwise; the map is listed in key order *)
Definition attr_mem {A} (k : bytes) (l : list (bytes * A)) : bool := existsb (fun kv => bytes_eqb k (fst kv)) l.
Fixpoint insert_sorted {A} (k : bytes) (v : A) (l : list (bytes * A)) : list (bytes * A) :=
  match l with
  | [] => [(k, v)]
  | (k', v') :: r => match bytes_cmp k k' with Gt => (k', v') :: insert_sorted k v r | _ => (k, v) :: l end
  end.
Definition upsert {A} (k : bytes) (v : A) (l : list (bytes * A)) : list (bytes * A) :=
  if attr_mem k l then map (fun kv => if bytes_eqb k (fst kv) then (fst kv, v) else kv) l
  else insert_sorted k v l.

Record rec := mk_rec {
  r_sev : Z;                          (* severity_ *)
  r_body : aval;                      (* body_ *)
  r_ts : Z;                           (* timestamp_ (ns) *)
  r_obs : option Z;                   (* observed_timestamp_ : None = the clock value taken when the record was made *)
  r_eid : Z; r_ename : bytes;         (* event_id_, event_name_ (std::string: owned) *)
  r_trace : option ident;             (* trace_state_ : allocated by the first identity setter *)
  r_attrs : list (bytes * aval);      (* attributes_map_ : keys owned, values as given *)
  r_res : bool;                       (* resource_ points at the provider's resource *)
  r_scope : option nat;               (* instrumentation_scope_ points at logger #i's scope *)
  r_nobs : nat; r_nres : nat; r_nscope : nat   (* how often SetObservedTimestamp/SetResource/SetInstrumentationScope ran *)
}.
Definition rec0 : rec := mk_rec 0 (VStr 0 0) 0 None 0 [] None [] false None 0 0 0.

Definition trace_or_new (r : rec) : ident := match r_trace r with Some i => i | None => zero_ident end.
Definition with_trace (r : rec) (i : ident) : rec :=
  mk_rec (r_sev r) (r_body r) (r_ts r) (r_obs r) (r_eid r) (r_ename r) (Some i) (r_attrs r) (r_res r) (r_scope r)
         (r_nobs r) (r_nres r) (r_nscope r).
Definition set_tid (t : bytes) (r : rec) : rec := let '(_, s, f) := trace_or_new r in with_trace r (t, s, f).
Definition set_sid (s : bytes) (r : rec) : rec := let '(t, _, f) := trace_or_new r in with_trace r (t, s, f).
Definition set_fl (f : Z) (r : rec) : rec := let '(t, s, _) := trace_or_new r in with_trace r (t, s, f).
Definition set_sev (s : Z) (r : rec) : rec :=
  mk_rec s (r_body r) (r_ts r) (r_obs r) (r_eid r) (r_ename r) (r_trace r) (r_attrs r) (r_res r) (r_scope r) (r_nobs r) (r_nres r) (r_nscope r).
Definition set_body (v : aval) (r : rec) : rec :=
  mk_rec (r_sev r) v (r_ts r) (r_obs r) (r_eid r) (r_ename r) (r_trace r) (r_attrs r) (r_res r) (r_scope r) (r_nobs r) (r_nres r) (r_nscope r).
Definition set_ts (z : Z) (r : rec) : rec :=
  mk_rec (r_sev r) (r_body r) z (r_obs r) (r_eid r) (r_ename r) (r_trace r) (r_attrs r) (r_res r) (r_scope r) (r_nobs r) (r_nres r) (r_nscope r).
Definition set_obs (z : option Z) (r : rec) : rec :=
  mk_rec (r_sev r) (r_body r) (r_ts r) z (r_eid r) (r_ename r) (r_trace r) (r_attrs r) (r_res r) (r_scope r) (S (r_nobs r)) (r_nres r) (r_nscope r).
Definition set_eid (id : Z) (name : bytes) (r : rec) : rec :=
  mk_rec (r_sev r) (r_body r) (r_ts r) (r_obs r) id name (r_trace r) (r_attrs r) (r_res r) (r_scope r) (r_nobs r) (r_nres r) (r_nscope r).
Definition set_attr (k : bytes) (v : aval) (r : rec) : rec :=
  mk_rec (r_sev r) (r_body r) (r_ts r) (r_obs r) (r_eid r) (r_ename r) (r_trace r) (upsert k v (r_attrs r)) (r_res r) (r_scope r) (r_nobs r) (r_nres r) (r_nscope r).
Definition set_res (r : rec) : rec :=
  mk_rec (r_sev r) (r_body r) (r_ts r) (r_obs r) (r_eid r) (r_ename r) (r_trace r) (r_attrs r) true (r_scope r) (r_nobs r) (S (r_nres r)) (r_nscope r).
Definition set_scope (l : nat) (r : rec) : rec :=
  mk_rec (r_sev r) (r_body r) (r_ts r) (r_obs r) (r_eid r) (r_ename r) (r_trace r) (r_attrs r) (r_res r) (Some l) (r_nobs r) (r_nres r) (S (r_nscope r)).

(* ------------------------------------------------------------------ arguments of EmitLogRecord(args...) *)
Inductive bhow := BSv | BCs | BAv.          (* static type of a body argument: string_view, const char*, AttributeValue *)
Inductive ahow := HKvi | HVec | HSpan | HView.
(* const KeyValueIterable&, a container of pairs, span<const pair<>> (MakeAttributes{...}), KeyValueIterableView<T> (MakeAttributes(container)) *)
Inductive arg :=
| ASev (s : Z)                              (* Severity *)
| AEid (id : Z) (name : option bytes)       (* EventId{id, name} / EventId{id} *)
| ABody (h : bhow) (v : aval)
| ACtx (t s : bytes) (f : Z)                (* trace::SpanContext *)
| ASid (s : bytes) | ATid (t : bytes) | AFl (f : Z)
| ATs (z : Z) | ATp (z : Z)                 (* common::SystemTimestamp, system_clock::time_point *)
| AAttrs (h : ahow) (kvs : list (bytes * aval))
| AObs (z : Z)                              (* LogRecord::SetObservedTimestamp, direct call only *)
| AEidRaw (id : Z) (name : bytes).          (* LogRecord::SetEventId(id, name), direct call only *)

(* LogRecordSetterTrait<T>::Set *)
Definition set_arg (a : arg) (r : rec) : rec :=
  match a with
  | ASev s => set_sev s r
  | AEid id (Some n) => set_eid id (until_nul n) r      (* nostd::string_view{arg.name_.get()} : a C string *)
  | AEid id None => set_eid id [] r                      (* name_ == nullptr: the empty name (fix be9979e) *)
  | ABody _ v => set_body v r
  | ACtx t s f => set_fl f (set_tid t (set_sid s r))    (* SetSpanId, SetTraceId, SetTraceFlags *)
  | ASid s => set_sid s r
  | ATid t => set_tid t r
  | AFl f => set_fl f r
  | ATs z | ATp z => set_ts z r
  | AAttrs _ kvs => fold_left (fun r kv => set_attr (fst kv) (snd kv) r) kvs r
  | AObs z => set_obs (Some z) r
  | AEidRaw id n => set_eid id n r
  end.
(* only the LogRecord interface offers these two *)
Definition arg_direct_only (a : arg) : bool := match a with AObs _ | AEidRaw _ _ => true | _ => false end.

Definition arg_ok (m : mem) (a : arg) : bool :=
  match a with
  | ABody BSv v => match v with VStr _ _ => aval_ok m v | _ => false end
  | ABody BCs v => match v with VCStr _ => aval_ok m v | _ => false end
  | ABody BAv v => aval_ok m v
  | AAttrs _ kvs => forallb (fun kv => aval_ok m (snd kv)) kvs
  | _ => true
  end.

(* ------------------------------------------------------------------ static configuration of a case *)
Inductive pkind := PImm | PKeep | PBatch | PProbe | PRead (b : nat).
(* PImm  : SimpleLogRecordProcessor, the exporter reads the record inside Export
   PKeep : SimpleLogRecordProcessor, the exporter keeps the recordable and reads it when the case is over
   PBatch: BatchLogRecordProcessor in front of the same keeping exporter
   PProbe: as PKeep with a recordable that also counts the SDK-internal setter calls
   PRead b: BatchLogRecordProcessor with max_export_batch_size = b (1..4) in front of an exporter that only READS the
           records it is handed (copies what it sees, takes nothing out of the span) - whatever it is handed twice it
           shows twice; everything queued is delivered before the operation that emitted it is over *)
Definition deferred (k : pkind) : bool := match k with PImm | PRead _ => false | _ => true end.

Record cfg := mk_cfg {
  c_def_dis : bool;                              (* ScopeConfigurator default: LoggerConfig::Disabled()? *)
  c_conds : list (bytes * bool);                 (* AddConditionNameEquals(scope name, disabled?) in order *)
  c_loggers : list (bytes * bytes * bytes * bytes);   (* GetLogger(logger_name, library_name, version, schema_url) *)
  c_spans : list ident;                          (* the spans / span contexts the program can make active *)
  c_res : bytes                                  (* marker attribute of the provider's resource *)
}.

Definition scope_name (lg : bytes * bytes * bytes * bytes) : bytes :=
  let '(ln, lib, _, _) := lg in match lib with [] => ln | _ => lib end.   (* library_name.empty() => logger_name *)
Fixpoint first_cond (n : bytes) (cs : list (bytes * bool)) : option bool :=
  match cs with
  | [] => None
  | (k, d) :: r => if bytes_eqb k n then Some d else first_cond n r
  end.
(* logger_config_.IsEnabled() *)
Definition logger_enabled (c : cfg) (l : nat) : bool :=
  match nth_error (c_loggers c) l with
  | Some lg => negb (match first_cond (scope_name lg) (c_conds c) with Some d => d | None => c_def_dis c end)
  | None => false
  end.

(* ------------------------------------------------------------------ state *)
Inductive slot :=
| RNull                              (* a moved-from / null unique_ptr<LogRecord> *)
| RNoop                              (* NoopLogger::NoopLogRecord (made by a disabled logger) *)
| RMulti (ch : list (nat * rec)).    (* MultiRecordable: one child per processor that existed at creation *)

Inductive entry :=
| EImm (m : mem) (r : rec)           (* read during Export: against caller memory as it was then *)
| EDef (r : rec).                    (* kept: read when the case is over *)

Record lstate := mk_l {
  s_mem : mem;
  s_nodes : heap;                    (* C10: context nodes *)
  s_stks : list stack;               (* C10: one runtime-context Stack per thread *)
  s_toks : list (nat * ctx * bool);  (* tokens/scopes: owning thread, attached context, still alive *)
  s_procs : list pkind;              (* MultiLogRecordProcessor::processors_ *)
  s_slots : list slot;
  s_exp : list (nat * entry);        (* (processor, what its exporter received), oldest first *)
  s_out : list tok                   (* per-operation outputs so far *)
}.

Definition nthreads : nat := 3.
Definition lstate0 (m : mem) (ps : list pkind) : lstate :=
  mk_l m [] (repeat stack0 nthreads) [] ps [] [] [].

Definition stk_of (st : lstate) (t : nat) : stack := nth t (s_stks st) stack0.

(* the value under kSpanKey in the calling thread's current context *)
Definition active_value (st : lstate) (t : nat) : value := get_value (s_nodes st) (top (stk_of st t)) span_key.
(* logger.cc:70-99 - the identity CreateLogRecord copies, if any *)
Definition ident_of_value (c : cfg) (v : value) : option ident :=
  if is_none v then None                                  (* !HasKey(kSpanKey) *)
  else match fst v with
       | KS | KC => if (0 <=? snd v)%Z then nth_error (c_spans c) (Z.to_nat (snd v)) else None   (* if (data) *)
       | _ => None                                        (* neither alternative *)
       end.
Definition active_ident (c : cfg) (st : lstate) (t : nat) : option ident := ident_of_value c (active_value st t).

(* a fresh recordable after CreateLogRecord: SetObservedTimestamp(now); SetTraceId; SetTraceFlags; SetSpanId *)
Definition rec_created (act : option ident) : rec :=
  let r := set_obs None rec0 in
  match act with
  | Some (t, s, f) => set_sid s (set_fl f (set_tid t r))
  | None => r
  end.

Definition enum_from {A} (l : list A) : list nat := seq 0 (length l).

(* MultiLogRecordProcessor::MakeRecordable + the setters of CreateLogRecord fanned out by MultiRecordable *)
Definition create_multi (st : lstate) (act : option ident) : list (nat * rec) :=
  map (fun p => (p, rec_created act)) (enum_from (s_procs st)).

Definition map_children (f : rec -> rec) (ch : list (nat * rec)) : list (nat * rec) :=
  map (fun pr => (fst pr, f (snd pr))) ch.

Fixpoint find_child (p : nat) (ch : list (nat * rec)) : option rec :=
  match ch with
  | [] => None
  | (q, r) :: ch' => if Nat.eqb q p then Some r else find_child p ch'
  end.

Definition entry_for (k : pkind) (m : mem) (r : rec) : entry := if deferred k then EDef r else EImm m r.

(* MultiLogRecordProcessor::OnEmit: for every processor, in order, release its child and hand it over *)
Fixpoint fan_out (m : mem) (ps : list pkind) (p : nat) (ch : list (nat * rec)) : list (nat * entry) :=
  match ps with
  | [] => []
  | k :: ps' =>
      match find_child p ch with
      | Some r => (p, entry_for k m r) :: fan_out m ps' (S p) ch
      | None => fan_out m ps' (S p) ch
      end
  end.

Definition count_for (p : nat) (e : list (nat * entry)) : nat := length (filter (fun x => Nat.eqb (fst x) p) e).
Definition counts (st : lstate) : list tok :=
  tag "N" :: map (fun p => tnat (count_for p (s_exp st))) (enum_from (s_procs st)).

Definition print_ident (i : ident) : list tok := let '(t, s, f) := i in [TB t; TB s; TZ f].
Definition print_active (a : option ident) : list tok :=
  tag "A" :: match a with Some i => print_ident i | None => [tag "none"] end.

(* ------------------------------------------------------------------ operations *)
Inductive sval := SVSpan (s : nat) | SVNullSpan | SVCtx (s : nat) | SVNullCtx | SVBool.
Definition value_of_sval (v : sval) : value :=
  match v with
  | SVSpan s => (KS, Z.of_nat s) | SVNullSpan => (KS, (-1)%Z)
  | SVCtx s => (KC, Z.of_nat s) | SVNullCtx => (KC, (-1)%Z)
  | SVBool => (KB, 1%Z)
  end.
Definition sval_ok (c : cfg) (v : sval) : bool :=
  match v with SVSpan s | SVCtx s => Nat.ltb s (length (c_spans c)) | _ => true end.

Definition other_key : bytes := bs "other".

Inductive lop :=
| LScope (t : nat) (v : sval)        (* Attach(GetCurrent().SetValue(kSpanKey, v)) - trace::Scope when v is a span *)
| LAttachOther (t : nat)             (* Attach(GetCurrent().SetValue("other", true)) : inherits the active span *)
| LAttachBare (t : nat)              (* Attach(Context{}.SetValue("other", true)) : hides it *)
| LClose (k : nat)                   (* destroy token/scope k on its thread *)
| LCreate (t l : nat)                (* slot := logger l ->CreateLogRecord() on thread t *)
| LApply (r : nat) (a : arg)         (* LogRecordSetterTrait<T>::Set(slot r, a)   (direct setter for AObs/AEidRaw) *)
| LEmit (t l r : nat)                (* logger l ->EmitLogRecord(std::move(slot r)) *)
| LEmitNull (t l : nat)              (* logger l ->EmitLogRecord(nullptr) *)
| LEmitV (t l : nat) (args : list arg)        (* logger l ->EmitLogRecord(args...) *)
| LEmitRV (t l r : nat) (args : list arg)     (* logger l ->EmitLogRecord(std::move(slot r), args...) *)
| LLog (t l : nat) (named : bool) (form : nat) (sev id : Z) (name : bytes) (msg : aval) (kvs : list (bytes * aval))
                                     (* Log(...) overload #form, or the Trace()..Fatal() wrapper of that shape *)
| LLevel (t l : nat) (sev : Z) (args : list arg)   (* the templated Trace(args...) .. Fatal(args...) *)
| LMut (a : nat) (b : buf)           (* the caller overwrites buffer a *)
| LAddProc (k : pkind)               (* LoggerProvider::AddProcessor *)
| LName (l : nat)                    (* logger l ->GetName() *)
| LBurst (t l n : nat) (flush : bool) (args : list arg).
                                     (* n times logger l ->EmitLogRecord(args...) in a row, the batch exporters held back until
                                        the last one returned; then ForceFlush (flush) or nothing until the provider shuts down *)

Definition level_sevs : list Z := c13_level_severities.      (* Trace, Debug, Info, Warn, Error, Fatal *)
Definition is_level (s : Z) : bool := existsb (Z.eqb s) level_sevs.
Definition is_sev_arg (a : arg) : bool := match a with ASev _ => true | _ => false end.

(* logger.h:238-262 - what the four Log() overloads pass on to EmitLogRecord *)
Definition log_args (form : nat) (sev id : Z) (name : bytes) (msg : aval) (kvs : list (bytes * aval)) : option (list arg) :=
  match form with
  | 0 => Some [ASev sev; ABody BSv msg]                                              (* Log(sev, message) *)
  | 1 => Some [ASev sev; ABody BSv msg; AAttrs HKvi kvs]                             (* Log(sev, format, attrs) *)
  | 2 => Some [ASev sev; AEid id (Some name); ABody BSv msg; AAttrs HKvi kvs]        (* Log(sev, const EventId&, ...) *)
  | 3 => Some [ASev sev; AEid id None; ABody BSv msg; AAttrs HKvi kvs]               (* Log(sev, int64_t, ...) : EventId{id}, no name *)
  | _ => None
  end.

Inductive outcome := Ok (st : lstate) | Ill.

Definition with_stack (st : lstate) (nodes : heap) (t : nat) (s : stack) (toks : list (nat * ctx * bool)) : lstate :=
  mk_l (s_mem st) nodes (set_nth t s (s_stks st)) toks (s_procs st) (s_slots st) (s_exp st) (s_out st).
Definition with_slots (st : lstate) (sl : list slot) : lstate :=
  mk_l (s_mem st) (s_nodes st) (s_stks st) (s_toks st) (s_procs st) sl (s_exp st) (s_out st).
Definition with_out (st : lstate) (o : list tok) : lstate :=
  mk_l (s_mem st) (s_nodes st) (s_stks st) (s_toks st) (s_procs st) (s_slots st) (s_exp st) (s_out st ++ o ++ [bar]).

Definition attach (st : lstate) (t : nat) (base : ctx) (k : bytes) (v : value) : lstate :=
  let (h, c) := set_value (s_nodes st) base k v in
  with_stack st h t (push (stk_of st t) c) (s_toks st ++ [(t, c, true)]).

(* Logger::EmitLogRecord(unique_ptr&&) of an enabled logger on a live MultiRecordable *)
Definition emit_children (c : cfg) (st : lstate) (l : nat) (ch : list (nat * rec)) : lstate :=
  let ch' := map_children (fun r => set_scope l (set_res r)) ch in
  mk_l (s_mem st) (s_nodes st) (s_stks st) (s_toks st) (s_procs st) (s_slots st)
       (s_exp st ++ fan_out (s_mem st) (s_procs st) 0 ch') (s_out st).

(* EmitLogRecord(std::move(record), args...) once the record exists *)
Definition emit_with_args (c : cfg) (st : lstate) (l : nat) (sl : slot) (args : list arg) : outcome :=
  match sl with
  | RNull => Ok st                                          (* if (!log_record) return;  - before any setter *)
  | RNoop =>
      if logger_enabled c l then Ill                        (* static_cast<Recordable*> of a NoopLogRecord *)
      else Ok st
  | RMulti ch =>
      let ch' := map_children (fun r => fold_left (fun r a => set_arg a r) args r) ch in
      if logger_enabled c l then Ok (emit_children c st l ch') else Ok st
  end.

(* the same record emitted n times in a row *)
Fixpoint emit_n (c : cfg) (st : lstate) (l : nat) (ch : list (nat * rec)) (n : nat) : lstate :=
  match n with 0 => st | S n' => emit_n c (emit_children c st l ch) l ch n' end.

(* logger l ->EmitLogRecord(args...) : CreateLogRecord() on the calling thread, then the above *)
Definition emit_variadic (c : cfg) (st : lstate) (t l : nat) (args : list arg) : outcome :=
  let act := active_ident c st t in
  let sl := if logger_enabled c l then RMulti (create_multi st act) else RNoop in
  match emit_with_args c st l sl args with
  | Ok st' => Ok (with_out st' (print_active act ++ counts st'))
  | o => o
  end.

Definition lstep (c : cfg) (st : lstate) (o : lop) : outcome :=
  match o with
  | LScope t v =>
      if Nat.ltb t nthreads && sval_ok c v
      then Ok (with_out (attach st t (top (stk_of st t)) span_key (value_of_sval v)) [])
      else Ill
  | LAttachOther t =>
      if Nat.ltb t nthreads then Ok (with_out (attach st t (top (stk_of st t)) other_key (KB, 1%Z)) []) else Ill
  | LAttachBare t =>
      if Nat.ltb t nthreads then Ok (with_out (attach st t root other_key (KB, 1%Z)) []) else Ill
  | LClose k =>
      match nth_error (s_toks st) k with
      | Some (t, cx, true) =>
          Ok (with_out (with_stack st (s_nodes st) t (fst (detach (stk_of st t) cx)) (set_nth k (t, cx, false) (s_toks st))) [])
      | _ => Ill
      end
  | LCreate t l =>
      if Nat.ltb t nthreads && Nat.ltb l (length (c_loggers c)) then
        let act := active_ident c st t in
        let sl := if logger_enabled c l then RMulti (create_multi st act) else RNoop in
        Ok (with_out (with_slots st (s_slots st ++ [sl])) (print_active act))
      else Ill
  | LApply r a =>
      if negb (arg_ok (s_mem st) a) then Ill else
      match nth_error (s_slots st) r with
      | Some RNull | None => Ill                              (* a setter through a null pointer *)
      | Some RNoop => Ok (with_out st [])
      | Some (RMulti ch) =>
          Ok (with_out (with_slots st (set_nth r (RMulti (map_children (set_arg a) ch)) (s_slots st))) [])
      end
  | LEmit t l r =>
      if negb (Nat.ltb t nthreads && Nat.ltb l (length (c_loggers c))) then Ill else
      match nth_error (s_slots st) r with
      | None => Ill
      | Some sl =>
          if negb (logger_enabled c l) then Ok (with_out st (counts st))      (* kNoopLogger.EmitLogRecord: the pointer is not even taken *)
          else match sl with
               | RNull => Ok (with_out st (counts st))
               | RNoop => Ill
               | RMulti ch =>
                   let st' := with_slots (emit_children c st l ch) (set_nth r RNull (s_slots st)) in
                   Ok (with_out st' (counts st'))
               end
      end
  | LEmitNull t l =>
      if Nat.ltb t nthreads && Nat.ltb l (length (c_loggers c)) then Ok (with_out st (counts st)) else Ill
  | LEmitV t l args =>
      if negb (Nat.ltb t nthreads && Nat.ltb l (length (c_loggers c)) && forallb (arg_ok (s_mem st)) args
               && negb (existsb arg_direct_only args)) then Ill
      else emit_variadic c st t l args
  | LEmitRV t l r args =>
      if negb (Nat.ltb t nthreads && Nat.ltb l (length (c_loggers c)) && forallb (arg_ok (s_mem st)) args
               && negb (existsb arg_direct_only args)) then Ill else
      match nth_error (s_slots st) r with
      | None => Ill
      | Some sl =>
          match emit_with_args c st l sl args with
          | Ok st' =>
              (* the unique_ptr parameter is an rvalue reference: the caller's pointer is only emptied when an
                 enabled logger releases it; a live record handed to a disabled logger is modified and kept *)
              let sl' := match sl with
                         | RMulti ch => if logger_enabled c l then RNull
                                        else RMulti (map_children (fun r => fold_left (fun r a => set_arg a r) args r) ch)
                         | s => s
                         end in
              let st'' := with_slots st' (set_nth r sl' (s_slots st')) in
              Ok (with_out st'' (counts st''))
          | o => o
          end
      end
  | LLog t l named form sev id name msg kvs =>
      match log_args form sev id name msg kvs with
      | Some args =>
          if negb (Nat.ltb t nthreads && Nat.ltb l (length (c_loggers c)) && forallb (arg_ok (s_mem st)) args
                   && (negb named || is_level sev)) then Ill
          else emit_variadic c st t l args
      | None => Ill
      end
  | LLevel t l sev args =>
      if negb (Nat.ltb t nthreads && Nat.ltb l (length (c_loggers c)) && forallb (arg_ok (s_mem st)) args
               && negb (existsb arg_direct_only args) && is_level sev && negb (existsb is_sev_arg args)) then Ill
      else emit_variadic c st t l (ASev sev :: args)
  | LMut a b =>
      match nth_error (s_mem st) a with
      | Some old =>
          if same_shape (s_mem st) old b
          then Ok (with_out (mk_l (set_nth a b (s_mem st)) (s_nodes st) (s_stks st) (s_toks st) (s_procs st)
                                  (s_slots st) (s_exp st) (s_out st)) [])
          else Ill
      | None => Ill
      end
  | LAddProc k =>
      Ok (with_out (mk_l (s_mem st) (s_nodes st) (s_stks st) (s_toks st) (s_procs st ++ [k]) (s_slots st) (s_exp st) (s_out st)) [])
  | LName l =>
      match nth_error (c_loggers c) l with
      | Some (ln, _, _, _) => Ok (with_out st [TB (if logger_enabled c l then ln else map n2b kNoopLoggerName)])
      | None => Ill
      end
  | LBurst t l n flush args =>
      if negb (Nat.ltb t nthreads && Nat.ltb l (length (c_loggers c)) && forallb (arg_ok (s_mem st)) args
               && negb (existsb arg_direct_only args) && Nat.leb n 32) then Ill
      else
        let act := active_ident c st t in
        let st' := if logger_enabled c l
                   then emit_n c st l (map_children (fun r => fold_left (fun r a => set_arg a r) args r) (create_multi st act)) n
                   else st in
        Ok (with_out st' (print_active act ++ (if flush then counts st' else [])))
  end.

Fixpoint lrun (c : cfg) (st : lstate) (ops : list lop) : outcome :=
  match ops with
  | [] => Ok st
  | o :: ops' => match lstep c st o with Ok st' => lrun c st' ops' | x => x end
  end.

(* ------------------------------------------------------------------ what the exporters print when the case is over *)
Definition akind_tag (k : akind) : tok :=
  tag match k with AKBool => "b" | AKI32 => "i" | AKI64 => "l" | AKU32 => "u" | AKDbl => "d" | AKU64 => "U" | AKU8 => "y" end.
Definition print_oval (v : oval) : list tok :=
  match v with
  | OBool b => [tag "b"; tbool b] | OI32 z => [tag "i"; TZ z] | OI64 z => [tag "l"; TZ z] | OU32 z => [tag "u"; TZ z]
  | ODbl z => [tag "d"; TZ z] | OU64 z => [tag "U"; TZ z]
  | OCStr s => [tag "c"; TB s] | OStr s => [tag "s"; TB s]
  | OArr k l => tag "A" :: akind_tag k :: tnat (length l) :: map TZ l
  | OStrArr l => tag "S" :: tnat (length l) :: map TB l
  end.

Definition print_scope (c : cfg) (s : option nat) : list tok :=
  match s with
  | Some l => match nth_error (c_loggers c) l with
              | Some lg => let '(_, _, ver, sch) := lg in [TB (scope_name lg); TB ver; TB sch; tbool true]
              | None => [tag "noscope"]
              end
  | None => [tag "noscope"]
  end.

(* one record as an exporter of kind [k] prints it, reading caller memory [m] *)
Definition print_rec (c : cfg) (k : pkind) (m : mem) (r : rec) : list tok :=
  let '(t, s, f) := trace_or_new r in
  [tag "R"; TZ (r_sev r)] ++ print_oval (read m (r_body r)) ++
  [TZ (r_ts r)] ++ match r_obs r with None => [tag "now"] | Some z => [tag "set"; TZ z] end ++
  [TZ (r_eid r); TB (r_ename r); TB t; TB s; TZ f; tnat (length (r_attrs r))] ++
  flat_map (fun kv => TB (fst kv) :: print_oval (read m (snd kv))) (r_attrs r) ++
  print_scope c (r_scope r) ++
  (if r_res r then [tbool true; TB (c_res c)] else [tag "nores"]) ++
  match k with PProbe => [tag "calls"; tnat (r_nobs r); tnat (r_nres r); tnat (r_nscope r)] | _ => [] end.

Definition pkind_tag (k : pkind) : tok :=
  tag match k with
      | PImm => "I" | PKeep => "K" | PBatch => "B" | PProbe => "P"
      | PRead 1 => "Q1" | PRead 2 => "Q2" | PRead 3 => "Q3" | PRead _ => "Q4"
      end.

Definition print_entry (c : cfg) (k : pkind) (final : mem) (e : entry) : list tok :=
  match e with EImm m r => print_rec c k m r | EDef r => print_rec c k final r end.

Definition dump_proc (c : cfg) (st : lstate) (p : nat) (k : pkind) : list tok :=
  let es := map snd (filter (fun x => Nat.eqb (fst x) p) (s_exp st)) in
  tag "P" :: pkind_tag k :: tnat (length es) :: flat_map (print_entry c k (s_mem st)) es.

Fixpoint dump_from (c : cfg) (st : lstate) (p : nat) (ps : list pkind) : list tok :=
  match ps with
  | [] => []
  | k :: ps' => dump_proc c st p k ++ dump_from c st (S p) ps'
  end.
Definition dump (c : cfg) (st : lstate) : list tok := dump_from c st 0 (s_procs st) ++ [tag "E"].

Record case := mk_case { k_cfg : cfg; k_mem : mem; k_procs : list pkind; k_ops : list lop }.

Definition mem_ok (m : mem) : bool :=
  forallb (fun b => match b with HV l => forallb (view_ok m) l | _ => true end) m.

Definition run_case (k : case) : list tok :=
  if negb (mem_ok (k_mem k)) then [tag "ILL"] else
  match lrun (k_cfg k) (lstate0 (k_mem k) (k_procs k)) (k_ops k) with
  | Ok st => s_out st ++ dump (k_cfg k) st
  | Ill => [tag "ILL"]
  end.
