(* C13 proofs, part 7: the sentences of the property as theorems about the model. *)
From V Require Import C13.Spec C13.Glue C13.ProofsBase C13.ProofsFields C13.ProofsPrint C13.ProofsSim C13.ProofsMeets
  C13.ProofsActive C10.ProofsCtx.
From Coq Require Import Lia.
Local Open Scope string_scope.
Local Open Scope list_scope.
Local Open Scope nat_scope.

(* ------------------------------------------------------------------ fields *)
(* every field of an emitted record, for every argument list: the last one supplied / the default; identity per
   component: explicit, else active at creation, else zero; resource and scope of the emitting logger *)
Theorem record_fields : forall act h l,
  let r := sealed l (build act h) in
  r_sev r = dflt 0%Z (lastof x_sev h) /\
  r_body r = dflt (VStr 0 0) (lastof x_body h) /\
  r_ts r = dflt 0%Z (lastof x_ts h) /\
  r_obs r = lastof x_obs h /\
  (r_eid r, r_ename r) = dflt (0%Z, []) (lastof x_eid h) /\
  trace_or_new r = (comp (lastof x_tid h) (option_map (fun i => fst (fst i)) act) zero16,
                    comp (lastof x_sid h) (option_map (fun i => snd (fst i)) act) zero8,
                    comp (lastof x_fl h) (option_map (fun i => snd i) act) 0%Z) /\
  r_attrs r = map (fun k => (k, last_value k (all_kvs h))) (distinct_keys (all_kvs h)) /\
  r_res r = true /\ r_scope r = Some l /\ r_nobs r = S (count_if is_obs h) /\ r_nres r = 1 /\ r_nscope r = 1.
Proof.
  intros act h l r. unfold r.
  destruct (sealed_fields l (build act h)) as (F1 & F2 & F3 & F4 & F5 & F6 & F7 & F8 & F9 & F10 & F11 & F12 & F13).
  destruct (build_trace act h) as (T1 & T2 & T3). destruct (build_res act h) as (_ & _ & R3 & R4).
  rewrite F1, F2, F3, F4, F5, F6, F8, F9, F10, F11, F12, F13, R3, R4.
  rewrite build_sev, build_body, build_ts, build_obs, build_eid, build_nobs, build_attrs_canonical.
  repeat split; try reflexivity.
  assert (T0 : trace_or_new (sealed l (build act h)) = trace_or_new (build act h)) by reflexivity.
  rewrite T0, <- T1, <- T2, <- T3. unfold tid_of, sid_of, fl_of. destruct (trace_or_new (build act h)) as [[? ?] ?]. reflexivity.
Qed.

(* attributes: a key is present iff it was written; it holds the last value written for it; no key twice *)
Lemma key_mem_ins_sorted : forall k k0 l, key_mem k (ins_sorted k0 l) = bytes_eqb k k0 || key_mem k l.
Proof.
  intros k k0 l. unfold key_mem. induction l as [|x l IH]; cbn [ins_sorted existsb]; [reflexivity|].
  destruct (bytes_cmp k0 x); cbn [existsb]; try reflexivity.
  rewrite IH. destruct (bytes_eqb k x), (bytes_eqb k k0); reflexivity.
Qed.
Lemma key_mem_distinct : forall kvs k, key_mem k (distinct_keys kvs) = key_mem k (map fst kvs).
Proof.
  induction kvs as [|kv kvs IH] using rev_ind; intro k; [reflexivity|].
  unfold distinct_keys. rewrite map_app, fold_left_app. cbn [map fold_left]. fold (distinct_keys kvs).
  unfold add_key. unfold key_mem at 3. rewrite existsb_app. fold (key_mem k (map fst kvs)). cbn [existsb]. rewrite orb_false_r, <- IH.
  destruct (key_mem (fst kv) (distinct_keys kvs)) eqn:M.
  - destruct (bytes_eqb k (fst kv)) eqn:E; [|rewrite orb_false_r; reflexivity].
    apply bytes_eqb_eq in E. subst k. rewrite M. reflexivity.
  - rewrite key_mem_ins_sorted. apply orb_comm.
Qed.

Theorem attribute_last_write_wins : forall act h k,
  find (fun kv => bytes_eqb (fst kv) k) (r_attrs (build act h)) =
  if key_mem k (map fst (all_kvs h)) then Some (k, last_value k (all_kvs h)) else None.
Proof.
  intros. rewrite build_attrs_canonical, <- key_mem_distinct. generalize (distinct_keys (all_kvs h)) as dk.
  induction dk as [|x dk IH]; cbn; [reflexivity|].
  rewrite (bytes_eqb_sym k x). destruct (bytes_eqb x k) eqn:E; cbn.
  - apply bytes_eqb_eq in E. subst x. reflexivity.
  - exact IH.
Qed.

(* what an exporter prints: print_rec_norm, restated *)
Definition expected_tokens (c : cfg) (k : pkind) (mm : mem) (act : option ident) (h : list arg) (l : nat) : list tok :=
  [tag "R"; TZ (dflt 0%Z (lastof x_sev h))] ++ print_oval (read mm (dflt (VStr 0 0) (lastof x_body h))) ++
  [TZ (dflt 0%Z (lastof x_ts h))] ++ obs_toks (lastof x_obs h) ++
  [TZ (fst (dflt (0%Z, []) (lastof x_eid h))); TB (snd (dflt (0%Z, []) (lastof x_eid h)));
   TB (comp (lastof x_tid h) (option_map (fun i => fst (fst i)) act) zero16);
   TB (comp (lastof x_sid h) (option_map (fun i => snd (fst i)) act) zero8);
   TZ (comp (lastof x_fl h) (option_map (fun i => snd i) act) 0%Z);
   tnat (length (distinct_keys (all_kvs h)))] ++
  flat_map (attr_toks mm (all_kvs h)) (distinct_keys (all_kvs h)) ++
  scope_toks c l ++ [tbool true; TB (c_res c)] ++ probe_toks k h.

Theorem log_fields_as_supplied : forall c k mm act h l,
  print_rec c k mm (sealed l (build act h)) = expected_tokens c k mm act h l.
Proof. intros. apply print_rec_norm. Qed.

(* ------------------------------------------------------------------ each processor exactly once *)
Definition exported (st : lstate) (l : nat) (k : nat) (r : rec) : list (nat * entry) :=
  map (fun p => (p, entry_for (nth p (s_procs st) PImm) (s_mem st) (sealed l r))) (seq 0 k).

(* logger->EmitLogRecord(args...) through an enabled logger: one entry per configured processor, in order, holding the
   record "created on this thread now, then the arguments left to right"; nothing else changes *)
Theorem variadic_exports : forall c st t l args st',
  logger_enabled c l = true -> emit_variadic c st t l args = Ok st' ->
  s_exp st' = s_exp st ++ exported st l (length (s_procs st)) (build (active_ident c st t) args) /\
  s_slots st' = s_slots st /\ s_mem st' = s_mem st /\ s_procs st' = s_procs st.
Proof.
  intros c st t l args st' EN E. unfold emit_variadic in E. rewrite EN in E. unfold emit_with_args in E.
  rewrite EN in E. inversion E; subst; clear E.
  cbn [with_out emit_children s_exp s_slots s_mem s_procs]. repeat split.
  f_equal. unfold create_multi, enum_from. fold (children (seq 0 (length (s_procs st))) (rec_created (active_ident c st t))).
  rewrite !map_children_children. rewrite fan_out_seq by lia. rewrite Nat.sub_0_r. unfold exported. apply map_ext. intro p. reflexivity.
Qed.

(* Emit of a live record (made when processors 0..k-1 existed) through an enabled logger *)
Theorem emit_slot_exports : forall c st t l r k rr st',
  nth_error (s_slots st) r = Some (RMulti (children (seq 0 k) rr)) -> k <= length (s_procs st) ->
  logger_enabled c l = true -> lstep c st (LEmit t l r) = Ok st' ->
  s_exp st' = s_exp st ++ exported st l k rr /\ nth_error (s_slots st') r = Some RNull.
Proof.
  intros c st t l r k rr st' N K EN E. cbn [lstep] in E. destruct (negb _); [discriminate|]. rewrite N, EN in E. cbn [negb] in E.
  inversion E; subst; clear E. cbn [with_out with_slots emit_children s_exp s_slots s_mem s_procs]. split.
  - f_equal. rewrite map_children_children. rewrite fan_out_seq by lia. rewrite Nat.sub_0_r. reflexivity.
  - assert (L : r < length (s_slots st)) by (apply nth_error_Some; rewrite N; discriminate).
    clear -L. revert r L. induction (s_slots st) as [|x xs IH]; intros [|r] L; cbn in *; try lia; [reflexivity|]. apply IH. lia.
Qed.

Lemma count_exported : forall st l k r p e,
  count_for p (e ++ exported st l k r) = count_for p e + (if p <? k then 1 else 0).
Proof.
  intros. unfold count_for, exported. rewrite filter_app, app_length. f_equal.
  induction k as [|k IH]; [reflexivity|].
  rewrite seq_S, map_app, filter_app, app_length, IH. cbn [map filter fst Nat.add].
  destruct (Nat.eqb k p) eqn:E.
  - apply Nat.eqb_eq in E. subst k. replace (p <? p) with false by (symmetry; apply Nat.ltb_ge; lia).
    replace (p <? S p) with true by (symmetry; apply Nat.ltb_lt; lia). reflexivity.
  - apply Nat.eqb_neq in E. cbn [length]. rewrite Nat.add_0_r.
    destruct (p <? k) eqn:E1, (p <? S k) eqn:E2; try reflexivity; exfalso;
      try apply Nat.ltb_lt in E1; try apply Nat.ltb_ge in E1; try apply Nat.ltb_lt in E2; try apply Nat.ltb_ge in E2; lia.
Qed.

Theorem each_processor_once : forall c st t l args st' p,
  logger_enabled c l = true -> emit_variadic c st t l args = Ok st' ->
  count_for p (s_exp st') = count_for p (s_exp st) + (if p <? length (s_procs st) then 1 else 0).
Proof.
  intros c st t l args st' p EN E. destruct (variadic_exports c st t l args st' EN E) as [X _]. rewrite X. apply count_exported.
Qed.

(* a burst: n emissions in a row through a batch pipeline - every configured processor exactly n more, each entry the
   record as supplied, in order; nothing is handed over twice, nothing is lost *)
Fixpoint repeat_app {A} (l : list A) (n : nat) : list A := match n with 0 => [] | S n' => l ++ repeat_app l n' end.

Lemma emit_n_exports : forall c l k rr n st, k <= length (s_procs st) ->
  s_exp (emit_n c st l (children (seq 0 k) rr) n) = s_exp st ++ repeat_app (exported st l k rr) n /\
  s_procs (emit_n c st l (children (seq 0 k) rr) n) = s_procs st /\ s_mem (emit_n c st l (children (seq 0 k) rr) n) = s_mem st /\
  s_slots (emit_n c st l (children (seq 0 k) rr) n) = s_slots st.
Proof.
  induction n as [|n IH]; intros st K; cbn [emit_n repeat_app]; [rewrite app_nil_r; repeat split|].
  destruct (IH (emit_children c st l (children (seq 0 k) rr))) as (E1 & E2 & E3 & E4); [exact K|].
  rewrite E1, E2, E3, E4. cbn [emit_children s_exp s_procs s_mem s_slots]. repeat split.
  rewrite <- app_assoc. f_equal. f_equal.
  - rewrite map_children_children, fan_out_seq by lia. rewrite Nat.sub_0_r. reflexivity.
Qed.

Theorem burst_each_processor_exactly_n : forall c st t l n flush args st' p,
  logger_enabled c l = true -> lstep c st (LBurst t l n flush args) = Ok st' ->
  s_exp st' = s_exp st ++ repeat_app (exported st l (length (s_procs st)) (build (active_ident c st t) args)) n /\
  count_for p (s_exp st') = count_for p (s_exp st) + (if p <? length (s_procs st) then n else 0).
Proof.
  intros c st t l n flush args st' p EN E. cbn [lstep] in E. destruct (negb _); [discriminate|]. rewrite EN in E.
  inversion E; subst st'; clear E. cbn [with_out s_exp].
  unfold create_multi, enum_from. fold (children (seq 0 (length (s_procs st))) (rec_created (active_ident c st t))).
  rewrite map_children_children. fold (apply_args args (rec_created (active_ident c st t))). fold (build (active_ident c st t) args).
  destruct (emit_n_exports c l (length (s_procs st)) (build (active_ident c st t) args) n st (le_n _)) as (E1 & _).
  rewrite E1. split; [reflexivity|]. clear E1.
  generalize (s_exp st) as e. induction n as [|n IH]; intro e; cbn [repeat_app].
  - rewrite app_nil_r. destruct (p <? length (s_procs st)); lia.
  - rewrite app_assoc, IH, count_exported. destruct (p <? length (s_procs st)); lia.
Qed.

(* ------------------------------------------------------------------ a null record is ignored *)
Theorem null_ignored : forall c st t l st',
  (lstep c st (LEmitNull t l) = Ok st' -> s_exp st' = s_exp st /\ s_slots st' = s_slots st) /\
  (forall r, nth_error (s_slots st) r = Some RNull -> lstep c st (LEmit t l r) = Ok st' ->
             s_exp st' = s_exp st /\ s_slots st' = s_slots st) /\
  (forall r args, nth_error (s_slots st) r = Some RNull ->
             lstep c st (LEmitRV t l r args) = Ok st' -> s_exp st' = s_exp st /\ nth_error (s_slots st') r = Some RNull).
Proof.
  intros c st t l st'. split; [|split].
  - intro E. cbn [lstep] in E. destruct (_ && _); [|discriminate]. inversion E; subst. split; reflexivity.
  - intros r N E. cbn [lstep] in E. destruct (negb _); [discriminate|]. rewrite N in E.
    destruct (negb (logger_enabled c l)); inversion E; subst; split; reflexivity.
  - intros r args N E. cbn [lstep] in E. destruct (negb _); [discriminate|].
    rewrite N in E. cbn [emit_with_args] in E. inversion E; subst; clear E.
    cbn [with_out with_slots s_exp s_slots]. split; [reflexivity|].
    assert (L : r < length (s_slots st)) by (apply nth_error_Some; rewrite N; discriminate).
    clear -L. revert r L. induction (s_slots st) as [|x xs IH]; intros [|r] L; cbn in *; try lia; [reflexivity|]. apply IH. lia.
Qed.

(* ------------------------------------------------------------------ a disabled logger emits nothing *)
Definition emits_via (o : lop) : option nat :=
  match o with
  | LEmit _ l _ | LEmitNull _ l | LEmitV _ l _ | LEmitRV _ l _ _ | LLog _ l _ _ _ _ _ _ _ | LLevel _ l _ _
  | LBurst _ l _ _ _ => Some l
  | _ => None
  end.

Lemma emit_with_args_disabled : forall c st l sl args st',
  logger_enabled c l = false -> emit_with_args c st l sl args = Ok st' -> st' = st.
Proof.
  intros c st l sl args st' EN E. unfold emit_with_args in E. rewrite EN in E.
  destruct sl; inversion E; reflexivity.
Qed.

Theorem exports_only_through_enabled_loggers : forall c st o st',
  lstep c st o = Ok st' ->
  (emits_via o = None \/ exists l, emits_via o = Some l /\ logger_enabled c l = false) ->
  s_exp st' = s_exp st.
Proof.
  intros c st o st' E D. destruct o; cbn [lstep] in E; cbn [emits_via] in D.
  - destruct (_ && _); [|discriminate]. inversion E; subst. unfold attach. destruct (set_value _ _ _ _). reflexivity.
  - destruct (Nat.ltb t nthreads); [|discriminate]. inversion E; subst. unfold attach. destruct (set_value _ _ _ _). reflexivity.
  - destruct (Nat.ltb t nthreads); [|discriminate]. inversion E; subst. unfold attach. destruct (set_value _ _ _ _). reflexivity.
  - destruct (nth_error (s_toks st) k) as [[[tt cx] [|]]|]; try discriminate. inversion E; subst. reflexivity.
  - destruct (_ && _); [|discriminate]. inversion E; subst. reflexivity.
  - destruct (negb (arg_ok (s_mem st) a)); [discriminate|].
    destruct (nth_error (s_slots st) r) as [[| |ch]|]; try discriminate; inversion E; subst; reflexivity.
  - destruct D as [D|[l0 [D EN]]]; [discriminate|]. inversion D; subst l0.
    destruct (negb _); [discriminate|]. destruct (nth_error (s_slots st) r) as [sl|]; [|discriminate]. rewrite EN in E. cbn [negb] in E.
    inversion E; subst. reflexivity.
  - destruct (_ && _); [|discriminate]. inversion E; subst. reflexivity.
  - destruct D as [D|[l0 [D EN]]]; [discriminate|]. inversion D; subst l0.
    destruct (negb _); [discriminate|]. unfold emit_variadic in E. rewrite EN in E.
    destruct (emit_with_args c st l RNoop args) as [s1|] eqn:EW; try discriminate. apply emit_with_args_disabled in EW; [|exact EN].
    subst s1. inversion E; subst. reflexivity.
  - destruct D as [D|[l0 [D EN]]]; [discriminate|]. inversion D; subst l0.
    destruct (negb _); [discriminate|]. destruct (nth_error (s_slots st) r) as [sl|]; [|discriminate].
    destruct (emit_with_args c st l sl args) as [s1|] eqn:EW; try discriminate. apply emit_with_args_disabled in EW; [|exact EN].
    subst s1. inversion E; subst. reflexivity.
  - destruct D as [D|[l0 [D EN]]]; [discriminate|]. inversion D; subst l0.
    destruct (log_args form sev id name msg kvs) as [args|]; [|discriminate].
    destruct (negb _); [discriminate|]. unfold emit_variadic in E. rewrite EN in E.
    destruct (emit_with_args c st l RNoop args) as [s1|] eqn:EW; try discriminate. apply emit_with_args_disabled in EW; [|exact EN].
    subst s1. inversion E; subst. reflexivity.
  - destruct D as [D|[l0 [D EN]]]; [discriminate|]. inversion D; subst l0.
    destruct (negb _); [discriminate|]. unfold emit_variadic in E. rewrite EN in E.
    destruct (emit_with_args c st l RNoop (ASev sev :: args)) as [s1|] eqn:EW; try discriminate. apply emit_with_args_disabled in EW; [|exact EN].
    subst s1. inversion E; subst. reflexivity.
  - destruct (nth_error (s_mem st) a) as [old|]; [|discriminate]. destruct (same_shape (s_mem st) old b); [|discriminate]. inversion E; subst. reflexivity.
  - inversion E; subst. reflexivity.
  - destruct (nth_error (c_loggers c) l) as [[[[? ?] ?] ?]|]; [|discriminate]. inversion E; subst. reflexivity.
  - destruct D as [D|[l0 [D EN]]]; [discriminate|]. inversion D; subst l0.
    destruct (negb _); [discriminate|]. rewrite EN in E. inversion E; subst. reflexivity.
Qed.

(* over every operation sequence in which every emitting call goes through a disabled logger *)
Theorem disabled_emits_nothing : forall c ops st st',
  (forall o l, In o ops -> emits_via o = Some l -> logger_enabled c l = false) ->
  lrun c st ops = Ok st' -> s_exp st' = s_exp st.
Proof.
  induction ops as [|o ops IH]; intros st st' D E; cbn [lrun] in E; [inversion E; reflexivity|].
  destruct (lstep c st o) as [s1|] eqn:S; try discriminate.
  rewrite (IH s1 st'); [|intros o' l' Hin; apply D; right; assumption | exact E].
  apply (exports_only_through_enabled_loggers c st o s1 S).
  destruct (emits_via o) as [l|] eqn:V; [right|left; reflexivity]. exists l. split; [reflexivity|]. apply (D o l); [left; reflexivity | exact V].
Qed.

(* the logger of a disabled scope answers as the no-op logger *)
Theorem disabled_logger_name : forall c st l st' ln lib ver sch,
  nth_error (c_loggers c) l = Some (ln, lib, ver, sch) -> lstep c st (LName l) = Ok st' ->
  s_out st' = s_out st ++ [TB (if logger_enabled c l then ln else map n2b kNoopLoggerName); bar].
Proof. intros c st l st' ln lib ver sch N E. cbn [lstep] in E. rewrite N in E. inversion E; subst. reflexivity. Qed.

(* ------------------------------------------------------------------ identity *)
Theorem explicit_identity_wins : forall act h,
  (forall t, lastof x_tid h = Some t -> tid_of (build act h) = t) /\
  (forall s, lastof x_sid h = Some s -> sid_of (build act h) = s) /\
  (forall f, lastof x_fl h = Some f -> fl_of (build act h) = f).
Proof.
  intros act h. destruct (build_trace act h) as (T1 & T2 & T3). repeat split; intros v E.
  - rewrite T1, E. reflexivity.
  - rewrite T2, E. reflexivity.
  - rewrite T3, E. reflexivity.
Qed.

Theorem active_span_identity : forall t s f h,
  (lastof x_tid h = None -> tid_of (build (Some (t, s, f)) h) = t) /\
  (lastof x_sid h = None -> sid_of (build (Some (t, s, f)) h) = s) /\
  (lastof x_fl h = None -> fl_of (build (Some (t, s, f)) h) = f).
Proof.
  intros t s f h. destruct (build_trace (Some (t, s, f)) h) as (T1 & T2 & T3). repeat split; intro E.
  - rewrite T1, E. reflexivity.
  - rewrite T2, E. reflexivity.
  - rewrite T3, E. reflexivity.
Qed.

Lemma trace_eq : forall r t s f, tid_of r = t -> sid_of r = s -> fl_of r = f -> trace_or_new r = (t, s, f).
Proof. intros r t s f. unfold tid_of, sid_of, fl_of. destruct (trace_or_new r) as [[a b] c0]. cbn. intros; subst; reflexivity. Qed.

Theorem no_span_zero_ids : forall h,
  lastof x_tid h = None -> lastof x_sid h = None -> lastof x_fl h = None ->
  trace_or_new (build None h) = zero_ident.
Proof.
  intros h E1 E2 E3. destruct (build_trace None h) as (T1 & T2 & T3). rewrite E1 in T1. rewrite E2 in T2. rewrite E3 in T3.
  apply trace_eq; assumption.
Qed.

(* a record made inside a scope carries that span's identity: the scope was opened on this thread (any state the
   machine can reach), the record is made by any of the log calls on the same thread, no explicit identity *)
Theorem created_in_scope_carries_span : forall c st t s i st1 l args st2,
  CInv st -> nth_error (c_spans c) s = Some i ->
  lstep c st (LScope t (SVSpan s)) = Ok st1 ->
  logger_enabled c l = true -> emit_variadic c st1 t l args = Ok st2 ->
  lastof x_tid args = None -> lastof x_sid args = None -> lastof x_fl args = None ->
  s_exp st2 = s_exp st1 ++ exported st1 l (length (s_procs st1)) (build (Some i) args) /\
  trace_or_new (build (Some i) args) = i.
Proof.
  intros c st t s i st1 l args st2 H N E1 EN E2 X1 X2 X3.
  destruct (scope_activates c st t (SVSpan s) st1 H E1) as [A _].
  destruct (variadic_exports c st1 t l args st2 EN E2) as [X _].
  unfold active_ident in X. rewrite A, (ident_span c s i N) in X. split; [exact X|].
  destruct i as [[ti si] fi]. destruct (active_span_identity ti si fi args) as (T1 & T2 & T3).
  apply trace_eq; [apply T1 | apply T2 | apply T3]; assumption.
Qed.

(* ------------------------------------------------------------------ independence of later caller writes *)
Definition rec_scalar (r : rec) : bool := is_scalar (r_body r) && forallb (fun kv => is_scalar (snd kv)) (r_attrs r).

(* PARTIAL (proved): an exporter that read the record during Emit, and any exporter of a record whose body and
   attribute values are all scalars, shows the same whatever the caller writes afterwards *)
Theorem log_independent_of_later_mutation_partial : forall c k m1 m2 e,
  match e with EImm _ _ => True | EDef r => rec_scalar r = true end ->
  print_entry c k m1 e = print_entry c k m2 e.
Proof.
  intros c k m1 m2 [m r|r] H; [reflexivity|]. cbn [print_entry]. unfold rec_scalar in H. apply andb_true_iff in H. destruct H as [H1 H2].
  unfold print_rec. rewrite (scalar_read m1 m2 _ H1).
  replace (flat_map (fun kv => TB (fst kv) :: print_oval (read m1 (snd kv))) (r_attrs r))
    with (flat_map (fun kv => TB (fst kv) :: print_oval (read m2 (snd kv))) (r_attrs r)); [reflexivity|].
  induction (r_attrs r) as [|kv l IH]; [reflexivity|]. cbn [forallb] in H2. apply andb_true_iff in H2. destruct H2 as [H2 H3].
  cbn [flat_map]. rewrite (scalar_read m1 m2 _ H2), IH by assumption. reflexivity.
Qed.

(* REFUTED for strings and arrays (open finding F15): the caller overwrites its buffer after Emit returned and the
   deferred exporter shows the new bytes *)
Definition f15_witness : case :=
  mk_case (mk_cfg false [] [(bs "app", [], [], [])] [] (bs "r"))
          [HB (bs "hello")] [PKeep]
          [LEmitV 0 0 [ABody BSv (VStr 0 5)]; LMut 0 (HB (bs "XXXXX"))].

Theorem log_independent_of_later_mutation_refuted :
  check_case f15_witness (run_case f15_witness) = fail "log_independent_of_later_mutation:body_string" /\
  exists c k m a b r, nth_error m a <> None /\ (forall old, nth_error m a = Some old -> same_shape m old b = true) /\
                      print_entry c k (set_nth a b m) (EDef r) <> print_entry c k m (EDef r).
Proof.
  split; [vm_compute; reflexivity|].
  exists (k_cfg f15_witness), PKeep, [HB (bs "hello")], 0, (HB (bs "XXXXX")), (set_body (VStr 0 5) rec0).
  split; [discriminate|]. split; [intros old E; inversion E; reflexivity|]. vm_compute. discriminate.
Qed.

(* F29 (repaired in /repo, be9979e): EventId{id} without a name - also behind Log(sev, int64_t id, ...) - used to kill the
   process in the setter trait (strlen(nullptr)).  Now: the id with the EMPTY event name, for every argument list. *)
Theorem event_id_without_name_is_empty_name : forall act h id,
  r_eid (build act (h ++ [AEid id None])) = id /\ r_ename (build act (h ++ [AEid id None])) = [] /\
  log_args 3 9%Z id [] (VStr 0 1) [] = Some [ASev 9%Z; AEid id None; ABody BSv (VStr 0 1); AAttrs HKvi []].
Proof.
  intros act h id. pose proof (build_eid act (h ++ [AEid id None])) as E. rewrite lastof_snoc in E. cbn [x_eid dflt] in E.
  split; [exact (f_equal fst E)|]. split; [exact (f_equal snd E) | reflexivity].
Qed.

(* the former crash witness: Log(severity, int64_t 7, "m", {}) is exported once, with event id 7 and no name *)
Definition f29_witness : case :=
  mk_case (mk_cfg false [] [(bs "app", [], [], [])] [] (bs "r")) [HB (bs "m")] [PImm]
          [LLog 0 0 false 3 9%Z 7%Z [] (VStr 0 1) []].
Example f29_regression :
  check_case f29_witness (run_case f29_witness) = [] /\
  firstn 14 (run_case f29_witness) =
    [tag "A"; tag "none"; tag "N"; TZ 1; tag "|"; tag "P"; tag "I"; TZ 1; tag "R"; TZ 9; tag "s"; TB (bs "m"); TZ 0; tag "now"]%Z /\
  nth 14 (run_case f29_witness) (tag "?") = TZ 7%Z /\ nth 15 (run_case f29_witness) (tag "?") = TB [].
Proof. vm_compute. repeat split. Qed.

(* ------------------------------------------------------------------ non-vacuity *)
Definition ex_case : case :=
  mk_case (mk_cfg false [(bs "lib", true)] [(bs "app", [], bs "1", []); (bs "x", bs "lib", [], [])]
                  [(repeat x01 16, repeat x02 8, 1%Z)] (bs "r"))
          [HB (bs "hello"); HZ AKI32 [1; 2; 3]%Z] [PImm; PKeep; PProbe]
          [LScope 0 (SVSpan 0);
           LEmitV 0 0 [ASev 9%Z; ABody BSv (VStr 0 5); AAttrs HKvi [(bs "k", VI32 1%Z); (bs "k", VArr AKI32 1 3)]; ASev 13%Z];
           LCreate 0 0; LApply 0 (ATid (repeat x07 16)); LEmit 1 0 0; LEmit 1 0 0; LEmitNull 0 0;
           LEmitV 0 1 [ASev 5%Z]; LClose 0; LEmitV 0 0 []].

Example ex_case_hypotheses :
  forallb (fun o => negb (is_mut o)) (k_ops ex_case) = true /\
  check_case ex_case (run_case ex_case) = [] /\ length (run_case ex_case) = 253.
Proof. vm_compute. repeat split. Qed.

Example ex_explicit : lastof x_tid [ASev 1%Z; ACtx (repeat x03 16) (repeat x04 8) 1%Z; ATid (repeat x05 16); AFl 0%Z] = Some (repeat x05 16) /\
                      lastof x_sid [ASev 1%Z; ACtx (repeat x03 16) (repeat x04 8) 1%Z; ATid (repeat x05 16); AFl 0%Z] = Some (repeat x04 8).
Proof. split; reflexivity. Qed.

Example ex_no_explicit : lastof x_tid [ASev 1%Z; ABody BSv (VStr 0 5)] = None /\ lastof x_sid [ASev 1%Z] = None /\ lastof x_fl [ASev 1%Z] = None.
Proof. repeat split; reflexivity. Qed.

Example ex_scalar : rec_scalar (sealed 0 (build None [ABody BAv (VI64 5%Z); AAttrs HVec [(bs "k", VDbl 0%Z)]])) = true.
Proof. reflexivity. Qed.

Example ex_disabled : logger_enabled (k_cfg ex_case) 1 = false /\ logger_enabled (k_cfg ex_case) 0 = true.
Proof. split; reflexivity. Qed.

Definition ex_st1 : lstate :=
  match lrun (k_cfg ex_case) (lstate0 (k_mem ex_case) (k_procs ex_case)) (firstn 1 (k_ops ex_case)) with
  | Ok st => st
  | _ => lstate0 [] []
  end.
Example ex_reachable_inv :
  lrun (k_cfg ex_case) (lstate0 (k_mem ex_case) (k_procs ex_case)) (firstn 1 (k_ops ex_case)) = Ok ex_st1 /\ CInv ex_st1 /\
  active_ident (k_cfg ex_case) ex_st1 0 = Some (repeat x01 16, repeat x02 8, 1%Z).
Proof.
  assert (E : lrun (k_cfg ex_case) (lstate0 (k_mem ex_case) (k_procs ex_case)) (firstn 1 (k_ops ex_case)) = Ok ex_st1) by (vm_compute; reflexivity).
  split; [exact E|]. split; [|vm_compute; reflexivity].
  exact (run_CInv _ _ _ _ (CInv_init (k_mem ex_case) (k_procs ex_case)) E).
Qed.
