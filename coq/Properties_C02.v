(* C02 - ForceFlush and Shutdown are complete, final, and return (batch processors: under every interleaving, given only that
   the worker keeps being scheduled - Batch/Fair.v; periodic reader and providers: evidenced by the scheduled runs).
   Property theorems only; proofs are in Batch/Proofs*.v and Batch/Theorems.v. *)
From V Require Import Batch.Model Batch.ProofsA Batch.ProofsB Batch.Theorems Batch.Glue Batch.Spec Batch.TraceSpec Batch.TraceSpec2 Batch.TraceSpec3 Batch.Compose Batch.ComposeProofs Batch.Periodic Batch.PeriodicProofs Batch.PeriodicTrace Batch.PeriodicTrace2 Batch.PeriodicFair Batch.PeriodicShut Batch.Progress Batch.Fair.
From Coq Require Import List Arith.
Import ListNotations.

Theorem c02_ticket_mark : forall s t old s', t <> 0 -> accept s (t, EFaddPending old) = Some s' -> length (marks s) = pending s ->
  ap s' t = AFlushWait (S old) None /\ mark s' (S old) = length (enq s) /\ pending s' = S old.
Proof. exact ticket_mark. Qed.
Print Assumptions c02_ticket_mark.

Theorem c02_flush_true_complete : forall q b s t k, reachable q b s -> In (t, k, true) (fl_done s) ->
  mark s k <= flushed s /\ flushed s <= nexported s /\
  firstn (mark s k) (enq s) = firstn (mark s k) (concat (exported s)).
Proof. exact flush_true_complete. Qed.
Print Assumptions c02_flush_true_complete.

Theorem c02_shutdown_complete : forall q b s, reachable q b s -> sh_done s <> [] ->
  wp s = WDone /\ expshut s = 1 /\ is_shut s = true /\
  exists l, latch s = Some l /\ l <= nexported s /\ firstn l (enq s) = firstn l (concat (exported s)).
Proof. exact shutdown_complete. Qed.
Print Assumptions c02_shutdown_complete.

Theorem c02_exporter_shutdown_at_most_once : forall q b s, reachable q b s -> expshut s <= 1.
Proof. exact exporter_shutdown_at_most_once. Qed.
Print Assumptions c02_exporter_shutdown_at_most_once.

Theorem c02_no_exporter_call_after_shutdown : forall q b s t e, reachable q b s -> expshut s = 1 ->
  exporter_call e = true -> accept s (t, e) = None.
Proof. exact no_exporter_call_after_shutdown. Qed.
Print Assumptions c02_no_exporter_call_after_shutdown.

Theorem c02_after_shutdown_calls_inert : forall s t v s', t <> 0 -> is_shut s = true -> accept s (t, ELdShut v) = Some s' ->
  match ap s t with
  | AOnEnd id => enq s' = enq s /\ ap s' t = AOnEndOut id /\ discarded s' = discarded s ++ [id]
  | AFlush0 => ap s' t = AFlushFail /\ pending s' = pending s
  | _ => True
  end.
Proof. exact after_shutdown_calls_inert. Qed.
Print Assumptions c02_after_shutdown_calls_inert.

Theorem c02_shutdown_is_final : forall s te s', accept s te = Some s' -> is_shut s = true -> is_shut s' = true.
Proof. exact is_shut_stable. Qed.
Print Assumptions c02_shutdown_is_final.

(* termination, logical core: the worker is never blocked by another thread, and running alone (application threads quiescent,
   exporter calls return) it drains the queue and publishes every pending ticket / exits within a bound computed from the state.
   (The general statement, with the application threads running, follows below.) *)
Theorem c02_worker_never_stuck : forall s, Inv s -> 0 < Bsz s -> wp s <> WDone -> exists s', wstep s = Some s'.
Proof. exact worker_never_stuck. Qed.
Print Assumptions c02_worker_never_stuck.

Theorem c02_worker_solo_flush_progress : forall s, Inv s -> 0 < Bsz s -> is_shut s = false ->
  exists n s', n <= 15 + 3 * (length (enq s) - deq s) /\ witer n s = Some s' /\ notified s' = pending s /\ pending s' = pending s /\
               enq s' = enq s /\ deq s' = length (enq s) /\ inflight s' = None.
Proof. exact worker_solo_flush_progress_bound. Qed.
Print Assumptions c02_worker_solo_flush_progress.

Theorem c02_worker_solo_shutdown_progress : forall s, Inv s -> 0 < Bsz s -> is_shut s = true -> wp s <> WDone ->
  (forall p n, wp s = WDrainLd p n -> deq s = length (enq s)) ->
  exists n s', witer n s = Some s' /\ wp s' = WDone /\ enq s' = enq s /\ deq s' = length (enq s) /\ pending s' = pending s.
Proof. exact worker_solo_shutdown_progress. Qed.
Print Assumptions c02_worker_solo_shutdown_progress.

(* termination under EVERY interleaving (producers, flushers and shutdown keep running), assuming only that the worker keeps
   taking steps: [wprog tr] counts the worker's events in the continuation tr other than wait-predicate evaluations. *)
Theorem c02_flush_returns_under_fair_worker : forall q b s tr s' t,
  reachable q b s -> t <= pending s -> run s tr = Some s' -> 16 + 6 * q <= wprog tr ->
  t <= notified s' \/ is_shut s' = true.
Proof. exact flush_returns_under_fair_worker. Qed.
Print Assumptions c02_flush_returns_under_fair_worker.

Theorem c02_shutdown_worker_exits_under_fair_worker : forall q b s tr s' ts,
  reachable q b s -> is_shut s = true -> (forall u, late s u = true -> In u ts) -> run s tr = Some s' ->
  16 * (length (queue s) + (pending s - notified s)) + 13 + 32 * length ts <= wprog tr -> wp s' = WDone.
Proof. exact shutdown_worker_exits_bound. Qed.
Print Assumptions c02_shutdown_worker_exits_under_fair_worker.

Theorem c02_late_arrivals_bounded : forall ts tr s s',
  is_shut s = true -> (forall u, late s u = true -> In u ts) -> run s tr = Some s' -> adds tr <= length (filter (late s) ts).
Proof. exact late_adds_bounded. Qed.
Print Assumptions c02_late_arrivals_bounded.

(* MODEL |= SPEC: every trace the acceptor accepts passes the C02 history checker that ./check runs on the implementation's
   traces.  Destructor-free traces; more generally traces in which no destructor returns, or in which destructor calls overlap
   no Shutdown call and no other destructor call (the acceptor accepts a destructor that returns while another thread's
   Shutdown is still running - application misuse - and the checker rejects that history: c02_destructor_overlap_refutes). *)
Theorem c02_accepted_trace_meets_spec : forall q b tr s,
  run (init q b) tr = Some s -> no_destroy tr -> Batch.Spec.spec_c02 (pevs tr) = [].
Proof. exact accepted_trace_meets_spec_c02. Qed.
Print Assumptions c02_accepted_trace_meets_spec.

Theorem c02_accepted_trace_meets_spec_no_destructor_return : forall q b tr s,
  run (init q b) tr = Some s -> no_retdestroy tr -> Batch.Spec.spec_c02 (pevs tr) = [].
Proof. exact accepted_trace_meets_spec_c02_noret. Qed.
Print Assumptions c02_accepted_trace_meets_spec_no_destructor_return.

Theorem c02_accepted_trace_meets_spec_exclusive_destructor : forall q b tr s,
  run (init q b) tr = Some s -> dtor_exclusive tr -> Batch.Spec.spec_c02 (pevs tr) = [].
Proof. exact accepted_trace_meets_spec_c02_dtor. Qed.
Print Assumptions c02_accepted_trace_meets_spec_exclusive_destructor.

Theorem c02_destructor_overlap_refutes :
  (exists s, run (init 1 1) dtor_overlap_trace = Some s) /\ Batch.Spec.spec_c02 (pevs dtor_overlap_trace) <> [] /\
  dtor_walk ([], None) dtor_overlap_trace = false.
Proof. exact dtor_overlap_refutes. Qed.
Print Assumptions c02_destructor_overlap_refutes.

Theorem c02_accepted_trace_spec_nonvacuous :
  no_destroy demo_trace /\ Batch.Spec.spec_c02 (pevs demo_trace) = [] /\
  Batch.Spec.spec_c02 (pevs early_true_trace) <> [] /\ run (init 1 1) early_true_trace = None.
Proof. exact (conj demo_no_destroy (conj demo_passes_spec_c02 early_true_fails_spec_c02)). Qed.
Print Assumptions c02_accepted_trace_spec_nonvacuous.

(* "later OnEnd/OnEmit/ForceFlush calls return promptly": the checker run on the implementation's traces fails when a call that began
   after a Shutdown returned touches a mutex / condition variable of the processor; accepted traces never do *)
Theorem c02_accepted_trace_late_calls_prompt : forall tr, c02_late_calls_prompt (pevs tr) = [].
Proof. exact accepted_trace_meets_spec_c02_late_calls_prompt. Qed.
Print Assumptions c02_accepted_trace_late_calls_prompt.

(* provider level (TracerProvider / LoggerProvider / MeterProvider over any children, any call sequence) *)
Theorem c02_compose_meets_spec : forall k cs ops, spec_compose k (length cs) (model k cs ops) = [].
Proof. exact compose_meets_spec. Qed.
Print Assumptions c02_compose_meets_spec.

Theorem c02_provider_true_implies_children_true : forall k cs ops c r,
  In c (model k cs ops) -> p_result c = Some r -> r = all_true (p_children c).
Proof. exact provider_true_implies_children_true. Qed.
Print Assumptions c02_provider_true_implies_children_true.

(* periodic exporting metric reader (Batch/Periodic.v) *)
Theorem c02_periodic_flush_true_complete : forall s t k, rreachable s -> In (t, k, true) (r_fl_done s) -> rmark s k <= r_covered s.
Proof. exact periodic_flush_true_complete. Qed.
Print Assumptions c02_periodic_flush_true_complete.

(* the periodic reader's ForceFlush: its exit condition holds after 34 steps of the worker and its collect thread, plus 16 for
   every cycle of the continuation whose collection timed out (such a cycle publishes nothing), under every interleaving *)
Theorem c02_periodic_flush_returns_under_fair_worker : forall s tr s' t,
  rreachable s -> t <= r_pending s -> rrun s tr = Some s' -> 34 + 16 * timeouts tr <= pprog tr ->
  t <= r_notified s' \/ r_shut s' = true.
Proof. exact periodic_flush_returns_under_fair_worker. Qed.
Print Assumptions c02_periodic_flush_returns_under_fair_worker.

(* the periodic reader's Shutdown: once the latch is stored, the worker has left its loop (its last read of shutdown_ returned true
   and no collect thread is outstanding: the state in which the caller's join returns) after 23 steps of the worker and its collect
   thread, under every interleaving with recorders, flushers and other Shutdown callers; a thread inside Shutdown has stored the
   latch; and in that state every remaining step of a Shutdown caller is enabled whatever the exporter answers *)
Theorem c02_periodic_shutdown_joinable_under_fair_worker : forall s tr s',
  rreachable s -> r_shut s = true -> rrun s tr = Some s' -> 23 <= sprog tr -> r_wp s' = RWIdle true /\ r_coll s' = None.
Proof. exact periodic_shutdown_joinable_under_fair_worker. Qed.
Print Assumptions c02_periodic_shutdown_joinable_under_fair_worker.

Theorem c02_periodic_shutdown_caller_has_latched : forall s t, rreachable s -> r_ap s t = RAShut2 -> r_shut s = true.
Proof. exact shutdown_caller_has_latched. Qed.
Print Assumptions c02_periodic_shutdown_caller_has_latched.

Theorem c02_periodic_shutdown_caller_steps_enabled : forall s t,
  rreachable s -> (r_wp s = RWIdle true /\ r_coll s = None) -> t <> 0 ->
  (r_ap s t = RAShut2 -> r_joined s = false -> exists s', raccept s (t, RJoin 0) = Some s' /\ r_ap s' t = RAShut3) /\
  (r_ap s t = RAShut2 -> r_joined s = true -> forall r, exists s', raccept s (t, RExpShutdown r) = Some s' /\ r_ap s' t = RAShut4 r) /\
  (r_ap s t = RAShut3 -> forall r, exists s', raccept s (t, RExpShutdown r) = Some s' /\ r_ap s' t = RAShut4 r) /\
  (forall r, r_ap s t = RAShut4 r -> exists s', raccept s (t, RRetShut r) = Some s' /\ r_ap s' t = RAIdle /\ r_sh_done s' = S (r_sh_done s)).
Proof. exact shutdown_caller_steps_enabled. Qed.
Print Assumptions c02_periodic_shutdown_caller_steps_enabled.

(* the periodic reader's worker is joined at most once however many threads request Shutdown (F31): every accepted trace
   passes the join-once checker that is run on the implementation's traces *)
Theorem c02_periodic_accepted_trace_joins_worker_once : forall tr s, rrun rinit tr = Some s -> periodic_join_walk false (rpevs tr) = [].
Proof. exact accepted_trace_meets_periodic_spec_join. Qed.
Print Assumptions c02_periodic_accepted_trace_joins_worker_once.

Theorem c02_periodic_ticket_mark : forall s t old s', t <> 0 -> r_coll s = None ->
  raccept s (t, RFaddPending old) = Some s' -> length (r_marks s) = r_pending s ->
  rmark s' (S old) = r_nrec s /\ r_pending s' = S old.
Proof. exact periodic_ticket_mark. Qed.
Print Assumptions c02_periodic_ticket_mark.

Theorem c02_periodic_no_export_after_shutdown : forall s t n, rreachable s -> 0 < r_sh_done s ->
  raccept s (t, RExpBegin n) = None.
Proof. exact periodic_no_export_after_shutdown. Qed.
Print Assumptions c02_periodic_no_export_after_shutdown.

(* MODEL |= SPEC, periodic reader: every trace the acceptor accepts passes the C02 history checker periodic_spec2 (the pw
   walker) that ./check runs on the implementation's traces; no side condition *)
Theorem c02_periodic_accepted_trace_meets_spec : forall tr s, rrun rinit tr = Some s ->
  pw_fail (fold_left pw_step (rpevs tr) (mk_pw 0 false 0 [] None [])) = [].
Proof. exact accepted_trace_meets_periodic_spec2. Qed.
Print Assumptions c02_periodic_accepted_trace_meets_spec.

Theorem c02_periodic_accepted_tokens_meet_spec : forall toks tr s,
  rparse_trace toks = rpevs tr -> rrun rinit tr = Some s -> periodic_spec2 toks = [].
Proof. exact accepted_tokens_meet_periodic_spec2. Qed.
Print Assumptions c02_periodic_accepted_tokens_meet_spec.

Theorem c02_periodic_spec_nonvacuous :
  ((exists s, rrun rinit periodic_demo_trace = Some s) /\ pw_fail (fold_left pw_step (rpevs periodic_demo_trace) pw_init) = []) /\
  (pw_fail (fold_left pw_step (rpevs periodic_early_true_trace) pw_init) = Base.Tok.fail "flush_true_complete:missing_periodic" /\
   rrun rinit periodic_early_true_trace = None).
Proof. exact (conj periodic_demo_passes_spec2 periodic_early_true_fails_spec2). Qed.
Print Assumptions c02_periodic_spec_nonvacuous.

Theorem c02_nonvacuous : exists s, run (init 1 1) demo_trace = Some s /\ In (2, 1, true) (fl_done s) /\ sh_done s <> [] /\
  dropped s = [12] /\ exported s = [[11]].
Proof. exact demo_reachable. Qed.
Print Assumptions c02_nonvacuous.
