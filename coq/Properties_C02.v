(* placeholder until Batch/Proofs*.v land: nothing is claimed proved yet *)
From V Require Import C02.Glue.
Theorem c02_placeholder : True. Proof. exact I. Qed.
Print Assumptions c02_placeholder.
