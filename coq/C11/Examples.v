(* C11 - non-vacuity: concrete reachable states exercising the hypotheses of the theorems (refused Add, undo after a lost
   head CAS, refill while the consumer is clearing, two commits of one producer, a contended spin lock). *)
From Coq Require Import List Arith Lia Bool PeanoNat.
From V Require Import C11.Model C11.Ring C11.Ghost C11.Proofs C11.Sim C11.SpinProofs.
Import ListNotations.
Local Open Scope nat_scope.

Lemma reachable_trans s0 s s' : reachable s0 s -> reachable s s' -> reachable s0 s'.
Proof. intros R1 R2. induction R2; auto. eapply R_step; eauto. Qed.

Fixpoint run_sched (a : rst) (sched : list (nat * bool)) : rst :=
  match sched with
  | [] => a
  | (t, sp) :: r => match rstep a t sp with Some (a', _) => run_sched a' r | None => a end
  end.

Lemma run_sched_reachable sched : forall a, reachable (core a) (core (run_sched a sched)).
Proof.
  induction sched as [|[t sp] r IH]; intros a; cbn; [constructor|].
  destruct (rstep a t sp) as [[a' o]|] eqn:E; [|constructor].
  eapply reachable_trans; [|apply IH]. eapply R_step; [constructor|]. eapply rstep_is_step; eauto.
Qed.

Definition rep (t : nat) (k : nat) : list (nat * bool) := repeat (t, false) k.

(* one producer, max_size 1: the second Add is refused; the counting condition is tight (1 other call started, 0 consumed) *)
Definition a_refusal := run_sched (ring_init 1 [[11; 12]] []) (rep 0 10).
Example ex_refusal : reachable (init 1 1) (core a_refusal) /\
  refusals (gh (core a_refusal)) = [mkR 12 1 0 0 1] /\ held (core a_refusal) = [12] /\ log (core a_refusal) = [11].
Proof. split; [apply (run_sched_reachable _ (ring_init 1 [[11; 12]] []))|]. vm_compute. auto. Qed.

(* undo: producer 1 reads head = 0, producer 0 adds, the consumer takes the element, producer 1 parks its element in slot 0 and
   loses the head CAS: it is at PUndo and the slot holds its own element *)
Definition a_undo := run_sched (ring_init 2 [[11]; [21]] [0]) (rep 1 3 ++ rep 0 6 ++ rep 2 8 ++ rep 1 2).
Example ex_undo : reachable (init 2 2) (core a_undo) /\ prod (core a_undo) 1 = PUndo 21 0 /\ slots (core a_undo) 0 = Some 21
  /\ head (core a_undo) = 1 /\ got (core a_undo) = [11].
Proof. split; [apply (run_sched_reachable _ (ring_init 2 [[11]; [21]] [0]))|]. vm_compute. auto. Qed.

(* refill while the consumer is clearing: capacity_ = 2 consecutive positions are live (head - low = capacity_ > max_size),
   while head - tail = 1 <= max_size *)
Definition a_refill := run_sched (ring_init 1 [[11; 12]] [0]) (rep 0 6 ++ rep 1 6 ++ rep 0 5).
Example ex_refill : reachable (init 1 1) (core a_refill) /\ head (core a_refill) - low (core a_refill) = 2 /\
  head (core a_refill) - tail (core a_refill) = 1 /\ csm (core a_refill) = CClear 0 1 0.
Proof. split; [apply (run_sched_reachable _ (ring_init 1 [[11; 12]] [0]))|]. vm_compute. auto. Qed.

(* two producers, producer 0 commits twice around producer 1: the hypotheses of per_producer_fifo are satisfiable *)
Definition a_fifo := run_sched (ring_init 3 [[11; 12]; [21]] []) (rep 0 6 ++ rep 1 6 ++ rep 0 6).
Example ex_fifo : reachable (init 3 2) (core a_fifo) /\ logid (gh (core a_fifo)) = [0; 1; 2] /\
  owner (gh (core a_fifo)) 0 = owner (gh (core a_fifo)) 2 /\ log (core a_fifo) = [11; 21; 12] /\
  rets (gh (core a_fifo)) = [(2, true); (1, true); (0, true)].
Proof. split; [apply (run_sched_reachable _ (ring_init 3 [[11; 12]; [21]] []))|]. vm_compute. auto. Qed.

(* spin lock *)
Fixpoint srun (s : sst) (sched : list nat) : sst :=
  match sched with
  | [] => s
  | t :: r => match sstep s t with Some (s', _) => srun s' r | None => s end
  end.
Lemma sreach_trans s0 s s' : sreach s0 s -> sreach s s' -> sreach s0 s'.
Proof. intros R1 R2. induction R2; auto. eapply SR_step; eauto. Qed.
Lemma srun_reach sched : forall s, sreach s (srun s sched).
Proof.
  induction sched as [|t r IH]; intros s; cbn; [constructor|].
  destruct (sstep s t) as [[s' o]|] eqn:E; [|constructor].
  eapply sreach_trans; [|apply IH]. eapply SR_step; [constructor|]. exists t, o. exact E.
Qed.

(* thread 0 holds the lock inside the critical section, thread 1 is spinning in lock(), thread 2's try_lock has failed *)
Definition s_contended := srun (spin_init [[false]; [false]; [true]]) [0; 0; 0; 0; 1; 1; 1; 2; 2].
Example ex_contended : sreach (spin_init [[false]; [false]; [true]]) s_contended /\
  holder (spc s_contended 0) = true /\ in_lock (spc s_contended 1) = true /\ spc s_contended 2 = TRet false /\
  flag s_contended = true /\ incs s_contended = 1.
Proof. split; [apply srun_reach|]. vm_compute. auto. Qed.

(* after the holder's unlock the waiting thread satisfies the hypotheses of lock_solo_progress *)
Definition s_released := srun s_contended [0; 0; 0].
Example ex_released : sreach (spin_init [[false]; [false]; [true]]) s_released /\
  flag s_released = false /\ in_lock (spc s_released 1) = true.
Proof. split; [eapply sreach_trans; [apply (srun_reach [0; 0; 0; 0; 1; 1; 1; 2; 2])|apply srun_reach]|]. vm_compute. auto. Qed.
