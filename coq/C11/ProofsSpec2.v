(* C11 - model_meets_spec, checker level, for the remaining clauses of the ring SPEC: on every complete trace the executable
   acceptor accepts (well-formed case: element ids pairwise distinct), the history checkers for exactly-once, per-producer
   FIFO, "a refused Add keeps its element", legitimacy of refused Adds (counting form), the interface-level bound and the
   agreement of history and summary all report nothing; hence [spec_ring ... = []].  Derived from RingInv and the ghost
   invariants through a simulation between each checker's walker state and the acceptor's (ghost) state. *)
From Coq Require Import List Arith Lia Bool PeanoNat Permutation.
From V Require Import C11.Glue C11.Ring C11.Ghost C11.Proofs C11.Sim C11.Meets C11.Meets2.
Import ListNotations.
Local Open Scope nat_scope.

(* ------------------------------------------------------------------------------------------ accepted events *)
Lemma obj_eqb_eq a b : obj_eqb a b = true -> a = b.
Proof. destruct a, b; cbn; try discriminate; auto. intros H. apply Nat.eqb_eq in H. now subst. Qed.

Lemma op_eqb_eq a b : op_eqb a b = true -> a = b.
Proof.
  destruct a, b; cbn; try discriminate; intros H;
    repeat (apply andb_true_iff in H; let H2 := fresh "H" in destruct H as [H H2]);
    repeat match goal with
           | H : Nat.eqb _ _ = true |- _ => apply Nat.eqb_eq in H; subst
           | H : Bool.eqb _ _ = true |- _ => apply Bool.eqb_prop in H; subst
           | H : obj_eqb _ _ = true |- _ => apply obj_eqb_eq in H; subst
           end; reflexivity.
Qed.

Lemma accept_cases a w o a' : accept_ring a (w, o) = Accepted a' ->
  (w = Ctl /\ dstep a = Some (a', o)) \/ (exists t sp, w = Thr t /\ rstep a t sp = Some (a', o)).
Proof.
  unfold accept_ring. cbn [fst snd]. destruct w as [|t].
  - destruct (dstep a) as [[a1 o1]|]; [|discriminate]. destruct (op_eqb o o1) eqn:E; [|discriminate].
    intros [= <-]. apply op_eqb_eq in E. subst. auto.
  - destruct (rstep a t false) as [[a1 o1]|] eqn:E1; [|discriminate].
    destruct (op_eqb o o1) eqn:E.
    + intros [= <-]. apply op_eqb_eq in E. subst. right. eauto.
    + destruct (rstep a t true) as [[a2 o2]|] eqn:E2; [|discriminate].
      destruct (op_eqb o o2) eqn:E'; [|discriminate]. intros [= <-]. apply op_eqb_eq in E'. subst. right. eauto.
Qed.

(* ------------------------------------------------------------------------------------------ list facts *)
Lemma combine_app_eq {A B} (l1 l2 : list A) (r1 r2 : list B) : length l1 = length r1 ->
  combine (l1 ++ l2) (r1 ++ r2) = combine l1 r1 ++ combine l2 r2.
Proof.
  revert r1. induction l1 as [|a l1 IH]; intros [|b r1] H; cbn in *; try discriminate; [reflexivity|].
  f_equal. apply IH. lia.
Qed.
Lemma combine_app_short {A B} (l1 l2 : list A) (r1 : list B) : length l1 = length r1 ->
  combine (l1 ++ l2) r1 = combine l1 r1.
Proof. intros H. rewrite <- (app_nil_r r1) at 1. rewrite combine_app_eq by auto. destruct l2; cbn; apply app_nil_r. Qed.
Lemma map_fst_combine {A B} (l : list A) (r : list B) : length l = length r -> map fst (combine l r) = l.
Proof. revert r. induction l as [|a l IH]; intros [|b r] H; cbn in *; try discriminate; [reflexivity|]. f_equal. apply IH. lia. Qed.
Lemma map_snd_combine {A B} (l : list A) (r : list B) : length l = length r -> map snd (combine l r) = r.
Proof. revert r. induction l as [|a l IH]; intros [|b r] H; cbn in *; try discriminate; [reflexivity|]. f_equal. apply IH. lia. Qed.

Lemma succ_of_app l l' : succ_of (l ++ l') = succ_of l ++ succ_of l'.
Proof. unfold succ_of. now rewrite filter_app, map_app. Qed.
Lemma succ_of_concat ll : succ_of (concat ll) = concat (map succ_of ll).
Proof. induction ll as [|l ll IH]; cbn [concat map]; [reflexivity|]. now rewrite succ_of_app, IH. Qed.

Lemma is_prefix_refl_app a b : is_prefix a (a ++ b) = true.
Proof. induction a as [|x a IH]; cbn; [reflexivity|]. now rewrite Nat.eqb_refl. Qed.
Lemma is_prefix_filter_firstn f n (l : list nat) : is_prefix (filter f (firstn n l)) (filter f l) = true.
Proof. rewrite <- (firstn_skipn n l) at 2. rewrite filter_app. apply is_prefix_refl_app. Qed.

Lemma In_nth_concat {A} (ps : list (list A)) p e : In e (nth p ps []) -> In e (concat ps).
Proof.
  revert p. induction ps as [|l ps IH]; intros [|p] H; cbn in *; try contradiction; apply in_or_app; eauto.
Qed.
Lemma In_concat_nth {A} (ps : list (list A)) e : In e (concat ps) -> exists p, p < length ps /\ In e (nth p ps []).
Proof.
  induction ps as [|l ps IH]; cbn; [contradiction|]. intros H. apply in_app_or in H. destruct H as [H|H].
  - exists 0. split; [lia|auto].
  - destruct (IH H) as (p & Hp & Hi). exists (S p). split; [lia|auto].
Qed.
Lemma scripts_disjoint (ps : list (list elt)) p q e : NoDup (concat ps) -> p <> q ->
  In e (nth p ps []) -> In e (nth q ps []) -> False.
Proof.
  revert p q. induction ps as [|l ps IH]; intros p q N Hne Hp Hq.
  - destruct p; contradiction.
  - cbn in N. destruct p as [|p], q as [|q]; cbn in Hp, Hq; try lia.
    + eapply NoDup_app_disj; eauto. eapply In_nth_concat; eauto.
    + eapply NoDup_app_disj; eauto. eapply In_nth_concat; eauto.
    + eapply (IH p q); eauto. now apply NoDup_app_r in N.
Qed.

Lemma check_nil b s : check b s = [] -> b = true.
Proof. destruct b; [reflexivity|discriminate]. Qed.
Lemma check_true b s : b = true -> check b s = [].
Proof. intros ->. reflexivity. Qed.

Lemma nodupb_count l e : nodupb l = true -> count e l <= 1.
Proof.
  unfold count. induction l as [|x l IH]; cbn; [lia|]. intros H. apply andb_true_iff in H. destruct H as [H1 H2].
  destruct (Nat.eqb_spec e x); [|auto]. subst. cbn.
  rewrite filter_eqb_notin; [cbn; lia|]. intro Hin. apply mem_In in Hin. rewrite Hin in H1. discriminate.
Qed.
Lemma count_pos_In e l : In e l -> Nat.eqb (count e l) 0 = false.
Proof.
  unfold count. induction l as [|x l IH]; cbn; [contradiction|]. intros [->|H].
  - now rewrite Nat.eqb_refl.
  - destruct (Nat.eqb e x); [reflexivity|auto].
Qed.

(* ------------------------------------------------------------------------------------------ the acceptor-level invariant *)
Definition with_slots (s : st) (sl : nat -> option elt) : st :=
  mk (cap s) sl (head s) (tail s) (np s) (prod s) (csm s) (log s) (got s) (held s) (gh s).

Definition resl (a : rst) (p : nat) : list nat := map b2n (rev (pres a p)).           (* p's results so far, in call order *)
Definition donel (c : ppc) : list elt := match c with PDone x => [x] | _ => [] end.
Definition inscr (ps : list (list elt)) (p : nat) (e : elt) : bool := mem e (nth p ps []).

(* producer p's script = returned calls ++ current call ++ remaining script; the part of the commit log that belongs to p is
   the list of p's calls that returned true, in call order, followed by the call that has committed but not yet returned *)
Definition Jp (ps : list (list elt)) (a : rst) (p : nat) (done : list elt) : Prop :=
  nth p ps [] = done ++ opt_list (pc_elt (prod (core a) p)) ++ pscr a p /\
  length done = length (pres a p) /\
  filter (inscr ps p) (log (core a)) = succ_of (combine done (resl a p)) ++ donel (prod (core a) p).

Record K (m : nat) (ps : list (list elt)) (a : rst) : Prop := {
  K_reach : exists s, reachable (init m (length ps)) s /\
      match ph a with
      | Running => core a = s
      | _ => all_idle s /\ (forall p, p < np s -> pscr a p = []) /\ exists sl, core a = with_slots s sl
      end;
  K_sp : SP (concat ps) a;
  K_j : forall p, p < length ps -> exists done, Jp ps a p done
}.

Lemma K_np m ps a : K m ps a -> np (core a) = length ps.
Proof.
  intros [(s & R & H) _ _]. destruct (reachable_cap _ _ _ R) as [_ N].
  destruct (ph a); [now subst| |]; destruct H as (_ & _ & sl & ->); exact N.
Qed.

Lemma K_running m ps a : 1 <= m -> K m ps a -> ph a = Running -> AllInv (core a).
Proof. intros Hm [(s & R & H) _ _] P. rewrite P in H. subst. eapply reachable_all; eauto. Qed.

Lemma K_init m ps ks : K m ps (ring_init m ps ks).
Proof.
  constructor.
  - exists (init m (length ps)). split; [constructor|reflexivity].
  - apply SP_init.
  - intros p Hp. exists []. repeat split; reflexivity.
Qed.

(* the frame: a step of producer t leaves the other producers' views alone, provided what it appends to the log is its own *)
Lemma J_frame ps a a1 t : NoDup (concat ps) -> t < length ps ->
  (forall p, p < length ps -> exists done, Jp ps a p done) ->
  (forall p, p <> t -> prod (core a1) p = prod (core a) p /\ pscr a1 p = pscr a p /\ pres a1 p = pres a p) ->
  (exists l, log (core a1) = log (core a) ++ l /\ forall e, In e l -> In e (nth t ps [])) ->
  (exists done, Jp ps a1 t done) ->
  forall p, p < length ps -> exists done, Jp ps a1 p done.
Proof.
  intros ND Ht J Fr (l & Hl & Hin) Jt p Hp. destruct (Nat.eq_dec p t) as [->|Hne]; [exact Jt|].
  destruct (J p Hp) as (done & J1 & J2 & J3). destruct (Fr p Hne) as (F1 & F2 & F3).
  exists done. unfold Jp, resl. rewrite F1, F2, F3. repeat split; auto.
  rewrite Hl, filter_app.
  assert (filter (inscr ps p) l = []) as ->.
  { clear Hl. induction l as [|e l IH]; [reflexivity|]. cbn. 
    destruct (inscr ps p e) eqn:E.
    - exfalso. unfold inscr in E. apply mem_In in E. eapply (scripts_disjoint ps p t e); eauto. apply Hin. now left.
    - apply IH. intros. apply Hin. now right. }
  rewrite app_nil_r. exact J3.
Qed.

Lemma upd_eq {A} (f : nat -> A) k v : upd f k v k = v.
Proof. unfold upd. now rewrite Nat.eqb_refl. Qed.
Lemma upd_neq {A} (f : nat -> A) k v j : j <> k -> upd f k v j = f j.
Proof. unfold upd. intros. destruct (Nat.eqb_spec j k); congruence. Qed.

Lemma pstep_J m ps a t sp a1 o : 1 <= m -> NoDup (concat ps) -> K m ps a -> ph a = Running -> t < length ps ->
  pstep a t sp = Some (a1, o) -> forall p, p < length ps -> exists done, Jp ps a1 p done.
Proof.
  intros Hm ND Ka Ph Ht St.
  pose proof (K_running m ps a Hm Ka Ph) as HA.
  destruct (K_j _ _ _ Ka t Ht) as (done & J1 & J2 & J3).
  unfold pstep in St. destruct (prod (core a) t) eqn:E; cbn [pc_elt opt_list donel] in J1, J3.
  - (* PIdle: call *)
    destruct (pscr a t) as [|x r] eqn:Es; [discriminate|]. injection St as <- _.
    apply (J_frame ps a _ t ND Ht (K_j _ _ _ Ka)).
    + intros p Hne. cbn. rewrite !upd_neq by auto. auto.
    + exists []. cbn. rewrite app_nil_r. split; [reflexivity|contradiction].
    + exists done. unfold Jp, resl. cbn. rewrite !upd_eq. cbn. repeat split; auto.
  - (* PCalled -> PGotTail *)
    injection St as <- _. apply (J_frame ps a _ t ND Ht (K_j _ _ _ Ka)).
    + intros p Hne. cbn. rewrite !upd_neq by auto. auto.
    + exists []. cbn. rewrite app_nil_r. split; [reflexivity|contradiction].
    + exists done. unfold Jp, resl. cbn. rewrite !upd_eq. cbn. repeat split; auto.
  - injection St as <- _. apply (J_frame ps a _ t ND Ht (K_j _ _ _ Ka)).
    + intros p Hne. cbn. rewrite !upd_neq by auto. auto.
    + exists []. cbn. rewrite app_nil_r. split; [reflexivity|contradiction].
    + exists done. unfold Jp, resl. cbn. rewrite !upd_eq. cbn. repeat split; auto.
  - (* PGotHead *)
    destruct (cap (core a) - 1 <=? h - t0).
    + (* refused *)
      injection St as <- _. apply (J_frame ps a _ t ND Ht (K_j _ _ _ Ka)).
      * intros p Hne. cbn. rewrite !upd_neq by auto. auto.
      * exists []. cbn. rewrite app_nil_r. split; [reflexivity|contradiction].
      * exists (done ++ [x]). unfold Jp, resl. cbn. rewrite !upd_eq. cbn. repeat split.
        -- rewrite J1. now rewrite <- app_assoc.
        -- rewrite app_length. cbn. lia.
        -- rewrite map_app. cbn [map b2n]. rewrite combine_app_eq by (rewrite map_length, rev_length; exact J2).
           rewrite succ_of_app. unfold resl in J3. rewrite J3. cbn. now rewrite ?app_nil_r.
    + destruct (slots (core a) (h mod cap (core a))).
      * injection St as <- _. apply (J_frame ps a _ t ND Ht (K_j _ _ _ Ka)).
        -- intros p Hne. cbn. rewrite !upd_neq by auto. auto.
        -- exists []. cbn. rewrite app_nil_r. split; [reflexivity|contradiction].
        -- exists done. unfold Jp, resl. cbn. rewrite !upd_eq. cbn. repeat split; auto.
      * destruct sp; injection St as <- _; apply (J_frame ps a _ t ND Ht (K_j _ _ _ Ka)).
        -- intros p Hne. cbn. rewrite !upd_neq by auto. auto.
        -- exists []. cbn. rewrite app_nil_r. split; [reflexivity|contradiction].
        -- exists done. unfold Jp, resl. cbn. rewrite !upd_eq. cbn. repeat split; auto.
        -- intros p Hne. cbn. rewrite !upd_neq by auto. auto.
        -- exists []. cbn. rewrite app_nil_r. split; [reflexivity|contradiction].
        -- exists done. unfold Jp, resl. cbn. rewrite !upd_eq. cbn. repeat split; auto.
  - (* PHold *)
    destruct (Nat.eqb (head (core a)) h && negb sp); injection St as <- _; apply (J_frame ps a _ t ND Ht (K_j _ _ _ Ka)).
    + intros p Hne. cbn. rewrite !upd_neq by auto. auto.
    + exists [x]. cbn. split; [reflexivity|]. intros e [<-|[]]. rewrite J1. apply in_or_app. right. now left.
    + exists done. unfold Jp, resl. cbn. rewrite !upd_eq. cbn. repeat split; auto.
      rewrite filter_app, J3. cbn.
      assert (inscr ps t x = true) as ->; [|now rewrite app_nil_r].
      unfold inscr. apply mem_In. rewrite J1. apply in_or_app. right. now left.
    + intros p Hne. cbn. rewrite !upd_neq by auto. auto.
    + exists []. cbn. rewrite app_nil_r. split; [reflexivity|contradiction].
    + exists done. unfold Jp, resl. cbn. rewrite !upd_eq. cbn. repeat split; auto.
  - (* PUndo: takes back its own element *)
    destruct (slots (core a) (h mod cap (core a))) as [y|] eqn:Sl; [|discriminate]. injection St as <- _.
    destruct (inv_undo (core a) t x h y (gh (core a)) (AI _ HA) E Sl) as [-> _].
    apply (J_frame ps a _ t ND Ht (K_j _ _ _ Ka)).
    + intros p Hne. cbn. rewrite !upd_neq by auto. auto.
    + exists []. cbn. rewrite app_nil_r. split; [reflexivity|contradiction].
    + exists done. unfold Jp, resl. cbn. rewrite !upd_eq. cbn. repeat split; auto.
  - (* PDone: return true *)
    injection St as <- _. apply (J_frame ps a _ t ND Ht (K_j _ _ _ Ka)).
    + intros p Hne. cbn. rewrite !upd_neq by auto. auto.
    + exists []. cbn. rewrite app_nil_r. split; [reflexivity|contradiction].
    + exists (done ++ [x]). unfold Jp, resl. cbn. rewrite !upd_eq. cbn. repeat split.
      * rewrite J1. now rewrite <- app_assoc.
      * rewrite app_length. cbn. lia.
      * rewrite map_app. cbn [map b2n]. rewrite combine_app_eq by (rewrite map_length, rev_length; exact J2).
        rewrite succ_of_app. unfold resl in J3. rewrite J3. cbn. now rewrite ?app_nil_r.
Qed.

Lemma cstep_same a a1 o : cstep a = Some (a1, o) ->
  prod (core a1) = prod (core a) /\ pscr a1 = pscr a /\ pres a1 = pres a /\ log (core a1) = log (core a).
Proof.
  unfold cstep. destruct (csm (core a)).
  - destruct (cscr a); [discriminate|]. intros [= <- _]. cbn. auto.
  - intros [= <- _]. cbn. auto.
  - destruct (cscr a); [discriminate|]. intros [= <- _]. cbn. auto.
  - intros [= <- _]. cbn. auto.
  - intros [= <- _]. cbn. auto.
  - intros [= <- _]. cbn. auto.
  - destruct (i <? n).
    + destruct (slots (core a) ((t0 + i) mod cap (core a))); [|discriminate]. intros [= <- _]. cbn. auto.
    + intros [= <- _]. cbn. auto.
Qed.

Lemma J_same ps a a1 : prod (core a1) = prod (core a) -> pscr a1 = pscr a -> pres a1 = pres a -> log (core a1) = log (core a) ->
  (forall p, p < length ps -> exists done, Jp ps a p done) -> forall p, p < length ps -> exists done, Jp ps a1 p done.
Proof. intros E1 E2 E3 E4 J p Hp. destruct (J p Hp) as (d & H). exists d. unfold Jp, resl in *. now rewrite E1, E2, E3, E4. Qed.

Lemma quiescent_scripts a : quiescent a = true -> forall p, p < np (core a) -> pscr a p = [].
Proof.
  unfold quiescent. intros H. apply andb_true_iff in H. destruct H as [H _]. apply andb_true_iff in H. destruct H as [H _].
  rewrite forallb_forall in H. intros p Hp. specialize (H p). rewrite in_seq in H. specialize (H ltac:(lia)).
  apply andb_true_iff in H. destruct H as [_ H]. destruct (pscr a p); [reflexivity|discriminate].
Qed.

Theorem K_step m ps a e a' : 1 <= m -> NoDup (concat ps) -> K m ps a -> accept_ring a e = Accepted a' -> K m ps a'.
Proof.
  intros Hm ND Ka Acc. pose proof (K_np _ _ _ Ka) as Np.
  constructor; [| eapply SP_step; [apply (K_sp _ _ _ Ka)|exact Acc] |].
  - (* reachability *)
    destruct Ka as [(s & R & H) _ _]. destruct e as [w o]. apply accept_cases in Acc.
    destruct Acc as [[-> D]|(t & sp & -> & St)].
    + unfold dstep in D. destruct (ph a) as [|[|k]|] eqn:P.
      * destruct (quiescent a) eqn:Q; [|discriminate]. injection D as <- _. subst s.
        exists (core a). split; [auto|]. cbn [ph]. split; [now apply quiescent_idle|]. split; [intros p Hp; cbn; now apply (quiescent_scripts a Q)|].
        exists (slots (core a)). cbn [core]. destruct (core a); reflexivity.
      * injection D as <- _. exists s. split; [auto|]. exact H.
      * injection D as <- _. exists s. split; [auto|]. cbn [ph pscr core]. destruct H as (Hi & Hs & sl & ->).
        split; [auto|]. split; [auto|]. eexists. reflexivity.
      * discriminate.
    + destruct (rstep_ph _ _ _ _ _ St) as (P0 & P1 & _). rewrite P0 in H. subst s.
      exists (core a'). split; [|now rewrite P1]. eapply R_step; [exact R|]. eapply rstep_is_step; eauto.
  - (* the per-producer view *)
    destruct e as [w o]. apply accept_cases in Acc. destruct Acc as [[-> D]|(t & sp & -> & St)].
    + apply (J_same ps a); try apply (K_j _ _ _ Ka);
        unfold dstep in D; destruct (ph a) as [|[|k]|]; try destruct (quiescent a); try discriminate; injection D as <- _; reflexivity.
    + destruct (rstep_ph _ _ _ _ _ St) as (P0 & _ & _). unfold rstep in St. rewrite P0 in St.
      destruct (t <? np (core a)) eqn:L.
      * apply Nat.ltb_lt in L. rewrite Np in L. eapply pstep_J; eauto.
      * destruct (Nat.eqb t (np (core a))); [|discriminate]. destruct (cstep_same _ _ _ St) as (E1 & E2 & E3 & E4).
        apply (J_same ps a); auto. apply (K_j _ _ _ Ka).
Qed.

Theorem accepted_K m ps ch tr a : 1 <= m -> NoDup (concat ps) -> replay_ring m ps ch tr = RDone a -> K m ps a.
Proof.
  intros Hm ND H. unfold replay_ring in H.
  eapply (replay_inv accept_ring (K m ps)); [intros; eapply K_step; eauto|apply K_init|exact H].
Qed.

(* ------------------------------------------------------------------------------------------ the summary at the end *)
Lemma split_results_flat ps : forall k (f : nat -> list nat),
  (forall i, i < length ps -> length (f (k + i)) = length (nth i ps [])) ->
  split_results ps (flat_map f (seq k (length ps))) = map (fun i => combine (nth i ps []) (f (k + i))) (seq 0 (length ps)).
Proof.
  induction ps as [|sc ps IH]; intros k f H; [reflexivity|].
  cbn [length seq flat_map split_results map].
  assert (L : length (f k) = length sc) by (specialize (H 0 ltac:(cbn; lia)); now rewrite Nat.add_0_r in H).
  rewrite <- L, firstn_app, Nat.sub_diag, firstn_O, app_nil_r, firstn_all.
  rewrite skipn_app, Nat.sub_diag, skipn_all, skipn_O. cbn [app nth]. rewrite Nat.add_0_r. f_equal.
  rewrite (IH (S k) f).
  - rewrite <- seq_shift, map_map. apply map_ext_in. intros i _. cbn [nth]. now replace (S k + i) with (k + S i) by lia.
  - intros i Hi. replace (S k + i) with (k + S i) by lia. apply (H (S i)). cbn. lia.
Qed.

Lemma flat_len (ps : list (list elt)) : forall k (f : nat -> list nat),
  (forall i, i < length ps -> length (f (k + i)) = length (nth i ps [])) ->
  length (flat_map f (seq k (length ps))) = length (concat ps).
Proof.
  induction ps as [|sc ps IH]; intros k f H; [reflexivity|].
  cbn [length seq flat_map concat]. rewrite !app_length. f_equal.
  - specialize (H 0 ltac:(cbn; lia)). now rewrite Nat.add_0_r in H.
  - apply IH. intros i Hi. replace (S k + i) with (k + S i) by lia. apply (H (S i)). cbn. lia.
Qed.

Definition per_of (ps : list (list elt)) (a : rst) : list (list (elt * nat)) :=
  map (fun i => combine (nth i ps []) (resl a i)) (seq 0 (length ps)).

(* what K says once the buffer has been destroyed *)
Lemma dead_view m ps ch tr a : 1 <= m -> NoDup (concat ps) -> replay_ring m ps ch tr = RDone a -> ph a = Dead ->
  exists s, AllInv s /\ all_idle s /\ np s = length ps /\ log (core a) = log s /\ got (core a) = firstn (low s) (log s) /\
    gh (core a) = gh s /\
    Permutation (got (core a) ++ freed a) (log s) /\
    (forall e, In e (log s) -> In e (concat ps)) /\
    (forall p, p < length ps -> length (nth p ps []) = length (resl a p) /\
                                filter (inscr ps p) (log s) = succ_of (combine (nth p ps []) (resl a p))).
Proof.
  intros Hm ND H P. pose proof (accepted_K m ps ch tr a Hm ND H) as Ka.
  destruct (model_meets_spec_no_leak m ps ch tr a Hm H P) as (_ & C & _).
  pose proof (K_sp _ _ _ Ka) as S. pose proof (K_j _ _ _ Ka) as J.
  destruct Ka as [(s & R & Hs) _ _]. rewrite P in Hs. destruct Hs as (Hi & Hscr & sl & Ec).
  pose proof (reachable_all m (length ps) s Hm R) as HA. destruct (reachable_cap _ _ _ R) as [_ Np].
  exists s. rewrite Ec in *. cbn [with_slots log got gh held np prod] in *.
  assert (EA : active_elts s = []) by (apply gather_nil; intros k Hk; now rewrite (Hi k Hk)).
  pose proof (A_cons s (AA _ HA)) as C1. rewrite EA, app_nil_r in C1.
  split; [exact HA|]. split; [exact Hi|]. split; [exact Np|]. split; [reflexivity|]. split; [apply (I_got s (AI _ HA))|].
  split; [reflexivity|]. split; [|split].
  - unfold given_elts in C. cbn [gh with_slots] in C. unfold given_elts in C1. rewrite C1 in C.
    apply Permutation_app_inv_l in C. now apply Permutation_sym.
  - intros e He. unfold SP in S. eapply Permutation_in; [exact S|]. apply in_or_app. left.
    unfold given_elts. rewrite ?Ec. cbn [gh with_slots]. eapply Permutation_in; [apply Permutation_sym; exact C1|].
    apply in_or_app. now right.
  - intros p Hp. destruct (J p Hp) as (done & J1 & J2 & J3). rewrite Ec in J1, J3. cbn [with_slots prod log] in J1, J3.
    rewrite (Hi p) in J1, J3 by lia. rewrite (Hscr p) in J1 by lia. cbn in J1, J3. rewrite !app_nil_r in *. subst done.
    split; [|exact J3]. unfold resl. now rewrite map_length, rev_length.
Qed.

Lemma summary_per m ps ch tr a : 1 <= m -> NoDup (concat ps) -> replay_ring m ps ch tr = RDone a -> ph a = Dead ->
  split_results ps (sR (ring_summary a)) = per_of ps a /\ length (sR (ring_summary a)) = length (concat ps).
Proof.
  intros Hm ND H P. destruct (dead_view m ps ch tr a Hm ND H P) as (s & _ & _ & Np & _ & _ & _ & _ & _ & V).
  pose proof (K_np _ _ _ (accepted_K m ps ch tr a Hm ND H)) as Np'.
  unfold ring_summary. cbn [sR]. rewrite Np'. fold (resl a). change (fun p => map b2n (rev (pres a p))) with (resl a).
  split.
  - apply (split_results_flat ps 0 (resl a)). intros i Hi. symmetry. apply V. exact Hi.
  - apply (flat_len ps 0 (resl a)). intros i Hi. symmetry. apply V. exact Hi.
Qed.

Lemma In_per ps a l : In l (per_of ps a) -> exists p, p < length ps /\ l = combine (nth p ps []) (resl a p).
Proof. unfold per_of. intros H. apply in_map_iff in H. destruct H as (p & <- & Hp). apply in_seq in Hp. exists p. split; [lia|reflexivity]. Qed.
Lemma per_In ps a p : p < length ps -> In (combine (nth p ps []) (resl a p)) (per_of ps a).
Proof. intros Hp. unfold per_of. apply in_map_iff. exists p. split; [reflexivity|]. apply in_seq. lia. Qed.

(* model_meets_spec: "consumes every element whose Add reported success exactly once" *)
Theorem model_meets_spec_exactly_once m ps ch tr a : 1 <= m -> NoDup (concat ps) ->
  replay_ring m ps ch tr = RDone a -> ph a = Dead ->
  check_exactly_once (concat (split_results ps (sR (ring_summary a)))) (ring_summary a) = [].
Proof.
  intros Hm ND H P. destruct (summary_per m ps ch tr a Hm ND H P) as [-> _].
  destruct (dead_view m ps ch tr a Hm ND H P) as (s & HA & Hi & Np & El & Eg & Egh & Pm & Hin & V).
  pose proof (model_meets_spec_check_no_leak m ps ch tr a Hm ND H P) as NL.
  unfold check_no_leak in NL. apply app_eq_nil in NL. destruct NL as [_ NL]. apply app_eq_nil in NL. destruct NL as [_ NL].
  apply check_nil in NL.
  assert (OUT : forall e, In e (sG (ring_summary a) ++ sD (ring_summary a)) <-> In e (log s)).
  { intros e. unfold ring_summary. cbn [sG sD].
    assert (Permutation (got (core a) ++ sort (freed a)) (log s)) as Q.
    { rewrite <- Pm. apply Permutation_app_head. apply sort_perm. }
    split; intros X; [eapply Permutation_in; [exact Q|exact X]|eapply Permutation_in; [apply Permutation_sym; exact Q|exact X]]. }
  assert (SUCC : forall e, In e (succ_of (concat (per_of ps a))) <-> exists p, p < length ps /\ In e (filter (inscr ps p) (log s))).
  { intros e. rewrite succ_of_concat, in_concat. split.
    - intros (l & Hl & He). apply in_map_iff in Hl. destruct Hl as (l0 & <- & Hl0). apply In_per in Hl0.
      destruct Hl0 as (p & Hp & ->). exists p. split; [auto|]. now rewrite (proj2 (V p Hp)).
    - intros (p & Hp & He). exists (succ_of (combine (nth p ps []) (resl a p))). split.
      + apply in_map. now apply per_In.
      + now rewrite <- (proj2 (V p Hp)). }
  unfold check_exactly_once. cbv zeta.
  rewrite (check_true (forallb _ _) "exactly_once:lost"), (check_true (forallb _ _) "exactly_once:dup"),
          (check_true (forallb _ _) "exactly_once:phantom"); [reflexivity| | |].
  - apply forallb_forall. intros e He. apply mem_In. apply SUCC. apply OUT in He.
    destruct (In_concat_nth ps e (Hin e He)) as (p & Hp & Hi'). exists p. split; [auto|].
    apply filter_In. split; [auto|]. unfold inscr. now apply mem_In.
  - apply forallb_forall. intros e _. apply Nat.leb_le. now apply nodupb_count.
  - apply forallb_forall. intros e He. apply SUCC in He. destruct He as (p & Hp & He). apply filter_In in He.
    rewrite count_pos_In; [reflexivity|]. apply OUT. tauto.
Qed.

(* model_meets_spec: "in each producer's own order" *)
Theorem model_meets_spec_fifo m ps ch tr a : 1 <= m -> NoDup (concat ps) ->
  replay_ring m ps ch tr = RDone a -> ph a = Dead ->
  check_fifo (split_results ps (sR (ring_summary a))) (ring_summary a) = [].
Proof.
  intros Hm ND H P. destruct (summary_per m ps ch tr a Hm ND H P) as [-> _].
  destruct (dead_view m ps ch tr a Hm ND H P) as (s & HA & Hi & Np & El & Eg & Egh & Pm & Hin & V).
  unfold check_fifo. apply check_true. apply forallb_forall. intros l Hl. apply In_per in Hl. destruct Hl as (p & Hp & ->).
  destruct (V p Hp) as [L F]. rewrite map_fst_combine by exact L. rewrite <- F.
  unfold ring_summary. cbn [sG]. rewrite Eg. change (fun e => mem e (nth p ps [])) with (inscr ps p).
  apply is_prefix_filter_firstn.
Qed.

(* model_meets_spec: "an Add that reports failure leaves its element with the caller" (the summary never reports an anomaly) *)
Theorem model_meets_spec_fail_keeps m ps ch tr a : 1 <= m -> NoDup (concat ps) ->
  replay_ring m ps ch tr = RDone a -> ph a = Dead ->
  check_fail_keeps (concat (split_results ps (sR (ring_summary a)))) = [].
Proof.
  intros Hm ND H P. destruct (summary_per m ps ch tr a Hm ND H P) as [-> _].
  unfold check_fail_keeps. apply check_true. apply forallb_forall. intros [e v] Hin. apply in_concat in Hin.
  destruct Hin as (l & Hl & He). apply In_per in Hl. destruct Hl as (p & _ & ->). apply in_combine_r in He.
  unfold resl in He. apply in_map_iff in He. destruct He as (b & <- & _). cbn. destruct b; reflexivity.
Qed.

(* ------------------------------------------------------------------------------------------ the walker of check_fail_legit *)
Definition pendn (c : cpc) : nat := match c with CClear _ n _ => n | _ => 0 end.

(* walker state (pending calls, number of calls started, elements of the Consume calls that have returned) vs. ghost state *)
Definition WF (a : rst) (pend : list (who * elt * nat)) (st cons : nat) : Prop :=
  st = length (given (gh (core a))) /\
  (ph a = Running ->
     cons + pendn (csm (core a)) <= tail (core a) /\
     forall p x, pc_elt (prod (core a) p) = Some x ->
       exists c0, find_call (Thr p) x pend = Some c0 /\ c0 <= cstart (gh (core a)) p).

Lemma WF_keep a a1 pend st cons : WF a pend st cons -> ph a = Running ->
  given (gh (core a1)) = given (gh (core a)) -> cstart (gh (core a1)) = cstart (gh (core a)) ->
  cons + pendn (csm (core a1)) <= tail (core a1) ->
  (forall p x, pc_elt (prod (core a1) p) = Some x -> pc_elt (prod (core a) p) = Some x) ->
  WF a1 pend st cons.
Proof.
  intros [W1 W2] P G C T Pc. destruct (W2 P) as [_ W3]. split; [now rewrite G|]. intros _. split; [exact T|].
  intros p x Hx. rewrite C. apply W3. now apply Pc.
Qed.

Lemma pc_elt_upd (f : nat -> ppc) t c : pc_elt c = pc_elt (f t) \/ pc_elt c = None ->
  forall p x, pc_elt (upd f t c p) = Some x -> pc_elt (f p) = Some x.
Proof. intros H p x. unfold upd. destruct (Nat.eqb_spec p t); [subst|auto]. destruct H as [->| ->]; [auto|discriminate]. Qed.

Lemma who_eqb_refl w : who_eqb w w = true.
Proof. destruct w; cbn; [reflexivity|apply Nat.eqb_refl]. Qed.

Lemma WF_step m ps a w o a' pend st cons : 1 <= m -> K m ps a -> WF a pend st cons -> accept_ring a (w, o) = Accepted a' ->
  exists pend' st' cons', WF a' pend' st' cons' /\
    forall r, fail_legit_scan m pend st cons ((w, o) :: r) = fail_legit_scan m pend' st' cons' r.
Proof.
  intros Hm Ka Wa Acc. apply accept_cases in Acc. destruct Acc as [[-> D]|(t & sp & -> & St)].
  - (* the destructor: nothing the walker looks at *)
    exists pend, st, cons. destruct Wa as [W1 W2]. unfold dstep in D.
    destruct (ph a) as [|[|k]|] eqn:P; try destruct (quiescent a); try discriminate; injection D as <- <-;
      (split; [split; [exact W1|cbn [ph]; discriminate]|intros r; reflexivity]).
  - destruct (rstep_ph _ _ _ _ _ St) as (P0 & P1 & _).
    pose proof (K_running m ps a Hm Ka P0) as HA. pose proof (AI _ HA) as HI.
    assert (Hcap : cap (core a) = S m).
    { destruct Ka as [(s & R & Hs) _ _]. rewrite P0 in Hs. subst s. apply (reachable_cap _ _ _ R). }
    destruct (proj2 Wa P0) as [WT WP]. pose proof (proj1 Wa) as WS.
    unfold rstep in St. rewrite P0 in St. destruct (t <? np (core a)) eqn:L.
    + (* producer t *)
      apply Nat.ltb_lt in L. unfold pstep in St. destruct (prod (core a) t) eqn:E.
      * (* call *)
        destruct (pscr a t) as [|x r0] eqn:Es; [discriminate|]. injection St as <- <-.
        exists ((Thr t, x, cons) :: pend), (S st), cons. split; [|intros r; reflexivity].
        split; [cbn; rewrite app_length; cbn; lia|]. intros _. split; [exact WT|].
        intros p y. cbn [core prod gh set_prod g_call cstart]. unfold upd. destruct (Nat.eqb_spec p t).
        -- subst. cbn. intros [= <-]. exists cons. cbn [find_call who_eqb]. rewrite !Nat.eqb_refl. cbn. split; [reflexivity|lia].
        -- intros Hy. destruct (WP p y Hy) as (c0 & F & Le). exists c0. split; [|exact Le].
           cbn [find_call]. cbn [who_eqb]. destruct (Nat.eqb_spec t p); [congruence|]. cbn. exact F.
      * injection St as <- <-. exists pend, st, cons. split; [|intros r; reflexivity].
        apply (WF_keep a); auto. cbn. apply pc_elt_upd. left. now rewrite E.
      * injection St as <- <-. exists pend, st, cons. split; [|intros r; reflexivity].
        apply (WF_keep a); auto. cbn. apply pc_elt_upd. left. now rewrite E.
      * destruct (cap (core a) - 1 <=? h - t0) eqn:F.
        -- (* refused: the counting condition *)
           injection St as <- <-. exists pend, st, cons. split.
           ++ apply (WF_keep a); auto. cbn. apply pc_elt_upd. now right.
           ++ intros r. cbn [fail_legit_scan snd fst].
              destruct (WP t x) as (c0 & Fc & Le); [now rewrite E|]. rewrite Fc.
              assert (m + c0 <=? st - 1 = true) as ->; [|reflexivity].
              apply Nat.leb_le. apply Nat.leb_le in F.
              pose proof (C_t _ (AC _ HA) t) as Ct. unfold tail_read_ok in Ct. rewrite E in Ct.
              pose proof (I_stale _ HI t) as Sl. rewrite E in Sl. cbn in Sl.
              pose proof (active_head_lt_given (core a) t x HI (AA _ HA) L) as Hg. rewrite E in Hg. specialize (Hg eq_refl).
              rewrite Hcap in F. lia.
        -- destruct (slots (core a) (h mod cap (core a))).
           ++ injection St as <- <-. exists pend, st, cons. split; [|intros r; reflexivity].
              apply (WF_keep a); auto. cbn. apply pc_elt_upd. left. now rewrite E.
           ++ destruct sp; injection St as <- <-; exists pend, st, cons; (split; [|intros r; reflexivity]);
                apply (WF_keep a); auto; cbn; apply pc_elt_upd; left; now rewrite E.
      * destruct (Nat.eqb (head (core a)) h && negb sp); injection St as <- <-; exists pend, st, cons;
          (split; [|intros r; reflexivity]); apply (WF_keep a); auto; cbn; apply pc_elt_upd; left; now rewrite E.
      * destruct (slots (core a) (h mod cap (core a))) as [y|] eqn:Sl; [|discriminate]. injection St as <- <-.
        destruct (inv_undo (core a) t x h y (gh (core a)) HI E Sl) as [-> _].
        exists pend, st, cons. split; [|intros r; reflexivity].
        apply (WF_keep a); auto. cbn. apply pc_elt_upd. left. now rewrite E.
      * injection St as <- <-. exists pend, st, cons. split; [|intros r; reflexivity].
        apply (WF_keep a); auto. cbn. apply pc_elt_upd. now right.
    + (* the consumer *)
      destruct (Nat.eqb t (np (core a))); [|discriminate]. unfold cstep in St.
      pose proof (I_cons _ HI) as Ic. destruct (csm (core a)) eqn:E; cbn [pendn] in WT.
      * destruct (cscr a); [discriminate|]. injection St as <- <-. exists pend, st, cons. split; [|intros r; reflexivity].
        apply (WF_keep a); auto.
      * injection St as <- <-. exists pend, st, cons. split; [|intros r; reflexivity]. apply (WF_keep a); auto.
      * destruct (cscr a); [discriminate|]. injection St as <- <-. exists pend, st, cons. split; [|intros r; reflexivity].
        apply (WF_keep a); auto.
      * injection St as <- <-. exists pend, st, cons. split; [|intros r; reflexivity]. apply (WF_keep a); auto.
      * injection St as <- <-. exists pend, st, cons. split; [|intros r; reflexivity]. apply (WF_keep a); auto.
      * injection St as <- <-. exists pend, st, cons. split; [|intros r; reflexivity]. apply (WF_keep a); auto.
        cbn in Ic. cbn. lia.
      * destruct (i <? n).
        -- destruct (slots (core a) ((t0 + i) mod cap (core a))); [|discriminate]. injection St as <- <-.
           exists pend, st, cons. split; [|intros r; reflexivity]. apply (WF_keep a); auto.
        -- injection St as <- <-. exists pend, st, (cons + n). split; [|intros r; reflexivity].
           split; [exact WS|]. intros _. split; [cbn; lia|]. exact WP.
Qed.

Lemma events_of_cons e tr : events_of (Some e :: tr) = e :: events_of tr.
Proof. reflexivity. Qed.

Lemma fail_legit_sim m ps : 1 <= m -> NoDup (concat ps) ->
  forall tr a idx a' pend st cons, K m ps a -> WF a pend st cons -> replay_from accept_ring a idx tr = RDone a' ->
    fail_legit_scan m pend st cons (events_of tr) = true.
Proof.
  intros Hm ND. induction tr as [|[[w o]|] tr IH]; intros a idx a' pend st cons Ka Wa Rp; cbn [replay_from] in Rp.
  - reflexivity.
  - destruct (accept_ring a (w, o)) as [a1| |o1] eqn:Acc; try discriminate.
    destruct (WF_step m ps a w o a1 pend st cons Hm Ka Wa Acc) as (pend' & st' & cons' & Wa' & Eq).
    rewrite events_of_cons, Eq. eapply IH; [|exact Wa'|exact Rp]. eapply K_step; eauto.
  - discriminate.
Qed.

(* model_meets_spec: "... happens only if the producers that had started before it finished, minus what was consumed before
   it started, already fill the capacity" - the counting form on the history of call/return events *)
Theorem model_meets_spec_fail_legit m ps ch tr a : 1 <= m -> NoDup (concat ps) ->
  replay_ring m ps ch tr = RDone a -> check_fail_legit m (events_of tr) = [].
Proof.
  intros Hm ND H. unfold check_fail_legit. apply check_true. unfold replay_ring in H.
  eapply (fail_legit_sim m ps Hm ND tr _ 0 a [] 0 0); [apply K_init| |exact H].
  split; [reflexivity|]. intros _. split; [cbn; lia|]. intros p x. cbn. discriminate.
Qed.

(* ------------------------------------------------------------------------------------------ the walker of bounded:queued *)
Definition pcall (c : cpc) : nat := match c with CCall n | CPeek n _ | CRange _ n => n | _ => 0 end.
Definition done_elts (s : st) : list elt := gather (fun p => donel (prod s p)) (np s).

(* added = Adds that have returned true, taken = elements of the Consume calls begun: every commit has either returned or sits
   at PDone; tail_ lags behind the Consume calls begun by exactly the current call's n until the fetch_add *)
Definition WQ (a : rst) (added taken : nat) : Prop :=
  ph a = Running -> added + length (done_elts (core a)) = head (core a) /\ taken = tail (core a) + pcall (csm (core a)).

Lemma done_upd s t c : t < np s ->
  length (gather (fun j => donel (upd (prod s) t c j)) (np s)) + length (donel (prod s t)) = length (done_elts s) + length (donel c).
Proof. intros H. pose proof (Permutation_length (gather_upd_map donel (prod s) (np s) t c H)) as L. rewrite !app_length in L. exact L. Qed.

Lemma WQ_step m ps a w o a' added taken : 1 <= m -> K m ps a -> WQ a added taken -> accept_ring a (w, o) = Accepted a' ->
  exists added' taken', WQ a' added' taken' /\
    forall r, queued_scan m added taken ((w, o) :: r) = queued_scan m added' taken' r.
Proof.
  intros Hm Ka Wa Acc. apply accept_cases in Acc. destruct Acc as [[-> D]|(t & sp & -> & St)].
  - exists added, taken. unfold dstep in D.
    destruct (ph a) as [|[|k]|] eqn:P; try destruct (quiescent a); try discriminate; injection D as <- <-;
      (split; [unfold WQ; cbn [ph]; discriminate|intros r; reflexivity]).
  - destruct (rstep_ph _ _ _ _ _ St) as (P0 & P1 & _).
    pose proof (K_running m ps a Hm Ka P0) as HA. pose proof (AI _ HA) as HI.
    assert (Hcap : cap (core a) = S m).
    { destruct Ka as [(s & R & Hs) _ _]. rewrite P0 in Hs. subst s. apply (reachable_cap _ _ _ R). }
    destruct (Wa P0) as [WH WT].
    unfold rstep in St. rewrite P0 in St. destruct (t <? np (core a)) eqn:L.
    + apply Nat.ltb_lt in L. pose proof (done_upd (core a) t) as DU. unfold pstep in St.
      destruct (prod (core a) t) eqn:E; cbn [donel length] in DU.
      * destruct (pscr a t) as [|x r0]; [discriminate|]. injection St as <- <-. exists added, taken.
        split; [|intros r; reflexivity]. intros _. unfold done_elts. cbn. specialize (DU (PCalled x) L). cbn in DU. unfold done_elts, gather in *. split; [lia|exact WT].
      * injection St as <- <-. exists added, taken. split; [|intros r; reflexivity]. intros _. unfold done_elts. cbn.
        specialize (DU (PGotTail x (tail (core a))) L). cbn in DU. unfold done_elts, gather in *. split; [lia|exact WT].
      * injection St as <- <-. exists added, taken. split; [|intros r; reflexivity]. intros _. unfold done_elts. cbn.
        specialize (DU (PGotHead x t0 (head (core a))) L). cbn in DU. unfold done_elts, gather in *. split; [lia|exact WT].
      * destruct (cap (core a) - 1 <=? h - t0).
        -- injection St as <- <-. exists added, taken. split; [|intros r; reflexivity]. intros _. unfold done_elts. cbn.
           specialize (DU PIdle L). cbn in DU. unfold done_elts, gather in *. split; [lia|exact WT].
        -- destruct (slots (core a) (h mod cap (core a))).
           ++ injection St as <- <-. exists added, taken. split; [|intros r; reflexivity]. intros _. unfold done_elts. cbn.
              specialize (DU (PCalled x) L). cbn in DU. unfold done_elts, gather in *. split; [lia|exact WT].
           ++ destruct sp; injection St as <- <-; exists added, taken; (split; [|intros r; reflexivity]); intros _; unfold done_elts; cbn.
              ** specialize (DU (PCalled x) L). cbn in DU. unfold done_elts, gather in *. split; [lia|exact WT].
              ** specialize (DU (PHold x t0 h) L). cbn in DU. unfold done_elts, gather in *. split; [lia|exact WT].
      * destruct (Nat.eqb (head (core a)) h && negb sp) eqn:F; injection St as <- <-; exists added, taken;
          (split; [|intros r; reflexivity]); intros _; unfold done_elts; cbn.
        -- specialize (DU (PDone x) L). cbn in DU. unfold done_elts, gather in *. apply andb_true_iff in F. destruct F as [F _]. apply Nat.eqb_eq in F.
           split; [lia|exact WT].
        -- specialize (DU (PUndo x h) L). cbn in DU. unfold done_elts, gather in *. split; [lia|exact WT].
      * destruct (slots (core a) (h mod cap (core a))) as [y|]; [|discriminate]. injection St as <- <-. exists added, taken.
        split; [|intros r; reflexivity]. intros _. unfold done_elts. cbn. specialize (DU (PCalled y) L). cbn in DU. unfold done_elts, gather in *. split; [lia|exact WT].
      * (* return true: one more Add has returned; the bound *)
        injection St as <- <-. exists (S added), taken. specialize (DU PIdle L). cbn in DU. unfold done_elts, gather in *. split.
        -- intros _. unfold done_elts. cbn. split; [lia|exact WT].
        -- intros r. cbn [queued_scan snd].
           assert (S added <=? m + taken = true) as ->; [|reflexivity].
           apply Nat.leb_le. pose proof (I_bound _ HI) as [B _]. rewrite Hcap in B. lia.
    + destruct (Nat.eqb t (np (core a))); [|discriminate]. unfold cstep in St.
      pose proof (I_cons _ HI) as Ic. destruct (csm (core a)) eqn:E; cbn [pcall] in WT.
      * destruct (cscr a); [discriminate|]. injection St as <- <-. exists added, taken. split; [|intros r; reflexivity].
        intros _. cbn. split; [exact WH|lia].
      * injection St as <- <-. exists added, taken. split; [|intros r; reflexivity]. intros _. cbn. split; [exact WH|lia].
      * destruct (cscr a) as [|k r0]; [discriminate|]. injection St as <- <-. exists added, (taken + chunk k (h - t0)).
        split; [|intros r; reflexivity]. intros _. cbn. split; [exact WH|lia].
      * injection St as <- <-. exists added, taken. split; [|intros r; reflexivity]. intros _. cbn. split; [exact WH|lia].
      * injection St as <- <-. exists added, taken. split; [|intros r; reflexivity]. intros _. cbn. split; [exact WH|lia].
      * injection St as <- <-. exists added, taken. split; [|intros r; reflexivity]. intros _. cbn. cbn in Ic. split; [exact WH|lia].
      * destruct (i <? n).
        -- destruct (slots (core a) ((t0 + i) mod cap (core a))); [|discriminate]. injection St as <- <-.
           exists added, taken. split; [|intros r; reflexivity]. intros _. cbn. split; [exact WH|lia].
        -- injection St as <- <-. exists added, taken. split; [|intros r; reflexivity]. intros _. cbn. split; [exact WH|lia].
Qed.

Lemma queued_sim m ps : 1 <= m -> NoDup (concat ps) ->
  forall tr a idx a' added taken, K m ps a -> WQ a added taken -> replay_from accept_ring a idx tr = RDone a' ->
    queued_scan m added taken (events_of tr) = true.
Proof.
  intros Hm ND. induction tr as [|[[w o]|] tr IH]; intros a idx a' added taken Ka Wa Rp; cbn [replay_from] in Rp.
  - reflexivity.
  - destruct (accept_ring a (w, o)) as [a1| |o1] eqn:Acc; try discriminate.
    destruct (WQ_step m ps a w o a1 added taken Hm Ka Wa Acc) as (added' & taken' & Wa' & Eq).
    rewrite events_of_cons, Eq. eapply IH; [|exact Wa'|exact Rp]. eapply K_step; eauto.
  - discriminate.
Qed.

Theorem model_meets_spec_queued m ps ch tr a : 1 <= m -> NoDup (concat ps) ->
  replay_ring m ps ch tr = RDone a -> check (queued_scan m 0 0 (events_of tr)) "bounded:queued" = [].
Proof.
  intros Hm ND H. apply check_true. unfold replay_ring in H.
  eapply (queued_sim m ps Hm ND tr _ 0 a 0 0); [apply K_init| |exact H].
  intros _. unfold done_elts. rewrite gather_nil by reflexivity. cbn. auto.
Qed.

(* ------------------------------------------------------------------------------------------ history vs. summary *)
Lemma ret_results_cons e r p : ret_results (e :: r) p = ret_results [e] p ++ ret_results r p.
Proof. unfold ret_results. cbn. now rewrite app_nil_r. Qed.

Lemma resl_step a w o a' p : accept_ring a (w, o) = Accepted a' -> resl a' p = resl a p ++ ret_results [(w, o)] p.
Proof.
  intros Acc. apply accept_cases in Acc. destruct Acc as [[-> D]|(t & sp & -> & St)].
  - unfold dstep in D. destruct (ph a) as [|[|k]|]; try destruct (quiescent a); try discriminate; injection D as <- <-;
      unfold resl, ret_results; cbn; now rewrite app_nil_r.
  - unfold rstep in St. destruct (ph a); try discriminate. destruct (t <? np (core a)).
    + unfold pstep in St. destruct (prod (core a) t).
      * destruct (pscr a t); [discriminate|]. injection St as <- <-. unfold resl, ret_results. cbn. now rewrite app_nil_r.
      * injection St as <- <-. unfold resl, ret_results. cbn. now rewrite app_nil_r.
      * injection St as <- <-. unfold resl, ret_results. cbn. now rewrite app_nil_r.
      * destruct (cap (core a) - 1 <=? h - t0).
        -- injection St as <- <-. unfold resl, ret_results. cbn. unfold upd. rewrite (Nat.eqb_sym t p).
           destruct (Nat.eqb_spec p t); [subst|]; cbn; [now rewrite map_app|now rewrite app_nil_r].
        -- destruct (slots (core a) (h mod cap (core a))); [|destruct sp]; injection St as <- <-;
             unfold resl, ret_results; cbn; now rewrite app_nil_r.
      * destruct (Nat.eqb (head (core a)) h && negb sp); injection St as <- <-; unfold resl, ret_results; cbn; now rewrite app_nil_r.
      * destruct (slots (core a) (h mod cap (core a))); [|discriminate]. injection St as <- <-.
        unfold resl, ret_results. cbn. now rewrite app_nil_r.
      * injection St as <- <-. unfold resl, ret_results. cbn. unfold upd. rewrite (Nat.eqb_sym t p).
        destruct (Nat.eqb_spec p t); [subst|]; cbn; [now rewrite map_app|now rewrite app_nil_r].
    + destruct (Nat.eqb t (np (core a))); [|discriminate]. unfold cstep in St. destruct (csm (core a)).
      * destruct (cscr a); [discriminate|]. injection St as <- <-. unfold resl, ret_results. cbn. now rewrite app_nil_r.
      * injection St as <- <-. unfold resl, ret_results. cbn. now rewrite app_nil_r.
      * destruct (cscr a); [discriminate|]. injection St as <- <-. unfold resl, ret_results. cbn. now rewrite app_nil_r.
      * injection St as <- <-. unfold resl, ret_results. cbn. now rewrite app_nil_r.
      * injection St as <- <-. unfold resl, ret_results. cbn. now rewrite app_nil_r.
      * injection St as <- <-. unfold resl, ret_results. cbn. now rewrite app_nil_r.
      * destruct (i <? n); [destruct (slots (core a) ((t0 + i) mod cap (core a))); [|discriminate]|]; injection St as <- <-;
          unfold resl, ret_results; cbn; now rewrite app_nil_r.
Qed.

Lemma resl_replay p : forall tr a idx a', replay_from accept_ring a idx tr = RDone a' ->
  resl a' p = resl a p ++ ret_results (events_of tr) p.
Proof.
  induction tr as [|[[w o]|] tr IH]; intros a idx a' Rp; cbn [replay_from] in Rp.
  - injection Rp as <-. unfold ret_results. cbn. now rewrite app_nil_r.
  - destruct (accept_ring a (w, o)) as [a1| |o1] eqn:Acc; try discriminate.
    rewrite (IH _ _ _ Rp), (resl_step a w o a1 p Acc). rewrite <- app_assoc. f_equal. symmetry.
    apply (ret_results_cons (w, o) (events_of tr) p).
  - discriminate.
Qed.

Lemma list_eqb_refl l : list_eqb l l = true.
Proof. induction l as [|x l IH]; cbn; [reflexivity|]. now rewrite Nat.eqb_refl. Qed.

Lemma In_combine_map {B} (F : nat -> B) xs i l : In (i, l) (combine xs (map F xs)) -> l = F i.
Proof. induction xs as [|x xs IH]; cbn; [contradiction|]. intros [[= -> <-]|H]; auto. Qed.

Theorem model_meets_spec_history m ps ch tr a : 1 <= m -> NoDup (concat ps) ->
  replay_ring m ps ch tr = RDone a -> ph a = Dead ->
  check_history (split_results ps (sR (ring_summary a))) (events_of tr) = [].
Proof.
  intros Hm ND H P. destruct (summary_per m ps ch tr a Hm ND H P) as [-> _].
  destruct (dead_view m ps ch tr a Hm ND H P) as (s & _ & _ & _ & _ & _ & _ & _ & _ & V).
  unfold check_history. apply check_true. apply forallb_forall. intros [i l] Hin. cbn [fst snd].
  unfold per_of in Hin. rewrite map_length, seq_length in Hin. pose proof (In_combine_map _ _ _ _ Hin) as ->.
  apply in_combine_l in Hin. apply in_seq in Hin.
  rewrite map_snd_combine by (apply V; lia).
  assert (RR : ret_results (events_of tr) i = resl a i).
  { unfold replay_ring in H. rewrite (resl_replay i _ _ _ _ H). reflexivity. }
  rewrite RR.
  assert (map (fun v => if Nat.eqb v 0 then 0 else 1) (resl a i) = resl a i) as ->.
  { unfold resl. rewrite map_map. apply map_ext. intros []; reflexivity. }
  apply list_eqb_refl.
Qed.

(* ------------------------------------------------------------------------------------------ the whole ring SPEC *)
Theorem model_meets_spec_ring m ps ch tr a : 1 <= m -> NoDup (concat ps) ->
  replay_ring m ps ch tr = RDone a -> ph a = Dead ->
  spec_ring m ps (events_of tr) (ring_summary a) = [].
Proof.
  intros Hm ND H P. unfold spec_ring. cbv zeta.
  destruct (summary_per m ps ch tr a Hm ND H P) as [_ Len].
  rewrite Len, Nat.eqb_refl. cbn [check app].
  rewrite (model_meets_spec_exactly_once m ps ch tr a Hm ND H P), (model_meets_spec_fifo m ps ch tr a Hm ND H P),
          (model_meets_spec_fail_keeps m ps ch tr a Hm ND H P), (model_meets_spec_fail_legit m ps ch tr a Hm ND H),
          (model_meets_spec_check_no_leak m ps ch tr a Hm ND H P), (model_meets_spec_history m ps ch tr a Hm ND H P).
  unfold check_bounded. rewrite (model_meets_spec_queued m ps ch tr a Hm ND H).
  destruct (model_meets_spec_bounded_size m ps ch tr a Hm H P) as [-> _]. reflexivity.
Qed.

(* ------------------------------------------------------------------------------------------ undo, on accepted traces *)
(* in every state an accepted trace passes through, a producer that has lost the head CAS is accepted only with the exchange
   that takes back its own element, and then retries with that element *)
Theorem accepted_undo_returns_own_element m ps ch tr a t x h o a' : 1 <= m ->
  replay_ring m ps ch tr = RDone a -> ph a = Running -> t < np (core a) -> prod (core a) t = PUndo x h ->
  accept_ring a (Thr t, o) = Accepted a' ->
  o = OXchg (OSlot (h mod cap (core a))) 0 x /\ prod (core a') t = PCalled x.
Proof.
  intros Hm H P Lt E Acc. pose proof (accepted_running_invariants m ps ch tr a Hm H P) as HA.
  apply accept_cases in Acc. destruct Acc as [[Hc _]|(t' & sp & [= <-] & St)]; [discriminate|].
  unfold rstep in St. rewrite P in St. apply Nat.ltb_lt in Lt. rewrite Lt in St. unfold pstep in St. rewrite E in St.
  destruct (slots (core a) (h mod cap (core a))) as [y|] eqn:Sl; [|discriminate]. injection St as <- <-.
  destruct (inv_undo (core a) t x h y (gh (core a)) (AI _ HA) E Sl) as [-> _].
  split; [reflexivity|]. cbn. now rewrite upd_eq.
Qed.

(* ------------------------------------------------------------------------------------------ non-vacuity *)
(* a concrete complete trace, produced by running the model under a schedule (producer 1 loses the head CAS and undoes,
   the consumer takes one element, the other is freed by the destructor) ... *)
Fixpoint gen_trace (a : rst) (sched : list (nat * bool)) : list event * rst :=
  match sched with
  | [] => ([], a)
  | (t, sp) :: r => match rstep a t sp with
                    | Some (a', o) => let (tr, a'') := gen_trace a' r in ((Thr t, o) :: tr, a'')
                    | None => gen_trace a r
                    end
  end.
Fixpoint gen_destroy (fuel : nat) (a : rst) : list event * rst :=
  match fuel with
  | 0 => ([], a)
  | S f => match dstep a with
           | Some (a', o) => let (tr, a'') := gen_destroy f a' in ((Ctl, o) :: tr, a'')
           | None => ([], a)
           end
  end.
Definition ex_ps : list (list elt) := [[11]; [21; 22; 23]].
Definition ex_sched : list (nat * bool) :=
  repeat (1, false) 3 ++ repeat (0, false) 6 ++ repeat (2, false) 8 ++ repeat (1, false) 2 ++ repeat (2, false) 20 ++ repeat (1, false) 40.
Definition ex_trace : list event :=
  let (tr1, a1) := gen_trace (ring_init 2 ex_ps [0; 0]) ex_sched in
  let (tr2, _) := gen_destroy 10 a1 in tr1 ++ tr2.

Example ex_accepted_trace_passes :
  exists a, replay_ring 2 ex_ps (Some [0; 0]) (map Some ex_trace) = RDone a /\ ph a = Dead /\
    events_of (map Some ex_trace) = ex_trace /\ length ex_trace = 47 /\
    existsb (fun e => match snd e with OCas _ OHead _ _ _ false => true | _ => false end) ex_trace = true /\   (* a lost head CAS *)
    existsb (fun e => match snd e with ORetAdd _ false => true | _ => false end) ex_trace = true /\            (* a refused Add *)
    print_rsummary (ring_summary a) = print_rsummary (mkSum [1; 1; 1; 0] [11] [21; 22] 0 0 [1; 0]) /\
    spec_ring 2 ex_ps ex_trace (ring_summary a) = [].
Proof. eexists. vm_compute. repeat split; reflexivity. Qed.

(* ... and deliberately broken observations fail the respective clause *)
Example ex_broken_histories_fail :
  (* an Add refused on an empty buffer *)
  check_fail_legit 2 [(Thr 0, OCallAdd 11); (Thr 0, ORetAdd 11 false)] = [tag "fail_legit:count"] /\
  (* refused with one other call started and nothing consumed: not enough for max_size 2 *)
  check_fail_legit 2 [(Thr 0, OCallAdd 11); (Thr 0, ORetAdd 11 true); (Thr 0, OCallAdd 12); (Thr 0, ORetAdd 12 false)]
    = [tag "fail_legit:count"] /\
  (* the consumer received producer 0's elements out of order *)
  check_fifo (split_results [[11; 12]] [1; 1]) (mkSum [1; 1] [12; 11] [] 0 0 []) = [tag "fifo:order"] /\
  (* an element delivered twice / a successfully added element lost / a refused element delivered *)
  check_exactly_once (concat (split_results [[11; 12]] [1; 1])) (mkSum [1; 1] [11; 11; 12] [] 0 0 []) = [tag "exactly_once:dup"] /\
  check_exactly_once (concat (split_results [[11; 12]] [1; 1])) (mkSum [1; 1] [11] [] 0 0 []) = [tag "exactly_once:lost"] /\
  check_exactly_once (concat (split_results [[11; 12]] [1; 0])) (mkSum [1; 0] [11; 12] [] 0 0 []) = [tag "exactly_once:phantom"] /\
  (* the driver saw a refused Add take the element *)
  check_fail_keeps (concat (split_results [[11]] [2])) = [tag "fail_leaves_element:anomaly"] /\
  (* three Adds returned true on a buffer of max_size 2 with nothing consumed *)
  check (queued_scan 2 0 0 [(Thr 0, ORetAdd 11 true); (Thr 0, ORetAdd 12 true); (Thr 0, ORetAdd 13 true)]) "bounded:queued"
    = [tag "bounded:queued"] /\
  (* the same trace with the consumer's output reversed fails the whole SPEC *)
  spec_ring 2 [[11; 12]] [] (mkSum [1; 1] [12; 11] [] 0 0 []) <> [].
Proof. vm_compute. repeat split; try reflexivity. discriminate. Qed.
