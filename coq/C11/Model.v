(* C11 - MODEL of sdk::common::CircularBuffer / AtomicUniquePtr and common::SpinLockMutex at the granularity
   of one atomic operation (what the scheduler shim logs), as an executable labelled transition system.

   Ring: [rstep a t sp] is the next step of logical thread [t] (producers 0..np-1, consumer np) in state [a];
   it returns the successor and the operation the thread performs, with the values the model predicts
   ([sp] = this weak compare-exchange fails spuriously).  [dstep] is the destructor (controller thread, after
   every thread has finished).  [accept_ring] compares the predicted operation with the observed one.
   Spin lock: [sstep s t] likewise (deterministic).

   Assumptions: sequentially consistent interleaving of the atomic operations (memory_order arguments are
   ignored, as in the shim); the 64-bit counters head_/tail_ do not wrap (they are [nat] here).
   Definitions only; the proofs are in Ring.v, Ghost.v, Sim.v, SpinProofs.v. *)
From V Require Export Base.Tok.
From V Require Import Gen.Consts.
From Coq Require Import List Arith PeanoNat.
Import ListNotations.
Local Open Scope nat_scope.

Definition elt := nat.   (* element identities; pointers are printed as ids, 0 = nullptr, so ids are positive *)

(* ------------------------------------------------------------------------------------------ ring state *)

(* program counter of a producer inside  bool Add(std::unique_ptr<T>&)  (circular_buffer.h:86-119) *)
Inductive ppc :=
| PIdle                            (* not inside Add *)
| PCalled (x : elt)                (* top of the while loop: about to load tail_ (first iteration or retry) *)
| PGotTail (x : elt) (t : nat)     (* tail read, about to load head_ *)
| PGotHead (x : elt) (t h : nat)   (* both read: full test, then SwapIfNull on data_[h % capacity_] *)
| PHold (x : elt) (t h : nat)      (* SwapIfNull succeeded: x sits in slot h % capacity_; about to CAS head_ *)
| PUndo (x : elt) (h : nat)        (* head CAS failed: about to take the element back (Swap) *)
| PDone (x : elt).                 (* head CAS succeeded: about to return true *)

(* program counter of the consumer: n = size(); Consume(m, callback) (circular_buffer.h:56-63, 154-160, 182-200) *)
Inductive cpc :=
| CIdle
| CSz1 (t : nat)                   (* size(): tail_ read *)
| CSz2 (t h : nat)                 (* size(): head_ read, size = h - t *)
| CCall (n : nat)                  (* Consume(n, cb) entered: PeekImpl about to load tail_ *)
| CPeek (n t : nat)                (* PeekImpl: tail_ read, about to load head_ *)
| CRange (t0 n : nat)              (* range [t0, t0+n) taken, about to do tail_ += n *)
| CClear (t0 n i : nat).           (* tail_ advanced; callback has emptied i of the n slots *)

(* one record per Add that returned false (ghost) *)
Record refusal := mkR {
  rf_x : elt;            (* the element, still owned by the caller *)
  rf_started : nat;      (* number of OTHER Add calls that had started before this one finished *)
  rf_consumed : nat;     (* value of tail_ (elements taken by the consumer) when this call started *)
  rf_t : nat;            (* the value of tail_ the call read *)
  rf_h : nat             (* the value of head_ the call read (after reading tail_) *)
}.

(* ghost history, never read by the algorithm *)
Record ghost := mkG {
  given : list (nat * elt);   (* every Add call (producer, element) in the order the calls started; index = call id *)
  cur : nat -> nat;           (* call id of the producer's current (or last) call *)
  cstart : nat -> nat;        (* tail_ at the moment the producer's current call started *)
  logid : list nat;           (* call ids in the order of the successful head_ CASes (parallel to [log]) *)
  refusals : list refusal;
  rets : list (nat * bool);   (* (call id, result) of every returned Add, latest first *)
  sizes : list nat            (* size() results of the consumer, latest first *)
}.

Record st := mk {
  cap : nat;                       (* capacity_ = max_size + 1 *)
  slots : nat -> option elt;       (* data_[i].ptr_ *)
  head : nat;
  tail : nat;
  np : nat;                        (* number of producers; the consumer is thread np *)
  prod : nat -> ppc;
  csm : cpc;
  log : list elt;                  (* ghost: elements in the order of the successful head_ CASes *)
  got : list elt;                  (* what the consumer's callback has received, in order *)
  held : list elt;                 (* elements returned to their callers by a refused Add *)
  gh : ghost
}.

Definition upd {A} (f : nat -> A) (k : nat) (v : A) : nat -> A := fun j => if Nat.eqb j k then v else f j.

Definition set_prod (s : st) (p : nat) (c : ppc) (g : ghost) : st :=
  mk (cap s) (slots s) (head s) (tail s) (np s) (upd (prod s) p c) (csm s) (log s) (got s) (held s) g.
Definition set_cons (s : st) (c : cpc) (g : ghost) : st :=
  mk (cap s) (slots s) (head s) (tail s) (np s) (prod s) c (log s) (got s) (held s) g.

(* ghost updates *)
Definition g_call (g : ghost) (p : nat) (x : elt) (tl : nat) : ghost :=
  mkG (given g ++ [(p, x)]) (upd (cur g) p (length (given g))) (upd (cstart g) p tl) (logid g) (refusals g) (rets g) (sizes g).
Definition g_refuse (g : ghost) (p : nat) (x : elt) (t h : nat) : ghost :=
  mkG (given g) (cur g) (cstart g) (logid g)
      (mkR x (length (given g) - 1) (cstart g p) t h :: refusals g) ((cur g p, false) :: rets g) (sizes g).
Definition g_commit (g : ghost) (p : nat) : ghost :=
  mkG (given g) (cur g) (cstart g) (logid g ++ [cur g p]) (refusals g) (rets g) (sizes g).
Definition g_ret (g : ghost) (p : nat) : ghost :=
  mkG (given g) (cur g) (cstart g) (logid g) (refusals g) ((cur g p, true) :: rets g) (sizes g).
Definition g_size (g : ghost) (n : nat) : ghost :=
  mkG (given g) (cur g) (cstart g) (logid g) (refusals g) (rets g) (n :: sizes g).

Definition g0 : ghost := mkG [] (fun _ => 0) (fun _ => 0) [] [] [] [].
Definition init (max_size nprod : nat) : st :=
  mk (S max_size) (fun _ => None) 0 0 nprod (fun _ => PIdle) CIdle [] [] [] g0.

(* ------------------------------------------------------------------------------------------ operations *)

Inductive obj := OHead | OTail | OSlot (i : nat) | OFlag | OIncs.

Inductive op :=
| OLd (o : obj) (v : nat)
| OSt (o : obj) (v : nat)
| OXchg (o : obj) (new old : nat)
| OCas (weak : bool) (o : obj) (expected desired seen : nat) (ok : bool)
| OFadd (o : obj) (d old : nat)
| OFsub (o : obj) (d old : nat)
| OCallAdd (e : elt) | ORetAdd (e : elt) (r : bool)
| OCallConsume (n : nat) | ORetConsume (n : nat)
| OCallDestroy | ORetDestroy
| OCallLock | ORetLock | OCallTry | ORetTry (r : bool) | OCallUnlock | ORetUnlock
| OYield | OSleep.

Inductive who := Ctl | Thr (t : nat).   (* Ctl = the controller thread (-1): constructs and destroys the buffer *)
Definition event := (who * op)%type.

Definition obj_eqb (a b : obj) : bool :=
  match a, b with
  | OHead, OHead | OTail, OTail | OFlag, OFlag | OIncs, OIncs => true
  | OSlot i, OSlot j => Nat.eqb i j
  | _, _ => false
  end.

Definition op_eqb (a b : op) : bool :=
  match a, b with
  | OLd o v, OLd o' v' => obj_eqb o o' && Nat.eqb v v'
  | OSt o v, OSt o' v' => obj_eqb o o' && Nat.eqb v v'
  | OXchg o n d, OXchg o' n' d' => obj_eqb o o' && Nat.eqb n n' && Nat.eqb d d'
  | OCas w o e d s k, OCas w' o' e' d' s' k' =>
      Bool.eqb w w' && obj_eqb o o' && Nat.eqb e e' && Nat.eqb d d' && Nat.eqb s s' && Bool.eqb k k'
  | OFadd o d v, OFadd o' d' v' => obj_eqb o o' && Nat.eqb d d' && Nat.eqb v v'
  | OFsub o d v, OFsub o' d' v' => obj_eqb o o' && Nat.eqb d d' && Nat.eqb v v'
  | OCallAdd e, OCallAdd e' => Nat.eqb e e'
  | ORetAdd e r, ORetAdd e' r' => Nat.eqb e e' && Bool.eqb r r'
  | OCallConsume n, OCallConsume n' => Nat.eqb n n'
  | ORetConsume n, ORetConsume n' => Nat.eqb n n'
  | OCallDestroy, OCallDestroy | ORetDestroy, ORetDestroy | OCallLock, OCallLock | ORetLock, ORetLock
  | OCallTry, OCallTry | OCallUnlock, OCallUnlock | ORetUnlock, ORetUnlock | OYield, OYield | OSleep, OSleep => true
  | ORetTry r, ORetTry r' => Bool.eqb r r'
  | _, _ => false
  end.

Definition pv (o : option elt) : nat := match o with Some x => x | None => 0 end.   (* pointer value as printed *)

(* ------------------------------------------------------------------------------------------ ring: executable LTS *)

Inductive phase := Running | Destroying (k : nat) | Dead.

Record rst := mkA {
  core : st;
  pscr : nat -> list elt;        (* elements each producer still has to add *)
  cscr : list nat;               (* consumer chunks still to do: k => n = size(); Consume(k = 0 or k > n ? n : k) *)
  pres : nat -> list bool;       (* results of each producer's Adds, latest first *)
  ph : phase;
  freed : list elt               (* elements deleted by the destructor, in order *)
}.

Definition with_core (a : rst) (s : st) : rst := mkA s (pscr a) (cscr a) (pres a) (ph a) (freed a).

(* one step of producer p *)
Definition pstep (a : rst) (p : nat) (sp : bool) : option (rst * op) :=
  let s := core a in
  match prod s p with
  | PIdle =>
      match pscr a p with
      | x :: r => Some (mkA (set_prod s p (PCalled x) (g_call (gh s) p x (tail s))) (upd (pscr a) p r) (cscr a) (pres a) (ph a) (freed a),
                        OCallAdd x)
      | [] => None
      end
  | PCalled x => Some (with_core a (set_prod s p (PGotTail x (tail s)) (gh s)), OLd OTail (tail s))
  | PGotTail x t => Some (with_core a (set_prod s p (PGotHead x t (head s)) (gh s)), OLd OHead (head s))
  | PGotHead x t h =>
      if cap s - 1 <=? h - t then
        (* if (head - tail >= capacity_ - 1) return false; *)
        Some (mkA (mk (cap s) (slots s) (head s) (tail s) (np s) (upd (prod s) p PIdle) (csm s) (log s) (got s) (x :: held s)
                      (g_refuse (gh s) p x t h))
                  (pscr a) (cscr a) (upd (pres a) p (false :: pres a p)) (ph a) (freed a),
              ORetAdd x false)
      else
        let k := h mod cap s in
        match slots s k with
        | None =>
            if sp then Some (with_core a (set_prod s p (PCalled x) (gh s)), OCas true (OSlot k) 0 x 0 false)
            else Some (with_core a (mk (cap s) (upd (slots s) k (Some x)) (head s) (tail s) (np s) (upd (prod s) p (PHold x t h))
                                       (csm s) (log s) (got s) (held s) (gh s)),
                       OCas true (OSlot k) 0 x 0 true)
        | Some y => Some (with_core a (set_prod s p (PCalled x) (gh s)), OCas true (OSlot k) 0 x y false)
        end
  | PHold x t h =>
      if Nat.eqb (head s) h && negb sp then
        Some (with_core a (mk (cap s) (slots s) (S h) (tail s) (np s) (upd (prod s) p (PDone x)) (csm s) (log s ++ [x]) (got s) (held s)
                              (g_commit (gh s) p)),
              OCas true OHead h (S h) (head s) true)
      else Some (with_core a (set_prod s p (PUndo x h) (gh s)), OCas true OHead h (S h) (head s) false)
  | PUndo x h =>
      let k := h mod cap s in
      match slots s k with
      | Some y => Some (with_core a (mk (cap s) (upd (slots s) k None) (head s) (tail s) (np s) (upd (prod s) p (PCalled y))
                                        (csm s) (log s) (got s) (held s) (gh s)),
                        OXchg (OSlot k) 0 y)
      | None => None     (* never happens (Ring.inv_undo): the slot still holds the producer's own element *)
      end
  | PDone x =>
      Some (mkA (set_prod s p PIdle (g_ret (gh s) p)) (pscr a) (cscr a) (upd (pres a) p (true :: pres a p)) (ph a) (freed a),
            ORetAdd x true)
  end.

Definition chunk (k n : nat) : nat := if Nat.eqb k 0 || (n <? k) then n else k.

(* one step of the consumer *)
Definition cstep (a : rst) : option (rst * op) :=
  let s := core a in
  match csm s with
  | CIdle =>
      match cscr a with
      | _ :: _ => Some (with_core a (set_cons s (CSz1 (tail s)) (gh s)), OLd OTail (tail s))
      | [] => None
      end
  | CSz1 t => Some (with_core a (set_cons s (CSz2 t (head s)) (g_size (gh s) (head s - t))), OLd OHead (head s))
  | CSz2 t h =>
      match cscr a with
      | k :: r => let n := chunk k (h - t) in
                  Some (mkA (set_cons s (CCall n) (gh s)) (pscr a) r (pres a) (ph a) (freed a), OCallConsume n)
      | [] => None
      end
  | CCall n => Some (with_core a (set_cons s (CPeek n (tail s)) (gh s)), OLd OTail (tail s))
  | CPeek n t => Some (with_core a (set_cons s (CRange t n) (gh s)), OLd OHead (head s))
  | CRange t0 n =>
      Some (with_core a (mk (cap s) (slots s) (head s) (t0 + n) (np s) (prod s) (CClear t0 n 0) (log s) (got s) (held s) (gh s)),
            OFadd OTail n (tail s))
  | CClear t0 n i =>
      if i <? n then
        let k := (t0 + i) mod cap s in
        match slots s k with
        | Some y => Some (with_core a (mk (cap s) (upd (slots s) k None) (head s) (tail s) (np s) (prod s) (CClear t0 n (S i))
                                          (log s) (got s ++ [y]) (held s) (gh s)),
                          OXchg (OSlot k) 0 y)
        | None => None   (* never happens (Ring.live_some) *)
        end
      else Some (with_core a (set_cons s CIdle (gh s)), ORetConsume n)
  end.

Definition rstep (a : rst) (t : nat) (sp : bool) : option (rst * op) :=
  match ph a with
  | Running => if t <? np (core a) then pstep a t sp else if Nat.eqb t (np (core a)) then cstep a else None
  | _ => None
  end.

Definition is_idle (c : ppc) : bool := match c with PIdle => true | _ => false end.
Definition is_nil {A} (l : list A) : bool := match l with [] => true | _ => false end.
Definition quiescent (a : rst) : bool :=
  forallb (fun p => is_idle (prod (core a) p) && is_nil (pscr a p)) (seq 0 (np (core a)))
  && match csm (core a) with CIdle => true | _ => false end && is_nil (cscr a).

Definition opt_list {A} (o : option A) : list A := match o with Some x => [x] | None => [] end.

(* ~CircularBuffer: data_ is a unique_ptr<AtomicUniquePtr<T>[]>; delete[] runs ~AtomicUniquePtr = Reset() = exchange(nullptr)
   on the elements in reverse index order *)
Definition dstep (a : rst) : option (rst * op) :=
  let s := core a in
  match ph a with
  | Running => if quiescent a then Some (mkA s (pscr a) (cscr a) (pres a) (Destroying (cap s)) (freed a), OCallDestroy) else None
  | Destroying (S k) =>
      Some (mkA (mk (cap s) (upd (slots s) k None) (head s) (tail s) (np s) (prod s) (csm s) (log s) (got s) (held s) (gh s))
                (pscr a) (cscr a) (pres a) (Destroying k) (freed a ++ opt_list (slots s k)),
            OXchg (OSlot k) 0 (pv (slots s k)))
  | Destroying 0 => Some (mkA s (pscr a) (cscr a) (pres a) Dead (freed a), ORetDestroy)
  | Dead => None
  end.

Inductive verdict (A : Type) :=
| Accepted (a : A)
| NoStep                      (* the model has no step for that thread in this state *)
| Mismatch (expected : op).   (* the model's operation (or its values) differ from the observed one *)
Arguments Accepted {A}. Arguments NoStep {A}. Arguments Mismatch {A}.

Definition accept_ring (a : rst) (e : event) : verdict rst :=
  match fst e with
  | Ctl => match dstep a with
           | Some (a', o') => if op_eqb (snd e) o' then Accepted a' else Mismatch o'
           | None => NoStep
           end
  | Thr t =>
      match rstep a t false with
      | Some (a', o') =>
          if op_eqb (snd e) o' then Accepted a'
          else match rstep a t true with
               | Some (a'', o'') => if op_eqb (snd e) o'' then Accepted a'' else Mismatch o'
               | None => Mismatch o'
               end
      | None => NoStep
      end
  end.

Definition ring_init (max_size : nat) (scripts : list (list elt)) (chunks : list nat) : rst :=
  mkA (init max_size (length scripts)) (fun p => nth p scripts []) chunks (fun _ => []) Running [].

(* ------------------------------------------------------------------------------------------ spin lock *)

(* program counter of a thread using SpinLockMutex (spin_lock_mutex.h:83-126) through the driver's script:
   lock(); cs; unlock()   or   if (try_lock()) { cs; unlock(); }   with cs = in_cs.fetch_add(1); in_cs.fetch_sub(1) *)
Inductive lpc :=
| LIdle
| LLock0                   (* lock(): top of for(;;): flag_.exchange(true) *)
| LSpinLd (i : nat)        (* fast loop, iteration i: try_lock's relaxed load *)
| LSpinX (i : nat)         (* fast loop, iteration i: try_lock's exchange *)
| LYield                   (* std::this_thread::yield() *)
| LTry2Ld | LTry2X         (* the try_lock after the yield *)
| LSleep                   (* sleep_for(1ms), then back to the top *)
| LAcq                     (* lock() has acquired, about to return *)
| TLd | TX                 (* stand-alone try_lock(): load, exchange *)
| TRet (r : bool)          (* try_lock() about to return r *)
| CS0 | CS1 | CS2          (* holder: fetch_add, fetch_sub, call unlock *)
| U0                       (* unlock(): flag_.store(false) *)
| U1.                      (* unlock() about to return *)

Record sst := mkS {
  flag : bool;
  incs : nat;                    (* the driver's critical-section occupancy counter *)
  spc : nat -> lpc;
  sscr : nat -> list bool;       (* remaining operations of each thread: false = lock(), true = try_lock() *)
  maxin : nat;                   (* maximum occupancy seen by a thread entering the critical section *)
  acq : nat                      (* number of acquisitions *)
}.

Definition b2n (b : bool) : nat := if b then 1 else 0.
Definition set_spc (s : sst) (t : nat) (c : lpc) : sst := mkS (flag s) (incs s) (upd (spc s) t c) (sscr s) (maxin s) (acq s).
Definition xchg_true (s : sst) (t : nat) (c : lpc) : sst := mkS true (incs s) (upd (spc s) t c) (sscr s) (maxin s) (acq s).

Definition after_fail (i : nat) : lpc := if S i <? c11_spin_fast_iterations then LSpinLd (S i) else LYield.

Definition sstep (s : sst) (t : nat) : option (sst * op) :=
  match spc s t with
  | LIdle =>
      match sscr s t with
      | b :: r => Some (mkS (flag s) (incs s) (upd (spc s) t (if b then TLd else LLock0)) (upd (sscr s) t r) (maxin s) (acq s),
                        if b then OCallTry else OCallLock)
      | [] => None
      end
  | LLock0 => Some (xchg_true s t (if flag s then (if 0 <? c11_spin_fast_iterations then LSpinLd 0 else LYield) else LAcq),
                    OXchg OFlag 1 (b2n (flag s)))
  | LSpinLd i => Some (set_spc s t (if flag s then after_fail i else LSpinX i), OLd OFlag (b2n (flag s)))
  | LSpinX i => Some (xchg_true s t (if flag s then after_fail i else LAcq), OXchg OFlag 1 (b2n (flag s)))
  | LYield => Some (set_spc s t LTry2Ld, OYield)
  | LTry2Ld => Some (set_spc s t (if flag s then LSleep else LTry2X), OLd OFlag (b2n (flag s)))
  | LTry2X => Some (xchg_true s t (if flag s then LSleep else LAcq), OXchg OFlag 1 (b2n (flag s)))
  | LSleep => Some (set_spc s t LLock0, OSleep)
  | LAcq => Some (mkS (flag s) (incs s) (upd (spc s) t CS0) (sscr s) (maxin s) (S (acq s)), ORetLock)
  | TLd => Some (set_spc s t (if flag s then TRet false else TX), OLd OFlag (b2n (flag s)))
  | TX => Some (xchg_true s t (TRet (negb (flag s))), OXchg OFlag 1 (b2n (flag s)))
  | TRet r => Some (mkS (flag s) (incs s) (upd (spc s) t (if r then CS0 else LIdle)) (sscr s) (maxin s) (if r then S (acq s) else acq s),
                    ORetTry r)
  | CS0 => Some (mkS (flag s) (S (incs s)) (upd (spc s) t CS1) (sscr s) (Nat.max (maxin s) (S (incs s))) (acq s), OFadd OIncs 1 (incs s))
  | CS1 => Some (mkS (flag s) (incs s - 1) (upd (spc s) t CS2) (sscr s) (maxin s) (acq s), OFsub OIncs 1 (incs s))
  | CS2 => Some (set_spc s t U0, OCallUnlock)
  | U0 => Some (mkS false (incs s) (upd (spc s) t U1) (sscr s) (maxin s) (acq s), OSt OFlag 0)
  | U1 => Some (set_spc s t LIdle, ORetUnlock)
  end.

Definition accept_spin (s : sst) (e : event) : verdict sst :=
  match fst e with
  | Ctl => NoStep
  | Thr t => match sstep s t with
             | Some (s', o') => if op_eqb (snd e) o' then Accepted s' else Mismatch o'
             | None => NoStep
             end
  end.

Definition spin_init (scripts : list (list bool)) : sst :=
  mkS false 0 (fun _ => LIdle) (fun t => nth t scripts []) 0 0.

Definition spin_done (s : sst) (nthreads : nat) : bool :=
  forallb (fun t => match spc s t with LIdle => is_nil (sscr s t) | _ => false end) (seq 0 nthreads).
