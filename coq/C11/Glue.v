(* Glue between the token wire format and the C11 model/spec (trace mode of tools/runner.py):
   the model's input is "<case> || <event trace>", its output the summary it derives by replaying the trace
   (or REJECT <event index> <reason> ...).  Extracted. *)
From Coq Require Import List Arith PeanoNat.
From V Require Export C11.Spec.
Import ListNotations.
Local Open Scope nat_scope.

(* ------------------------------------------------------------------------------------------ parsing *)
Definition tok_nat (t : tok) : option nat :=
  match t with TZ z => if (0 <=? z)%Z then Some (Z.to_nat z) else None | _ => None end.

Fixpoint toks_nats (l : list tok) : option (list nat) :=
  match l with
  | [] => Some []
  | t :: r => match tok_nat t, toks_nats r with Some n, Some ns => Some (n :: ns) | _, _ => None end
  end.

Definition tok_bool (t : tok) : option bool :=
  match t with TZ 0%Z => Some false | TZ 1%Z => Some true | _ => None end.

Definition parse_who (t : tok) : option who :=
  match t with
  | TZ z => if (z =? -1)%Z then Some Ctl else if (0 <=? z)%Z then Some (Thr (Z.to_nat z)) else None
  | _ => None
  end.

(* OBJ v... : returns the object and the remaining tokens *)
Definition parse_obj (l : list tok) : option (obj * list tok) :=
  match l with
  | t :: r =>
      if is_tag "head" t then Some (OHead, r)
      else if is_tag "tail" t then Some (OTail, r)
      else if is_tag "flag" t then Some (OFlag, r)
      else if is_tag "incs" t then Some (OIncs, r)
      else if is_tag "slot" t then
        match r with i :: r' => match tok_nat i with Some n => Some (OSlot n, r') | None => None end | [] => None end
      else None
  | [] => None
  end.

Definition parse_op (l : list tok) : option op :=
  match l with
  | k :: r =>
      if is_tag "ld" k then
        match parse_obj r with Some (o, [v]) => option_map (OLd o) (tok_nat v) | _ => None end
      else if is_tag "st" k then
        match parse_obj r with Some (o, [v]) => option_map (OSt o) (tok_nat v) | _ => None end
      else if is_tag "xchg" k then
        match parse_obj r with
        | Some (o, [n; d]) => match tok_nat n, tok_nat d with Some n', Some d' => Some (OXchg o n' d') | _, _ => None end
        | _ => None end
      else if is_tag "casw" k || is_tag "cass" k then
        match parse_obj r with
        | Some (o, [e; d; s; ok]) =>
            match tok_nat e, tok_nat d, tok_nat s, tok_bool ok with
            | Some e', Some d', Some s', Some ok' =>
                (* compare_exchange_strong refines compare_exchange_weak: every behaviour of a strong CAS is a behaviour of a
                   weak one that does not fail spuriously, so a "cass" event is read as that weak CAS with the same operands
                   and result - except a strong CAS that fails although it saw the expected value, which no real strong CAS
                   does: that one keeps its own kind and is rejected wherever the model has a weak CAS *)
                Some (OCas (is_tag "casw" k || negb (negb ok' && Nat.eqb e' s')) o e' d' s' ok')
            | _, _, _, _ => None end
        | _ => None end
      else if is_tag "fadd" k then
        match parse_obj r with
        | Some (o, [d; v]) => match tok_nat d, tok_nat v with Some d', Some v' => Some (OFadd o d' v') | _, _ => None end
        | _ => None end
      else if is_tag "fsub" k then
        match parse_obj r with
        | Some (o, [d; v]) => match tok_nat d, tok_nat v with Some d', Some v' => Some (OFsub o d' v') | _, _ => None end
        | _ => None end
      else if is_tag "yield" k then match r with [] => Some OYield | _ => None end
      else if is_tag "sleep" k then match r with [] => Some OSleep | _ => None end
      else if is_tag "call" k then
        match r with
        | [w] => if is_tag "destroy" w then Some OCallDestroy else if is_tag "lock" w then Some OCallLock
                 else if is_tag "trylock" w then Some OCallTry else if is_tag "unlock" w then Some OCallUnlock else None
        | [w; v] => if is_tag "add" w then option_map OCallAdd (tok_nat v)
                    else if is_tag "consume" w then option_map OCallConsume (tok_nat v) else None
        | _ => None
        end
      else if is_tag "ret" k then
        match r with
        | [w] => if is_tag "destroy" w then Some ORetDestroy else if is_tag "lock" w then Some ORetLock
                 else if is_tag "unlock" w then Some ORetUnlock else None
        | [w; v] => if is_tag "consume" w then option_map ORetConsume (tok_nat v)
                    else if is_tag "trylock" w then option_map ORetTry (tok_bool v) else None
        | [w; v; b] => if is_tag "add" w then match tok_nat v, tok_bool b with Some e, Some b' => Some (ORetAdd e b') | _, _ => None end
                       else None
        | _ => None
        end
      else None
  | [] => None
  end.

Definition parse_event (l : list tok) : option event :=
  match l with
  | w :: r => match parse_who w, parse_op r with Some w', Some o => Some (w', o) | _, _ => None end
  | [] => None
  end.

(* the trace: events separated by ";" ; an empty trace is the empty list *)
Definition parse_trace (l : list tok) : list (option event) :=
  match l with [] => [] | _ => map parse_event (split_toks ";" l) end.

Inductive case :=
| KRing (max_size : nat) (scripts : list (list elt)) (chunks : option (list nat))
| KSpin (scripts : list (list bool)).

Definition all_pos (l : list nat) : bool := forallb (fun x => 0 <? x) l.

(* sections after the first: p e.. | c k.. | s ..  (the schedule is not used by the model: the thread choices are in the trace) *)
Fixpoint parse_ring_secs (secs : list (list tok)) (ps : list (list elt)) (c : option (list nat)) : option (list (list elt) * option (list nat)) :=
  match secs with
  | [] => Some (rev ps, c)
  | [] :: r => parse_ring_secs r ps c
  | (k :: body) :: r =>
      if is_tag "p" k then match toks_nats body with Some es => parse_ring_secs r (es :: ps) c | None => None end
      else if is_tag "c" k then
        match c, toks_nats body with None, Some ks => parse_ring_secs r ps (Some ks) | _, _ => None end
      else if is_tag "s" k then parse_ring_secs r ps c
      else None
  end.

Fixpoint parse_spin_secs (secs : list (list tok)) (acc : list (list bool)) : option (list (list bool)) :=
  match secs with
  | [] => Some (rev acc)
  | [] :: r => parse_spin_secs r acc
  | (k :: body) :: r =>
      if is_tag "s" k then parse_spin_secs r acc
      else
        let n := match body with [v] => tok_nat v | [] => Some 1 | _ => None end in
        match n with
        | Some n' => if is_tag "l" k then parse_spin_secs r (repeat false n' :: acc)
                     else if is_tag "t" k then parse_spin_secs r (repeat true n' :: acc) else None
        | None => None
        end
  end.

Definition parse_case (l : list tok) : option case :=
  match split_toks "|" l with
  | (k :: hd) :: secs =>
      if is_tag "RING" k then
        match hd with
        | [m] => match tok_nat m, parse_ring_secs secs [] None with
                 | Some m', Some (ps, c) =>
                     (* element ids are positive and pairwise distinct (they identify the elements in G and D);
                        the consumer is spawned after the producers, so a case without producers is still fine *)
                     if all_pos (concat ps) && nodupb (concat ps) then Some (KRing m' ps c) else None
                 | _, _ => None end
        | _ => None end
      else if is_tag "SPIN" k then
        match hd with [] => option_map KSpin (parse_spin_secs secs []) | _ => None end
      else None
  | _ => None
  end.

(* "<case> || <trace>": split at the first "||" (without reversing the long trace part) *)
Fixpoint split_input (l : list tok) : list tok * list tok :=
  match l with
  | [] => ([], [])
  | t :: r => if is_tag "||" t then ([], r) else let (a, b) := split_input r in (t :: a, b)
  end.

(* ------------------------------------------------------------------------------------------ printing ops (for REJECT lines) *)
Definition print_obj (o : obj) : list tok :=
  match o with OHead => [tag "head"] | OTail => [tag "tail"] | OFlag => [tag "flag"] | OIncs => [tag "incs"]
             | OSlot i => [tag "slot"; tnat i] end.
Definition print_op (o : op) : list tok :=
  match o with
  | OLd ob v => tag "ld" :: print_obj ob ++ [tnat v]
  | OSt ob v => tag "st" :: print_obj ob ++ [tnat v]
  | OXchg ob n d => tag "xchg" :: print_obj ob ++ [tnat n; tnat d]
  | OCas w ob e d s k => tag (if w then "casw" else "cass") :: print_obj ob ++ [tnat e; tnat d; tnat s; tbool k]
  | OFadd ob d v => tag "fadd" :: print_obj ob ++ [tnat d; tnat v]
  | OFsub ob d v => tag "fsub" :: print_obj ob ++ [tnat d; tnat v]
  | OCallAdd e => [tag "call"; tag "add"; tnat e]
  | ORetAdd e r => [tag "ret"; tag "add"; tnat e; tbool r]
  | OCallConsume n => [tag "call"; tag "consume"; tnat n]
  | ORetConsume n => [tag "ret"; tag "consume"; tnat n]
  | OCallDestroy => [tag "call"; tag "destroy"] | ORetDestroy => [tag "ret"; tag "destroy"]
  | OCallLock => [tag "call"; tag "lock"] | ORetLock => [tag "ret"; tag "lock"]
  | OCallTry => [tag "call"; tag "trylock"] | ORetTry r => [tag "ret"; tag "trylock"; tbool r]
  | OCallUnlock => [tag "call"; tag "unlock"] | ORetUnlock => [tag "ret"; tag "unlock"]
  | OYield => [tag "yield"] | OSleep => [tag "sleep"]
  end.

(* ------------------------------------------------------------------------------------------ replay *)
Inductive replay (A : Type) :=
| RDone (a : A)
| RReject (idx : nat) (why : list tok).
Arguments RDone {A}. Arguments RReject {A}.

Fixpoint replay_from {A} (acc : A -> event -> verdict A) (a : A) (idx : nat) (tr : list (option event)) : replay A :=
  match tr with
  | [] => RDone a
  | None :: _ => RReject idx [tag "unparsable"]
  | Some e :: r =>
      match acc a e with
      | Accepted a' => replay_from acc a' (S idx) r
      | NoStep => RReject idx [tag "no-step"]
      | Mismatch o => RReject idx (tag "mismatch" :: tag "model:" :: print_op o)
      end
  end.

(* insertion sort (ids freed by the destructor are printed in ascending order by the driver) *)
Fixpoint insert (x : nat) (l : list nat) : list nat :=
  match l with [] => [x] | y :: r => if x <=? y then x :: l else y :: insert x r end.
Definition sort (l : list nat) : list nat := fold_right insert [] l.

Definition dup_count (l : list nat) : nat := length (filter (fun x => 1 <? count x l) (nodup Nat.eq_dec l)).

Definition ring_summary (a : rst) : rsummary :=
  let s := core a in
  let out := held s ++ got s ++ freed a in
  mkSum (flat_map (fun p => map b2n (rev (pres a p))) (seq 0 (np s)))
        (got s) (sort (freed a))
        (length (given (gh s)) - length out)
        (dup_count out)
        (rev (sizes (gh s))).

Definition print_rsummary (s : rsummary) : list tok :=
  tag "R" :: map tnat (sR s) ++ tag "G" :: map tnat (sG s) ++ tag "D" :: map tnat (sD s)
  ++ [tag "L"; tnat (sL s); tag "X"; tnat (sX s)] ++ tag "Z" :: map tnat (sZ s).
Definition print_ssummary (s : ssummary) : list tok := [tag "M"; tnat (sM s); tag "A"; tnat (sA s)].

Definition print_reject (idx : nat) (why : list tok) : list tok := tag "REJECT" :: tnat idx :: why.

Definition replay_ring (m : nat) (ps : list (list elt)) (c : option (list nat)) (tr : list (option event)) : replay rst :=
  replay_from accept_ring (ring_init m ps (match c with Some ks => ks | None => [] end)) 0 tr.
Definition replay_spin (scr : list (list bool)) (tr : list (option event)) : replay sst :=
  replay_from accept_spin (spin_init scr) 0 tr.

Definition run_model (l : list tok) : list tok :=
  let (c, t) := split_input l in
  match parse_case c with
  | Some (KRing m ps ch) =>
      match replay_ring m ps ch (parse_trace t) with
      | RDone a => match ph a with
                   | Dead => print_rsummary (ring_summary a)
                   | _ => print_reject (length (parse_trace t)) [tag "incomplete"]
                   end
      | RReject i w => print_reject i w
      end
  | Some (KSpin scr) =>
      match replay_spin scr (parse_trace t) with
      | RDone s => if spin_done s (length scr) then print_ssummary (mkSS (maxin s) (acq s))
                   else print_reject (length (parse_trace t)) [tag "incomplete"]
      | RReject i w => print_reject i w
      end
  | None => bad_case
  end.

(* ------------------------------------------------------------------------------------------ branch tag (coverage accounting) *)
(* features of the accepted trace, decided on the model's states *)
Record feats := mkF { f_undo : bool; f_refused : bool; f_busy : bool; f_spur : bool; f_refill : bool; f_midclear : bool; f_wrap : bool }.
Definition f0 := mkF false false false false false false false.

Definition low_of (s : st) : nat := match csm s with CClear t0 n i => t0 + i | _ => tail s end.
Definition mid_clear (s : st) : bool := match csm s with CClear t0 n i => i <? n | CRange _ n => 0 <? n | _ => false end.

Definition feat_step (f : feats) (before after : rst) (e : event) : feats :=
  let s := core before in let s' := core after in
  let o := snd e in
  mkF (f_undo f || match o with OCas _ OHead _ _ _ false => true | _ => false end)
      (f_refused f || match o with ORetAdd _ false => true | _ => false end)
      (f_busy f || match o with OCas _ (OSlot _) _ _ (S _) false => true | _ => false end)
      (f_spur f || match o with OCas _ _ e' _ s'' false => Nat.eqb e' s'' | _ => false end)
      (f_refill f || (cap s' - 1 <? head s' - low_of s'))
      (f_midclear f || (mid_clear s && match o with OCas _ _ _ _ _ true => true | _ => false end))
      (f_wrap f || (cap s' <=? head s')).

Fixpoint feats_from (a : rst) (f : feats) (tr : list (option event)) : feats :=
  match tr with
  | Some e :: r => match accept_ring a e with Accepted a' => feats_from a' (feat_step f a a' e) r | _ => f end
  | _ => f
  end.

Definition app_if (b : bool) (s : string) (l : bytes) : bytes := if b then l ++ bs s else l.

Fixpoint spin_feats (s : sst) (tr : list (option event)) (contended slow tryfail : bool) : bool * bool * bool :=
  match tr with
  | Some e :: r =>
      match accept_spin s e with
      | Accepted s' =>
          spin_feats s' r
            (contended || match snd e with OXchg OFlag _ 1 => true | _ => false end)
            (slow || match snd e with OYield | OSleep => true | _ => false end)
            (tryfail || match snd e with ORetTry false => true | _ => false end)
      | _ => (contended, slow, tryfail)
      end
  | _ => (contended, slow, tryfail)
  end.

Definition run_tag (l : list tok) : list tok :=
  let (c, t) := split_input l in
  match parse_case c with
  | Some (KRing m ps ch) =>
      let tr := parse_trace t in
      match replay_ring m ps ch tr with
      | RReject _ _ => [tag "ring_rejected"]
      | RDone a =>
          let f := feats_from (ring_init m ps (match ch with Some ks => ks | None => [] end)) f0 tr in
          [TT (app_if (f_wrap f) "+wrap" (app_if (f_midclear f) "+midclear" (app_if (f_refill f) "+refill"
              (app_if (f_spur f) "+spur" (app_if (f_busy f) "+busy" (app_if (f_refused f) "+refused"
              (app_if (f_undo f) "+undo" (bs "ring"))))))))]
      end
  | Some (KSpin scr) =>
      let tr := parse_trace t in
      match replay_spin scr tr with
      | RReject _ _ => [tag "spin_rejected"]
      | RDone _ =>
          let '(c1, c2, c3) := spin_feats (spin_init scr) tr false false false in
          [TT (app_if c3 "+tryfail" (app_if c2 "+slow" (app_if c1 "+contended" (bs "spin"))))]
      end
  | None => [tag "bad_case"]
  end.

(* ------------------------------------------------------------------------------------------ spec on an observation *)
(* summary tokens: R .. G .. D .. L n X n Z ..   |   M n A n   |   CRASH code ; WHY *)
Fixpoint take_nats (l : list tok) : list nat * list tok :=
  match l with
  | t :: r => match tok_nat t with
              | Some n => let (ns, rest) := take_nats r in (n :: ns, rest)
              | None => ([], l)
              end
  | [] => ([], [])
  end.

Definition expect_tag (s : string) (l : list tok) : option (list nat * list tok) :=
  match l with t :: r => if is_tag s t then Some (take_nats r) else None | [] => None end.

Definition parse_rsummary (l : list tok) : option rsummary :=
  match expect_tag "R" l with
  | Some (r, l1) =>
    match expect_tag "G" l1 with
    | Some (g, l2) =>
      match expect_tag "D" l2 with
      | Some (d, l3) =>
        match expect_tag "L" l3 with
        | Some ([lv], l4) =>
          match expect_tag "X" l4 with
          | Some ([x], l5) =>
            match expect_tag "Z" l5 with
            | Some (z, []) => Some (mkSum r g d lv x z)
            | _ => None end
          | _ => None end
        | _ => None end
      | None => None end
    | None => None end
  | None => None
  end.

Definition parse_ssummary (l : list tok) : option ssummary :=
  match expect_tag "M" l with
  | Some ([m], l1) => match expect_tag "A" l1 with Some ([a], []) => Some (mkSS m a) | _ => None end
  | _ => None
  end.

Definition events_of (tr : list (option event)) : list event := flat_map (fun o => match o with Some e => [e] | None => [] end) tr.

(* CRASH <code> [; WHY]: 97 = the shim gave up (STEPLIMIT: the run does not end under the fair continuation; DEADLOCK),
   98 / 99 = UBSan / ASan+LeakSanitizer report in the child (out-of-bounds, use after free, double free, leak),
   anything else = the child died (signal) *)
Definition crash_tag (obs : list tok) (pre : string) : list tok :=
  if existsb (is_tag "STEPLIMIT") obs then fail (String.append pre ":steplimit")
  else if existsb (is_tag "DEADLOCK") obs then fail (String.append pre ":deadlock")
  else match obs with
       | _ :: TZ 98%Z :: _ => fail "memory_safety:ubsan"
       | _ :: TZ 99%Z :: _ => fail "memory_safety:asan_or_leak"
       | _ => fail (String.append pre ":crash")
       end.

Definition run_spec (l : list tok) (obs : list tok) : list tok :=
  let (c, t) := split_input l in
  let tr := parse_trace t in
  match parse_case c with
  | Some (KRing m ps ch) =>
      match obs with
      | o :: _ =>
          if is_tag "CRASH" o then crash_tag obs "ring_terminates"
          else if is_tag "REJECT" o then []     (* the model's own output on a trace it does not accept: nothing to check *)
          else match parse_rsummary obs with
               | Some s => check (forallb (fun e => match e with Some _ => true | None => false end) tr) "history:unparsable"
                           ++ spec_ring m ps (events_of tr) s
               | None => fail "history:summary_unparsable"
               end
      | [] => fail "history:summary_unparsable"
      end
  | Some (KSpin scr) =>
      match obs with
      | o :: _ =>
          if is_tag "CRASH" o then crash_tag obs "spin_lock_returns"
          else if is_tag "REJECT" o then []
          else match parse_ssummary obs with
               | Some s => check (forallb (fun e => match e with Some _ => true | None => false end) tr) "history:unparsable"
                           ++ spec_spin (events_of tr) s
               | None => fail "history:summary_unparsable"
               end
      | [] => fail "history:summary_unparsable"
      end
  | None => fail "harness:bad_case"
  end.
