(* C11 - from accepted traces to the theorems: every state an accepted implementation trace passes through is reachable
   in the relational transition system (so all invariants hold along it), the destructor frees exactly what is left, and
   the summary the model derives meets the summary-level clauses of the SPEC (model_meets_spec, per clause). *)
From Coq Require Import List Arith Lia Bool PeanoNat Permutation.
From V Require Import C11.Glue C11.Ring C11.Ghost C11.Proofs C11.Sim C11.SpinProofs.
Import ListNotations.
Local Open Scope nat_scope.

Lemma replay_inv {A} (acc : A -> event -> verdict A) (P : A -> Prop) :
  (forall a e a', P a -> acc a e = Accepted a' -> P a') ->
  forall tr a idx a', P a -> replay_from acc a idx tr = RDone a' -> P a'.
Proof.
  intros Hstep tr. induction tr as [|[e|] tr IH]; intros a idx a' Pa R; cbn in R.
  - now injection R as <-.
  - destruct (acc a e) as [a1| |o] eqn:E; try discriminate. eapply IH; [|exact R]. eapply Hstep; eauto.
  - discriminate.
Qed.

(* ------------------------------------------------------------------------------------------ ring *)
Definition same_ghost (a : rst) (s : st) : Prop :=
  held (core a) = held s /\ got (core a) = got s /\ gh (core a) = gh s /\ cap (core a) = cap s /\ np (core a) = np s.

Definition RP (s0 : st) (a : rst) : Prop :=
  exists s, reachable s0 s /\
    match ph a with
    | Running => core a = s /\ freed a = []
    | Destroying k =>
        all_idle s /\ same_ghost a s /\ k <= cap s /\
        freed a = flat_map (fun j => opt_list (slots s j)) (rev (seq k (cap s - k))) /\
        (forall j, j < k -> slots (core a) j = slots s j)
    | Dead => all_idle s /\ same_ghost a s /\ freed a = destroy_list s
    end.

Lemma rstep_ph a t sp a' o : rstep a t sp = Some (a', o) -> ph a = Running /\ ph a' = Running /\ freed a' = freed a.
Proof.
  unfold rstep. destruct (ph a) eqn:P; try discriminate. intros H. split; [auto|].
  destruct (t <? np (core a)).
  - unfold pstep in H. destruct (prod (core a) t); repeat (match type of H with context [match ?x with _ => _ end] => destruct x end);
      try discriminate; injection H as <- _; cbn; auto.
  - destruct (Nat.eqb t (np (core a))); [|discriminate].
    unfold cstep in H. destruct (csm (core a)); repeat (match type of H with context [match ?x with _ => _ end] => destruct x end);
      try discriminate; injection H as <- _; cbn; auto.
Qed.

Lemma quiescent_idle a : quiescent a = true -> all_idle (core a).
Proof.
  unfold quiescent. intros H. apply andb_true_iff in H. destruct H as [H _]. apply andb_true_iff in H. destruct H as [H _].
  rewrite forallb_forall in H. intros p Hp. specialize (H p). rewrite in_seq in H. specialize (H ltac:(lia)).
  apply andb_true_iff in H. destruct H as [H _]. destruct (prod (core a) p); try discriminate. reflexivity.
Qed.

Lemma RP_step s0 a e a' : RP s0 a -> accept_ring a e = Accepted a' -> RP s0 a'.
Proof.
  intros (s & R & H) Acc. unfold accept_ring in Acc. destruct e as [[|t] o]; cbn [fst snd] in Acc.
  - (* controller: the destructor *)
    destruct (dstep a) as [[a1 o1]|] eqn:D; [|discriminate]. destruct (op_eqb o o1); [|discriminate]. injection Acc as <-.
    unfold dstep in D. destruct (ph a) as [|[|k]|] eqn:P.
    + destruct (quiescent a) eqn:Q; [|discriminate]. injection D as <- _. destruct H as [<- Hf].
      exists (core a). split; [auto|]. cbn [ph core freed].
      split; [now apply quiescent_idle|]. split; [repeat split; reflexivity|]. split; [lia|].
      split; [rewrite Nat.sub_diag; cbn; exact Hf|auto].
    + injection D as <- _. destruct H as (Hi & Hs & _ & Hf & _). exists s. split; [auto|]. cbn [ph core freed].
      split; [auto|]. split; [auto|]. rewrite Hf, Nat.sub_0_r. reflexivity.
    + injection D as <- _. destruct H as (Hi & (S1 & S2 & S3 & S4 & S5) & Hk & Hf & Hsl). exists s. split; [auto|]. cbn [ph core freed].
      split; [auto|]. split; [repeat split; cbn; auto|]. split; [lia|]. split.
      * rewrite Hf. replace (cap s - k) with (S (cap s - S k)) by lia. cbn [seq rev]. rewrite flat_map_app. cbn.
        rewrite app_nil_r. rewrite (Hsl k) by lia. reflexivity.
      * intros j Hj. cbn. unfold upd. destruct (Nat.eqb_spec j k); [lia|]. apply Hsl. lia.
    + discriminate.
  - (* a logical thread *)
    assert (forall sp a1 o1, rstep a t sp = Some (a1, o1) -> RP s0 a1) as K.
    { intros sp a1 o1 St. destruct (rstep_ph _ _ _ _ _ St) as (P0 & P1 & Fr). rewrite P0 in H. destruct H as [<- Hf].
      exists (core a1). split; [|rewrite P1; split; [reflexivity|congruence]].
      eapply R_step; [exact R|]. eapply rstep_is_step; eauto. }
    destruct (rstep a t false) as [[a1 o1]|] eqn:E1; [|discriminate].
    destruct (op_eqb o o1).
    + injection Acc as <-. eapply K; eauto.
    + destruct (rstep a t true) as [[a2 o2]|] eqn:E2; [|discriminate].
      destruct (op_eqb o o2); [|discriminate]. injection Acc as <-. eapply K; eauto.
Qed.

Lemma RP_init m ps ks : RP (init m (length ps)) (ring_init m ps ks).
Proof. exists (init m (length ps)). split; [constructor|]. cbn. auto. Qed.

(* every implementation trace the acceptor accepts stays inside the reachable states of the transition system *)
Theorem accepted_trace_reachable m ps ch tr a :
  replay_ring m ps ch tr = RDone a -> RP (init m (length ps)) a.
Proof. unfold replay_ring. intros H. eapply (replay_inv accept_ring); [apply RP_step|apply RP_init|exact H]. Qed.

Corollary accepted_running_invariants m ps ch tr a : 1 <= m ->
  replay_ring m ps ch tr = RDone a -> ph a = Running -> AllInv (core a).
Proof.
  intros Hm H P. destruct (accepted_trace_reachable _ _ _ _ _ H) as (s & R & K). rewrite P in K. destruct K as [<- _].
  eapply reachable_all; eauto.
Qed.

(* model_meets_spec, summary level: a complete accepted trace ends with nothing alive, everything that was handed to Add
   accounted for exactly once, and every size() snapshot within max_size *)
Theorem model_meets_spec_no_leak m ps ch tr a : 1 <= m ->
  replay_ring m ps ch tr = RDone a -> ph a = Dead ->
  sL (ring_summary a) = 0 /\
  Permutation (given_elts (core a)) (held (core a) ++ got (core a) ++ freed a) /\
  Forall (fun z => z <= m) (sZ (ring_summary a)).
Proof.
  intros Hm H P. destruct (accepted_trace_reachable _ _ _ _ _ H) as (s & R & K). rewrite P in K.
  destruct K as (Hi & (S1 & S2 & S3 & S4 & S5) & Hf).
  destruct (destruction m (length ps) s Hm R Hi) as [_ C].
  assert (Permutation (given_elts (core a)) (held (core a) ++ got (core a) ++ freed a)) as C'.
  { unfold given_elts. rewrite S1, S2, S3, Hf. exact C. }
  split; [|split; [exact C'|]].
  - unfold ring_summary. cbn [sL]. pose proof (Permutation_length C') as L. unfold given_elts in L. rewrite map_length in L. lia.
  - unfold ring_summary. cbn [sZ]. rewrite S3. destruct (bounded m (length ps) s Hm R) as (_ & Z & _).
    apply Forall_rev. exact Z.
Qed.

Corollary model_meets_spec_bounded_size m ps ch tr a : 1 <= m ->
  replay_ring m ps ch tr = RDone a -> ph a = Dead ->
  check (forallb (fun z => z <=? m) (sZ (ring_summary a))) "bounded:size" = [] /\
  check (Nat.eqb (sL (ring_summary a)) 0) "no_leak:alive" = [].
Proof.
  intros Hm H P. destruct (model_meets_spec_no_leak m ps ch tr a Hm H P) as (L & _ & Z).
  split.
  - replace (forallb _ _) with true; [reflexivity|]. symmetry. apply forallb_forall. intros z Hz.
    rewrite Forall_forall in Z. apply Nat.leb_le. auto.
  - rewrite L. reflexivity.
Qed.

(* ------------------------------------------------------------------------------------------ spin lock *)
Theorem accepted_spin_reachable scr tr s : replay_spin scr tr = RDone s -> sreach (spin_init scr) s.
Proof.
  unfold replay_spin. intros H.
  eapply (replay_inv accept_spin (sreach (spin_init scr))); [|constructor|exact H].
  intros a e a' Ra Acc. eapply SR_step; [exact Ra|]. eapply accept_spin_is_step; eauto.
Qed.

(* model_meets_spec for the spin lock's summary clause: M <= 1 on every accepted trace *)
Theorem model_meets_spec_spin_mutex scr tr s : replay_spin scr tr = RDone s ->
  check (maxin s <=? 1) "spin_mutex:max_in_cs" = [].
Proof.
  intros H. destruct (mutex scr s (accepted_spin_reachable _ _ _ H)) as (_ & M & _).
  apply Nat.leb_le in M. rewrite M. reflexivity.
Qed.

(* model_meets_spec for the spin lock's history clauses: on every accepted trace the SPEC's scan of the call/return events
   (at most one holder between the return of lock()/successful try_lock() and the call of unlock(); try_lock true only
   when nobody holds; unlock by the holder) reports nothing *)
Definition in_cs (c : lpc) : bool := match c with CS0 | CS1 | CS2 => true | _ => false end.
Definition scan_ok (s : sst) (h : option nat) : Prop :=
  match h with
  | Some t => in_cs (spc s t) = true
  | None => forall t, in_cs (spc s t) = false
  end.

Lemma in_cs_holder c : in_cs c = true -> holder c = true.
Proof. destruct c; cbn; auto; discriminate. Qed.

Lemma spin_scan_step scr s h t o s' : sreach (spin_init scr) s -> scan_ok s h -> sstep s t = Some (s', o) ->
  exists h', scan_ok s' h' /\ forall r, holder_scan h ((Thr t, o) :: r) = holder_scan h' r.
Proof.
  intros R Hs St. destruct (sreach_inv scr s R) as [U F I0 I1 M].
  assert (OTHER : forall c, in_cs c = in_cs (spc s t) -> forall t', in_cs (upd (spc s) t c t') = in_cs (spc s t')).
  { intros c Hc t'. unfold upd. destruct (Nat.eqb_spec t' t); [subst; auto|auto]. }
  unfold sstep in St. destruct (spc s t) eqn:E.
  all: try (destruct (sscr s t) as [|b rr]; [discriminate|]).
  all: injection St as <- <-.
  all: try destruct b.
  all: destruct (flag s) eqn:Fl.
  all: unfold after_fail; dif.
  (* steps that are not ret lock / ret trylock true / call unlock: the scan state and membership in the critical section stay *)
  all: try (exists h; split;
            [ destruct h as [th|]; cbn [scan_ok spc set_spc xchg_true] in *;
              [ rewrite OTHER; [exact Hs | reflexivity]
              | intros t'; rewrite OTHER; [apply Hs | reflexivity] ]
            | intros r; reflexivity ]; fail).
  (* LAcq: ret lock;  TRet true: ret trylock 1 *)
  all: try (assert (h = None) as -> by
              (destruct h as [th|]; [|reflexivity]; cbn in Hs; pose proof (in_cs_holder _ Hs) as Hh;
               assert (th = t) by (apply U; [auto|rewrite E; reflexivity]); subst; rewrite E in Hs; discriminate);
            exists (Some t); split; [cbn; now rewrite upd_same|reflexivity]; fail).
  (* CS2: call unlock *)
  all: assert (h = Some t) as -> by
         (destruct h as [th|];
          [ cbn in Hs; apply in_cs_holder in Hs; f_equal; apply U; [auto|rewrite E; reflexivity]
          | specialize (Hs t); rewrite E in Hs; discriminate ]).
  all: exists None; split;
       [ intros t'; cbn; unfold upd; destruct (Nat.eqb_spec t' t); [reflexivity|];
         destruct (in_cs (spc s t')) eqn:X; [|reflexivity]; exfalso; apply n; apply U; [now apply in_cs_holder|rewrite E; reflexivity]
       | intros r; cbn; now rewrite Nat.eqb_refl ].
Qed.

Theorem model_meets_spec_spin_history scr tr s : replay_spin scr tr = RDone s ->
  holder_scan None (events_of tr) = [].
Proof.
  unfold replay_spin.
  assert (G : forall tr s0 h idx, sreach (spin_init scr) s0 -> scan_ok s0 h ->
              replay_from accept_spin s0 idx tr = RDone s -> holder_scan h (events_of tr) = []).
  { clear tr. induction tr as [|[e|] tr IH]; intros s0 h idx R Hs Rp; cbn in Rp.
    - reflexivity.
    - destruct (accept_spin s0 e) as [s1| |o] eqn:Acc; try discriminate.
      unfold accept_spin in Acc. destruct e as [[|t] o]; cbn [fst snd] in Acc; [discriminate|].
      destruct (sstep s0 t) as [[s2 o2]|] eqn:St; [|discriminate].
      destruct (op_eqb o o2) eqn:Eo; [|discriminate]. injection Acc as <-.
      assert (o = o2) as ->.
      { clear -Eo. destruct o, o2; cbn in Eo; try discriminate; repeat (apply andb_true_iff in Eo; destruct Eo as [Eo ?]);
          repeat match goal with
                 | H : Nat.eqb _ _ = true |- _ => apply Nat.eqb_eq in H; subst
                 | H : Bool.eqb _ _ = true |- _ => apply Bool.eqb_prop in H; subst
                 | H : obj_eqb ?a ?b = true |- _ => destruct a, b; cbn in H; try discriminate; try (apply Nat.eqb_eq in H; subst)
                 end; reflexivity. }
      destruct (spin_scan_step scr s0 h t o2 s2 R Hs St) as (h' & Hs' & Hr).
      change (events_of (Some (Thr t, o2) :: tr)) with ((Thr t, o2) :: events_of tr). rewrite Hr.
      eapply IH; [|exact Hs'|exact Rp]. eapply SR_step; [exact R|]. exists t, o2. exact St.
    - discriminate. }
  intros H. eapply (G tr (spin_init scr) None 0); [constructor| |exact H]. intros t. reflexivity.
Qed.
