(* C11 - the interleaving transition system of CircularBuffer (relational: any number of producers, any capacity,
   any elements, every interleaving, weak compare-exchange may fail spuriously) and its inductive invariant
   (DESIGN.md Appendix A.1).  [step_preserves_inv], [inv_init], hence [reachable_inv]. *)
From Coq Require Import List Arith Lia Bool PeanoNat.
From V Require Import C11.Model.
Import ListNotations.
Local Open Scope nat_scope.

Inductive step : st -> st -> Prop :=
(* producer p: bool Add(std::unique_ptr<T>& ptr) *)
| S_call s p x : p < np s -> prod s p = PIdle ->
    step s (set_prod s p (PCalled x) (g_call (gh s) p x (tail s)))
| S_tail s p x : prod s p = PCalled x ->
    step s (set_prod s p (PGotTail x (tail s)) (gh s))
| S_head s p x t : prod s p = PGotTail x t ->
    step s (set_prod s p (PGotHead x t (head s)) (gh s))
| S_full s p x t h : prod s p = PGotHead x t h -> cap s - 1 <= h - t ->
    step s (mk (cap s) (slots s) (head s) (tail s) (np s) (upd (prod s) p PIdle) (csm s) (log s) (got s) (x :: held s)
               (g_refuse (gh s) p x t h))
| S_slot_ok s p x t h : prod s p = PGotHead x t h -> h - t < cap s - 1 -> slots s (h mod cap s) = None ->
    step s (mk (cap s) (upd (slots s) (h mod cap s) (Some x)) (head s) (tail s) (np s) (upd (prod s) p (PHold x t h)) (csm s)
               (log s) (got s) (held s) (gh s))
| S_slot_fail s p x t h : prod s p = PGotHead x t h -> h - t < cap s - 1 ->   (* slot non-null, or spurious *)
    step s (set_prod s p (PCalled x) (gh s))
| S_headcas_ok s p x t h : prod s p = PHold x t h -> head s = h ->
    step s (mk (cap s) (slots s) (S h) (tail s) (np s) (upd (prod s) p (PDone x)) (csm s) (log s ++ [x]) (got s) (held s)
               (g_commit (gh s) p))
| S_headcas_fail s p x t h : prod s p = PHold x t h ->                       (* head_ <> h, or spurious *)
    step s (set_prod s p (PUndo x h) (gh s))
| S_undo s p x h y : prod s p = PUndo x h -> slots s (h mod cap s) = Some y ->
    step s (mk (cap s) (upd (slots s) (h mod cap s) None) (head s) (tail s) (np s) (upd (prod s) p (PCalled y)) (csm s)
               (log s) (got s) (held s) (gh s))
| S_ret s p x : prod s p = PDone x ->
    step s (set_prod s p PIdle (g_ret (gh s) p))
(* the consumer: n = size(); Consume(m, callback) with m <= n *)
| S_sz1 s : csm s = CIdle ->
    step s (set_cons s (CSz1 (tail s)) (gh s))
| S_sz2 s t : csm s = CSz1 t ->
    step s (set_cons s (CSz2 t (head s)) (g_size (gh s) (head s - t)))
| S_ccall s t h n : csm s = CSz2 t h -> n <= h - t ->
    step s (set_cons s (CCall n) (gh s))
| S_peek1 s n : csm s = CCall n ->
    step s (set_cons s (CPeek n (tail s)) (gh s))
| S_peek2 s n t : csm s = CPeek n t ->
    step s (set_cons s (CRange t n) (gh s))
| S_adv s t0 n : csm s = CRange t0 n ->
    step s (mk (cap s) (slots s) (head s) (t0 + n) (np s) (prod s) (CClear t0 n 0) (log s) (got s) (held s) (gh s))
| S_clear s t0 n i y : csm s = CClear t0 n i -> i < n -> slots s ((t0 + i) mod cap s) = Some y ->
    step s (mk (cap s) (upd (slots s) ((t0 + i) mod cap s) None) (head s) (tail s) (np s) (prod s) (CClear t0 n (S i))
               (log s) (got s ++ [y]) (held s) (gh s))
| S_cret s t0 n i : csm s = CClear t0 n i -> n <= i ->
    step s (set_cons s CIdle (gh s)).

Inductive reachable (s0 : st) : st -> Prop :=
| R_init : reachable s0 s0
| R_step s s' : reachable s0 s -> step s s' -> reachable s0 s'.

(* lowest position whose slot is still occupied: live positions are [low, head) *)
Definition low (s : st) : nat :=
  match csm s with CClear t0 n i => t0 + i | _ => tail s end.

Definition own_of (c : ppc) : option (elt * nat) :=
  match c with PHold x _ h => Some (x, h) | PUndo x h => Some (x, h) | _ => None end.
Definition owns (s : st) (p : nat) (k : nat) (x : elt) : Prop :=
  exists h, own_of (prod s p) = Some (x, h) /\ k = h mod cap s.

Definition stale_ok (s : st) (c : ppc) : Prop :=
  match c with
  | PGotTail _ t => t <= tail s
  | PGotHead _ t h => t <= tail s /\ h <= head s
  | PHold _ t h => t <= tail s /\ h <= head s /\ h - t < cap s - 1
  | PUndo _ h => h <= head s
  | PIdle | PCalled _ | PDone _ => True
  end.

Definition cons_ok (s : st) (c : cpc) : Prop :=
  match c with
  | CIdle => True
  | CSz1 t => t = tail s
  | CSz2 t h => t = tail s /\ h <= head s
  | CCall n => n <= head s - tail s
  | CPeek n t => t = tail s /\ n <= head s - tail s
  | CRange t0 n => t0 = tail s /\ t0 + n <= head s
  | CClear t0 n i => tail s = t0 + n /\ i <= n
  end.

Record Inv (s : st) : Prop := {
  I_cap : 2 <= cap s;
  I_len : length (log s) = head s;
  I_low : low s <= tail s <= head s;
  I_bound : head s - tail s <= cap s - 1 /\ head s - low s <= cap s;
  I_cons : cons_ok s (csm s);
  I_live : forall q, low s <= q < head s -> slots s (q mod cap s) = nth_error (log s) q;
  I_own : forall p k x, owns s p k x -> slots s k = Some x /\
            (forall q, low s <= q < head s -> q mod cap s <> k) /\
            (forall p' x', owns s p' k x' -> p' = p);
  I_null : forall k, k < cap s -> (forall q, low s <= q < head s -> q mod cap s <> k) ->
            (forall p x, ~ owns s p k x) -> slots s k = None;
  I_stale : forall p, stale_ok s (prod s p);
  I_got : got s = firstn (low s) (log s)
}.

Lemma mod_distinct a b c : a < b -> b - a < c -> a mod c <> b mod c.
Proof.
  intros Hab Hc E.
  assert (c <> 0) by lia.
  pose proof (Nat.div_mod a c H). pose proof (Nat.div_mod b c H).
  pose proof (Nat.mod_upper_bound a c H). pose proof (Nat.mod_upper_bound b c H).
  assert (b / c > a / c \/ b / c = a / c \/ b / c < a / c) as [G|[G|G]] by lia.
  - assert (c * (b / c) >= c * (a / c) + c) by nia. lia.
  - rewrite G in *. lia.
  - assert (c * (a / c) >= c * (b / c) + c) by nia. lia.
Qed.

Lemma mod_distinct' a b c : a <> b -> a - b < c -> b - a < c -> a mod c <> b mod c.
Proof.
  intros. destruct (Nat.lt_ge_cases a b).
  - apply mod_distinct; lia.
  - intro E. symmetry in E. revert E. apply mod_distinct; lia.
Qed.

Lemma upd_same {A} (f:nat->A) k v : upd f k v k = v.
Proof. unfold upd. now rewrite Nat.eqb_refl. Qed.
Lemma upd_other {A} (f:nat->A) k v j : j <> k -> upd f k v j = f j.
Proof. unfold upd. intros. destruct (Nat.eqb_spec j k); congruence. Qed.

Ltac inv_fields H := destruct H as [Hcap Hlen Hlow Hbound Hcons Hlive Hown Hnull Hstale Hgot].

Lemma owns_upd_prod s s' p c :
  cap s' = cap s -> prod s' = upd (prod s) p c ->
  forall p' k x, owns s' p' k x <->
    (p' <> p /\ owns s p' k x) \/ (p' = p /\ exists h, own_of c = Some (x,h) /\ k = h mod cap s).
Proof.
  intros Hc Hp p' k x. unfold owns. rewrite Hc, Hp.
  destruct (Nat.eq_dec p' p) as [->|Hne].
  - rewrite upd_same. split.
    + intros (h & E & K). right. split; auto. eauto.
    + intros [[C _]|[_ (h & E & K)]]; [congruence|eauto].
  - rewrite upd_other by auto. split.
    + intros (h & E & K). left. split; auto. eauto.
    + intros [[_ (h & E & K)]|[C _]]; [eauto|congruence].
Qed.

(* Steps that only change a producer's pc to a non-owning pc, from a non-owning pc *)
Lemma inv_prod_nonown s p c g :
  Inv s -> own_of (prod s p) = None -> own_of c = None ->
  stale_ok s c ->
  Inv (set_prod s p c g).
Proof.
  intros H Hn Hc Hst. inv_fields H.
  assert (Ho := owns_upd_prod s (set_prod s p c g) p c eq_refl eq_refl).
  constructor; cbn; auto.
  - intros p' k x O. apply Ho in O. destruct O as [[Hne O]|[-> (h & E & _)]]; [|congruence].
    destruct (Hown _ _ _ O) as (A & B & C). split; [auto|split; [auto|]].
    intros p'' x' O'. apply Ho in O'. destruct O' as [[Hne' O']|[-> (h & E & _)]]; [|congruence].
    eauto.
  - intros k Hk Hq Hno. apply Hnull; auto.
    intros p' x O. destruct (Nat.eq_dec p' p) as [->|Hne].
    + destruct O as (h & E & _). congruence.
    + apply (Hno p' x). apply Ho. left; auto.
  - intros p'. unfold upd. destruct (Nat.eqb_spec p' p); [subst; auto|apply Hstale].
Qed.

Lemma add_mod_same a c : c <> 0 -> (a + c) mod c = a mod c.
Proof. intros. replace (a + c) with (a + 1 * c) by lia. now rewrite Nat.mod_add. Qed.

Lemma live_some s q : Inv s -> low s <= q < head s -> exists y, slots s (q mod cap s) = Some y /\ nth_error (log s) q = Some y.
Proof.
  intros H Hq. inv_fields H. rewrite (Hlive q Hq).
  destruct (nth_error (log s) q) eqn:E; eauto.
  apply nth_error_None in E. lia.
Qed.

Lemma inv_slot_ok s p x t h g :
  Inv s -> prod s p = PGotHead x t h -> h - t < cap s - 1 -> slots s (h mod cap s) = None ->
  Inv (mk (cap s) (upd (slots s) (h mod cap s) (Some x)) (head s) (tail s) (np s) (upd (prod s) p (PHold x t h)) (csm s) (log s) (got s) (held s) g).
Proof.
  intros H Hp Hft Hnone. pose proof H as H0. inv_fields H.
  set (k0 := h mod cap s) in *.
  set (s' := mk _ _ _ _ _ _ _ _ _ _ _).
  assert (Ho := owns_upd_prod s s' p (PHold x t h) eq_refl eq_refl).
  assert (Hlk : forall q, low s <= q < head s -> q mod cap s <> k0).
  { intros q Hq E. destruct (live_some s q H0 Hq) as (y & A & _). rewrite E in A. congruence. }
  assert (Hst := Hstale p). rewrite Hp in Hst. cbn in Hst.
  constructor; cbn -[Nat.modulo]; auto.
  - intros q Hq. rewrite upd_other by (apply Hlk; auto). auto.
  - intros p' k x0 O. apply Ho in O. destruct O as [[Hne O]|[-> (h' & E & K)]].
    + destruct (Hown _ _ _ O) as (A & B & C).
      assert (Hk0 : k <> k0) by (intro; subst k; congruence).
      rewrite upd_other by auto. split; [auto|split; [auto|]].
      intros p'' x' O'. apply Ho in O'. destruct O' as [[Hne' O']|[-> (h'' & E' & K')]]; [eauto|].
      cbn in E'. inversion E'; subst h'' x'. exfalso. apply Hk0. exact K'.
    + cbn in E. inversion E; subst h' x0. fold k0 in K. subst k. rewrite upd_same.
      split; [auto|split; [auto|]].
      intros p'' x' O'. apply Ho in O'. destruct O' as [[Hne' O']|[-> _]]; [|auto].
      destruct (Hown _ _ _ O') as (A & _). congruence.
  - intros k Hk Hq Hno.
    assert (k <> k0).
    { intro; subst k. apply (Hno p x). apply Ho. right. split; auto. exists h. auto. }
    rewrite upd_other by auto. apply Hnull; auto.
    intros p' x' O. destruct (Nat.eq_dec p' p) as [->|Hne].
    + destruct O as (h' & E & _). rewrite Hp in E. discriminate.
    + apply (Hno p' x'). apply Ho. auto.
  - intros p'. unfold upd. destruct (Nat.eqb_spec p' p); [subst; cbn; lia|apply Hstale].
Qed.

Lemma inv_headcas_ok s p x t h g :
  Inv s -> prod s p = PHold x t h -> head s = h ->
  Inv (mk (cap s) (slots s) (S h) (tail s) (np s) (upd (prod s) p (PDone x)) (csm s) (log s ++ [x]) (got s) (held s) g).
Proof.
  intros H Hp Hh. pose proof H as H0. inv_fields H.
  set (k0 := h mod cap s) in *.
  set (s' := mk _ _ _ _ _ _ _ _ _ _ _).
  assert (Ho := owns_upd_prod s s' p (PDone x) eq_refl eq_refl).
  assert (Op : owns s p k0 x) by (exists h; rewrite Hp; auto).
  destruct (Hown _ _ _ Op) as (Sp & Lp & Up).
  assert (Hst := Hstale p). rewrite Hp in Hst. cbn in Hst.
  assert (Hlt : h - low s < cap s).
  { destruct (Nat.lt_ge_cases (h - low s) (cap s)); auto.
    assert (h = low s + cap s) by lia.
    exfalso. apply (Lp (low s)); [lia|]. unfold k0. rewrite H1. now rewrite add_mod_same by lia. }
  assert (low s' = low s) by reflexivity.
  constructor; cbn -[Nat.modulo]; auto.
  - rewrite app_length. cbn. lia.
  - change (low s' <= tail s <= S h). lia.
  - change (S h - tail s <= cap s - 1 /\ S h - low s' <= cap s). lia.
  - revert Hcons. unfold cons_ok. destruct (csm s); cbn -[Nat.sub]; lia.
  - change (forall q, low s' <= q < S h -> slots s (q mod cap s) = nth_error (log s ++ [x]) q).
    intros q Hq. destruct (Nat.eq_dec q h) as [->|Hne].
    + fold k0. rewrite Sp. rewrite nth_error_app2 by lia. rewrite Hlen, Hh, Nat.sub_diag. reflexivity.
    + rewrite nth_error_app1 by lia. apply Hlive. lia.
  - change (forall p0 k x0, owns s' p0 k x0 -> slots s k = Some x0 /\ (forall q, low s' <= q < S h -> q mod cap s <> k) /\ (forall p' x', owns s' p' k x' -> p' = p0)).
    intros p' k x0 O. apply Ho in O. destruct O as [[Hne O]|[-> (h' & E & _)]]; [|discriminate].
    destruct (Hown _ _ _ O) as (A & B & C). split; [auto|split].
    + intros q Hq. destruct (Nat.eq_dec q h) as [->|Hq'].
      * fold k0. intro; subst k. apply Hne. eapply Up; eauto.
      * apply B. lia.
    + intros p'' x' O'. apply Ho in O'. destruct O' as [[_ O']|[-> (h'' & E' & _)]]; [eauto|discriminate].
  - change (forall k, k < cap s -> (forall q, low s' <= q < S h -> q mod cap s <> k) -> (forall p0 x0, ~ owns s' p0 k x0) -> slots s k = None).
    intros k Hk Hq Hno.
    assert (k <> k0) by (intro; subst k; apply (Hq h); [lia|reflexivity]).
    apply Hnull; auto.
    + intros q Hq'. apply Hq. lia.
    + intros p' x' O. destruct (Nat.eq_dec p' p) as [->|Hne].
      * destruct O as (h' & E & K). rewrite Hp in E. inversion E; subst. auto.
      * apply (Hno p' x'). apply Ho. auto.
  - intros p'. unfold upd. destruct (Nat.eqb_spec p' p); [subst; exact I|].
    specialize (Hstale p'). revert Hstale. unfold stale_ok. destruct (prod s p'); cbn -[Nat.sub]; auto; lia.
  - change (got s = firstn (low s') (log s ++ [x])). rewrite firstn_app.
    replace (low s' - length (log s)) with 0 by lia. cbn. now rewrite app_nil_r.
Qed.

Lemma inv_undo s p x h y g :
  Inv s -> prod s p = PUndo x h -> slots s (h mod cap s) = Some y ->
  y = x /\
  Inv (mk (cap s) (upd (slots s) (h mod cap s) None) (head s) (tail s) (np s) (upd (prod s) p (PCalled y)) (csm s) (log s) (got s) (held s) g).
Proof.
  intros H Hp Hy. pose proof H as H0. inv_fields H.
  set (k0 := h mod cap s) in *.
  assert (Op : owns s p k0 x) by (exists h; rewrite Hp; auto).
  destruct (Hown _ _ _ Op) as (Sp & Lp & Up).
  split; [congruence|].
  set (s' := mk _ _ _ _ _ _ _ _ _ _ _).
  assert (Ho := owns_upd_prod s s' p (PCalled y) eq_refl eq_refl).
  constructor; cbn -[Nat.modulo]; auto.
  - intros q Hq. rewrite upd_other by (apply Lp; auto). auto.
  - intros p' k x0 O. apply Ho in O. destruct O as [[Hne O]|[-> (h' & E & _)]]; [|discriminate].
    destruct (Hown _ _ _ O) as (A & B & C).
    assert (k <> k0) by (intro; subst k; apply Hne; eapply Up; eauto).
    rewrite upd_other by auto. split; [auto|split; [auto|]].
    intros p'' x' O'. apply Ho in O'. destruct O' as [[_ O']|[-> (h'' & E' & _)]]; [eauto|discriminate].
  - intros k Hk Hq Hno. destruct (Nat.eq_dec k k0) as [->|Hne]; [now rewrite upd_same|].
    rewrite upd_other by auto. apply Hnull; auto.
    intros p' x' O. destruct (Nat.eq_dec p' p) as [->|Hne'].
    + destruct O as (h' & E & K). rewrite Hp in E. inversion E; subst. auto.
    + apply (Hno p' x'). apply Ho. auto.
  - intros p'. unfold upd. destruct (Nat.eqb_spec p' p); [subst; exact I|apply Hstale].
Qed.

Lemma inv_adv s t0 n g :
  Inv s -> csm s = CRange t0 n ->
  Inv (mk (cap s) (slots s) (head s) (t0 + n) (np s) (prod s) (CClear t0 n 0) (log s) (got s) (held s) g).
Proof.
  intros H Hc. inv_fields H. rewrite Hc in Hcons. destruct Hcons as [-> Hn].
  assert (L : low s = tail s) by (unfold low; now rewrite Hc).
  set (s' := mk _ _ _ _ _ _ _ _ _ _ _).
  assert (L' : low s' = low s) by (cbn; lia).
  constructor; cbn -[Nat.modulo low]; try rewrite L'; auto; try lia.
  all: try (cbn; lia).
  intros p. specialize (Hstale p). revert Hstale. unfold stale_ok. destruct (prod s p); cbn -[Nat.sub]; auto; lia.
Qed.

Lemma firstn_S_nth {A} (l:list A) n y : nth_error l n = Some y -> firstn (S n) l = firstn n l ++ [y].
Proof.
  revert n. induction l as [|a l IH]; intros [|n] E; cbn in *; try discriminate.
  - now inversion E.
  - f_equal. auto.
Qed.

Lemma inv_clear s t0 n i y g :
  Inv s -> csm s = CClear t0 n i -> i < n -> slots s ((t0+i) mod cap s) = Some y ->
  Inv (mk (cap s) (upd (slots s) ((t0+i) mod cap s) None) (head s) (tail s) (np s) (prod s) (CClear t0 n (S i)) (log s) (got s ++ [y]) (held s) g).
Proof.
  intros H Hc Hi Hy. pose proof H as H0. inv_fields H. rewrite Hc in Hcons. destruct Hcons as [Ht Hin].
  assert (L : low s = t0 + i) by (unfold low; now rewrite Hc).
  set (k0 := (t0+i) mod cap s) in *.
  set (s' := mk _ _ _ _ _ _ _ _ _ _ _).
  assert (L' : low s' = S (low s)) by (cbn; lia).
  assert (Hd : forall q, S (low s) <= q < head s -> q mod cap s <> k0).
  { intros q Hq. unfold k0. rewrite <- L. intro E. symmetry in E. revert E. apply mod_distinct; lia. }
  assert (Ho : forall p k x, owns s' p k x <-> owns s p k x) by (intros; reflexivity).
  constructor; cbn -[Nat.modulo low]; try rewrite L'; auto; try lia.
  all: try (cbn; lia).
  - intros q Hq. rewrite upd_other by (apply Hd; auto). apply Hlive. lia.
  - intros p k x O. apply Ho in O. destruct (Hown _ _ _ O) as (A & B & C).
    assert (k <> k0). { intro; subst k. apply (B (low s)); [lia|]. now rewrite L. }
    rewrite upd_other by auto. split; [auto|split].
    + intros q Hq. apply B. lia.
    + intros p' x' O'. apply Ho in O'. eauto.
  - intros k Hk Hq Hno. destruct (Nat.eq_dec k k0) as [->|Hne]; [now rewrite upd_same|].
    rewrite upd_other by auto. apply Hnull; auto.
    intros q Hq'. destruct (Nat.eq_dec q (low s)) as [->|Hq''].
    + rewrite L. fold k0. auto.
    + apply Hq. lia.
  - destruct (live_some s (low s) H0 ltac:(lia)) as (y' & A & B).
    rewrite L in A. fold k0 in A. assert (y' = y) by congruence. subst y'.
    rewrite (firstn_S_nth _ _ _ B). now rewrite Hgot.
Qed.

Definition low_with (s : st) (c : cpc) : nat := match c with CClear t0 n i => t0 + i | _ => tail s end.

Lemma inv_cons_only s c g :
  Inv s -> cons_ok s c -> low_with s c = low s ->
  Inv (set_cons s c g).
Proof.
  intros H Hc HL. inv_fields H.
  set (s' := set_cons s c g).
  assert (L' : low s' = low s) by exact HL.
  constructor; cbn -[Nat.modulo low]; try rewrite L'; auto.
Qed.

Lemma inv_held s l g : Inv s -> Inv (mk (cap s) (slots s) (head s) (tail s) (np s) (prod s) (csm s) (log s) (got s) l g).
Proof. intros H. inv_fields H. constructor; auto. Qed.

Lemma inv_hold_to_undo s p x t h g :
  Inv s -> prod s p = PHold x t h -> Inv (set_prod s p (PUndo x h) g).
Proof.
  intros H Hp. inv_fields H.
  assert (Ho : forall p' k x', owns (set_prod s p (PUndo x h) g) p' k x' <-> owns s p' k x').
  { intros p' k x'. unfold owns; cbn. unfold upd. destruct (Nat.eqb_spec p' p); [subst; rewrite Hp; cbn|]; reflexivity. }
  constructor; cbn; auto.
  - intros p' k x' O. apply Ho in O. destruct (Hown _ _ _ O) as (A & B & C). split; [auto|split; [auto|]].
    intros p'' x'' O'. apply Ho in O'. eauto.
  - intros k Hk Hq Hno. apply Hnull; auto. intros p' x' O. apply (Hno p' x'). now apply Ho.
  - intros p'. unfold upd. destruct (Nat.eqb_spec p' p); [subst|apply Hstale].
    specialize (Hstale p). rewrite Hp in Hstale. cbn in *. lia.
Qed.


Theorem step_preserves_inv s s' : Inv s -> step s s' -> Inv s'.
Proof.
  intros H St. destruct St as
    [s p x Hnp Hp | s p x Hp | s p x t Hp | s p x t h Hp Hf | s p x t h Hp Hf Hn | s p x t h Hp Hf
    | s p x t h Hp Hh | s p x t h Hp | s p x h y Hp Hy | s p x Hp
    | s Hc | s t Hc | s t h n Hc Hn | s n Hc | s n t Hc | s t0 n Hc | s t0 n i y Hc Hi Hy | s t0 n i Hc Hi].
  - apply inv_prod_nonown; [assumption|now rewrite Hp|reflexivity|exact I].
  - apply inv_prod_nonown; [assumption|now rewrite Hp|reflexivity|cbn; lia].
  - pose proof (I_stale s H p) as Hs. rewrite Hp in Hs. cbn in Hs.
    apply inv_prod_nonown; [assumption|now rewrite Hp|reflexivity|cbn; lia].
  - apply (inv_held (set_prod s p PIdle (gh s))).
    apply inv_prod_nonown; [assumption|now rewrite Hp|reflexivity|exact I].
  - eapply inv_slot_ok; eauto.
  - apply inv_prod_nonown; [assumption|now rewrite Hp|reflexivity|exact I].
  - eapply inv_headcas_ok; eauto.
  - eapply inv_hold_to_undo; eauto.
  - eapply inv_undo; eauto.
  - apply inv_prod_nonown; [assumption|now rewrite Hp|reflexivity|exact I].
  - apply inv_cons_only; [assumption|reflexivity|unfold low; now rewrite Hc].
  - pose proof (I_cons s H) as C. rewrite Hc in C. cbn in C. pose proof (I_low s H).
    apply inv_cons_only; [assumption|cbn; lia|unfold low; now rewrite Hc].
  - pose proof (I_cons s H) as C. rewrite Hc in C. cbn in C.
    apply inv_cons_only; [assumption|cbn; lia|unfold low; now rewrite Hc].
  - pose proof (I_cons s H) as C. rewrite Hc in C. cbn in C.
    apply inv_cons_only; [assumption|cbn; lia|unfold low; now rewrite Hc].
  - pose proof (I_cons s H) as C. rewrite Hc in C. cbn in C. pose proof (I_low s H).
    apply inv_cons_only; [assumption|cbn; lia|unfold low; now rewrite Hc].
  - now apply inv_adv.
  - now apply inv_clear.
  - pose proof (I_cons s H) as C. rewrite Hc in C. cbn in C.
    apply inv_cons_only; [assumption|exact I|unfold low; rewrite Hc; cbn; lia].
Qed.

Lemma inv_init m n : 1 <= m -> Inv (init m n).
Proof.
  intros Hm. constructor; cbn; auto; try lia.
  intros p k x (h & E & _). discriminate.
Qed.

Theorem reachable_inv s0 s : Inv s0 -> reachable s0 s -> Inv s.
Proof. intros H0 R. induction R; auto. eapply step_preserves_inv; eauto. Qed.

Lemma got_is_prefix s : Inv s -> exists rest, log s = got s ++ rest.
Proof. intros H. exists (skipn (low s) (log s)). rewrite (I_got s H). symmetry. apply firstn_skipn. Qed.
