(* C11 - the ghost invariants on top of Ring.Inv: conservation of elements (logical and physical), legitimacy of
   refused Adds (counting form), per-producer order, results of Add vs. the commit log. *)
From Coq Require Import List Arith Lia Bool PeanoNat Permutation.
From V Require Import C11.Model C11.Ring.
Import ListNotations.
Local Open Scope nat_scope.

(* ------------------------------------------------------------------------------------------ gather *)
Definition gather {A} (f : nat -> list A) (n : nat) : list A := flat_map f (seq 0 n).

Lemma flat_map_ext_in {A B} (f g : A -> list B) l : (forall x, In x l -> f x = g x) -> flat_map f l = flat_map g l.
Proof. induction l as [|a l IH]; intros H; cbn; [reflexivity|]. rewrite H by (left; reflexivity). rewrite IH; auto. intros; apply H; right; auto. Qed.

Lemma gather_ext {A} (f g : nat -> list A) n : (forall k, k < n -> f k = g k) -> gather f n = gather g n.
Proof. intros H. apply flat_map_ext_in. intros x Hx. apply in_seq in Hx. apply H. lia. Qed.

Lemma gather_split {A} (f : nat -> list A) n k : k < n ->
  gather f n = flat_map f (seq 0 k) ++ f k ++ flat_map f (seq (S k) (n - S k)).
Proof.
  intros Hk. unfold gather. replace n with (k + S (n - S k)) at 1 by lia.
  rewrite seq_app, flat_map_app. cbn. reflexivity.
Qed.

Lemma gather_upd {A} (f : nat -> list A) n k v : k < n ->
  gather (upd f k v) n = flat_map f (seq 0 k) ++ v ++ flat_map f (seq (S k) (n - S k)).
Proof.
  intros Hk. rewrite (gather_split _ n k Hk). rewrite upd_same. f_equal; [|f_equal].
  - apply flat_map_ext_in. intros x Hx. apply in_seq in Hx. apply upd_other. lia.
  - apply flat_map_ext_in. intros x Hx. apply in_seq in Hx. apply upd_other. lia.
Qed.

Lemma gather_upd_perm {A} (f : nat -> list A) n k v : k < n ->
  Permutation (gather (upd f k v) n ++ f k) (gather f n ++ v).
Proof.
  intros Hk. rewrite gather_upd, (gather_split f n k) by auto.
  set (a := flat_map f (seq 0 k)). set (b := flat_map f (seq (S k) (n - S k))).
  rewrite <- !app_assoc. apply Permutation_app_head.
  rewrite (Permutation_app_comm v (b ++ f k)). rewrite <- app_assoc.
  rewrite (Permutation_app_comm (f k) (b ++ v)). rewrite <- app_assoc.
  apply Permutation_app_head. apply Permutation_app_comm.
Qed.

Lemma gather_in {A} (f : nat -> list A) n k x : k < n -> In x (f k) -> In x (gather f n).
Proof. intros Hk Hx. unfold gather. apply in_flat_map. exists k. split; auto. apply in_seq. lia. Qed.

(* composing a function with upd *)
Lemma gather_upd_map {A B} (h : B -> list A) (f : nat -> B) n k v : k < n ->
  Permutation (gather (fun j => h (upd f k v j)) n ++ h (f k)) (gather (fun j => h (f j)) n ++ h v).
Proof.
  intros Hk. rewrite (gather_ext (fun j => h (upd f k v j)) (upd (fun j => h (f j)) k (h v))).
  - apply (gather_upd_perm (fun j => h (f j))). auto.
  - intros j _. unfold upd. destruct (Nat.eqb j k); reflexivity.
Qed.

(* a small multiset solver: Permutation goals over ++ and singletons, from Permutation hypotheses *)
Ltac perm_solve :=
  repeat match goal with H : Permutation _ _ |- _ => rewrite (Permutation_count_occ Nat.eq_dec) in H end;
  apply (Permutation_count_occ Nat.eq_dec);
  let z := fresh "z" in intro z;
  repeat match goal with H : forall x : nat, count_occ _ _ x = count_occ _ _ x |- _ => specialize (H z) end;
  repeat rewrite count_occ_app in *; cbn [count_occ] in *;
  repeat match goal with
         | |- context [Nat.eq_dec ?a z] => destruct (Nat.eq_dec a z)
         | H : context [Nat.eq_dec ?a z] |- _ => destruct (Nat.eq_dec a z)
         end; unfold elt in *; try lia.

(* ------------------------------------------------------------------------------------------ element multisets *)
(* the element a producer's call still carries: handed to Add, neither committed to the log nor returned *)
Definition pcl (c : ppc) : list elt :=
  match c with
  | PCalled x | PGotTail x _ | PGotHead x _ _ | PHold x _ _ | PUndo x _ => [x]
  | PIdle | PDone _ => []
  end.
Definition ownl (c : ppc) : list elt := match c with PHold x _ _ | PUndo x _ => [x] | _ => [] end.

Definition active_elts (s : st) : list elt := gather (fun p => pcl (prod s p)) (np s).
Definition owned_elts (s : st) : list elt := gather (fun p => ownl (prod s p)) (np s).
Definition slot_elts (s : st) : list elt := gather (fun k => opt_list (slots s k)) (cap s).
Definition given_elts (s : st) : list elt := map snd (given (gh s)).

(* GA: conservation at the level of calls:  handed to Add = returned to callers + committed + still inside a call *)
Record GA (s : st) : Prop := {
  A_np : forall p, np s <= p -> prod s p = PIdle;
  A_cons : Permutation (given_elts s) (held s ++ log s ++ active_elts s)
}.

Lemma active_lt s p : GA s -> prod s p <> PIdle -> p < np s.
Proof. intros G H. destruct (Nat.lt_ge_cases p (np s)); auto. exfalso. apply H. now apply (A_np s G). Qed.

Lemma act_upd s p c : p < np s ->
  Permutation (gather (fun j => pcl (upd (prod s) p c j)) (np s) ++ pcl (prod s p)) (active_elts s ++ pcl c).
Proof. intros. now apply (gather_upd_map pcl). Qed.
Lemma own_upd s p c : p < np s ->
  Permutation (gather (fun j => ownl (upd (prod s) p c j)) (np s) ++ ownl (prod s p)) (owned_elts s ++ ownl c).
Proof. intros. now apply (gather_upd_map ownl). Qed.
Lemma slot_upd s k v : k < cap s ->
  Permutation (gather (fun j => opt_list (upd (slots s) k v j)) (cap s) ++ opt_list (slots s k)) (slot_elts s ++ opt_list v).
Proof. intros. now apply (gather_upd_map (@opt_list elt)). Qed.

Lemma GA_np_upd s p c : GA s -> (np s <= p -> c = PIdle) -> forall p', np s <= p' -> upd (prod s) p c p' = PIdle.
Proof.
  intros G Hc p' Hp'. unfold upd. destruct (Nat.eqb_spec p' p); [subst; auto|]. now apply (A_np s G).
Qed.

Theorem GA_step s s' : Inv s -> GA s -> step s s' -> GA s'.
Proof.
  intros HI G St. pose proof (A_cons s G) as C. unfold given_elts in C.
  destruct St as
    [s p x Hnp Hp | s p x Hp | s p x t Hp | s p x t h Hp Hf | s p x t h Hp Hf Hn | s p x t h Hp Hf
    | s p x t h Hp Hh | s p x t h Hp | s p x h y Hp Hy | s p x Hp
    | s Hc | s t Hc | s t h n Hc Hn | s n Hc | s n t Hc | s t0 n Hc | s t0 n i y Hc Hi Hy | s t0 n i Hc Hi].
  all: try (assert (Hlt : p < np s) by (first [assumption | apply (active_lt s p G); rewrite Hp; discriminate]);
            pose proof (act_upd s p) as AU).
  all: constructor; unfold given_elts, active_elts; cbn [np prod held log gh set_prod set_cons given g_call g_refuse g_commit g_ret g_size].
  all: try (apply GA_np_upd; [assumption | intros; lia]).
  all: try (exact (A_np s G)).
  all: try exact C.
  - specialize (AU (PCalled x) Hlt). rewrite Hp in AU. cbn [pcl] in AU. rewrite map_app. cbn [map snd]. perm_solve.
  - specialize (AU (PGotTail x (tail s)) Hlt). rewrite Hp in AU. cbn [pcl] in AU. perm_solve.
  - specialize (AU (PGotHead x t (head s)) Hlt). rewrite Hp in AU. cbn [pcl] in AU. perm_solve.
  - specialize (AU PIdle Hlt). rewrite Hp in AU. cbn [pcl] in AU. perm_solve.
  - specialize (AU (PHold x t h) Hlt). rewrite Hp in AU. cbn [pcl] in AU. perm_solve.
  - specialize (AU (PCalled x) Hlt). rewrite Hp in AU. cbn [pcl] in AU. perm_solve.
  - specialize (AU (PDone x) Hlt). rewrite Hp in AU. cbn [pcl] in AU. perm_solve.
  - specialize (AU (PUndo x h) Hlt). rewrite Hp in AU. cbn [pcl] in AU. perm_solve.
  - destruct (inv_undo s p x h y (gh s) HI Hp Hy) as [-> _].
    specialize (AU (PCalled x) Hlt). rewrite Hp in AU. cbn [pcl] in AU. perm_solve.
  - specialize (AU PIdle Hlt). rewrite Hp in AU. cbn [pcl] in AU. perm_solve.
Qed.

(* GB: physical conservation: what the slots hold = committed and not yet taken out + what producers have parked *)
Definition GB (s : st) : Prop := Permutation (slot_elts s) (skipn (low s) (log s) ++ owned_elts s).

Lemma skipn_S_nth {A} (l : list A) n y : nth_error l n = Some y -> skipn n l = y :: skipn (S n) l.
Proof.
  revert n. induction l as [|a l IH]; intros [|n] E; cbn in *; try discriminate.
  - now inversion E.
  - now apply IH.
Qed.

Lemma mod_lt_cap s k : Inv s -> k mod cap s < cap s.
Proof. intros H. apply Nat.mod_upper_bound. pose proof (I_cap s H). lia. Qed.

Theorem GB_step s s' : Inv s -> GA s -> GB s -> step s s' -> GB s'.
Proof.
  intros HI G B St. unfold GB in *.
  destruct St as
    [s p x Hnp Hp | s p x Hp | s p x t Hp | s p x t h Hp Hf | s p x t h Hp Hf Hn | s p x t h Hp Hf
    | s p x t h Hp Hh | s p x t h Hp | s p x h y Hp Hy | s p x Hp
    | s Hc | s t Hc | s t h n Hc Hn | s n Hc | s n t Hc | s t0 n Hc | s t0 n i y Hc Hi Hy | s t0 n i Hc Hi].
  all: try (assert (Hlt : p < np s) by (first [assumption | apply (active_lt s p G); rewrite Hp; discriminate]);
            pose proof (own_upd s p) as OU).
  all: unfold slot_elts, owned_elts, low in *; cbn [np prod cap slots csm log tail set_prod set_cons] in *.
  - specialize (OU (PCalled x) Hlt). rewrite Hp in OU. cbn [ownl] in OU. perm_solve.
  - specialize (OU (PGotTail x (tail s)) Hlt). rewrite Hp in OU. cbn [ownl] in OU. perm_solve.
  - specialize (OU (PGotHead x t (head s)) Hlt). rewrite Hp in OU. cbn [ownl] in OU. perm_solve.
  - specialize (OU PIdle Hlt). rewrite Hp in OU. cbn [ownl] in OU. perm_solve.
  - specialize (OU (PHold x t h) Hlt). rewrite Hp in OU. cbn [ownl] in OU.
    pose proof (slot_upd s (h mod cap s) (Some x) (mod_lt_cap s h HI)) as SU. rewrite Hn in SU. cbn [opt_list] in SU.
    unfold slot_elts in SU. perm_solve.
  - specialize (OU (PCalled x) Hlt). rewrite Hp in OU. cbn [ownl] in OU. perm_solve.
  - specialize (OU (PDone x) Hlt). rewrite Hp in OU. cbn [ownl] in OU.
    assert (E : skipn (match csm s with CClear t0 _ i => t0 + i | _ => tail s end) (log s ++ [x])
                = skipn (match csm s with CClear t0 _ i => t0 + i | _ => tail s end) (log s) ++ [x]).
    { rewrite skipn_app. f_equal. pose proof (I_low s HI) as L. pose proof (I_len s HI). unfold low in L.
      replace (_ - length (log s)) with 0 by lia. reflexivity. }
    rewrite E. perm_solve.
  - specialize (OU (PUndo x h) Hlt). rewrite Hp in OU. cbn [ownl] in OU. perm_solve.
  - destruct (inv_undo s p x h y (gh s) HI Hp Hy) as [-> _].
    specialize (OU (PCalled x) Hlt). rewrite Hp in OU. cbn [ownl] in OU.
    pose proof (slot_upd s (h mod cap s) None (mod_lt_cap s h HI)) as SU. rewrite Hy in SU. cbn [opt_list] in SU.
    unfold slot_elts in SU. perm_solve.
  - specialize (OU PIdle Hlt). rewrite Hp in OU. cbn [ownl] in OU. perm_solve.
  - rewrite Hc in B. exact B.
  - rewrite Hc in B. exact B.
  - rewrite Hc in B. exact B.
  - rewrite Hc in B. exact B.
  - rewrite Hc in B. exact B.
  - rewrite Hc in B. pose proof (I_cons s HI) as C. rewrite Hc in C. cbn in C. destruct C as [-> _].
    rewrite Nat.add_0_r. exact B.
  - rewrite Hc in B. 
    destruct (live_some s (t0 + i) HI) as (y' & A1 & A2).
    { pose proof (I_low s HI) as L. pose proof (I_cons s HI) as C. unfold low in *. rewrite Hc in *. cbn in C. lia. }
    assert (y' = y) by congruence. subst y'.
    rewrite (skipn_S_nth _ _ _ A2) in B. replace (t0 + S i) with (S (t0 + i)) by lia.
    pose proof (slot_upd s ((t0 + i) mod cap s) None (mod_lt_cap s _ HI)) as SU. rewrite Hy in SU. cbn [opt_list] in SU.
    unfold slot_elts in SU. perm_solve.
  - rewrite Hc in B. pose proof (I_cons s HI) as C. rewrite Hc in C. cbn in C.
    replace (tail s) with (t0 + i) by lia. exact B.
Qed.

(* GC: legitimacy of refused Adds.  A refusal record is legitimate when
     - the tail value it read is at least the tail when the call started   (rf_consumed <= rf_t),
     - it read  head - tail >= capacity - 1 = max_size,
     - at least rf_h OTHER Add calls had started before it finished        (rf_h <= rf_started),
   hence  rf_started - rf_consumed >= max_size. *)
Definition legit (cp : nat) (r : refusal) : Prop :=
  rf_consumed r <= rf_t r /\ cp - 1 <= rf_h r - rf_t r /\ rf_h r <= rf_started r.

Definition tail_read_ok (s : st) (p : nat) : Prop :=
  match prod s p with PGotTail _ t | PGotHead _ t _ => cstart (gh s) p <= t | _ => True end.

Record GC (s : st) : Prop := {
  C_start : forall p, cstart (gh s) p <= tail s;
  C_t : forall p, tail_read_ok s p;
  C_ref : Forall (legit (cap s)) (refusals (gh s))
}.

Lemma active_head_lt_given s p x : Inv s -> GA s -> p < np s -> pcl (prod s p) = [x] -> head s < length (given (gh s)).
Proof.
  intros HI G Hlt Hx. pose proof (Permutation_length (A_cons s G)) as L.
  unfold given_elts in L. rewrite map_length, !app_length in L.
  assert (In x (active_elts s)) as Hin by (apply (gather_in _ _ p); [auto | rewrite Hx; left; reflexivity]).
  destruct (active_elts s); [contradiction|]. cbn in L. rewrite (I_len s HI) in L. lia.
Qed.

Theorem GC_step s s' : Inv s -> GA s -> GC s -> step s s' -> GC s'.
Proof.
  intros HI G [Cs Ct Cr] St.
  destruct St as
    [s p x Hnp Hp | s p x Hp | s p x t Hp | s p x t h Hp Hf | s p x t h Hp Hf Hn | s p x t h Hp Hf
    | s p x t h Hp Hh | s p x t h Hp | s p x h y Hp Hy | s p x Hp
    | s Hc | s t Hc | s t h n Hc Hn | s n Hc | s n t Hc | s t0 n Hc | s t0 n i y Hc Hi Hy | s t0 n i Hc Hi].
  all: constructor; unfold tail_read_ok in *;
       cbn [np prod cap tail gh set_prod set_cons cstart refusals g_call g_refuse g_commit g_ret g_size] in *.
  all: try assumption.
  (* S_call *)
  - intros p'. unfold upd. destruct (Nat.eqb p' p); [lia|apply Cs].
  - intros p'. unfold upd. destruct (Nat.eqb_spec p' p); [exact I|]. apply Ct.
  (* S_tail *)
  - intros p'. unfold upd. destruct (Nat.eqb_spec p' p); [subst; apply Cs|apply Ct].
  (* S_head *)
  - intros p'. unfold upd. destruct (Nat.eqb_spec p' p); [subst|apply Ct].
    specialize (Ct p). rewrite Hp in Ct. exact Ct.
  (* S_full *)
  - intros p'. unfold upd. destruct (Nat.eqb_spec p' p); [exact I|apply Ct].
  - constructor; [|assumption]. unfold legit. cbn [rf_consumed rf_t rf_h rf_started].
    specialize (Ct p). rewrite Hp in Ct.
    assert (Hlt : p < np s) by (apply (active_lt s p G); rewrite Hp; discriminate).
    pose proof (active_head_lt_given s p x HI G Hlt) as L. rewrite Hp in L. specialize (L eq_refl).
    pose proof (I_stale s HI p) as S. rewrite Hp in S. cbn in S. lia.
  (* S_slot_ok *)
  - intros p'. unfold upd. destruct (Nat.eqb_spec p' p); [exact I|apply Ct].
  (* S_slot_fail *)
  - intros p'. unfold upd. destruct (Nat.eqb_spec p' p); [exact I|apply Ct].
  (* S_headcas_ok *)
  - intros p'. unfold upd. destruct (Nat.eqb_spec p' p); [exact I|apply Ct].
  (* S_headcas_fail *)
  - intros p'. unfold upd. destruct (Nat.eqb_spec p' p); [exact I|apply Ct].
  (* S_undo *)
  - intros p'. unfold upd. destruct (Nat.eqb_spec p' p); [exact I|apply Ct].
  (* S_ret *)
  - intros p'. unfold upd. destruct (Nat.eqb_spec p' p); [exact I|apply Ct].
  (* S_adv *)
  - intros p'. pose proof (I_cons s HI) as C. rewrite Hc in C. cbn in C. specialize (Cs p'). lia.
Qed.

(* GD: call ids.  The commit log [logid] (parallel to [log]) lists the ids of the calls whose head CAS succeeded;
   one producer's ids appear in it in increasing order (= the order of its calls); a call returned true iff its id
   is in the commit log. *)
Definition owner (g : ghost) (c : nat) : nat := fst (nth c (given g) (0, 0)).
Definition precommit (c : ppc) : bool :=
  match c with PCalled _ | PGotTail _ _ | PGotHead _ _ _ | PHold _ _ _ | PUndo _ _ => true | _ => false end.
Definition pc_elt (c : ppc) : option elt :=
  match c with
  | PIdle => None
  | PCalled x | PGotTail x _ | PGotHead x _ _ | PHold x _ _ | PUndo x _ | PDone x => Some x
  end.

Record GD (s : st) : Prop := {
  D_cur : forall p x, pc_elt (prod s p) = Some x -> nth_error (given (gh s)) (cur (gh s) p) = Some (p, x);
  D_lt : forall c, In c (logid (gh s)) -> c < length (given (gh s));
  D_le : forall c, In c (logid (gh s)) ->
           c <= cur (gh s) (owner (gh s) c) /\ (precommit (prod s (owner (gh s) c)) = true -> c < cur (gh s) (owner (gh s) c));
  D_sorted : forall i j ci cj, i < j -> nth_error (logid (gh s)) i = Some ci -> nth_error (logid (gh s)) j = Some cj ->
               owner (gh s) ci = owner (gh s) cj -> ci < cj;
  D_log : forall i c, nth_error (logid (gh s)) i = Some c -> nth_error (log s) i = option_map snd (nth_error (given (gh s)) c);
  D_len : length (logid (gh s)) = length (log s);
  D_done : forall p x, prod s p = PDone x -> In (cur (gh s) p) (logid (gh s));
  D_rets_lt : forall c b, In (c, b) (rets (gh s)) -> c < length (given (gh s));
  D_rets_old : forall c b, In (c, b) (rets (gh s)) ->
           c <= cur (gh s) (owner (gh s) c) /\ (prod s (owner (gh s) c) <> PIdle -> c < cur (gh s) (owner (gh s) c));
  D_rets : forall c b, In (c, b) (rets (gh s)) -> (b = true <-> In c (logid (gh s)))
}.

Lemma owner_of_cur s p x : GD s -> pc_elt (prod s p) = Some x -> owner (gh s) (cur (gh s) p) = p /\ cur (gh s) p < length (given (gh s)).
Proof.
  intros D H. pose proof (D_cur s D p x H) as E. split.
  - unfold owner. rewrite (nth_error_nth _ _ _ E). reflexivity.
  - apply nth_error_Some. congruence.
Qed.

(* a producer moves between two pre-commit program points carrying the same element *)
Lemma GD_same_kind s p c sl hl :
  GD s -> precommit (prod s p) = true -> precommit c = true -> pc_elt c = pc_elt (prod s p) ->
  GD (mk (cap s) sl (head s) (tail s) (np s) (upd (prod s) p c) (csm s) (log s) (got s) hl (gh s)).
Proof.
  intros [Dc Dl Dle Ds Dlog Dlen Dd Drl Dro Dr] P1 P2 E.
  constructor; cbn [prod gh log]; auto.
  - intros p' x. unfold upd. destruct (Nat.eqb_spec p' p); [subst; rewrite E|]; apply Dc.
  - intros c0 Hc0. destruct (Dle c0 Hc0) as [A B]. split; [auto|]. unfold upd.
    destruct (Nat.eqb_spec (owner (gh s) c0) p) as [Eo|]; [|auto]. intros _. apply B. now rewrite Eo.
  - intros p' x. unfold upd. destruct (Nat.eqb_spec p' p); [subst; intros ->; discriminate|apply Dd].
  - intros c0 b Hin. destruct (Dro c0 b Hin) as [A B]. split; [auto|]. unfold upd.
    destruct (Nat.eqb_spec (owner (gh s) c0) p) as [Eo|]; [|auto]. intros _. apply B. rewrite Eo.
    intro Z. rewrite Z in P1. discriminate.
Qed.

Lemma owner_app g c px : c < length (given g) -> fst (nth c (given g ++ [px]) (0, 0)) = owner g c.
Proof. intros. unfold owner. now rewrite app_nth1. Qed.

Lemma GD_call s p x : GD s -> prod s p = PIdle ->
  GD (set_prod s p (PCalled x) (g_call (gh s) p x (tail s))).
Proof.
  intros [Dc Dl Dle Ds Dlog Dlen Dd Drl Dro Dr] Hp.
  constructor; unfold owner; cbn [prod gh log set_prod g_call given cur logid rets].
  - intros p' x'. unfold upd. destruct (Nat.eqb_spec p' p).
    + subst. cbn. intros [= <-]. rewrite nth_error_app2, Nat.sub_diag by lia. reflexivity.
    + intros H. specialize (Dc p' x' H). rewrite nth_error_app1; auto. apply nth_error_Some. congruence.
  - intros c H. specialize (Dl c H). rewrite app_length. cbn. lia.
  - intros c H. rewrite (owner_app (gh s) c (p, x) (Dl c H)). destruct (Dle c H) as [A B]. unfold upd.
    destruct (Nat.eqb_spec (owner (gh s) c) p); [specialize (Dl c H); lia|auto].
  - intros i j ci cj Hij Hi Hj. rewrite !(owner_app (gh s)); eauto using nth_error_In.
  - intros i c H. rewrite nth_error_app1; eauto using nth_error_In.
  - assumption.
  - intros p' x'. unfold upd. destruct (Nat.eqb_spec p' p); [discriminate|apply Dd].
  - intros c b H. specialize (Drl c b H). rewrite app_length. cbn. lia.
  - intros c b H. rewrite (owner_app (gh s) c (p, x) (Drl c b H)). destruct (Dro c b H) as [A B]. unfold upd.
    destruct (Nat.eqb_spec (owner (gh s) c) p); [specialize (Drl c b H); lia|auto].
  - assumption.
Qed.

Lemma GD_full s p x t h : GD s -> prod s p = PGotHead x t h ->
  GD (mk (cap s) (slots s) (head s) (tail s) (np s) (upd (prod s) p PIdle) (csm s) (log s) (got s) (x :: held s) (g_refuse (gh s) p x t h)).
Proof.
  intros D Hp. destruct (owner_of_cur s p x D) as [Ow Lt]; [now rewrite Hp|].
  destruct D as [Dc Dl Dle Ds Dlog Dlen Dd Drl Dro Dr].
  constructor; unfold owner in *; cbn [prod gh log g_refuse given cur logid rets]; auto.
  - intros p' x'. unfold upd. destruct (Nat.eqb_spec p' p); [discriminate|apply Dc].
  - intros c H. destruct (Dle c H) as [A B]. split; [auto|]. unfold upd.
    destruct (Nat.eqb_spec (fst (nth c (given (gh s)) (0, 0))) p); [discriminate|auto].
  - intros p' x'. unfold upd. destruct (Nat.eqb_spec p' p); [discriminate|apply Dd].
  - intros c b [[= <- <-]|H]; [auto|eauto].
  - intros c b [[= <- <-]|H].
    + rewrite Ow. split; [lia|]. rewrite upd_same. congruence.
    + destruct (Dro c b H) as [A B]. split; [auto|]. unfold upd.
      destruct (Nat.eqb_spec (fst (nth c (given (gh s)) (0, 0))) p); [congruence|auto].
  - intros c b [[= <- <-]|H]; [|auto].
    split; [discriminate|]. intros Hin. exfalso. destruct (Dle _ Hin) as [_ B]. rewrite Ow, Hp in B. specialize (B eq_refl). lia.
Qed.

Lemma GD_commit s p x t h : GD s -> prod s p = PHold x t h ->
  GD (mk (cap s) (slots s) (S h) (tail s) (np s) (upd (prod s) p (PDone x)) (csm s) (log s ++ [x]) (got s) (held s) (g_commit (gh s) p)).
Proof.
  intros D Hp. destruct (owner_of_cur s p x D) as [Ow Lt]; [now rewrite Hp|].
  pose proof (D_cur s D p x) as Cx. rewrite Hp in Cx. specialize (Cx eq_refl).
  destruct D as [Dc Dl Dle Ds Dlog Dlen Dd Drl Dro Dr].
  constructor; unfold owner in *; cbn [prod gh log g_commit given cur logid rets]; auto.
  - intros p' x'. unfold upd. destruct (Nat.eqb_spec p' p); [subst; cbn; intros [= <-]; exact Cx|apply Dc].
  - intros c H. apply in_app_or in H. destruct H as [H|[<-|[]]]; auto.
  - intros c H. apply in_app_or in H. destruct H as [H|[<-|[]]].
    + destruct (Dle c H) as [A B]. unfold upd.
      destruct (Nat.eqb_spec (fst (nth c (given (gh s)) (0, 0))) p) as [E|]; [|auto].
      split; [|discriminate]. rewrite E, Hp in B. specialize (B eq_refl). rewrite E. lia.
    + rewrite Ow, upd_same. split; [lia|discriminate].
  - intros i j ci cj Hij Hi Hj Ho.
    assert (Hjl : j < length (logid (gh s) ++ [cur (gh s) p])) by (apply nth_error_Some; congruence).
    rewrite app_length in Hjl. cbn in Hjl.
    rewrite nth_error_app1 in Hi by lia.
    destruct (Nat.eq_dec j (length (logid (gh s)))) as [->|Hne].
    + rewrite nth_error_app2, Nat.sub_diag in Hj by lia. injection Hj as <-.
      destruct (Dle ci (nth_error_In _ _ Hi)) as [_ B]. rewrite Ow in Ho. rewrite Ho, Hp in B. exact (B eq_refl).
    + rewrite nth_error_app1 in Hj by lia. eauto.
  - intros i c H.
    assert (Hil : i < length (logid (gh s) ++ [cur (gh s) p])) by (apply nth_error_Some; congruence).
    rewrite app_length in Hil. cbn in Hil.
    destruct (Nat.eq_dec i (length (logid (gh s)))) as [->|Hne].
    + rewrite nth_error_app2, Nat.sub_diag in H by lia. injection H as <-.
      rewrite Dlen, nth_error_app2, Nat.sub_diag by lia. rewrite Cx. reflexivity.
    + rewrite nth_error_app1 in H by lia. rewrite nth_error_app1 by lia. auto.
  - rewrite !app_length, Dlen. reflexivity.
  - intros p' x'. unfold upd. destruct (Nat.eqb_spec p' p).
    + subst. intros _. apply in_or_app. right. left. reflexivity.
    + intros H. apply in_or_app. left. eapply Dd; eauto.
  - intros c b H. destruct (Dro c b H) as [A B]. split; [auto|]. unfold upd.
    destruct (Nat.eqb_spec (fst (nth c (given (gh s)) (0, 0))) p) as [E|]; [|auto].
    intros _. apply B. rewrite E, Hp. discriminate.
  - intros c b H. specialize (Dr c b H). split.
    + intros Hb. apply in_or_app. left. now apply Dr.
    + intros Hin. apply in_app_or in Hin. destruct Hin as [Hin|[<-|[]]]; [now apply Dr|].
      exfalso. destruct (Dro _ _ H) as [_ B]. rewrite Ow, Hp in B. specialize (B ltac:(discriminate)). lia.
Qed.

Lemma GD_ret s p x : GD s -> prod s p = PDone x ->
  GD (set_prod s p PIdle (g_ret (gh s) p)).
Proof.
  intros D Hp. destruct (owner_of_cur s p x D) as [Ow Lt]; [now rewrite Hp|].
  destruct D as [Dc Dl Dle Ds Dlog Dlen Dd Drl Dro Dr].
  constructor; unfold owner in *; cbn [prod gh log set_prod g_ret given cur logid rets]; auto.
  - intros p' x'. unfold upd. destruct (Nat.eqb_spec p' p); [discriminate|apply Dc].
  - intros c H. destruct (Dle c H) as [A B]. split; [auto|]. unfold upd.
    destruct (Nat.eqb_spec (fst (nth c (given (gh s)) (0, 0))) p); [discriminate|auto].
  - intros p' x'. unfold upd. destruct (Nat.eqb_spec p' p); [discriminate|apply Dd].
  - intros c b [[= <- <-]|H]; [auto|eauto].
  - intros c b [[= <- <-]|H].
    + rewrite Ow. split; [lia|]. rewrite upd_same. congruence.
    + destruct (Dro c b H) as [A B]. split; [auto|]. unfold upd.
      destruct (Nat.eqb_spec (fst (nth c (given (gh s)) (0, 0))) p); [congruence|auto].
  - intros c b [[= <- <-]|H]; [|auto].
    split; [intros _; eapply Dd; eauto|reflexivity].
Qed.

Lemma GD_cons_only s c g' tl sl gt :
  GD s -> given g' = given (gh s) -> cur g' = cur (gh s) -> logid g' = logid (gh s) -> rets g' = rets (gh s) ->
  GD (mk (cap s) sl (head s) tl (np s) (prod s) c (log s) gt (held s) g').
Proof.
  intros [Dc Dl Dle Ds Dlog Dlen Dd Drl Dro Dr] E1 E2 E3 E4.
  constructor; unfold owner in *; cbn [prod gh log]; rewrite ?E1, ?E2, ?E3, ?E4; auto.
Qed.

Theorem GD_step s s' : Inv s -> GD s -> step s s' -> GD s'.
Proof.
  intros HI D St.
  destruct St as
    [s p x Hnp Hp | s p x Hp | s p x t Hp | s p x t h Hp Hf | s p x t h Hp Hf Hn | s p x t h Hp Hf
    | s p x t h Hp Hh | s p x t h Hp | s p x h y Hp Hy | s p x Hp
    | s Hc | s t Hc | s t h n Hc Hn | s n Hc | s n t Hc | s t0 n Hc | s t0 n i y Hc Hi Hy | s t0 n i Hc Hi].
  - now apply GD_call.
  - apply (GD_same_kind s p); auto; rewrite Hp; reflexivity.
  - apply (GD_same_kind s p); auto; rewrite Hp; reflexivity.
  - now apply GD_full.
  - apply (GD_same_kind s p); auto; rewrite Hp; reflexivity.
  - apply (GD_same_kind s p); auto; rewrite Hp; reflexivity.
  - subst h. eapply GD_commit; eauto.
  - apply (GD_same_kind s p); auto; rewrite Hp; reflexivity.
  - destruct (inv_undo s p x h y (gh s) HI Hp Hy) as [-> _].
    apply (GD_same_kind s p); auto; rewrite Hp; reflexivity.
  - eapply GD_ret; eauto.
  - apply GD_cons_only; auto.
  - apply GD_cons_only; auto.
  - apply GD_cons_only; auto.
  - apply GD_cons_only; auto.
  - apply GD_cons_only; auto.
  - apply GD_cons_only; auto.
  - apply GD_cons_only; auto.
  - apply GD_cons_only; auto.
Qed.
