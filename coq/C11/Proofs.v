(* C11 - the ring theorems: all invariants hold in every reachable state (any number of producers, any capacity >= 2,
   any elements, every interleaving incl. spurious weak-CAS failures), and the property's sentences as corollaries. *)
From Coq Require Import List Arith Lia Bool PeanoNat Permutation.
From V Require Import C11.Model C11.Ring C11.Ghost.
Import ListNotations.
Local Open Scope nat_scope.

(* small list facts missing from the 8.16 library *)
Lemma nth_error_ext_eq {A} (l l' : list A) : (forall i, nth_error l i = nth_error l' i) -> l = l'.
Proof.
  revert l'. induction l as [|a l IH]; intros [|b l'] H; auto.
  - specialize (H 0). discriminate.
  - specialize (H 0). discriminate.
  - f_equal; [specialize (H 0); now inversion H|]. apply IH. intros i. apply (H (S i)).
Qed.
Lemma NoDup_app_l {A} (l l' : list A) : NoDup (l ++ l') -> NoDup l.
Proof. induction l as [|a l IH]; cbn; intros H; [constructor|]. inversion H; subst. constructor; auto. intro. apply H2. apply in_or_app. auto. Qed.
Lemma NoDup_app_r {A} (l l' : list A) : NoDup (l ++ l') -> NoDup l'.
Proof. induction l as [|a l IH]; cbn; intros H; auto. inversion H; auto. Qed.
Lemma NoDup_app_disj {A} (l l' : list A) x : NoDup (l ++ l') -> In x l -> ~ In x l'.
Proof.
  induction l as [|a l IH]; cbn; intros H Hin; [contradiction|]. inversion H; subst.
  destruct Hin as [->|Hin]; [|auto]. intro. apply H2. apply in_or_app. auto.
Qed.

(* GE: size() snapshots and the elements of refused Adds *)
Record GE (s : st) : Prop := {
  E_sizes : Forall (fun z => z <= cap s - 1) (sizes (gh s));
  E_held : held s = map rf_x (refusals (gh s))
}.

Theorem GE_step s s' : Inv s -> GE s -> step s s' -> GE s'.
Proof.
  intros HI [Es Eh] St.
  destruct St as
    [s p x Hnp Hp | s p x Hp | s p x t Hp | s p x t h Hp Hf | s p x t h Hp Hf Hn | s p x t h Hp Hf
    | s p x t h Hp Hh | s p x t h Hp | s p x h y Hp Hy | s p x Hp
    | s Hc | s t Hc | s t h n Hc Hn | s n Hc | s n t Hc | s t0 n Hc | s t0 n i y Hc Hi Hy | s t0 n i Hc Hi].
  all: constructor; cbn [cap held gh set_prod set_cons sizes refusals g_call g_refuse g_commit g_ret g_size map rf_x]; auto.
  - now rewrite Eh.
  - constructor; [|assumption]. pose proof (I_cons s HI) as C. rewrite Hc in C. cbn in C. subst t.
    apply (I_bound s HI).
Qed.

Record AllInv (s : st) : Prop := {
  AI : Inv s; AA : GA s; AB : GB s; AC : GC s; AD : GD s; AE : GE s
}.

Lemma gather_nil {A} (f : nat -> list A) n : (forall k, k < n -> f k = []) -> gather f n = [].
Proof.
  intros H. unfold gather. induction n as [|n IH]; [reflexivity|].
  rewrite seq_S, flat_map_app. cbn. rewrite H by lia. rewrite IH by (intros; apply H; lia). reflexivity.
Qed.

Lemma all_init m n : 1 <= m -> AllInv (init m n).
Proof.
  intros Hm. constructor.
  - now apply inv_init.
  - constructor; [cbn; auto|]. unfold given_elts, active_elts. rewrite gather_nil by reflexivity. cbn. constructor.
  - unfold GB, slot_elts, owned_elts, low. rewrite !gather_nil by reflexivity. cbn. constructor.
  - constructor; cbn; auto. all: try (intros p; exact I).
  - constructor; cbn; try (intros; contradiction); try discriminate; auto.
    + intros i j ci cj _ H. destruct i; discriminate.
    + intros i c H. destruct i; discriminate.
  - constructor; cbn; auto.
Qed.

Lemma all_step s s' : AllInv s -> step s s' -> AllInv s'.
Proof.
  intros [I A B C D E] St. constructor.
  - eapply step_preserves_inv; eauto.
  - eapply GA_step; eauto.
  - eapply GB_step; eauto.
  - eapply GC_step; eauto.
  - eapply GD_step; eauto.
  - eapply GE_step; eauto.
Qed.

Theorem reachable_all m n s : 1 <= m -> reachable (init m n) s -> AllInv s.
Proof. intros Hm R. induction R; [now apply all_init|eapply all_step; eauto]. Qed.

(* constants of the run *)
Lemma step_cap s s' : step s s' -> cap s' = cap s /\ np s' = np s.
Proof. intros St. destruct St; cbn; auto. Qed.
Lemma reachable_cap m n s : reachable (init m n) s -> cap s = S m /\ np s = n.
Proof. intros R. induction R; [cbn; auto|]. destruct (step_cap _ _ H). lia. Qed.

(* ------------------------------------------------------------------------------------------ the property's sentences *)
Definition elt_of (g : ghost) (c : nat) : elt := snd (nth c (given g) (0, 0)).
Definition max_size (s : st) : nat := cap s - 1.

(* "consumes every element whose Add reported success exactly once":
   what the consumer's callback has received is a prefix of the commit log, the commit log lists every call at most once,
   a call that returned true is in it, one that returned false is not; with distinct elements nothing is received twice *)
Theorem exactly_once m n s : 1 <= m -> reachable (init m n) s ->
  (exists rest, log s = got s ++ rest) /\
  log s = map (elt_of (gh s)) (logid (gh s)) /\
  NoDup (logid (gh s)) /\
  (forall c, In (c, true) (rets (gh s)) -> In c (logid (gh s))) /\
  (forall c, In (c, false) (rets (gh s)) -> ~ In c (logid (gh s))) /\
  (NoDup (given_elts s) -> NoDup (got s) /\ NoDup (log s)).
Proof.
  intros Hm R. destruct (reachable_all m n s Hm R) as [I A B C D E].
  split; [now apply got_is_prefix|]. split; [|split; [|split; [|split]]].
  - apply nth_error_ext_eq. intros i. rewrite nth_error_map.
    destruct (nth_error (logid (gh s)) i) as [c|] eqn:Ec.
    + rewrite (D_log s D i c Ec). cbn. pose proof (D_lt s D c (nth_error_In _ _ Ec)) as L.
      unfold elt_of. destruct (nth_error (given (gh s)) c) as [px|] eqn:Eg.
      * cbn. now rewrite (nth_error_nth _ _ _ Eg).
      * apply nth_error_None in Eg. lia.
    + cbn. apply nth_error_None. apply nth_error_None in Ec. rewrite <- (D_len s D). exact Ec.
  - apply NoDup_nth_error. intros i j Hi E0.
    destruct (nth_error (logid (gh s)) i) as [c|] eqn:Ec; [|apply nth_error_None in Ec; lia].
    symmetry in E0. destruct (Nat.lt_trichotomy i j) as [L|[L|L]]; auto; exfalso.
    + pose proof (D_sorted s D i j c c L Ec E0 eq_refl). lia.
    + pose proof (D_sorted s D j i c c L E0 Ec eq_refl). lia.
  - intros c H. now apply (D_rets s D c true H).
  - intros c H Hin. apply (D_rets s D c false H) in Hin. discriminate.
  - intros ND. assert (NL : NoDup (log s)).
    { pose proof (Permutation_NoDup (A_cons s A) ND) as N. apply NoDup_app_r in N. now apply NoDup_app_l in N. }
    split; [|exact NL]. destruct (got_is_prefix s I) as [rest Er]. rewrite Er in NL. now apply NoDup_app_l in NL.
Qed.

(* "in each producer's own order": the calls of one producer enter the commit log - which the consumer receives a prefix
   of - in the order in which that producer made them (call ids are numbered in the order the calls started) *)
Theorem per_producer_fifo m n s : 1 <= m -> reachable (init m n) s ->
  forall i j ci cj, i < j -> nth_error (logid (gh s)) i = Some ci -> nth_error (logid (gh s)) j = Some cj ->
    owner (gh s) ci = owner (gh s) cj -> ci < cj.
Proof. intros Hm R. exact (D_sorted s (AD s (reachable_all m n s Hm R))). Qed.

(* "the number of queued elements never exceeds the capacity": head_ - tail_ <= max_size in every reachable state, every
   size() result is <= max_size, and never more than capacity_ = max_size + 1 slots are occupied *)
Theorem bounded m n s : 1 <= m -> reachable (init m n) s ->
  head s - tail s <= m /\ Forall (fun z => z <= m) (sizes (gh s)) /\ length (slot_elts s) <= S m + length (owned_elts s) /\
  head s - low s <= S m.
Proof.
  intros Hm R. destruct (reachable_all m n s Hm R) as [I A B C D E]. destruct (reachable_cap m n s R) as [Hc _].
  pose proof (I_bound s I) as [B1 B2]. pose proof (E_sizes s E) as Z. rewrite Hc in *. cbn in B1, Z. rewrite Nat.sub_0_r in *.
  split; [exact B1|]. split; [exact Z|]. split; [|exact B2].
  rewrite (Permutation_length B), app_length, skipn_length, (I_len s I). lia.
Qed.

(* "no element is leaked or freed twice": conservation, as multisets, in every reachable state:
     handed to Add  =  returned to the caller by a refused Add + received by the consumer + in the slots
                       + still in the hands of a producer inside Add (and not parked in a slot) *)
Definition in_hand (c : ppc) : list elt := match c with PCalled x | PGotTail x _ | PGotHead x _ _ => [x] | _ => [] end.
Definition in_hand_elts (s : st) : list elt := gather (fun p => in_hand (prod s p)) (np s).

Lemma gather_app2 {A} (f g h : nat -> list A) n : (forall k, Permutation (f k) (g k ++ h k)) ->
  Permutation (gather f n) (gather g n ++ gather h n).
Proof.
  intros H. unfold gather. induction (seq 0 n) as [|a l IH]; cbn; [constructor|].
  rewrite (H a), IH. rewrite <- !app_assoc. apply Permutation_app_head.
  rewrite !app_assoc. apply Permutation_app_tail. apply Permutation_app_comm.
Qed.

Theorem conservation m n s : 1 <= m -> reachable (init m n) s ->
  Permutation (given_elts s) (held s ++ got s ++ slot_elts s ++ in_hand_elts s).
Proof.
  intros Hm R. destruct (reachable_all m n s Hm R) as [I A B C D E].
  pose proof (A_cons s A) as C1. unfold GB in B.
  assert (Permutation (active_elts s) (owned_elts s ++ in_hand_elts s)) as C2.
  { apply gather_app2. intros k. destruct (prod s k); cbn; constructor; constructor. }
  assert (log s = got s ++ skipn (low s) (log s)) as C3.
  { rewrite (I_got s I). symmetry. apply firstn_skipn. }
  rewrite C3 in C1. remember (skipn (low s) (log s)) as q. clear Heqq C3. perm_solve.
Qed.

(* ... and at destruction: once every thread has returned, the slots hold exactly the committed and not yet consumed
   elements; the destructor visits each slot once, so each of them is freed exactly once and afterwards
     handed to Add = returned to callers + received by the consumer + freed by the destructor *)
Definition all_idle (s : st) : Prop := forall p, p < np s -> prod s p = PIdle.
Definition destroy_list (s : st) : list elt := flat_map (fun k => opt_list (slots s k)) (rev (seq 0 (cap s))).

Lemma destroy_perm s : Permutation (destroy_list s) (slot_elts s).
Proof.
  unfold destroy_list, slot_elts, gather. generalize (seq 0 (cap s)). intros l.
  induction l as [|a l IH]; cbn; [constructor|]. rewrite flat_map_app. cbn. rewrite app_nil_r, IH. apply Permutation_app_comm.
Qed.

Theorem destruction m n s : 1 <= m -> reachable (init m n) s -> all_idle s ->
  Permutation (slot_elts s) (skipn (low s) (log s)) /\
  Permutation (given_elts s) (held s ++ got s ++ destroy_list s).
Proof.
  intros Hm R Hi. pose proof (conservation m n s Hm R) as C. destruct (reachable_all m n s Hm R) as [I A B _ _ _].
  assert (in_hand_elts s = []) as E1 by (apply gather_nil; intros k Hk; now rewrite (Hi k Hk)).
  assert (owned_elts s = []) as E2 by (apply gather_nil; intros k Hk; now rewrite (Hi k Hk)).
  unfold GB in B. rewrite E2, app_nil_r in B. rewrite E1, app_nil_r in C. split; [exact B|].
  pose proof (destroy_perm s) as P. perm_solve.
Qed.

(* "an Add that reports failure leaves its element with the caller": the elements of the refused Adds are exactly the
   elements in the callers' hands; with distinct elements none of them is in the buffer, in the log or with the consumer *)
Theorem fail_leaves_element m n s : 1 <= m -> reachable (init m n) s ->
  held s = map rf_x (refusals (gh s)) /\
  (NoDup (given_elts s) -> forall r, In r (refusals (gh s)) ->
     ~ In (rf_x r) (log s) /\ ~ In (rf_x r) (got s) /\ ~ In (rf_x r) (slot_elts s)).
Proof.
  intros Hm R. destruct (reachable_all m n s Hm R) as [I A B C D E].
  split; [exact (E_held s E)|]. intros ND r Hr.
  assert (In (rf_x r) (held s)) as Hh by (rewrite (E_held s E); now apply in_map).
  pose proof (Permutation_NoDup (A_cons s A) ND) as N1.
  pose proof (Permutation_NoDup (conservation m n s Hm R) ND) as N2.
  pose proof (NoDup_app_disj _ _ _ N1 Hh) as X1. pose proof (NoDup_app_disj _ _ _ N2 Hh) as X2.
  split; [|split].
  - intro. apply X1. apply in_or_app. auto.
  - intro. apply X2. apply in_or_app. auto.
  - intro. apply X2. apply in_or_app. right. apply in_or_app. auto.
Qed.

(* "... and happens only if the producers that had started before it finished, minus what was consumed before it started,
   already fill the capacity": for every refused Add,
      (number of other Add calls started before it returned) - (tail_ when it was called) >= max_size;
   moreover the values it read were the true tail_ and head_ at two moments during the call (by construction of the
   steps S_tail / S_head), it read head - tail >= max_size, and at least rf_h other calls had already committed *)
Theorem fail_legit m n s : 1 <= m -> reachable (init m n) s ->
  forall r, In r (refusals (gh s)) ->
    m + rf_consumed r <= rf_started r /\
    (rf_consumed r <= rf_t r /\ m <= rf_h r - rf_t r /\ rf_h r <= rf_started r).
Proof.
  intros Hm R r Hr. destruct (reachable_all m n s Hm R) as [I A B C D E]. destruct (reachable_cap m n s R) as [Hc _].
  pose proof (C_ref s C) as F. rewrite Forall_forall in F. specialize (F r Hr). unfold legit in F. rewrite Hc in F.
  cbn in F. rewrite Nat.sub_0_r in F. lia.
Qed.

(* the undo after a lost head CAS takes back the producer's own element *)
Theorem undo_returns_own_element m n s p x h : 1 <= m -> reachable (init m n) s ->
  prod s p = PUndo x h -> slots s (h mod cap s) = Some x.
Proof.
  intros Hm R Hp. destruct (reachable_all m n s Hm R) as [I _ _ _ _ _].
  apply (I_own s I p (h mod cap s) x). exists h. rewrite Hp. auto.
Qed.
