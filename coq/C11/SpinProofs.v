(* C11 - SpinLockMutex: mutual exclusion as an inductive invariant over every interleaving of any number of threads
   running any scripts of lock()/try_lock() (each followed by the critical section and unlock()), try_lock succeeds only
   on a free lock, solo progress of lock(). *)
From Coq Require Import List Arith Lia Bool PeanoNat.
From V Require Import C11.Model.
Import ListNotations.
Local Open Scope nat_scope.

Definition sstep_rel (s s' : sst) : Prop := exists t o, sstep s t = Some (s', o).

Inductive sreach (s0 : sst) : sst -> Prop :=
| SR_init : sreach s0 s0
| SR_step s s' : sreach s0 s -> sstep_rel s s' -> sreach s0 s'.

(* a thread holds the lock from its successful exchange until its unlock store *)
Definition holder (c : lpc) : bool :=
  match c with LAcq | TRet true | CS0 | CS1 | CS2 | U0 => true | _ => false end.

Record SInv (s : sst) : Prop := {
  S_uniq : forall t1 t2, holder (spc s t1) = true -> holder (spc s t2) = true -> t1 = t2;
  S_flag : forall t, holder (spc s t) = true -> flag s = true;
  S_incs0 : incs s = 0 \/ (incs s = 1 /\ exists t, spc s t = CS1);
  S_incs1 : forall t, spc s t = CS1 -> incs s = 1;
  S_max : maxin s <= 1
}.

Lemma upd_same {A} (f : nat -> A) k v : upd f k v k = v.
Proof. unfold upd. now rewrite Nat.eqb_refl. Qed.
Lemma upd_other {A} (f : nat -> A) k v j : j <> k -> upd f k v j = f j.
Proof. unfold upd. intros. destruct (Nat.eqb_spec j k); congruence. Qed.

(* a step of t that keeps t's holder status, stays away from CS1, and does not clear the flag *)
Lemma sinv_neutral s t c fl scr ac :
  SInv s -> holder c = holder (spc s t) -> c <> CS1 -> spc s t <> CS1 -> (flag s = true -> fl = true) ->
  SInv (mkS fl (incs s) (upd (spc s) t c) scr (maxin s) ac).
Proof.
  intros [U F I0 I1 M] Hh Hc Hs Hf. constructor; cbn [flag incs spc maxin].
  - intros t1 t2. unfold upd. destruct (Nat.eqb_spec t1 t), (Nat.eqb_spec t2 t); subst; auto.
    + rewrite Hh. intros. symmetry. auto.
    + rewrite Hh. intros. auto.
  - intros t'. unfold upd. destruct (Nat.eqb_spec t' t); subst; [rewrite Hh|]; intros H; apply Hf; eauto.
  - destruct I0 as [I0|[I0 [t' Ht']]]; [auto|]. right. split; [auto|]. exists t'. rewrite upd_other; [auto|]. intro; subst; contradiction.
  - intros t'. unfold upd. destruct (Nat.eqb_spec t' t); [subst; intros; contradiction|apply I1].
  - assumption.
Qed.

(* acquisition: the exchange found the flag clear *)
Lemma sinv_acquire s t c scr ac :
  SInv s -> flag s = false -> holder c = true -> c <> CS1 -> spc s t <> CS1 ->
  SInv (mkS true (incs s) (upd (spc s) t c) scr (maxin s) ac).
Proof.
  intros [U F I0 I1 M] Hf Hh Hc Hs.
  assert (NH : forall t', holder (spc s t') = false).
  { intros t'. destruct (holder (spc s t')) eqn:E; auto. rewrite (F t' E) in Hf. discriminate. }
  constructor; cbn [flag incs spc maxin]; auto.
  - intros t1 t2. unfold upd. destruct (Nat.eqb_spec t1 t), (Nat.eqb_spec t2 t); subst; auto; intros H1 H2;
      try (rewrite NH in H1; discriminate); try (rewrite NH in H2; discriminate).
  - destruct I0 as [I0|[I0 [t' Ht']]]; [auto|]. right. split; [auto|]. exists t'. rewrite upd_other; [auto|]. intro; subst; contradiction.
  - intros t'. unfold upd. destruct (Nat.eqb_spec t' t); [subst; intros; contradiction|apply I1].
Qed.

Ltac dif := repeat match goal with |- context [if ?b then _ else _] => destruct b end.

Lemma sinv_step s s' : SInv s -> sstep_rel s s' -> SInv s'.
Proof.
  intros H (t & o & St). unfold sstep in St.
  destruct (spc s t) eqn:E.
  - destruct (sscr s t) as [|b r]; [discriminate|]. injection St as <- _.
    apply sinv_neutral; auto; rewrite ?E; destruct b; cbn; congruence.
  - injection St as <- _. unfold xchg_true. destruct (flag s) eqn:F.
    + apply sinv_neutral; auto; rewrite ?E; dif; cbn; congruence.
    + apply sinv_acquire; auto; rewrite ?E; cbn; congruence.
  - injection St as <- _. unfold set_spc. apply sinv_neutral; auto; rewrite ?E; unfold after_fail; dif; cbn; congruence.
  - injection St as <- _. unfold xchg_true. destruct (flag s) eqn:F.
    + apply sinv_neutral; auto; rewrite ?E; unfold after_fail; dif; cbn; congruence.
    + apply sinv_acquire; auto; rewrite ?E; cbn; congruence.
  - injection St as <- _. unfold set_spc. apply sinv_neutral; auto; rewrite ?E; cbn; congruence.
  - injection St as <- _. unfold set_spc. apply sinv_neutral; auto; rewrite ?E; destruct (flag s); cbn; congruence.
  - injection St as <- _. unfold xchg_true. destruct (flag s) eqn:F.
    + apply sinv_neutral; auto; rewrite ?E; cbn; congruence.
    + apply sinv_acquire; auto; rewrite ?E; cbn; congruence.
  - injection St as <- _. unfold set_spc. apply sinv_neutral; auto; rewrite ?E; cbn; congruence.
  - injection St as <- _. apply sinv_neutral; auto; rewrite ?E; cbn; congruence.
  - injection St as <- _. unfold set_spc. apply sinv_neutral; auto; rewrite ?E; destruct (flag s); cbn; congruence.
  - injection St as <- _. unfold xchg_true. destruct (flag s) eqn:F.
    + apply sinv_neutral; auto; rewrite ?E; cbn; congruence.
    + apply sinv_acquire; auto; rewrite ?E; cbn; congruence.
  - injection St as <- _. apply sinv_neutral; auto; rewrite ?E; destruct r; cbn; congruence.
  - (* CS0 -> CS1: nobody else is in CS1, so incs = 0 *)
    injection St as <- _. destruct H as [U F I0 I1 M].
    assert (Z : incs s = 0).
    { destruct I0 as [I0|[_ [t' Ht']]]; [auto|]. assert (t' = t) by (apply U; [rewrite Ht'|rewrite E]; reflexivity). subst. congruence. }
    constructor; cbn [flag incs spc maxin].
    + intros t1 t2. unfold upd. destruct (Nat.eqb_spec t1 t), (Nat.eqb_spec t2 t); subst; auto.
      * intros _ H2. symmetry. apply U; auto. now rewrite E.
      * intros H1 _. apply U; auto. now rewrite E.
    + intros t'. unfold upd. destruct (Nat.eqb_spec t' t); subst; intros; [apply (F t); now rewrite E|eapply F; eauto].
    + right. split; [lia|]. exists t. now rewrite upd_same.
    + intros. lia.
    + rewrite Z. cbn. lia.
  - (* CS1 -> CS2 *)
    injection St as <- _. destruct H as [U F I0 I1 M].
    pose proof (I1 t E) as Z.
    constructor; cbn [flag incs spc maxin].
    + intros t1 t2. unfold upd. destruct (Nat.eqb_spec t1 t), (Nat.eqb_spec t2 t); subst; auto.
      * intros _ H2. symmetry. apply U; auto. now rewrite E.
      * intros H1 _. apply U; auto. now rewrite E.
    + intros t'. unfold upd. destruct (Nat.eqb_spec t' t); subst; intros; [apply (F t); now rewrite E|eapply F; eauto].
    + left. lia.
    + intros t'. unfold upd. destruct (Nat.eqb_spec t' t); [discriminate|]. intros Ht'.
      exfalso. apply n. apply U; [rewrite Ht'|rewrite E]; reflexivity.
    + assumption.
  - injection St as <- _. unfold set_spc. apply sinv_neutral; auto; rewrite ?E; cbn; congruence.
  - (* U0 -> U1: the store clears the flag; there is no other holder *)
    injection St as <- _. destruct H as [U F I0 I1 M].
    constructor; cbn [flag incs spc maxin]; auto.
    + intros t1 t2. unfold upd. destruct (Nat.eqb_spec t1 t), (Nat.eqb_spec t2 t); subst; auto; try discriminate.
    + intros t'. unfold upd. destruct (Nat.eqb_spec t' t); [discriminate|]. intros Ht'.
      exfalso. apply n. apply U; [auto|rewrite E; reflexivity].
    + destruct I0 as [I0|[I0 [t' Ht']]]; [auto|]. right. split; [auto|]. exists t'. rewrite upd_other; [auto|]. intro; subst; congruence.
    + intros t'. unfold upd. destruct (Nat.eqb_spec t' t); [discriminate|apply I1].
  - injection St as <- _. unfold set_spc. apply sinv_neutral; auto; rewrite ?E; cbn; congruence.
Qed.

Lemma sinv_init scripts : SInv (spin_init scripts).
Proof. constructor; cbn; auto; try discriminate. Qed.

Theorem sreach_inv scripts s : sreach (spin_init scripts) s -> SInv s.
Proof. intros R. induction R; [apply sinv_init|eapply sinv_step; eauto]. Qed.

(* "admits at most one holder at a time" - in every reachable state, any number of threads, any scripts; the occupancy
   counter of the critical section never exceeds 1 (this is the M of the driver's summary) *)
Theorem mutex scripts s : sreach (spin_init scripts) s ->
  (forall t1 t2, holder (spc s t1) = true -> holder (spc s t2) = true -> t1 = t2) /\ maxin s <= 1 /\ incs s <= 1.
Proof.
  intros R. destruct (sreach_inv scripts s R) as [U F I0 I1 M]. split; [exact U|]. split; [exact M|].
  destruct I0 as [->|[-> _]]; lia.
Qed.

(* "try_lock succeeds only on a free lock": a try_lock (stand-alone or inside lock()) whose exchange makes the thread the
   holder found the flag clear and nobody holding; on a set flag it does not acquire *)
Lemma no_acquire_when_set s t s' o : flag s = true -> holder (spc s t) = false -> sstep s t = Some (s', o) ->
  holder (spc s' t) = false.
Proof.
  intros F H St. unfold sstep in St. destruct (spc s t) eqn:E; try discriminate H.
  all: try (destruct (sscr s t) as [|b r]; [discriminate|]).
  all: injection St as <- _; rewrite ?F; cbn [spc set_spc xchg_true]; rewrite upd_same.
  all: unfold after_fail; dif; try reflexivity; try discriminate H.
Qed.

Theorem trylock_only_free scripts s t s' o : sreach (spin_init scripts) s -> sstep s t = Some (s', o) ->
  holder (spc s t) = false -> holder (spc s' t) = true ->
  flag s = false /\ (forall t', holder (spc s t') = false).
Proof.
  intros R St H0 H1. destruct (sreach_inv scripts s R) as [U F I0 I1 M].
  assert (Ff : flag s = false).
  { destruct (flag s) eqn:Fs; auto. rewrite (no_acquire_when_set s t s' o Fs H0 St) in H1. discriminate. }
  split; [exact Ff|]. intros t'. destruct (holder (spc s t')) eqn:E; auto. rewrite (F t' E) in Ff. discriminate.
Qed.

Theorem trylock_fails_on_held s t : spc s t = TLd \/ spc s t = TX -> flag s = true ->
  exists s' o, sstep s t = Some (s', o) /\ spc s' t = TRet false.
Proof.
  intros [E|E] F; unfold sstep; rewrite E, F; eexists; eexists; (split; [reflexivity|]); cbn; now rewrite upd_same.
Qed.

(* "every lock() returns once the holder unlocks": solo progress.  t runs alone for k steps: *)
Fixpoint solo (s : sst) (t k : nat) : option sst :=
  match k with
  | 0 => Some s
  | S k' => match sstep s t with Some (s', _) => solo s' t k' | None => None end
  end.

Definition in_lock (c : lpc) : bool :=
  match c with LLock0 | LSpinLd _ | LSpinX _ | LYield | LTry2Ld | LTry2X | LSleep => true | _ => false end.

(* once the flag is clear, a thread inside lock() that runs alone has acquired after at most 3 of its own steps *)
Ltac sstep1 E F := unfold sstep at 1; cbn [spc flag set_spc xchg_true]; rewrite ?upd_same, ?E, ?F; cbn [solo].

Theorem lock_solo_progress s t : flag s = false -> in_lock (spc s t) = true ->
  exists k s', k <= 3 /\ solo s t k = Some s' /\ spc s' t = LAcq /\ flag s' = true.
Proof.
  intros F H. destruct (spc s t) eqn:E; try discriminate H.
  - exists 1. eexists. split; [lia|]. split; [cbn [solo]; sstep1 E F; reflexivity|]. cbn. now rewrite upd_same.
  - exists 2. eexists. split; [lia|]. split; [cbn [solo]; sstep1 E F; sstep1 E F; reflexivity|]. cbn. now rewrite upd_same.
  - exists 1. eexists. split; [lia|]. split; [cbn [solo]; sstep1 E F; reflexivity|]. cbn. now rewrite upd_same.
  - exists 3. eexists. split; [lia|]. split; [cbn [solo]; sstep1 E F; sstep1 E F; sstep1 E F; reflexivity|]. cbn. now rewrite upd_same.
  - exists 2. eexists. split; [lia|]. split; [cbn [solo]; sstep1 E F; sstep1 E F; reflexivity|]. cbn. now rewrite upd_same.
  - exists 1. eexists. split; [lia|]. split; [cbn [solo]; sstep1 E F; reflexivity|]. cbn. now rewrite upd_same.
  - exists 2. eexists. split; [lia|]. split; [cbn [solo]; sstep1 E F; sstep1 E F; reflexivity|]. cbn. now rewrite upd_same.
Qed.

(* ... and while the flag stays set (the holder does not unlock) it never acquires, however long it runs *)
Lemma lock_blocked_step s t s' o : flag s = true -> in_lock (spc s t) = true -> sstep s t = Some (s', o) ->
  flag s' = true /\ in_lock (spc s' t) = true.
Proof.
  intros F H St. unfold sstep in St. destruct (spc s t) eqn:E; try discriminate H.
  all: injection St as <- _; rewrite ?F; cbn [flag spc set_spc xchg_true]; rewrite upd_same; split; auto.
  all: unfold after_fail; try destruct (_ <? _); reflexivity.
Qed.

Theorem lock_blocked_while_held s t k s' : flag s = true -> in_lock (spc s t) = true -> solo s t k = Some s' ->
  flag s' = true /\ in_lock (spc s' t) = true.
Proof.
  revert s. induction k as [|k IH]; intros s F H St; cbn in St.
  - injection St as <-. auto.
  - destruct (sstep s t) as [[s1 o]|] eqn:E; [|discriminate].
    destruct (lock_blocked_step s t s1 o F H E). eauto.
Qed.

(* every accepted event is a step *)
Theorem accept_spin_is_step s e s' : accept_spin s e = Accepted s' -> sstep_rel s s'.
Proof.
  unfold accept_spin. destruct (fst e) as [|t]; [discriminate|].
  destruct (sstep s t) as [[s1 o1]|] eqn:E; [|discriminate].
  destruct (op_eqb (snd e) o1); [|discriminate]. intros [= <-]. exists t, o1. exact E.
Qed.
