(* C11 - SPEC: the property, sentence by sentence, as checkers over what can be OBSERVED at the interface:
   the case (who adds what, in which order), the history of call/return events (their order in the trace is
   real-time order: one logical thread runs at a time) and the driver's summary (Add results, the sequence the
   consumer's callback received, what the destructor freed, live/double-destruction counters, size() snapshots;
   for the spin lock the occupancy maximum and the number of acquisitions).
   Nothing here looks at head_/tail_/slots or at the algorithm.  No proofs. *)
From Coq Require Import List Arith PeanoNat.
From V Require Export C11.Model.
Import ListNotations.
Local Open Scope nat_scope.

(* ------------------------------------------------------------------------------------------ helpers *)
Definition mem (x : nat) (l : list nat) : bool := existsb (Nat.eqb x) l.
Definition count (x : nat) (l : list nat) : nat := length (filter (Nat.eqb x) l).
Fixpoint list_eqb (a b : list nat) : bool :=
  match a, b with
  | [], [] => true
  | x :: a', y :: b' => Nat.eqb x y && list_eqb a' b'
  | _, _ => false
  end.
Fixpoint is_prefix (a b : list nat) : bool :=
  match a, b with
  | [], _ => true
  | x :: a', y :: b' => Nat.eqb x y && is_prefix a' b'
  | _ :: _, [] => false
  end.
Fixpoint nodupb (l : list nat) : bool :=
  match l with [] => true | x :: r => negb (mem x r) && nodupb r end.
Definition sum (l : list nat) : nat := fold_right Nat.add 0 l.

(* ------------------------------------------------------------------------------------------ ring *)
Record rsummary := mkSum {
  sR : list nat;     (* per Add in case order: 1 added, 0 refused and the caller still owns its element, 2 anomaly *)
  sG : list nat;     (* ids received by the consumer's callback, in order (0 = a null slot was handed out) *)
  sD : list nat;     (* ids freed by the buffer's destructor *)
  sL : nat;          (* elements alive after everything was destroyed *)
  sX : nat;          (* elements destroyed more than once *)
  sZ : list nat      (* size() snapshots taken by the consumer *)
}.

(* results of producer p's adds: split R along the scripts *)
Fixpoint split_results (scripts : list (list elt)) (r : list nat) : list (list (elt * nat)) :=
  match scripts with
  | [] => []
  | sc :: rest => combine sc (firstn (length sc) r) :: split_results rest (skipn (length sc) r)
  end.

Definition succ_of (l : list (elt * nat)) : list elt := map fst (filter (fun er => Nat.eqb (snd er) 1) l).

(* "consumes every element whose Add reported success exactly once": over its whole life (consumed by the
   callback or, if still queued at the end, freed by the destructor) *)
Definition check_exactly_once (adds : list (elt * nat)) (s : rsummary) : list tok :=
  let out := sG s ++ sD s in
  let succ := succ_of adds in
  check (forallb (fun e => negb (Nat.eqb (count e out) 0)) succ) "exactly_once:lost"
  ++ check (forallb (fun e => count e out <=? 1) succ) "exactly_once:dup"
  ++ check (forallb (fun e => mem e succ) out) "exactly_once:phantom".

(* "in each producer's own order": what the consumer received from producer p is a prefix of p's successful
   elements in p's call order *)
Definition check_fifo (per : list (list (elt * nat))) (s : rsummary) : list tok :=
  check (forallb (fun l => is_prefix (filter (fun e => mem e (map fst l)) (sG s)) (succ_of l)) per) "fifo:order".

(* "an Add that reports failure leaves its element with the caller" (the driver reports 2 when a refused Add took
   the element or a successful one did not) *)
Definition check_fail_keeps (adds : list (elt * nat)) : list tok :=
  check (forallb (fun er => snd er <=? 1) adds) "fail_leaves_element:anomaly".

(* "... and happens only if the producers that had started before it finished, minus what was consumed before it
   started, already fill the capacity":  at the return of a refused Add (event index j; its call at index i)
      #{ call add events of other calls before j }  -  sum { n | ret consume n before i }  >=  max_size *)
Definition who_eqb (a b : who) : bool :=
  match a, b with Ctl, Ctl => true | Thr x, Thr y => Nat.eqb x y | _, _ => false end.

(* one pass over the history: [pending] = (thread, element, elements consumed when the call started) of the calls seen so
   far, latest first; [started] = number of "call add" events so far; [consumed] = sum of the "ret consume n" so far *)
Fixpoint find_call (w : who) (x : elt) (pending : list (who * elt * nat)) : option nat :=
  match pending with
  | [] => None
  | (w', x', c) :: r => if who_eqb w' w && Nat.eqb x' x then Some c else find_call w x r
  end.

Fixpoint fail_legit_scan (max_size : nat) (pending : list (who * elt * nat)) (started consumed : nat) (todo : list event) : bool :=
  match todo with
  | [] => true
  | e :: r =>
      match snd e with
      | OCallAdd x => fail_legit_scan max_size ((fst e, x, consumed) :: pending) (S started) consumed r
      | ORetConsume n => fail_legit_scan max_size pending started (consumed + n) r
      | ORetAdd x false =>
          match find_call (fst e) x pending with
          | Some c0 => (max_size + c0 <=? started - 1) && fail_legit_scan max_size pending started consumed r
          | None => false
          end
      | _ => fail_legit_scan max_size pending started consumed r
      end
  end.
Definition check_fail_legit (max_size : nat) (tr : list event) : list tok :=
  check (fail_legit_scan max_size [] 0 0 tr) "fail_legit:count".

(* "the number of queued elements never exceeds the capacity": every size() snapshot, and at the interface:
   (Adds that have returned true) - (elements of the Consume calls begun so far) <= max_size at every return *)
Fixpoint queued_scan (max_size added taken : nat) (tr : list event) : bool :=
  match tr with
  | [] => true
  | e :: r =>
      match snd e with
      | ORetAdd _ true => (S added <=? max_size + taken) && queued_scan max_size (S added) taken r
      | OCallConsume n => queued_scan max_size added (taken + n) r
      | _ => queued_scan max_size added taken r
      end
  end.
Definition check_bounded (max_size : nat) (tr : list event) (s : rsummary) : list tok :=
  check (forallb (fun z => z <=? max_size) (sZ s)) "bounded:size"
  ++ check (queued_scan max_size 0 0 tr) "bounded:queued".

(* "no element is leaked or freed twice" *)
Definition check_no_leak (s : rsummary) : list tok :=
  check (Nat.eqb (sL s) 0) "no_leak:alive" ++ check (Nat.eqb (sX s) 0) "no_double_free:count"
  ++ check (nodupb (sG s ++ sD s)) "no_double_free:twice_out".

(* the history and the summary tell the same story (results of the Adds) *)
Definition ret_results (tr : list event) (p : nat) : list nat :=
  flat_map (fun e => match fst e, snd e with
                     | Thr t, ORetAdd _ r => if Nat.eqb t p then [b2n r] else []
                     | _, _ => [] end) tr.
Definition check_history (per : list (list (elt * nat))) (tr : list event) : list tok :=
  check (forallb (fun pl => let r := map snd (snd pl) in
                            list_eqb (map (fun v => if Nat.eqb v 0 then 0 else 1) r) (ret_results tr (fst pl)))
                 (combine (seq 0 (length per)) per)) "history:results".

Definition spec_ring (max_size : nat) (scripts : list (list elt)) (tr : list event) (s : rsummary) : list tok :=
  let per := split_results scripts (sR s) in
  let adds := concat per in
  check (Nat.eqb (length (sR s)) (length (concat scripts))) "history:result_count"
  ++ check_exactly_once adds s
  ++ check_fifo per s
  ++ check_fail_keeps adds
  ++ check_fail_legit max_size tr
  ++ check_bounded max_size tr s
  ++ check_no_leak s
  ++ check_history per tr.

(* ------------------------------------------------------------------------------------------ spin lock *)
Record ssummary := mkSS { sM : nat; sA : nat }.

(* "admits at most one holder at a time, try_lock succeeds only on a free lock": a thread holds the lock from the
   return of its lock() / successful try_lock() until it calls unlock() *)
Fixpoint holder_scan (holder : option nat) (tr : list event) : list tok :=
  match tr with
  | [] => []
  | e :: r =>
      match fst e, snd e with
      | Thr t, ORetLock =>
          match holder with Some _ => fail "spin_mutex:overlap" | None => [] end ++ holder_scan (Some t) r
      | Thr t, ORetTry true =>
          match holder with Some _ => fail "spin_trylock_only_free:held" | None => [] end ++ holder_scan (Some t) r
      | Thr t, OCallUnlock =>
          match holder with
          | Some h => if Nat.eqb h t then [] else fail "spin_mutex:unlock_by_other"
          | None => fail "spin_mutex:unlock_by_other"
          end ++ holder_scan None r
      | _, _ => holder_scan holder r
      end
  end.

Definition is_acq (e : event) : bool := match snd e with ORetLock | ORetTry true => true | _ => false end.
Definition is_lock_call (e : event) : bool := match snd e with OCallLock => true | _ => false end.
Definition is_lock_ret (e : event) : bool := match snd e with ORetLock => true | _ => false end.

(* "every lock() returns once the holder unlocks": under the fair continuation of the schedule every call of lock()
   has returned when the run ends (a run that does not end is reported by the driver as STEPLIMIT / DEADLOCK) *)
Definition spec_spin (tr : list event) (s : ssummary) : list tok :=
  check (sM s <=? 1) "spin_mutex:max_in_cs"
  ++ holder_scan None tr
  ++ check (Nat.eqb (sA s) (length (filter is_acq tr))) "spin_history:acquisitions"
  ++ check (Nat.eqb (length (filter is_lock_call tr)) (length (filter is_lock_ret tr))) "spin_lock_returns:pending".
