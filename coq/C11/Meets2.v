(* C11 - model_meets_spec for the whole "no element is leaked or freed twice" clause of the SPEC (check_no_leak) on every
   complete accepted trace of a well-formed case (element ids pairwise distinct, as parse_case demands). *)
From Coq Require Import List Arith Lia Bool PeanoNat Permutation.
From V Require Import C11.Glue C11.Ring C11.Ghost C11.Proofs C11.Sim C11.Meets.
Import ListNotations.
Local Open Scope nat_scope.

(* the elements handed to Add so far and the elements still in the scripts make up the case's elements *)
Definition script_elts (a : rst) : list elt := gather (pscr a) (np (core a)).
Definition SP (all : list elt) (a : rst) : Prop := Permutation (given_elts (core a) ++ script_elts a) all.

Lemma flat_map_nth_seq {A} (ps : list (list A)) k :
  flat_map (fun p => nth (p - k) ps []) (seq k (length ps)) = concat ps.
Proof.
  revert k. induction ps as [|x ps IH]; intros k; [reflexivity|].
  cbn [length seq flat_map concat]. rewrite Nat.sub_diag. cbn [nth]. f_equal. rewrite <- (IH (S k)). apply flat_map_ext_in.
  intros p Hp. apply in_seq in Hp. replace (p - k) with (S (p - S k)) by lia. reflexivity.
Qed.

Lemma SP_init m ps ks : SP (concat ps) (ring_init m ps ks).
Proof.
  unfold SP, script_elts, given_elts, gather. cbn [ring_init core pscr init np gh g0 given map app].
  assert (E : flat_map (fun p => nth p ps []) (seq 0 (length ps)) = concat ps).
  { rewrite <- (flat_map_nth_seq ps 0). apply flat_map_ext_in. intros p _. now rewrite Nat.sub_0_r. }
  rewrite E. reflexivity.
Qed.

Lemma pstep_SP all a p sp a' o : p < np (core a) -> SP all a -> pstep a p sp = Some (a', o) -> SP all a'.
Proof.
  intros Hp S St. unfold pstep in St. destruct (prod (core a) p) eqn:E.
  - destruct (pscr a p) as [|x r] eqn:Es; [discriminate|]. injection St as <- _.
    unfold SP, script_elts, given_elts in *. cbn [core gh set_prod g_call given np pscr].
    pose proof (gather_upd_perm (pscr a) (np (core a)) p r Hp) as G. rewrite Es in G.
    rewrite map_app. cbn [map snd]. perm_solve.
  - injection St as <- _. exact S.
  - injection St as <- _. exact S.
  - destruct (cap (core a) - 1 <=? h - t).
    + injection St as <- _. exact S.
    + destruct (slots (core a) (h mod cap (core a))); [injection St as <- _; exact S|].
      destruct sp; injection St as <- _; exact S.
  - destruct (Nat.eqb (head (core a)) h && negb sp); injection St as <- _; exact S.
  - destruct (slots (core a) (h mod cap (core a))); [|discriminate]. injection St as <- _. exact S.
  - injection St as <- _. exact S.
Qed.

Lemma cstep_SP all a a' o : SP all a -> cstep a = Some (a', o) -> SP all a'.
Proof.
  intros S St. unfold cstep in St. destruct (csm (core a)).
  - destruct (cscr a); [discriminate|]. injection St as <- _. exact S.
  - injection St as <- _. exact S.
  - destruct (cscr a); [discriminate|]. injection St as <- _. exact S.
  - injection St as <- _. exact S.
  - injection St as <- _. exact S.
  - injection St as <- _. exact S.
  - destruct (i <? n).
    + destruct (slots (core a) ((t0 + i) mod cap (core a))); [|discriminate]. injection St as <- _. exact S.
    + injection St as <- _. exact S.
Qed.

Lemma SP_step all a e a' : SP all a -> accept_ring a e = Accepted a' -> SP all a'.
Proof.
  intros S Acc. unfold accept_ring in Acc. destruct e as [[|t] o]; cbn [fst snd] in Acc.
  - destruct (dstep a) as [[a1 o1]|] eqn:D; [|discriminate]. destruct (op_eqb o o1); [|discriminate]. injection Acc as <-.
    unfold dstep in D. destruct (ph a) as [|[|k]|].
    + destruct (quiescent a); [|discriminate]. injection D as <- _. exact S.
    + injection D as <- _. exact S.
    + injection D as <- _. exact S.
    + discriminate.
  - assert (forall sp a1 o1, rstep a t sp = Some (a1, o1) -> SP all a1) as K.
    { intros sp a1 o1 St. unfold rstep in St. destruct (ph a); try discriminate.
      destruct (t <? np (core a)) eqn:L.
      - apply Nat.ltb_lt in L. eapply pstep_SP; eauto.
      - destruct (Nat.eqb t (np (core a))); [|discriminate]. eapply cstep_SP; eauto. }
    destruct (rstep a t false) as [[a1 o1]|] eqn:E1; [|discriminate].
    destruct (op_eqb o o1).
    + injection Acc as <-. eapply K; eauto.
    + destruct (rstep a t true) as [[a2 o2]|] eqn:E2; [|discriminate].
      destruct (op_eqb o o2); [|discriminate]. injection Acc as <-. eapply K; eauto.
Qed.

(* boolean reflections *)
Lemma mem_In x l : mem x l = true <-> In x l.
Proof.
  unfold mem. rewrite existsb_exists. split.
  - intros (y & Hy & E). apply Nat.eqb_eq in E. now subst.
  - intros H. exists x. split; [auto|apply Nat.eqb_refl].
Qed.
Lemma nodupb_NoDup l : NoDup l -> nodupb l = true.
Proof.
  induction 1 as [|x l Hx _ IH]; cbn; [reflexivity|]. rewrite IH, andb_true_r.
  destruct (mem x l) eqn:E; [|reflexivity]. apply mem_In in E. contradiction.
Qed.

Lemma insert_perm x l : Permutation (insert x l) (x :: l).
Proof.
  induction l as [|y l IH]; cbn; [constructor; constructor|].
  destruct (x <=? y); [reflexivity|]. rewrite IH. apply perm_swap.
Qed.
Lemma sort_perm l : Permutation (sort l) l.
Proof. induction l as [|x l IH]; cbn; [constructor|]. rewrite insert_perm. now constructor. Qed.

Lemma filter_eqb_notin y l : ~ In y l -> filter (Nat.eqb y) l = [].
Proof.
  induction l as [|z l IH]; cbn; intros H; [reflexivity|].
  destruct (Nat.eqb_spec y z); [subst; exfalso; apply H; left; reflexivity|]. apply IH. intro. apply H. right. assumption.
Qed.

Lemma count_le_1_of_NoDup x l : NoDup l -> count x l <= 1.
Proof.
  unfold count. induction 1 as [|y l Hy _ IH]; cbn; [lia|].
  destruct (Nat.eqb_spec x y); [|exact IH]. subst. cbn. rewrite (filter_eqb_notin y l Hy). cbn. lia.
Qed.

Lemma dup_count_NoDup l : NoDup l -> dup_count l = 0.
Proof.
  intros N. unfold dup_count. assert (filter (fun x => 1 <? count x l) (nodup Nat.eq_dec l) = []) as ->; [|reflexivity].
  induction (nodup Nat.eq_dec l) as [|y r IH]; [reflexivity|]. cbn [filter].
  pose proof (count_le_1_of_NoDup y l N) as C. destruct (1 <? count y l) eqn:E; [apply Nat.ltb_lt in E; lia|exact IH].
Qed.

Theorem model_meets_spec_check_no_leak m ps ch tr a : 1 <= m -> NoDup (concat ps) ->
  replay_ring m ps ch tr = RDone a -> ph a = Dead ->
  check_no_leak (ring_summary a) = [].
Proof.
  intros Hm ND H P.
  destruct (model_meets_spec_no_leak m ps ch tr a Hm H P) as (L & C & _).
  assert (SP (concat ps) a) as S.
  { unfold replay_ring in H. eapply (replay_inv accept_ring (SP (concat ps))); [apply SP_step|apply SP_init|exact H]. }
  assert (NoDup (given_elts (core a))) as NG.
  { unfold SP in S. apply Permutation_sym in S. pose proof (Permutation_NoDup S ND) as N. now apply NoDup_app_l in N. }
  pose proof (Permutation_NoDup C NG) as N1.
  unfold check_no_leak. rewrite L. cbn [Nat.eqb check app].
  assert (sX (ring_summary a) = 0) as ->.
  { unfold ring_summary. cbn [sX]. now apply dup_count_NoDup. }
  cbn [Nat.eqb check app].
  assert (NoDup (sG (ring_summary a) ++ sD (ring_summary a))) as N2.
  { unfold ring_summary. cbn [sG sD]. apply NoDup_app_r in N1.
    eapply Permutation_NoDup; [|exact N1]. apply Permutation_app_head. apply Permutation_sym. apply sort_perm. }
  rewrite (nodupb_NoDup _ N2). reflexivity.
Qed.
