(* C11 - simulation: every step the executable acceptor takes is a step of the relational transition system, so
   the invariant (and everything derived from it) holds in every state an accepted trace passes through. *)
From Coq Require Import List Arith Lia Bool PeanoNat.
From V Require Import C11.Model C11.Ring.
Import ListNotations.
Local Open Scope nat_scope.

Lemma chunk_le k n : chunk k n <= n.
Proof. unfold chunk. destruct (Nat.eqb k 0 || (n <? k)) eqn:E; [lia|]. apply orb_false_iff in E. destruct E as [_ E]. apply Nat.ltb_ge in E. lia. Qed.

Lemma pstep_is_step a p sp a' o : p < np (core a) -> pstep a p sp = Some (a', o) -> step (core a) (core a').
Proof.
  intros Hp. unfold pstep. destruct (prod (core a) p) eqn:E.
  - destruct (pscr a p); [discriminate|]. intros [= <- _]. exact (S_call _ _ _ Hp E).
  - intros [= <- _]. exact (S_tail _ _ _ E).
  - intros [= <- _]. exact (S_head _ _ _ _ E).
  - destruct (cap (core a) - 1 <=? h - t) eqn:F.
    + intros [= <- _]. apply Nat.leb_le in F. exact (S_full _ _ _ _ _ E F).
    + apply Nat.leb_gt in F. destruct (slots (core a) (h mod cap (core a))) eqn:G.
      * intros [= <- _]. cbn. exact (S_slot_fail _ _ _ _ _ E F).
      * destruct sp; intros [= <- _]; cbn.
        -- exact (S_slot_fail _ _ _ _ _ E F).
        -- exact (S_slot_ok _ _ _ _ _ E F G).
  - destruct (Nat.eqb (head (core a)) h && negb sp) eqn:F.
    + intros [= <- _]. cbn. apply andb_true_iff in F. destruct F as [F _]. apply Nat.eqb_eq in F. exact (S_headcas_ok _ _ _ _ _ E F).
    + intros [= <- _]. cbn. exact (S_headcas_fail _ _ _ _ _ E).
  - destruct (slots (core a) (h mod cap (core a))) eqn:G; [|discriminate].
    intros [= <- _]. cbn. exact (S_undo _ _ _ _ _ E G).
  - intros [= <- _]. exact (S_ret _ _ _ E).
Qed.

Lemma cstep_is_step a a' o : cstep a = Some (a', o) -> step (core a) (core a').
Proof.
  unfold cstep. destruct (csm (core a)) eqn:E.
  - destruct (cscr a); [discriminate|]. intros [= <- _]. exact (S_sz1 _ E).
  - intros [= <- _]. exact (S_sz2 _ _ E).
  - destruct (cscr a); [discriminate|]. intros [= <- _]. cbn. exact (S_ccall _ _ _ _ E (chunk_le _ _)).
  - intros [= <- _]. exact (S_peek1 _ _ E).
  - intros [= <- _]. cbn. exact (S_peek2 _ _ _ E).
  - intros [= <- _]. cbn. exact (S_adv _ _ _ E).
  - destruct (i <? n) eqn:F.
    + apply Nat.ltb_lt in F. destruct (slots (core a) ((t0 + i) mod cap (core a))) eqn:G; [|discriminate].
      intros [= <- _]. cbn. exact (S_clear _ _ _ _ _ E F G).
    + intros [= <- _]. cbn. apply Nat.ltb_ge in F. exact (S_cret _ _ _ _ E F).
Qed.

Theorem rstep_is_step a t sp a' o : rstep a t sp = Some (a', o) -> step (core a) (core a').
Proof.
  unfold rstep. destruct (ph a); try discriminate.
  destruct (t <? np (core a)) eqn:E.
  - apply Nat.ltb_lt in E. now apply pstep_is_step.
  - destruct (Nat.eqb t (np (core a))); [apply cstep_is_step|discriminate].
Qed.

(* an accepted event of a logical thread is a step of the transition system *)
Theorem accept_ring_is_step a t o a' : accept_ring a (Thr t, o) = Accepted a' -> step (core a) (core a').
Proof.
  unfold accept_ring. cbn [fst snd].
  destruct (rstep a t false) as [[a1 o1]|] eqn:E1; [|discriminate].
  destruct (op_eqb o o1).
  - intros [= <-]. eapply rstep_is_step; eauto.
  - destruct (rstep a t true) as [[a2 o2]|] eqn:E2; [|discriminate].
    destruct (op_eqb o o2); [|discriminate]. intros [= <-]. eapply rstep_is_step; eauto.
Qed.
