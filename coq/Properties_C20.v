(* C20 - nostd vocabulary types behave like the std types they stand in for.
   Every theorem is proved in coq/C20/Proofs*.v; this file only restates them and prints their assumptions.
   The model (C20/Model.v) mirrors the nostd headers; the SPEC (C20/Spec.v) states what the std counterparts do. *)
From V Require Import C20.Glue C20.ProofsPtrBase C20.ProofsPtrOps C20.ProofsPtr C20.ProofsPtrSpec
                      C20.ProofsSV C20.ProofsSVSpec C20.ProofsVar C20.ProofsChain C20.ProofsMeets.
From Coq Require Import Permutation.

(* string_view::compare is the unsigned lexicographic order: a total order, consistent with == and < > *)
Theorem compare_total_order :
  (forall a b, sv_compare a b = (-1)%Z \/ sv_compare a b = 0%Z \/ sv_compare a b = 1%Z) /\
  (forall a b, sv_compare a b = 0%Z <-> a = b) /\
  (forall a b, sv_eq a b = true <-> sv_compare a b = 0%Z) /\
  (forall a b, sv_compare b a = (- sv_compare a b)%Z) /\
  (forall a b c, (sv_compare a b < 0)%Z -> (sv_compare b c < 0)%Z -> (sv_compare a c < 0)%Z) /\
  (forall a b c, (sv_compare a b <= 0)%Z -> (sv_compare b c <= 0)%Z -> (sv_compare a c <= 0)%Z) /\
  (forall a b, sv_lt a b = true <-> (sv_compare a b < 0)%Z) /\
  (forall a b, sv_gt a b = true <-> sv_lt b a = true) /\
  (forall a b, sv_compare a b = cmp_sign (lex_cmp a b)).
Proof. exact compare_total_order_all. Qed.
Print Assumptions compare_total_order.

(* hashing is consistent with equality *)
Theorem hash_respects_eq : forall (h : bytes -> N) a b, sv_eq a b = true -> h a = h b.
Proof. exact hash_respects_eq_all. Qed.
Print Assumptions hash_respects_eq.

(* find(ch, pos): least index >= pos holding ch, npos exactly when there is none *)
Theorem find_spec : forall s ch pos, (len s < npos)%N ->
  let r := sv_find s ch pos in
  (r <> npos -> (pos <= r < len s)%N /\ nth_is s (N.to_nat r) ch = true /\
                forall j, (pos <= N.of_nat j)%N -> (N.of_nat j < r)%N -> nth_is s j ch = false) /\
  (r = npos -> forall j, (pos <= N.of_nat j)%N -> nth_is s j ch = false).
Proof. exact find_spec_all. Qed.
Print Assumptions find_spec.

(* substr(pos, n): out_of_range exactly when pos > size(), otherwise the slice clamped to the end *)
Theorem substr_spec : forall s pos n,
  (sv_substr s pos n = None <-> (len s < pos)%N) /\
  (forall t, sv_substr s pos n = Some t ->
     N.of_nat (length t) = N.min n (len s - pos) /\
     forall i, i < length t -> nth_error t i = nth_error s (N.to_nat pos + i)).
Proof. exact substr_spec_all. Qed.
Print Assumptions substr_spec.

(* span: the index-checked slice of its buffer, with write-through *)
Theorem span_slice : forall buf off cnt, off + cnt <= length buf ->
  sp_elems buf off cnt = firstn cnt (skipn off buf) /\
  length (sp_elems buf off cnt) = cnt /\
  (forall i, i < cnt -> nth_error (sp_elems buf off cnt) i = nth_error buf (off + i)) /\
  (forall i v, i < cnt -> sp_write buf off i v = firstn (off + i) buf ++ [v] ++ skipn (S (off + i)) buf) /\
  (forall i v j, i < cnt -> j <> off + i -> nth_error (sp_write buf off i v) j = nth_error buf j).
Proof. exact span_slice_all. Qed.
Print Assumptions span_slice.

(* unique_ptr / shared_ptr: for EVERY sequence of operations (make, copy, move, copy-/move-assign incl. self
   assignment, reset, release/adopt, swap incl. self swap, unique->shared, destroy handle) *)
Theorem ownership_exactly_one_destruction : forall ops,
  let st := run_ops ops in
  bad st = false /\
  (forall i o, i < 10 -> hs st i = Ptr o -> o < nxt st /\ o_alive (objs st o) = true) /\
  (forall o, o < nxt st -> (o_alive (objs st o) = true <-> owned (hs st) o = true)) /\
  live_count st = length (filter (owned (hs st)) (seq 0 (nxt st))) /\
  NoDup (plog st) /\
  (forall o, In o (plog st) <-> o < nxt st /\ owned (hs st) o = false) /\
  (forall op, exists D, plog (pnext st op) = plog st ++ D /\ NoDup D /\
              forall o, In o D <-> owned (hs st) o = true /\ owned (hs (pnext st op)) o = false) /\
  bad (teardown st) = false /\ Permutation (plog (teardown st)) (seq 0 (nxt st)) /\ live_count (teardown st) = 0.
Proof. exact ownership_exactly_one_destruction_all. Qed.
Print Assumptions ownership_exactly_one_destruction.

(* variant: holds_alternative / get / get_if / visit agree with index(); valueless throws *)
Theorem variant_get_visit :
  (forall v i, vholds v i = true <-> vindex v = i) /\
  (forall v i, vget v i = Some v <-> (vindex v = i /\ v <> VNone)) /\
  (forall v i, vget v i = None <-> (vindex v <> i \/ v = VNone)) /\
  (forall v i x, vget v i = Some x -> x = v) /\
  (forall R (fm : R) fb fi fs fc,
     vvisit fm fb fi fs fc VMono = Some fm /\
     (forall b, vvisit fm fb fi fs fc (VBool b) = Some (fb b)) /\
     (forall z, vvisit fm fb fi fs fc (VInt z) = Some (fi z)) /\
     (forall s, vvisit fm fb fi fs fc (VStr s) = Some (fs s)) /\
     (forall z, vvisit fm fb fi fs fc (VCnt z) = Some (fc z)) /\
     vvisit fm fb fi fs fc VNone = None) /\
  (forall R (fm : R) fb fi fs fc v, vvisit fm fb fi fs fc v = None <-> vget v (vindex v) = None) /\
  (forall v, ((0 <= vindex v <= 4)%Z /\ v <> VNone) \/ (vindex v = (-1)%Z /\ v = VNone)).
Proof. exact variant_get_visit_all. Qed.
Print Assumptions variant_get_visit.

(* assignment / emplace change the held alternative of exactly that variant; live payload instances are counted *)
Theorem variant_assign : forall st d x, d < NV ->
  let st' := fst (vstep st (VSet d x)) in
  st' d = x /\ vindex (st' d) = vindex x /\ (forall j, j <> d -> st' j = st j) /\
  fst (vstep st (VEmp d x)) d = x /\
  vlive st' = length (filter (fun i => is_cnt (st' i)) (seq 0 NV)).
Proof. exact variant_assign_all. Qed.
Print Assumptions variant_assign.

(* converting construction: the faithful model violates "same alternative as std::variant" (finding F24) ... *)
Theorem variant_conv_refuted : exists k, k < length conv_table /\ spec_conv k (conv_obs k) <> [].
Proof. exact ProofsVar.variant_conv_refuted. Qed.
Print Assumptions variant_conv_refuted.
(* ... and agrees on every row of the table where a const char* argument meets a const char* alternative or is no pointer *)
Theorem variant_conv_partial : forall k alts arg, nth_error conv_table k = Some (alts, arg) ->
  (arg = CCStr -> In CCStr alts) -> spec_conv k (conv_obs k) = [].
Proof. exact ProofsVar.variant_conv_partial. Qed.
Print Assumptions variant_conv_partial.

(* function_ref: calling through the reference is applying the referenced callable (state changes included) *)
Theorem function_ref_application : forall st k a b, f_bound st = Some k -> k < 3 ->
  fexec st (FCall a b) = (fst (fapply st k a b), [TZ (snd (fapply st k a b))]) /\
  fexec st (FCopyCall a b) = fexec st (FCall a b) /\
  f_bound (fst (fapply st k a b)) = Some k.
Proof. exact function_ref_application_all. Qed.
Print Assumptions function_ref_application.

(* a copy of a function_ref refers to the callable its source referred to when the copy was made: empty source => empty
   copy; re-binding or destroying the source afterwards does not change what the copy calls *)
Theorem function_ref_copy : forall st k m, f_bound st = Some k -> m < 3 ->
  let st1 := fst (fexec st (FCopy m)) in
  f_copy st1 = Some k /\
  snd (fexec st1 FBoolC) = [tbool (fcallable k)] /\
  (forall k', f_copy (fst (fexec st1 (FBind k'))) = Some k) /\
  f_copy (fst (fexec st1 FDrop)) = Some k /\
  (forall a b, fexec st1 (FCallC a b) = fcall_via st1 (Some k) a b) /\
  (forall k' a b, k' < 5 -> snd (fexec (fst (fexec st1 (FBind k'))) (FCallC a b)) = snd (fexec st1 (FCallC a b))).
Proof. exact function_ref_copy_all. Qed.
Print Assumptions function_ref_copy.

(* chains of self-referential nodes (a handle that is a member of a pointee is source / target of move, reset, swap;
   unique_ptr or shared_ptr links): for EVERY operation sequence destroyed, head-reachable and aux-reachable nodes are
   disjoint and repetition free, together exactly the nodes created, the destruction log only grows, and when both
   roots go every node has been destroyed exactly once *)
Theorem chain_exactly_one_destruction : forall sh ops,
  let st := crun_state sh ops in
  NoDup (c_log st ++ c_hd st ++ c_aux st) /\
  (forall o, In o (c_log st ++ c_hd st ++ c_aux st) <-> o < c_nxt st) /\
  (forall op, exists D, c_log (cnext sh st op) = c_log st ++ D) /\
  Permutation (c_log (cend st)) (seq 0 (c_nxt st)).
Proof. exact chain_exactly_one_destruction_all. Qed.
Print Assumptions chain_exactly_one_destruction.

(* the central theorem: on every well-formed case the SPEC checker accepts the model's observation *)
Theorem model_meets_spec : forall l c, parse_case l = Some c -> wf_case c -> run_spec l (run_model l) = [].
Proof. exact model_meets_spec_all. Qed.
Print Assumptions model_meets_spec.
