(* placeholder until C20/Proofs.v lands: nothing is claimed proved yet *)
From V Require Import C20.Glue.
Theorem c20_placeholder : True. Proof. exact I. Qed.
Print Assumptions c20_placeholder.
