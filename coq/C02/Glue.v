(* C02 entry points: the batch-processor acceptor (Batch/Model.v) + the C02 history checkers for BATCH cases,
   the provider-composition model (Batch/Compose.v) for COMPOSE cases. *)
From V Require Export Batch.Spec Batch.Compose Batch.Periodic.

Definition is_compose (l : list tok) : bool := match l with t :: _ => is_tag "COMPOSE" t | [] => false end.
Definition case_part (l : list tok) : list tok := match split_toks "||" l with c :: _ => c | [] => [] end.

Definition is_periodic (l : list tok) : bool := match l with t :: _ => is_tag "PERIODIC" t | [] => false end.
Definition trace_part (l : list tok) : list tok := match split_toks "||" l with [_; tr] => tr | _ => [] end.

Definition run_model (l : list tok) : list tok :=
  if is_periodic l then periodic_model (trace_part l) else
  if is_compose l
  then match parse_ccase (case_part l) with Some c => compose_model c | None => bad_case end
  else batch_run_model l.
Definition run_tag (l : list tok) : list tok :=
  if is_periodic l then periodic_tag (trace_part l) else
  if is_compose l
  then match parse_ccase (case_part l) with Some c => compose_tag c | None => bad_case end
  else batch_run_tag l.
Definition run_spec (l obs : list tok) : list tok :=
  if is_periodic l
  then match obs with
       | t :: _ => if is_tag "X" t then periodic_spec2 (trace_part l) ++ periodic_spec_join (trace_part l) else fail "terminate:crash_or_deadlock"
       | [] => fail "obs:unparsable"
       end
  else
  if is_compose l
  then match parse_ccase (case_part l) with Some c => compose_spec c obs | None => bad_case end
  else
  match parse_case l with
  | None => bad_case
  | Some c =>
      let h := c_trace c in
      check (negb (has_bad h)) "obs:unknown_event" ++ obs_consistent h obs ++ spec_c02 h ++ c02_late_calls_prompt h
  end.
