(* placeholder until C18/Proofs*.v land: nothing is claimed proved yet *)
From V Require Import C18.Glue.
Theorem c18_placeholder : True. Proof. exact I. Qed.
Print Assumptions c18_placeholder.
