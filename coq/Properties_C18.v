(* C18 - Resources merge with documented precedence; environment settings parse totally.
   Every theorem is about the executable model coq/C18/Model.v (tied to the C++ by ./check C18);
   statements only, proofs are in coq/C18/Proofs*.v. *)
From V Require Import C18.Glue C18.ProofsBase C18.ProofsEnv C18.ProofsRes C18.ProofsClauses C18.ProofsFloat.
Local Open Scope Z_scope.

(* ---- "a.Merge(b) contains the union of both with b's value winning on every shared key and b's schema URL
        unless it is empty" : for every pair of resources and every key *)
Theorem merge_spec : forall a b : resource,
  (forall k, lookup k (r_attrs (merge a b)) =
             match lookup k (r_attrs b) with Some v => Some v | None => lookup k (r_attrs a) end) /\
  r_schema (merge a b) = (match r_schema b with [] => r_schema a | _ => r_schema b end) /\
  (NoDup (keys (r_attrs b)) -> NoDup (keys (r_attrs (merge a b)))).
Proof. exact merge_spec_proof. Qed.
Print Assumptions merge_spec.

Theorem merge_is_union : forall a b k,
  In k (keys (r_attrs (merge a b))) <-> In k (keys (r_attrs a)) \/ In k (keys (r_attrs b)).
Proof. exact merge_keys. Qed.
Print Assumptions merge_is_union.

(* ---- "... and leaves a and b unchanged": in every script of constructions, merges and Create calls, entry i of
        the store is the same whatever operations follow *)
Theorem merge_operands_unchanged : forall ra sn (ops more : list rop) (i : nat),
  (i < length ops)%nat ->
  nth_error (run_rops ra sn (ops ++ more)) i = nth_error (run_rops ra sn ops) i.
Proof. exact merge_operands_unchanged_proof. Qed.
Print Assumptions merge_operands_unchanged.

(* ---- "key=value lists": OTEL_RESOURCE_ATTRIBUTES / OTEL_SERVICE_NAME, for every pair of settings and every key *)
Theorem detector_spec : forall (ra sn : envv) (k : bytes),
  lookup k (r_attrs (detect ra sn)) = env_says ra sn k /\ r_schema (detect ra sn) = [] /\
  NoDup (keys (r_attrs (detect ra sn))).
Proof. exact detector_spec_proof. Qed.
Print Assumptions detector_spec.

(* the pieces env_says reads are exactly the text between the commas *)
Theorem pieces_spec : forall c s,
  join_with c (pieces c s) = s /\ Forall (fun p => existsb (Byte.eqb c) p = false) (pieces c s).
Proof. exact pieces_spec_proof. Qed.
Print Assumptions pieces_spec.

(* ---- "Resource::Create(attrs) yields the SDK defaults, overridden by OTEL_RESOURCE_ATTRIBUTES / OTEL_SERVICE_NAME,
        overridden by the caller's attributes" *)
Theorem create_precedence : forall ra sn attrs schema,
  let r := create ra sn attrs schema in
  r_schema r = schema /\
  forall k,
    (forall v, lookup k attrs = Some v -> lookup k (r_attrs r) = Some v) /\
    (forall v, lookup k attrs = None -> env_says ra sn k = Some v -> lookup k (r_attrs r) = Some v) /\
    (forall v, lookup k attrs = None -> env_says ra sn k = None -> lookup k doc_defaults = Some v ->
               lookup k (r_attrs r) = Some v) /\
    (lookup k attrs = None -> env_says ra sn k = None -> lookup k doc_defaults = None -> k <> key_service_name ->
     lookup k (r_attrs r) = None).
Proof. exact create_precedence_proof. Qed.
Print Assumptions create_precedence.

(* ---- "... and always contains a service.name": for every environment, attribute map (any value types) and
        schema URL Create yields a resource with a service.name - the configured one, else
        unknown_service[:<process.executable.name when it is a string>].
        (Refuted before the repair eff8d52 of finding F25; f25_regression in ProofsRes.v keeps the old witness.) *)
Theorem service_name_always_present : forall ra sn attrs schema,
  exists v, lookup key_service_name (r_attrs (create ra sn attrs schema)) = Some v /\
            (layered ra sn attrs key_service_name = None -> v = fallback_name (layered ra sn attrs key_exe_name)) /\
            (forall w, layered ra sn attrs key_service_name = Some w -> v = w).
Proof. exact service_name_always_present_proof. Qed.
Print Assumptions service_name_always_present.

(* Create completely characterised *)
Theorem create_total_characterisation : forall (ra sn : envv) (attrs : amap) (schema : bytes),
  let r := create ra sn attrs schema in
  r_schema r = schema /\
  (forall k, lookup k (r_attrs r) =
             match layered ra sn attrs k with
             | Some v => Some v
             | None => if bytes_eqb k key_service_name then Some (fallback_name (layered ra sn attrs key_exe_name)) else None
             end).
Proof. exact create_characterised. Qed.
Print Assumptions create_total_characterisation.

(* ---- "booleans case-insensitively ... for any other string fall back to the documented default (false)" *)
Theorem bool_spec : forall v : envv,
  (raw_nonempty v = None -> get_bool v = (false, false)) /\
  (forall s, raw_nonempty v = Some s ->
     (word_ci s lit_true -> get_bool v = (true, true)) /\
     (word_ci s lit_false -> get_bool v = (true, false)) /\
     (~ word_ci s lit_true -> ~ word_ci s lit_false -> get_bool v = (true, false))).
Proof. exact bool_spec_proof. Qed.
Print Assumptions bool_spec.

(* OTEL_SDK_DISABLED and the sdk Provider helpers *)
Theorem sdk_disabled_spec : forall v : envv,
  (sdk_disabled v = true <-> exists s, raw_nonempty v = Some s /\ word_ci s lit_true) /\
  provider_installed v = negb (sdk_disabled v).
Proof. exact sdk_disabled_proof. Qed.
Print Assumptions sdk_disabled_spec.

(* ---- "unsigned integers within 32 bits ... return the exact value for those, and for any other string fall back
        to the documented default (0, unset)" : for every byte string *)
Theorem uint_spec : forall (v : envv),
  (raw_nonempty v = None -> get_uint v = (false, 0)) /\
  (forall s, raw_nonempty v = Some s ->
     (forall n, get_uint v = (true, n) <-> uint_text s n /\ n <= 2 ^ 32 - 1) /\
     ((forall n, ~ (uint_text s n /\ n <= 2 ^ 32 - 1)) -> get_uint v = (false, 0))).
Proof. exact uint_spec_proof. Qed.
Print Assumptions uint_spec.

(* ---- "durations as digits with an optional ns/us/ms/s/m/h unit": accepted iff the text has the documented shape,
        is not zero and fits the 64-bit nanosecond counter; the value is the mathematical one; anything else
        leaves the caller's variable alone and reports 'unset' *)
Theorem duration_spec : forall (v : envv) (sentinel : Z),
  (raw_nonempty v = None -> get_duration v sentinel = Some (false, 0)) /\
  (forall s, raw_nonempty v = Some s ->
     (forall ns, get_duration v sentinel = Some (true, ns) <-> duration_text s ns /\ 0 < ns <= 2 ^ 63 - 1) /\
     ((forall ns, ~ (duration_text s ns /\ 0 < ns <= 2 ^ 63 - 1)) -> get_duration v sentinel = Some (false, sentinel))).
Proof. exact duration_spec_proof. Qed.
Print Assumptions duration_spec.

(* "instead of ... undefined behaviour": no signed overflow in GetTimeoutFromString, for every text *)
Theorem duration_no_ub : forall s, parse_duration s <> DUB.
Proof. exact duration_no_ub_proof. Qed.
Print Assumptions duration_no_ub.

(* ---- "for any other string fall back to the documented default (false, 0, unset) instead of a partial value":
        every reader either accepts or yields exactly its default *)
Theorem readers_total_default_on_junk : forall v : envv,
  (snd (get_bool v) = true -> exists s, raw_nonempty v = Some s /\ word_ci s lit_true) /\
  (fst (get_uint v) = false -> snd (get_uint v) = 0) /\
  (fst (get_float v) = false -> snd (get_float v) = 0) /\
  (fst (get_string v) = false -> snd (get_string v) = []) /\
  (forall sentinel, exists r n, get_duration v sentinel = Some (r, n) /\ (r = false -> n = 0 \/ n = sentinel)).
Proof. exact readers_total_proof. Qed.
Print Assumptions readers_total_default_on_junk.

(* float reader, PARTIAL: acceptance implies the ISO C float syntax for the whole text (so junk, trailing text,
   missing digits are rejected with the default).  Not proved: that the accepted value is the correctly rounded
   one (the model's rounding is compared bit-for-bit with strtof on every run instead). *)
Theorem float_accept_syntax_partial : forall s, s <> [] ->
  fst (get_float (Some s)) = true -> spec_float_syntax s <> None.
Proof. exact float_accept_syntax_proof. Qed.
Print Assumptions float_accept_syntax_partial.

(* ---- "every span, log record and metric batch references its provider's resource": for every script of
        emissions, meter / instrument creations, measurements and collections (cumulative and delta readers) and
        every state of the meters - so for batches with data and batches WITHOUT any data alike - the items the
        exporters / reader callbacks receive are, one per emitting or collecting operation and in order, items
        referencing the resource of the provider the operation went through *)
Theorem provider_resource_referenced : forall (rs : list resource) (ops : list pop) (st : pstate),
  map (option_map fst) (run_pops rs st ops) =
  map (fun i => option_map (fun r => mk_item_obs (Some i) r) (nth_error rs i))
      (flat_map (fun op => match observed op with Some i => [i] | None => [] end) ops).
Proof. exact provider_resource_referenced_proof. Qed.
Print Assumptions provider_resource_referenced.

(* ---- model_meets_spec, clause by clause: the SPEC checkers ./check runs on the implementation's observations
        report nothing on the model's own results, for every input *)
Theorem model_meets_spec_bool : forall v, clause_bool v (fst (get_bool v)) (snd (get_bool v)) = [].
Proof. exact clause_bool_ok. Qed.
Print Assumptions model_meets_spec_bool.
Theorem model_meets_spec_uint : forall v stale, clause_uint v stale (fst (get_uint v)) (snd (get_uint v)) = [].
Proof. exact clause_uint_ok. Qed.
Print Assumptions model_meets_spec_uint.
Theorem model_meets_spec_duration : forall v sentinel,
  exists r n, get_duration v sentinel = Some (r, n) /\ clause_duration v sentinel r n = [].
Proof. exact clause_duration_ok. Qed.
Print Assumptions model_meets_spec_duration.
Theorem model_meets_spec_string : forall v, clause_string v (fst (get_string v)) (snd (get_string v)) = [].
Proof. exact clause_string_ok. Qed.
Print Assumptions model_meets_spec_string.
Theorem model_meets_spec_disabled : forall v,
  clause_disabled v (sdk_disabled v) (provider_installed v) (provider_installed v) (provider_installed v) = [].
Proof. exact clause_disabled_ok. Qed.
Print Assumptions model_meets_spec_disabled.
Theorem model_meets_spec_detector : forall ra sn, clause_detect ra sn (obs_of (detect ra sn)) = [].
Proof. exact clause_detect_ok. Qed.
Print Assumptions model_meets_spec_detector.
Theorem model_meets_spec_merge : forall a b, NoDup (keys (r_attrs a)) -> NoDup (keys (r_attrs b)) ->
  clause_merge (obs_of a) (obs_of b) (obs_of (merge a b)) = [].
Proof. exact clause_merge_ok. Qed.
Print Assumptions model_meets_spec_merge.
Theorem model_meets_spec_create : forall ra sn attrs schema,
  clause_create ra sn attrs schema (obs_of (create ra sn (map_of_list attrs) schema)) = [].
Proof. exact clause_create_ok. Qed.
Print Assumptions model_meets_spec_create.
Theorem model_meets_spec_scripts : forall ra sn ops, rops_wf 0 ops ->
  clause_rops ra sn ops (map obs_of_o (run_rops ra sn ops)) = [].
Proof. exact clause_rops_ok. Qed.
Print Assumptions model_meets_spec_scripts.
Theorem model_meets_spec_providers : forall rs ops st,
  Forall (fun op => match observed op with Some i => (i < length rs)%nat | None => True end) ops ->
  clause_emits rs ops (map to_pobs (run_pops (resources_of rs) st ops)) = [].
Proof. exact clause_emits_ok. Qed.
Print Assumptions model_meets_spec_providers.
