(* placeholder until C07/Proofs*.v land: nothing is claimed proved yet *)
From V Require Import C07.Glue.
Theorem c07_placeholder : True. Proof. exact I. Qed.
Print Assumptions c07_placeholder.
