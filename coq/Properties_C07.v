(* C07 - Histogram points are exact summaries of the recorded values.
   Property theorems about the Gallina model (coq/C07/Model.v), which is tied to the C++ on every run
   by the correspondence check.  Statements only; the proofs are in coq/C07/Proofs*.v.

   Conventions: a finite double is an integer number of units 2^-s (0 <= s <= 1074, Model.v);
   [ops_of KLong s] / [ops_of KDbl s] are the long / double instrument; [agg o c xs] is the aggregation that
   recorded the values xs in this order under config c; [In_bucket bs i v] says b[i-1] < v <= b[i]
   (no lower limit for i = 0, no upper limit for i = length bs). *)
From V Require Import C07.Spec C07.ProofsBucket C07.ProofsAgg C07.ProofsNum C07.ProofsSeries C07.ProofsSim C07.ProofsSpec C07.ProofsMachine.
From V Require Import Gen.Consts.
From Coq Require Import Permutation.
Local Open Scope Z_scope.

(* ---- sentence 1: every value is counted in exactly one bucket, the one with b[i-1] < v <= b[i] ---- *)
Theorem bucket_spec :
  forall bs v, sorted bs ->
    (bucket bs v <= length bs)%nat /\ In_bucket bs (bucket bs v) v /\
    (forall i, (i <= length bs)%nat -> In_bucket bs i v -> i = bucket bs v).
Proof. exact bucket_spec_lemma. Qed.
Print Assumptions bucket_spec.

(* counts_[i] of an aggregation is the number of recorded values v with b[i-1] < v <= b[i], for both kinds *)
Theorem bucket_counts_spec :
  forall k s c xs, sorted (c_bounds c) -> Z.of_nat (length xs) < U64 -> key_exact k s xs ->
    h_counts (agg (ops_of k s) c xs) = ideal_counts k s (c_bounds c) xs.
Proof. exact counts_are_ideal. Qed.
Print Assumptions bucket_counts_spec.

(* the comparison "boundary < value" the bucket search makes is exact: for every double, and for every int64 -
   also beyond 2^53, where the comparison used to go through a rounding conversion to double (F8b, repaired) *)
Theorem bucket_spec_double_key : forall s xs, key_exact KDbl s xs.
Proof. exact key_exact_dbl. Qed.
Print Assumptions bucket_spec_double_key.
Theorem bucket_spec_long :
  forall s xs, 0 <= s -> (forall v, In v xs -> - 2 ^ 63 <= v < 2 ^ 63) -> key_exact KLong s xs.
Proof. exact key_exact_long. Qed.
Print Assumptions bucket_spec_long.
Theorem long_comparison_exact :
  forall s b v, 0 <= s -> - 2 ^ 63 <= v < 2 ^ 63 -> long_lt s b v = (b <? Z.shiftl v s).
Proof. exact long_lt_exact. Qed.
Print Assumptions long_comparison_exact.

(* ---- sentence 2: the bucket counts add up to count, which is the number of values ---- *)
Theorem counts_sum_to_count :
  forall o c xs, Z.of_nat (length xs) < U64 ->
    zsum (h_counts (agg o c xs)) = h_count (agg o c xs) /\ h_count (agg o c xs) = Z.of_nat (length xs).
Proof. exact counts_sum_to_count_lemma. Qed.
Print Assumptions counts_sum_to_count.

(* ---- sentence 3: sum is the sum of the values (int64: no overflow assumed; double: on runs without rounding,
        decided by the order-independent criterion exact_ms) ---- *)
Theorem sum_is_sum :
  forall o c xs, exact_add o -> h_sum (agg o c xs) = SFin (zsum xs).
Proof. exact sum_is_sum_lemma. Qed.
Print Assumptions sum_is_sum.
Theorem sum_is_sum_double_exact :
  forall s c xs, 0 <= s -> exact_ms s xs = true -> h_sum (agg (dbl_ops s) c xs) = SFin (zsum xs).
Proof. exact sum_is_sum_dbl_lemma. Qed.
Print Assumptions sum_is_sum_double_exact.
Theorem exact_criterion_sound :
  forall s xs, 0 <= s -> exact_ms s xs = true -> exists q, exact_q s q xs.
Proof. exact exact_ms_sound. Qed.
Print Assumptions exact_criterion_sound.

(* ---- sentence 4: min and max, when enabled, are the smallest and the largest recorded value ---- *)
Theorem min_max_spec :
  forall o c xs,
    c_rmm c = true -> xs <> [] -> (forall v, In v xs -> o_max0 o <= v <= o_min0 o) ->
    let h := agg o c xs in
    h_rmm h = true /\
    In (h_min h) xs /\ (forall v, In v xs -> h_min h <= v) /\
    In (h_max h) xs /\ (forall v, In v xs -> v <= h_max h).
Proof. exact min_max_spec_lemma. Qed.
Print Assumptions min_max_spec.
(* the hypothesis on the sentinels holds for every finite double and every int64 (F8 stays repaired) *)
Theorem double_values_within_sentinels :
  forall s b d, 0 <= s -> decode b = Some d -> o_max0 (dbl_ops s) <= to_scale s d <= o_min0 (dbl_ops s).
Proof. exact double_within_sentinels. Qed.
Print Assumptions double_values_within_sentinels.
Theorem long_values_within_sentinels :
  forall s v, - 2 ^ 63 <= v < 2 ^ 63 -> o_max0 (long_ops s) <= v <= o_min0 (long_ops s).
Proof. exact long_within_sentinels. Qed.
Print Assumptions long_values_within_sentinels.

(* a point depends on the multiset of values only *)
Theorem agg_order_independent :
  forall o c xs ys, exact_add o -> Permutation xs ys -> agg o c xs = agg o c ys.
Proof. exact agg_perm. Qed.
Print Assumptions agg_order_independent.

(* ---- sentence 5: combining intervals is lossless ---- *)
Theorem merge_homomorphism :
  forall o c xs ys, exact_add o -> merge o (agg o c xs) (agg o c ys) = agg o c (xs ++ ys).
Proof. exact merge_homomorphism_lemma. Qed.
Print Assumptions merge_homomorphism.
(* double instrument: every field but the sum unconditionally, the whole point when no addition rounds *)
Theorem merge_homomorphism_double_fields :
  forall o c xs ys,
    set_sum (merge o (agg o c xs) (agg o c ys)) (SFin 0) = set_sum (agg o c (xs ++ ys)) (SFin 0).
Proof. exact merge_homomorphism_fields. Qed.
Print Assumptions merge_homomorphism_double_fields.
Theorem merge_homomorphism_double_exact :
  forall s c xs ys, 0 <= s -> exact_ms s (xs ++ ys) = true ->
    merge (dbl_ops s) (agg (dbl_ops s) c xs) (agg (dbl_ops s) c ys) = agg (dbl_ops s) c (xs ++ ys).
Proof. exact merge_homomorphism_dbl_lemma. Qed.
Print Assumptions merge_homomorphism_double_exact.

Theorem merge_assoc :
  forall o a b c, add_assoc o -> merge o (merge o a b) c = merge o a (merge o b c).
Proof. exact merge_assoc_lemma. Qed.
Print Assumptions merge_assoc.
Theorem merge_comm :
  forall o a b, add_comm o -> h_bounds a = h_bounds b -> h_rmm_mem a = h_rmm_mem b -> merge o a b = merge o b a.
Proof. exact merge_comm_lemma. Qed.
Print Assumptions merge_comm.
(* int64 addition is associative and commutative, double addition commutative (not associative) *)
Theorem long_add_assoc_comm : (forall s, add_assoc (long_ops s)) /\ (forall s, add_comm (long_ops s)) /\ (forall s, add_comm (dbl_ops s)).
Proof. exact (conj (fun _ => xadd_assoc) (conj (fun _ => xadd_comm) fadd_comm)). Qed.
Print Assumptions long_add_assoc_comm.

(* Diff inverts Merge: counts, count and sum of the delta come back (F8c, repaired: the sum used to stay 0) *)
Theorem diff_inverts_merge :
  forall o c xs ys, exact_add o ->
    let d := diff o (agg o c xs) (merge o (agg o c xs) (agg o c ys)) in
    h_counts d = h_counts (agg o c ys) /\ h_count d = h_count (agg o c ys) /\ h_bounds d = h_bounds (agg o c ys) /\
    h_sum d = h_sum (agg o c ys).
Proof. exact diff_inverts_merge_lemma. Qed.
Print Assumptions diff_inverts_merge.

(* readers: for every history of Record / Collect over any number of readers of mixed temporality, a delta reader
   is handed the aggregation of exactly the values since its previous collection, a cumulative reader that of all
   values so far, and nothing only when that list is empty *)
Theorem reader_lossless :
  forall o c, exact_add o -> forall temps l, Forall (valid_sop temps) l ->
    Forall2 (fun e out => match out with None => snd e = [] | Some h => h = agg o c (snd e) end)
            (expect_sops temps (repeat [] (length temps)) [] l)
            (run_sops o c temps (sstate0 (length temps)) l).
Proof. exact series_lossless_lemma. Qed.
Print Assumptions reader_lossless.
(* the double instrument, whose addition rounds: for every history every field but the sum is that of the exact
   summary (the sum too whenever the SPEC decides it: model_meets_spec_readers below) *)
Theorem reader_lossless_double_fields :
  forall s c temps l, Forall (valid_sop temps) l ->
    Forall2 (fun e out => match out with
                          | None => snd e = []
                          | Some h => nosum h = nosum (agg (dblx_ops s) c (snd e))
                          end)
            (expect_sops temps (repeat [] (length temps)) [] l)
            (run_sops (dbl_ops s) c temps (sstate0 (length temps)) l).
Proof. exact reader_double_fields_lemma. Qed.
Print Assumptions reader_lossless_double_fields.
Theorem machine_double_fields :
  forall s c l,
    Forall2 (fun h h' => nosum h = nosum h')
            (run_aops (dbl_ops s) c (init_regs (dbl_ops s) c) l)
            (run_aops (dblx_ops s) c (init_regs (dblx_ops s) c) l).
Proof. exact machine_double_fields_lemma. Qed.
Print Assumptions machine_double_fields.

(* ---- the model meets the executable SPEC (what ./check evaluates on the implementation's points) ---- *)
Theorem model_meets_spec :
  forall k s c x xs,
    0 <= s -> sorted (c_bounds c) -> Z.of_nat (length xs) < U64 -> key_exact k s xs -> within_sentinels k s xs ->
    x_minmax x = c_rmm c -> x_basis x = xs ->
    check_point k s (c_bounds c) x xs (point_of (agg (ops_of k s) c xs)) = [].
Proof. exact check_point_agg. Qed.
Print Assumptions model_meets_spec.
(* every sequence of New / Aggregate / Merge / ToPoint operations over the registers, either kind *)
Theorem model_meets_spec_machine :
  forall k s c, 0 <= s -> forall l,
    sorted (c_bounds c) -> Forall no_diff l -> Forall (good_op k s) l ->
    Forall (fun y => Z.of_nat (length (y_vals y)) < U64) (run_sym (c_rmm c) (repeat (sym0 (c_rmm c)) NREG) l) ->
    spec_agg k s c l (map point_of (run_aops (ops_of k s) c (init_regs (ops_of k s) c) l)) = [].
Proof. exact machine_meets_spec_lemma. Qed.
Print Assumptions model_meets_spec_machine.
(* every history of Record / Collect over readers of mixed temporality, either kind *)
Theorem model_meets_spec_readers :
  forall k s c, 0 <= s -> forall temps l,
    sorted (c_bounds c) ->
    Forall (valid_sop temps) l ->
    Forall (fun op => match op with SRec v => good_val k s v | SCollect _ => True end) l ->
    Z.of_nat (n_rec l) < U64 ->
    spec_series k s c temps l
      (map (option_map point_of) (run_sops (ops_of k s) c temps (sstate0 (length temps)) l)) = [].
Proof. exact series_meets_spec_lemma. Qed.
Print Assumptions model_meets_spec_readers.
(* the hypothesis on the values holds for every finite double and for every int64 *)
Theorem good_values :
  (forall s b d, 0 <= s -> decode b = Some d -> good_val KDbl s (to_scale s d)) /\
  (forall s v, 0 <= s -> - 2 ^ 63 <= v < 2 ^ 63 -> good_val KLong s v).
Proof. exact (conj good_val_double good_val_long). Qed.
Print Assumptions good_values.

(* ---- the defaults read from the sources are the OpenTelemetry defaults, sorted, with min/max on ---- *)
Theorem default_boundaries_spec :
  map (to_scale 0) kHistDefaultBoundsDouble = otel_default_bounds /\
  map (to_scale 0) kHistDefaultBoundsLong = otel_default_bounds /\
  sorted otel_default_bounds /\
  kHistRecordMinMaxDefaultDouble = true /\ kHistRecordMinMaxDefaultLong = true.
Proof. exact default_bounds_lemma. Qed.
Print Assumptions default_boundaries_spec.
Theorem default_config_spec : forall k s c, eff_cfg (ops_of k s) c = spec_cfg s c.
Proof. exact eff_cfg_spec. Qed.
Print Assumptions default_config_spec.
