(* Glue between the token wire format and the C10 model/spec.  Extracted.
   case  :=  segment { "|" segment }        first segment = main program, the others = one thread each
   segment := op { ";" op }
   op    :=  SV i key kind n | RSV key kind n | RSVC i key kind n | SSP i span | NEW1 key kind n
          |  SVS i count {key kind n} | NEW count {key kind n}
          |  GV i key | RGV key | RGVC i key | HK i key | GSP i | CSP | DUMP {key} | EQ i j
          |  AT i | ATC | DT k | KT k | CUR | SC span | WAS span
          |  ATT i key | ATP i key
   Several wire operations (different C++ entry points) denote the same model operation.
   ATT/ATP: Attach(Context(key, int64 i)) of a TEMPORARY - the driver keeps no reference to that Context value, so
   that its node is released as soon as its frame is popped; [i] must be the name the new context gets.  It is the
   two model operations "name Context(key, i)" and "attach it" (two outputs).  ATP cases run on the driver built
   WITHOUT sanitizers (the allocator reuses freed addresses there), ATT cases on the ASan/UBSan driver. *)
From V Require Export C10.Spec.
Local Open Scope Z_scope.

Definition two64 : Z := 18446744073709551616.
Definition two63 : Z := 9223372036854775808.

Definition parse_kind (t : tok) : option vkind :=
  if is_tag "m" t then Some KM else if is_tag "b" t then Some KB else if is_tag "i" t then Some KI
  else if is_tag "u" t then Some KU else if is_tag "d" t then Some KD else if is_tag "s" t then Some KS
  else if is_tag "c" t then Some KC else if is_tag "g" t then Some KG else None.

Definition payload_ok (k : vkind) (n : Z) : bool :=
  match k with
  | KM => n =? 0
  | KB => (0 <=? n) && (n <=? 1)
  | KI => (- two63 <=? n) && (n <? two63)
  | KU | KD => (0 <=? n) && (n <? two64)
  | KS => (0 <=? n) && (n <? 16)
  | KC | KG => (0 <=? n) && (n <? 4)
  end.

Definition parse_value (tk tn : tok) : option value :=
  match parse_kind tk, tn with
  | Some k, TZ n => if payload_ok k n then Some (k, n) else None
  | _, _ => None
  end.

Definition parse_nat (t : tok) : option nat :=
  match t with TZ n => if 0 <=? n then Some (Z.to_nat n) else None | _ => None end.

Fixpoint parse_batch (l : list tok) : option (list (bytes * value)) :=
  match l with
  | [] => Some []
  | TB k :: tk :: tn :: l' =>
      match parse_value tk tn, parse_batch l' with
      | Some v, Some b => Some ((k, v) :: b)
      | _, _ => None
      end
  | _ => None
  end.

Fixpoint parse_keys (l : list tok) : option (list bytes) :=
  match l with
  | [] => Some []
  | TB k :: l' => option_map (cons k) (parse_keys l')
  | _ => None
  end.

Definition parse_span (t : tok) : option Z :=
  match t with TZ n => if payload_ok KS n then Some n else None | _ => None end.

Definition parse_counted_batch (tc : tok) (rest : list tok) : option (list (bytes * value)) :=
  match parse_nat tc, parse_batch rest with
  | Some n, Some b => if Nat.eqb n (length b) then Some b else None
  | _, _ => None
  end.

Definition parse_op (l : list tok) : option op :=
  match l with
  | [] => None
  | t :: a =>
      if is_tag "SV" t then
        match a with [ti; TB k; tk; tn] =>
          match parse_nat ti, parse_value tk tn with Some i, Some v => Some (OSet (CIdx i) k v) | _, _ => None end
        | _ => None end
      else if is_tag "RSVC" t then
        match a with [ti; TB k; tk; tn] =>
          match parse_nat ti, parse_value tk tn with Some i, Some v => Some (OSet (CIdx i) k v) | _, _ => None end
        | _ => None end
      else if is_tag "RSV" t then
        match a with [TB k; tk; tn] =>
          match parse_value tk tn with Some v => Some (OSet CCur k v) | _ => None end
        | _ => None end
      else if is_tag "NEW1" t then
        match a with [TB k; tk; tn] =>
          match parse_value tk tn with Some v => Some (OSet (CIdx 0) k v) | _ => None end
        | _ => None end
      else if is_tag "SSP" t then
        match a with [ti; ts] =>
          match parse_nat ti, parse_span ts with Some i, Some s => Some (OSet (CIdx i) span_key (KS, s)) | _, _ => None end
        | _ => None end
      else if is_tag "SVS" t then
        match a with ti :: tc :: rest =>
          match parse_nat ti, parse_counted_batch tc rest with Some i, Some b => Some (OSetValues (CIdx i) b) | _, _ => None end
        | _ => None end
      else if is_tag "NEW" t then
        match a with tc :: rest =>
          match parse_counted_batch tc rest with Some b => Some (OSetValues (CIdx 0) b) | _ => None end
        | _ => None end
      else if is_tag "GV" t then
        match a with [ti; TB k] => match parse_nat ti with Some i => Some (OGet (CIdx i) k) | _ => None end | _ => None end
      else if is_tag "RGVC" t then
        match a with [ti; TB k] => match parse_nat ti with Some i => Some (OGet (CIdx i) k) | _ => None end | _ => None end
      else if is_tag "RGV" t then
        match a with [TB k] => Some (OGet CCur k) | _ => None end
      else if is_tag "HK" t then
        match a with [ti; TB k] => match parse_nat ti with Some i => Some (OHas (CIdx i) k) | _ => None end | _ => None end
      else if is_tag "GSP" t then
        match a with [ti] => match parse_nat ti with Some i => Some (OGetSpan (CIdx i)) | _ => None end | _ => None end
      else if is_tag "CSP" t then
        match a with [] => Some (OGetSpan CCur) | _ => None end
      else if is_tag "DUMP" t then option_map ODump (parse_keys a)
      else if is_tag "EQ" t then
        match a with [ti; tj] => match parse_nat ti, parse_nat tj with Some i, Some j => Some (OEq i j) | _, _ => None end | _ => None end
      else if is_tag "AT" t then
        match a with [ti] => match parse_nat ti with Some i => Some (OAttach (CIdx i)) | _ => None end | _ => None end
      else if is_tag "ATC" t then
        match a with [] => Some (OAttach CCur) | _ => None end
      else if is_tag "DT" t then
        match a with [tk] => match parse_nat tk with Some k => Some (ODetach k) | _ => None end | _ => None end
      else if is_tag "KT" t then
        match a with [tk] => match parse_nat tk with Some k => Some (OKill k) | _ => None end | _ => None end
      else if is_tag "CUR" t then
        match a with [] => Some OCur | _ => None end
      else if is_tag "SC" t then
        match a with [ts] => match parse_span ts with Some s => Some (OScope s) | _ => None end | _ => None end
      else if is_tag "WAS" t then
        match a with [ts] => match parse_span ts with Some s => Some (OScope s) | _ => None end | _ => None end
      else None
  end.

(* a wire operation as model operations *)
Definition parse_wire_op (l : list tok) : option (list op) :=
  match l with
  | [t; TZ i; TB k] =>
      if (is_tag "ATT" t || is_tag "ATP" t) && payload_ok KI i && (0 <=? i)
      then Some [OSet (CIdx 0) k (KI, i); OAttach (CIdx (Z.to_nat i))]
      else option_map (fun o => [o]) (parse_op l)
  | _ => option_map (fun o => [o]) (parse_op l)
  end.

(* operations of one segment; empty pieces (e.g. an empty segment) are skipped *)
Fixpoint parse_ops (l : list (list tok)) : option (list op) :=
  match l with
  | [] => Some []
  | [] :: l' => parse_ops l'
  | o :: l' => match parse_wire_op o, parse_ops l' with
               | Some x, Some r => Some (x ++ r)
               | _, _ => None
               end
  end.

Fixpoint parse_segments (l : list (list tok)) : option (list (list op)) :=
  match l with
  | [] => Some []
  | s :: l' => match parse_ops (split_toks ";" s), parse_segments l' with
               | Some x, Some r => Some (x :: r)
               | _, _ => None
               end
  end.

Definition parse_case (l : list tok) : option (list op * list (list op)) :=
  match parse_segments (split_toks "|" l) with
  | Some (m :: ts) => Some (m, ts)
  | _ => None
  end.

(* PURITY <bindings> <threads> <rounds> <iters>: the purity probe (harness/c10_purity.cc, ThreadSanitizer build) of the
   modelling assumptions "Context values are immutable, shared freely between threads" and "the runtime context is per
   thread".  In the model operations are functions and every thread has its own world, so the only observation it
   predicts is PURE; the probe's other observations name the failed clause.  A run-time probe, not a theorem. *)
Definition is_purity (l : list tok) : bool :=
  match l with
  | [t; TZ _; TZ _; TZ _; TZ _] => is_tag "PURITY" t
  | _ => false
  end.

Definition spec_purity_ok (obs : list tok) : list tok :=
  match obs with
  | [t] => if is_tag "PURE" t then [] else fail "obs:unparsable"
  | t :: _ => if is_tag "RACE" t then fail "purity:data_race"
              else if is_tag "DIFFERS" t then fail "purity:result_differs"
              else if is_tag "HARNESSRACE" t then fail "harness:probe_race"
              else if is_tag "HANG" t then fail "purity:hang"
              else if is_tag "CRASH" t then fail "purity:crash"
              else fail "obs:unparsable"
  | [] => fail "obs:unparsable"
  end.

Definition run_model (l : list tok) : list tok :=
  if is_purity l then [tag "PURE"] else
  match parse_case l with
  | Some (m, ts) => run_case m ts
  | None => bad_case
  end.

Definition run_spec (l obs : list tok) : list tok :=
  if is_purity l then spec_purity_ok obs else
  match parse_case l with
  | Some (m, ts) => check_case m ts obs
  | None => bad_case
  end.

(* ------------------------------------------------------------------ coverage tag *)
Record feat := mk_feat { f_ooo : bool; f_foreign : bool; f_empty : bool; f_depth : nat; f_stack : bool }.

Definition op_feat (s : sstate) (o : op) (f : feat) : feat :=
  let kd k := match nth k (s_toks s) SDead with
              | SLive i | SBorrowed i | SScope i => Some (snd (sdetach (s_stack s) i))
              | SDead => None
              end in
  let upd k := match kd k with
               | Some DOutOfOrder => mk_feat true (f_foreign f) (f_empty f) (f_depth f) true
               | Some DForeign => mk_feat (f_ooo f) true (f_empty f) (f_depth f) true
               | _ => f
               end in
  match o with
  | ODetach k => match nth k (s_toks s) SDead with SScope _ => f | _ => upd k end
  | OKill k => match nth k (s_toks s) SDead with SBorrowed _ => f | _ => upd k end
  | OSetValues _ [] => mk_feat (f_ooo f) (f_foreign f) true (f_depth f) (f_stack f)
  | OAttach _ | OScope _ =>
      mk_feat (f_ooo f) (f_foreign f) (f_empty f) (Nat.max (f_depth f) (S (length (s_stack s)))) true
  | _ => f
  end.

Fixpoint feats (s : sstate) (ops : list op) (f : feat) : sstate * feat :=
  match ops with
  | [] => (s, f)
  | o :: ops' => feats (fst (sstep s o)) ops' (op_feat s o f)
  end.

Definition run_tag (l : list tok) : list tok :=
  if is_purity l then [tag "purity_probe"] else
  match parse_case l with
  | Some (m, ts) =>
      let (s, f) := feats sstate0 m (mk_feat false false false 0 false) in
      let f' := fold_left (fun f t => snd (feats (sfork s) t f)) ts f in
      [tag (match ts with
            | _ :: _ => if f_ooo f' then "threads_unwind" else "threads"
            | [] => match m with
                    | [] => "empty"
                    | _ => if f_empty f' then "empty_batch"
                           else if f_ooo f' then (if Nat.ltb 8 (f_depth f') then "unwind_deep" else "unwind")
                           else if f_foreign f' then "foreign"
                           else if Nat.ltb 8 (f_depth f') then "deep"
                           else if f_stack f' then "stack" else "contexts_only"
                    end
            end)]
  | None => bad_case
  end.
