(* MODEL for C10: context::Context (persistent linked list of DataList nodes),
   ThreadLocalContextStorage::Stack ({size_, capacity_, base_[]}), Detach with its unwinding loop,
   Token / Scope life time, trace::GetSpan / SetSpan / Tracer::GetCurrentSpan.
   Mirrors what the C++ does, including the default-constructed (key-less) head node that
   Context(empty iterable) / SetValues(empty iterable) creates; since the repair of F20 (4bc3189)
   GetValue skips such a node.
   Definitions only - no proofs in this file. *)
From V Require Export Base.Bytes Gen.Consts.
Local Open Scope nat_scope.

(* ------------------------------------------------------------------ ContextValue *)
(* nostd::variant<monostate,bool,int64_t,uint64_t,double,shared_ptr<Span>,shared_ptr<SpanContext>,
   shared_ptr<Baggage>>: alternative + payload (integers by value, doubles by bit pattern, pointers by
   the index of the pointee in the driver's object table) *)
Inductive vkind := KM | KB | KI | KU | KD | KS | KC | KG.
Definition value := (vkind * Z)%type.
Definition vnone : value := (KM, 0%Z).                       (* ContextValue{} *)
Definition is_none (v : value) : bool := match fst v with KM => true | _ => false end.

Definition vkind_eqb (a b : vkind) : bool :=
  match a, b with
  | KM, KM | KB, KB | KI, KI | KU, KU | KD, KD | KS, KS | KC, KC | KG, KG => true
  | _, _ => false
  end.
Definition value_eqb (a b : value) : bool := vkind_eqb (fst a) (fst b) && Z.eqb (snd a) (snd b).

(* ------------------------------------------------------------------ Context: heap of DataList nodes *)
(* A node is never changed once a Context that reaches it has been returned.  The heap is the list of all
   nodes ever allocated, NEWEST FIRST; the address of a node is the number of nodes allocated before it. *)
Record node := mk_node {
  n_key : option bytes;      (* key_/key_length_ ; None = key_ is nullptr (default-constructed DataList) *)
  n_val : value;             (* value_ *)
  n_next : option nat        (* next_ ; None = nullptr *)
}.
Definition heap := list node.
Definition ctx := option nat.        (* Context::head_ ; None = nullptr = Context() *)
Definition root : ctx := None.

Definition ctx_eqb (a b : ctx) : bool :=      (* Context::operator== : head_ == other.head_ *)
  match a, b with
  | None, None => true
  | Some x, Some y => Nat.eqb x y
  | _, _ => false
  end.

(* the nodes reached from [c] by following next_, in order *)
Fixpoint chain (h : heap) (c : ctx) : list node :=
  match h with
  | [] => []
  | n :: h' =>
      match c with
      | None => []
      | Some i => if Nat.eqb i (length h') then n :: chain h' (n_next n) else chain h' c
      end
  end.

(* the test in the loop of GetValue:
     data->key_ != nullptr && key.size() == data->key_length_  &&
     (data->key_length_ == 0 || memcmp(key.data(), data->key_, data->key_length_) == 0) *)
Definition node_matches (key : bytes) (n : node) : bool :=
  match n_key n with
  | Some k => if Nat.eqb (length key) (length k)
              then Nat.eqb (length k) 0 || bytes_eqb (firstn (length k) key) k
              else false
  | None => false                           (* a node without a key holds no binding *)
  end.

Definition get_value (h : heap) (c : ctx) (key : bytes) : value :=
  match find (node_matches key) (chain h c) with
  | Some n => n_val n
  | None => vnone
  end.
Definition has_key (h : heap) (c : ctx) (key : bytes) : bool := negb (is_none (get_value h c key)).

(* new DataList(key, value) with next_ = [next] *)
Definition alloc (h : heap) (k : option bytes) (v : value) (next : ctx) : heap * ctx :=
  (mk_node k v next :: h, Some (length h)).

(* Context::SetValue *)
Definition set_value (h : heap) (c : ctx) (k : bytes) (v : value) : heap * ctx := alloc h (Some k) v c.

(* DataList(const T &keys_and_vals) followed by  last->next_ = head_ : one node per element, in iteration order *)
Fixpoint alloc_batch (h : heap) (b : list (bytes * value)) (parent : ctx) : heap * ctx :=
  match b with
  | [] => (h, parent)
  | (k, v) :: b' => let (h1, c1) := alloc_batch h b' parent in alloc h1 (Some k) v c1
  end.
(* Context::SetValues / Context(const T&): an empty iterable leaves the default-constructed head node *)
Definition set_values (h : heap) (c : ctx) (b : list (bytes * value)) : heap * ctx :=
  match b with
  | [] => alloc h None vnone c
  | _ => alloc_batch h b c
  end.

(* ------------------------------------------------------------------ ThreadLocalContextStorage::Stack *)
Record stack := mk_stack { st_size : nat; st_cap : nat; st_base : list ctx }.
Definition stack0 : stack := mk_stack 0 0 [].          (* base_ = nullptr *)

Fixpoint set_nth {A} (i : nat) (v : A) (l : list A) : list A :=      (* l[i] = v *)
  match l, i with
  | [], _ => []
  | _ :: r, 0 => v :: r
  | x :: r, S j => x :: set_nth j v r
  end.

Definition top (s : stack) : ctx :=
  if Nat.eqb (st_size s) 0 then root else nth (st_size s - 1) (st_base s) root.

Definition pop (s : stack) : stack :=
  if Nat.eqb (st_size s) 0 then s
  else mk_stack (st_size s - 1) (st_cap s) (set_nth (st_size s - 1) root (st_base s)).

(* for (pos = size_; pos > 0; --pos) if (token == base_[pos-1]) return true; *)
Fixpoint contains_from (pos : nat) (base : list ctx) (c : ctx) : bool :=
  match pos with
  | 0 => false
  | S p => if ctx_eqb c (nth p base root) then true else contains_from p base c
  end.
Definition contains (s : stack) (c : ctx) : bool := contains_from (st_size s) (st_base s) c.

(* for (i = 0; i < n; i++) dst[i] = src[i]; *)
Fixpoint copy_loop (n : nat) (src dst : list ctx) : list ctx :=
  match n with
  | 0 => dst
  | S n' => set_nth n' (nth n' src root) (copy_loop n' src dst)
  end.

(* Resize(new_capacity), called from Push after size_ was incremented *)
Definition resize (s : stack) (new_capacity : nat) : stack :=
  let old_size := st_size s - 1 in
  let newcap := if Nat.eqb new_capacity 0 then 2 else new_capacity in
  let temp := repeat root newcap in
  let temp' := if Nat.eqb (st_cap s) 0 (* base_ == nullptr *) then temp
               else copy_loop (Nat.min old_size newcap) (st_base s) temp in
  mk_stack (st_size s) newcap temp'.

Definition push (s : stack) (c : ctx) : stack :=
  let s1 := mk_stack (S (st_size s)) (st_cap s) (st_base s) in
  let s2 := if Nat.ltb (st_cap s1) (st_size s1) then resize s1 (st_size s1 * 2) else s1 in
  mk_stack (st_size s2) (st_cap s2) (set_nth (st_size s2 - 1) c (st_base s2)).

(* while (!(token == Top())) Pop();   -- only entered when Contains(token) *)
Fixpoint pop_until (fuel : nat) (s : stack) (c : ctx) : stack :=
  match fuel with
  | 0 => s
  | S f => if ctx_eqb c (top s) then s else pop_until f (pop s) c
  end.

(* ThreadLocalContextStorage::Detach; [c] is the token's context *)
Definition detach (s : stack) (c : ctx) : stack * bool :=
  if ctx_eqb c (top s) then (pop s, true)
  else if negb (contains s c) then (s, false)
  else (pop (pop_until (st_size s) s c), true).

(* ------------------------------------------------------------------ one thread's world *)
Inductive tokst :=
| TDead                  (* the unique_ptr<Token> / Scope was destroyed *)
| TLive (c : ctx)        (* a Token obtained from Attach, still owned *)
| TBorrowed (c : ctx)    (* a Token owned by another thread: may be passed to Detach, never destroyed here *)
| TScope (c : ctx).      (* a trace::Scope (owns its Token privately: cannot be passed to Detach) *)

Record tstate := mk_t {
  t_heap : heap;
  t_pool : list ctx;          (* every Context value the program has named so far; index 0 = Context() *)
  t_stk : stack;              (* this thread's thread_local Stack *)
  t_toks : list tokst         (* every token / scope the program has obtained so far *)
}.
Definition tstate0 : tstate := mk_t [] [root] stack0 [].

Inductive cref := CCur | CIdx (i : nat).      (* RuntimeContext::GetCurrent()  |  a named context *)

Inductive op :=
| OSet (r : cref) (k : bytes) (v : value)            (* SetValue (4 entry points) -> new named context *)
| OSetValues (r : cref) (b : list (bytes * value))   (* SetValues / Context(iterable) -> new named context *)
| OGet (r : cref) (k : bytes)                        (* GetValue *)
| OHas (r : cref) (k : bytes)                        (* HasKey *)
| OGetSpan (r : cref)                                (* trace::GetSpan / Tracer::GetCurrentSpan *)
| ODump (keys : list bytes)                          (* GetValue of every named context x every key *)
| OEq (i j : nat)                                    (* Context::operator== *)
| OAttach (r : cref)                                 (* RuntimeContext::Attach -> new token *)
| ODetach (k : nat)                                  (* RuntimeContext::Detach of token k *)
| OKill (k : nat)                                    (* destroy token / scope k (its destructor detaches) *)
| OCur                                               (* which named context is RuntimeContext::GetCurrent() *)
| OScope (s : Z).                                    (* trace::Scope(span s) / Tracer::WithActiveSpan *)

Definition span_key : bytes := map n2b kSpanKeyBytes.

Definition resolve (st : tstate) (r : cref) : ctx :=
  match r with CCur => top (t_stk st) | CIdx i => nth i (t_pool st) root end.

Fixpoint find_idx (c : ctx) (l : list ctx) (i : nat) : Z :=
  match l with
  | [] => (-1)%Z
  | x :: r => if ctx_eqb x c then Z.of_nat i else find_idx c r (S i)
  end.
Definition cur_idx (st : tstate) : Z := find_idx (top (t_stk st)) (t_pool st) 0.

Definition kind_tag (k : vkind) : tok :=
  tag match k with KM => "m" | KB => "b" | KI => "i" | KU => "u" | KD => "d" | KS => "s" | KC => "c" | KG => "g" end.
Definition print_value (v : value) : list tok := [kind_tag (fst v); TZ (snd v)].

(* GetSpan: the value under kSpanKey if it holds a shared_ptr<Span>, else a fresh invalid DefaultSpan (-1) *)
Definition span_of (v : value) : Z := match fst v with KS => snd v | _ => (-1)%Z end.

Definition tok_ctx (t : tokst) : option ctx :=      (* the context a Detach of the token would look for *)
  match t with TLive c | TBorrowed c => Some c | _ => None end.

Definition dump (h : heap) (pool : list ctx) (keys : list bytes) : list tok :=
  flat_map (fun c => flat_map (fun k => print_value (get_value h c k)) keys) pool.

Definition with_stk (st : tstate) (s : stack) : tstate := mk_t (t_heap st) (t_pool st) s (t_toks st).

Definition step (st : tstate) (o : op) : tstate * list tok :=
  match o with
  | OSet r k v =>
      let (h, c) := set_value (t_heap st) (resolve st r) k v in
      (mk_t h (t_pool st ++ [c]) (t_stk st) (t_toks st), [])
  | OSetValues r b =>
      let (h, c) := set_values (t_heap st) (resolve st r) b in
      (mk_t h (t_pool st ++ [c]) (t_stk st) (t_toks st), [])
  | OGet r k => (st, print_value (get_value (t_heap st) (resolve st r) k))
  | OHas r k => (st, [tbool (has_key (t_heap st) (resolve st r) k)])
  | OGetSpan r => (st, [TZ (span_of (get_value (t_heap st) (resolve st r) span_key))])
  | ODump keys => (st, dump (t_heap st) (t_pool st) keys)
  | OEq i j => (st, [tbool (ctx_eqb (nth i (t_pool st) root) (nth j (t_pool st) root))])
  | OAttach r =>
      let c := resolve st r in
      (mk_t (t_heap st) (t_pool st) (push (t_stk st) c) (t_toks st ++ [TLive c]), [])
  | ODetach k =>
      match tok_ctx (nth k (t_toks st) TDead) with
      | Some c => let (s, r) := detach (t_stk st) c in (with_stk st s, [tbool r])
      | None => (st, [tag (match nth k (t_toks st) TDead with TScope _ => "scope" | _ => "dead" end)])
      end
  | OKill k =>
      match nth k (t_toks st) TDead with
      | TLive c | TScope c =>
          (mk_t (t_heap st) (t_pool st) (fst (detach (t_stk st) c)) (set_nth k TDead (t_toks st)), [])
      | _ => (st, [])
      end
  | OCur => (st, [TZ (cur_idx st)])
  | OScope s =>
      (* Attach(GetCurrent().SetValue(kSpanKey, span)); the driver then names GetCurrent() *)
      let (h, c) := set_value (t_heap st) (top (t_stk st)) span_key (KS, s) in
      (mk_t h (t_pool st ++ [c]) (push (t_stk st) c) (t_toks st ++ [TScope c]), [])
  end.

Definition sep : tok := tag ";".
Definition bar : tok := tag "|".

(* every operation's output is terminated by ";" *)
Fixpoint run (st : tstate) (ops : list op) : tstate * list tok :=
  match ops with
  | [] => (st, [])
  | o :: ops' =>
      let (st1, out) := step st o in
      let (st2, outs) := run st1 ops' in
      (st2, out ++ sep :: outs)
  end.

(* End of a program: the driver reveals the whole stack through the public interface only, [n] times:
   print which context is current; t = Attach(GetCurrent()); Detach t; destroy t (detaches again). *)
Definition pop_public (s : stack) : stack :=
  let c := top s in
  let s1 := push s c in
  let s2 := fst (detach s1 c) in
  fst (detach s2 c).
Fixpoint drain (n : nat) (st : tstate) : list tok :=
  match n with
  | 0 => []
  | S n' => TZ (cur_idx st) :: drain n' (with_stk st (pop_public (t_stk st)))
  end.
Definition finish (st : tstate) : list tok := drain (length (t_toks st)) st ++ [sep].

(* a thread started by the program: sees the same named contexts and may borrow the starter's tokens;
   its own thread_local stack is empty *)
Definition fork_tok (t : tokst) : tokst :=
  match t with TLive c | TBorrowed c => TBorrowed c | _ => TDead end.
Definition fork (st : tstate) : tstate := mk_t (t_heap st) (t_pool st) stack0 (map fork_tok (t_toks st)).

Definition run_thread (st0 : tstate) (ops : list op) : list tok :=
  let (st, out) := run (fork st0) ops in out ++ finish st ++ [bar].

(* a case: the main program, then the threads (each compared against its own instance of the model),
   then the main thread looks at its own current context and reveals its stack *)
Definition run_case (main : list op) (threads : list (list op)) : list tok :=
  let (st, out) := run tstate0 main in
  out ++ bar :: flat_map (run_thread st) threads ++ (TZ (cur_idx st) :: sep :: finish st) ++ [bar].

(* ------------------------------------------------------------------ several threads *)
(* thread_local: every thread has its own world; a step of thread [t] is a step of its world.
   (Contexts reachable by two threads were created before the fork and are immutable, so the node heap
   is carried per thread.)  A schedule is any interleaving of (thread, operation) pairs. *)
Definition mstate := nat -> tstate.
Definition mstep (m : mstate) (t : nat) (o : op) : mstate * list tok :=
  let (st, out) := step (m t) o in
  (fun u => if Nat.eqb u t then st else m u, out).
Fixpoint mrun (m : mstate) (sched : list (nat * op)) : mstate * list (nat * list tok) :=
  match sched with
  | [] => (m, [])
  | (t, o) :: sched' =>
      let (m1, out) := mstep m t o in
      let (m2, outs) := mrun m1 sched' in
      (m2, (t, out) :: outs)
  end.
