(* SPEC for C10, written independently of how the code works: a context is an association list
   (newest binding first) that never changes, named by the order of creation; the runtime context of a
   thread is a plain list of such names (top first); tokens remember the name they were attached with.
   The checker replays a program on this abstract machine and compares, operation by operation, with an
   OBSERVATION (of the implementation, or of the model); the first difference is reported as the clause
   of the property it contradicts. *)
From V Require Export C10.Model.
Local Open Scope string_scope.
Local Open Scope list_scope.
Local Open Scope nat_scope.
Local Notation "a +++ b" := (String.append a b) (at level 60, right associativity).

(* ------------------------------------------------------------------ abstract contexts *)
Record actx := mk_actx {
  a_binds : list (bytes * value)    (* newest first *)
}.
Definition actx0 : actx := mk_actx [].

(* the value GetValue must return: the most recent binding of exactly this key (same length, same bytes) *)
Definition assoc (k : bytes) (l : list (bytes * value)) : value :=
  match find (fun p => bytes_eqb (fst p) k) l with
  | Some p => snd p
  | None => vnone
  end.

(* ------------------------------------------------------------------ abstract runtime stack *)
(* names on the stack, most recently attached first; everything above and including the most recent
   occurrence of [i] goes away *)
Fixpoint unwind (i : nat) (stk : list nat) : option (list nat) :=
  match stk with
  | [] => None
  | x :: r => if Nat.eqb x i then Some r else unwind i r
  end.

Inductive dkind := DTop | DOutOfOrder | DForeign.
(* Detach of a token attached with context [i]: new stack, result, what kind of detach it was.
   A token whose context is not on the stack changes nothing and reports false - except that a token of the
   root context Context() on an EMPTY stack "matches the current context" and reports true (still no change). *)
Definition sdetach (stk : list nat) (i : nat) : list nat * bool * dkind :=
  match unwind i stk with
  | Some r => (r, true, match stk with x :: _ => if Nat.eqb x i then DTop else DOutOfOrder | [] => DTop end)
  | None => (stk, match stk with [] => Nat.eqb i 0 | _ => false end, DForeign)
  end.

Inductive stok := SDead | SLive (i : nat) | SBorrowed (i : nat) | SScope (i : nat).

Record sstate := mk_s {
  s_pool : list actx;       (* name = index; 0 = the root context *)
  s_stack : list nat;
  s_toks : list stok;
  s_last : string           (* what happened last to the runtime context: names the clause a wrong answer contradicts *)
}.
Definition sstate0 : sstate := mk_s [actx0] [] [] "initial_context_is_root".

Definition scur (s : sstate) : nat := hd 0 (s_stack s).
Definition clampi (s : sstate) (i : nat) : nat := if Nat.ltb i (length (s_pool s)) then i else 0.
Definition sres (s : sstate) (r : cref) : nat := match r with CCur => scur s | CIdx i => clampi s i end.
Definition sctx (s : sstate) (i : nat) : actx := nth i (s_pool s) actx0.

Definition is_nilb {A} (l : list A) : bool := match l with [] => true | _ => false end.

(* clause contradicted by a wrong GetValue/HasKey answer for key [k] of context [i] *)
Definition get_clause (s : sstate) (r : cref) (k : bytes) : string :=
  let i := sres s r in
  (match r with
   | CCur => s_last s +++ ":current_value"
   | CIdx _ => if Nat.eqb (S i) (length (s_pool s)) then "latest_binding_wins:newest_context"
               else "context_immutable:older_context"
   end)%string.

Definition dkind_name (prefix : string) (k : dkind) : string :=
  prefix +++ match k with DTop => "top_restores" | DOutOfOrder => "out_of_order_unwinds" | DForeign => "foreign_noop" end%string.

Definition chunk := (list tok * string)%type.      (* expected tokens, clause contradicted if they differ *)

Definition sdump (s : sstate) (keys : list bytes) : list chunk :=
  flat_map (fun i => map (fun k => (print_value (assoc k (a_binds (sctx s i))), get_clause s (CIdx i) k)) keys)
           (seq 0 (length (s_pool s))).

Definition set_stack (s : sstate) (stk : list nat) (last : string) : sstate :=
  mk_s (s_pool s) stk (s_toks s) last.

Definition sstep (s : sstate) (o : op) : sstate * list chunk :=
  match o with
  | OSet r k v =>
      let p := sctx s (sres s r) in
      (mk_s (s_pool s ++ [mk_actx ((k, v) :: a_binds p)]) (s_stack s) (s_toks s) (s_last s), [])
  | OSetValues r b =>
      let p := sctx s (sres s r) in
      (mk_s (s_pool s ++ [mk_actx (b ++ a_binds p)]) (s_stack s) (s_toks s) (s_last s), [])
  | OGet r k => (s, [(print_value (assoc k (a_binds (sctx s (sres s r)))), get_clause s r k)])
  | OHas r k => (s, [([tbool (negb (is_none (assoc k (a_binds (sctx s (sres s r))))))], get_clause s r k)])
  | OGetSpan r =>
      (s, [([TZ (span_of (assoc span_key (a_binds (sctx s (sres s r)))))],
            match r with CCur => s_last s +++ ":current_span" | CIdx _ => get_clause s r span_key end)])
  | ODump keys => (s, sdump s keys)
  | OEq i j => (s, [([tbool (Nat.eqb (clampi s i) (clampi s j))], "context_identity:equality")])
  | OAttach r =>
      let i := sres s r in
      (mk_s (s_pool s) (i :: s_stack s) (s_toks s ++ [SLive i]) "attach_makes_current", [])
  | ODetach k =>
      match nth k (s_toks s) SDead with
      | SLive i | SBorrowed i =>
          let '(stk, b, kd) := sdetach (s_stack s) i in
          (set_stack s stk (dkind_name "detach_" kd), [([tbool b], dkind_name "detach_result_" kd)])
      | SScope _ => (s, [([tag "scope"], "harness:token_state")])
      | SDead => (s, [([tag "dead"], "harness:token_state")])
      end
  | OKill k =>
      match nth k (s_toks s) SDead with
      | SLive i =>
          let '(stk, _, kd) := sdetach (s_stack s) i in
          (mk_s (s_pool s) stk (set_nth k SDead (s_toks s)) (dkind_name "token_release_" kd), [])
      | SScope i =>
          let '(stk, _, kd) := sdetach (s_stack s) i in
          (mk_s (s_pool s) stk (set_nth k SDead (s_toks s))
                (match kd with DTop => "scope_release_reactivates_previous"%string | _ => dkind_name "scope_release_" kd end), [])
      | _ => (s, [])
      end
  | OCur => (s, [([TZ (Z.of_nat (scur s))], s_last s +++ ":current_context")])
  | OScope sp =>
      let p := sctx s (scur s) in
      let i := length (s_pool s) in
      (mk_s (s_pool s ++ [mk_actx ((span_key, (KS, sp)) :: a_binds p)])
            (i :: s_stack s) (s_toks s ++ [SScope i]) "scope_activates_span", [])
  end.

(* what revealing the whole stack must show: the names top first, then the root for ever *)
Definition sfinish (s : sstate) : list chunk :=
  [(map (fun i => TZ (Z.of_nat i)) (s_stack s ++ repeat 0 (length (s_toks s) - length (s_stack s))),
    "stack_is_a_list:final_contents")].

Definition sfork_tok (t : stok) : stok :=
  match t with SLive i | SBorrowed i => SBorrowed i | _ => SDead end.
(* another thread starts with an EMPTY runtime stack whatever this thread has attached *)
Definition sfork (s : sstate) : sstate :=
  mk_s (s_pool s) [] (map sfork_tok (s_toks s)) "threads_isolated_at_thread_start".

(* ------------------------------------------------------------------ the checker *)
Fixpoint strip_prefix (p l : list tok) : option (list tok) :=
  match p with
  | [] => Some l
  | x :: p' => match l with
               | y :: l' => if tok_eqb x y then strip_prefix p' l' else None
               | [] => None
               end
  end.

(* inl rest = all chunks found at the front of the observation; inr tags = the first clause contradicted *)
Definition res := (list tok + list tok)%type.

Fixpoint eat (cs : list chunk) (obs : list tok) : res :=
  match cs with
  | [] => inl obs
  | (e, clause) :: cs' =>
      match strip_prefix e obs with
      | Some rest => eat cs' rest
      | None => inr (fail clause)
      end
  end.

Definition eat_tok (t : tok) (obs : list tok) : res :=
  match obs with
  | y :: rest => if tok_eqb t y then inl rest else inr (fail "format:separator")
  | [] => inr (fail "format:truncated")
  end.

Fixpoint check_ops (s : sstate) (ops : list op) (obs : list tok) : sstate * res :=
  match ops with
  | [] => (s, inl obs)
  | o :: ops' =>
      let (s1, cs) := sstep s o in
      match eat cs obs with
      | inl rest => match eat_tok sep rest with
                    | inl rest' => check_ops s1 ops' rest'
                    | inr f => (s1, inr f)
                    end
      | inr f => (s1, inr f)
      end
  end.

Definition check_finish (s : sstate) (obs : list tok) : res :=
  match eat (sfinish s) obs with
  | inl rest => eat_tok sep rest
  | inr f => inr f
  end.

Definition check_thread (s0 : sstate) (ops : list op) (obs : list tok) : res :=
  match check_ops (sfork s0) ops obs with
  | (s, inl rest) => match check_finish s rest with
                     | inl rest' => eat_tok bar rest'
                     | inr f => inr f
                     end
  | (_, inr f) => inr f
  end.

Fixpoint check_threads (s0 : sstate) (threads : list (list op)) (obs : list tok) : res :=
  match threads with
  | [] => inl obs
  | t :: ts => match check_thread s0 t obs with
               | inl rest => check_threads s0 ts rest
               | inr f => inr f
               end
  end.

Definition after_join (s : sstate) : sstate :=
  mk_s (s_pool s) (s_stack s) (s_toks s) "threads_isolated_after_join".

Definition check_case (main : list op) (threads : list (list op)) (obs : list tok) : list tok :=
  match check_ops sstate0 main obs with
  | (s, inl rest) =>
      match eat_tok bar rest with
      | inl rest1 =>
          match check_threads s threads rest1 with
          | inl rest2 =>
              let s' := match threads with [] => s | _ => after_join s end in
              match eat [([TZ (Z.of_nat (scur s'))], s_last s' +++ ":current_context")] rest2 with
              | inl rest3 =>
                  match eat_tok sep rest3 with
                  | inl rest4 =>
                      match check_finish s' rest4 with
                      | inl rest5 => match eat_tok bar rest5 with
                                     | inl [] => []
                                     | inl _ => fail "format:trailing"
                                     | inr f => f
                                     end
                      | inr f => f
                      end
                  | inr f => f
                  end
              | inr f => f
              end
          | inr f => f
          end
      | inr f => f
      end
  | (_, inr f) => f
  end.
