(* C10 proofs, part 1: the persistent DataList heap.  Key comparison is exact; a context is an
   association list that no later allocation can change. *)
From V Require Import C10.Spec.
From Coq Require Import Lia ZifyBool ZifyNat.
Local Open Scope nat_scope.

(* ------------------------------------------------------------------ equality tests *)
Lemma byte_eqb_eq : forall a b, Byte.eqb a b = true <-> a = b.
Proof. intros a b; split; [apply Byte.byte_dec_bl | apply Byte.byte_dec_lb]. Qed.

Lemma bytes_eqb_eq : forall a b, bytes_eqb a b = true <-> a = b.
Proof.
  induction a as [|x a IH]; destruct b as [|y b]; cbn; split; intro H; try reflexivity; try discriminate.
  - apply andb_true_iff in H. destruct H as [H1 H2]. apply byte_eqb_eq in H1. apply IH in H2. congruence.
  - inversion H; subst. apply andb_true_iff. split; [apply byte_eqb_eq; reflexivity | apply IH; reflexivity].
Qed.

Lemma bytes_eqb_refl : forall a, bytes_eqb a a = true.
Proof. intro a. apply bytes_eqb_eq. reflexivity. Qed.

Lemma bytes_eqb_sym : forall a b, bytes_eqb a b = bytes_eqb b a.
Proof.
  intros a b. destruct (bytes_eqb a b) eqn:E; symmetry.
  - apply bytes_eqb_eq in E. subst. apply bytes_eqb_refl.
  - destruct (bytes_eqb b a) eqn:E'; [|reflexivity]. apply bytes_eqb_eq in E'. subst.
    rewrite bytes_eqb_refl in E. discriminate.
Qed.

Lemma ctx_eqb_eq : forall a b : ctx, ctx_eqb a b = true <-> a = b.
Proof.
  intros [x|] [y|]; cbn; split; intro H; try reflexivity; try discriminate.
  - apply Nat.eqb_eq in H. congruence.
  - inversion H. apply Nat.eqb_refl.
Qed.

Lemma ctx_eqb_refl : forall a, ctx_eqb a a = true.
Proof. intro a. apply ctx_eqb_eq. reflexivity. Qed.

Lemma ctx_eqb_neq : forall a b : ctx, ctx_eqb a b = false <-> a <> b.
Proof.
  intros a b. split.
  - intros H E. subst. rewrite ctx_eqb_refl in H. discriminate.
  - intro H. destruct (ctx_eqb a b) eqn:E; [|reflexivity]. apply ctx_eqb_eq in E. contradiction.
Qed.

Lemma ctx_eqb_sym : forall a b, ctx_eqb a b = ctx_eqb b a.
Proof.
  intros a b. destruct (ctx_eqb a b) eqn:E; symmetry.
  - apply ctx_eqb_eq in E. subst. apply ctx_eqb_refl.
  - apply ctx_eqb_neq. apply ctx_eqb_neq in E. congruence.
Qed.

(* ------------------------------------------------------------------ the key test of GetValue is exact *)
(* same length and same bytes: no prefix matching, nothing special about NUL bytes or the empty key;
   the default-constructed node (key_ = nullptr) of an empty batch matches nothing *)
Lemma node_matches_spec : forall key n, node_matches key n = true <-> n_key n = Some key.
Proof.
  intros key [k v nx]. unfold node_matches. cbn [n_key]. destruct k as [k|].
  - destruct (Nat.eqb (length key) (length k)) eqn:E.
    + apply Nat.eqb_eq in E. rewrite <- E, firstn_all. split.
      * intro H. apply orb_true_iff in H. destruct H as [H|H].
        -- apply Nat.eqb_eq in H. destruct key; [|discriminate]. destruct k; [reflexivity | discriminate].
        -- apply bytes_eqb_eq in H. subst. reflexivity.
      * intro H. inversion H; subst. rewrite bytes_eqb_refl. apply orb_true_r.
    + split; [discriminate|]. intro H. inversion H; subst. rewrite Nat.eqb_refl in E. discriminate.
  - split; discriminate.
Qed.

(* ------------------------------------------------------------------ chains are stable under allocation *)
Definition ctx_ok (h : heap) (c : ctx) : Prop := match c with None => True | Some i => i < length h end.

Lemma chain_cons_old : forall h n c, ctx_ok h c -> chain (n :: h) c = chain h c.
Proof.
  intros h n [i|] H; cbn [chain].
  - cbn in H. destruct (Nat.eqb i (length h)) eqn:E; [apply Nat.eqb_eq in E; lia | reflexivity].
  - destruct h; reflexivity.
Qed.

Lemma chain_cons_new : forall h n, chain (n :: h) (Some (length h)) = n :: chain h (n_next n).
Proof. intros. cbn [chain]. rewrite Nat.eqb_refl. reflexivity. Qed.

Lemma ctx_ok_app : forall ex h c, ctx_ok h c -> ctx_ok (ex ++ h) c.
Proof. intros ex h [i|] H; cbn in *; [rewrite app_length; lia | exact I]. Qed.

Lemma chain_app_old : forall ex h c, ctx_ok h c -> chain (ex ++ h) c = chain h c.
Proof.
  induction ex as [|n ex IH]; intros h c H; [reflexivity|].
  cbn [app]. rewrite chain_cons_old; [apply IH; exact H | apply ctx_ok_app; exact H].
Qed.

(* ------------------------------------------------------------------ a context as an association list *)
Definition strip (l : list node) : list (bytes * value) :=
  flat_map (fun n => match n_key n with Some k => [(k, n_val n)] | None => [] end) l.
Definition binds (h : heap) (c : ctx) : list (bytes * value) := strip (chain h c).

Lemma find_assoc : forall key l,
  match find (node_matches key) l with Some n => n_val n | None => vnone end = assoc key (strip l).
Proof.
  intros key l. unfold assoc. induction l as [|n l IH]; [reflexivity|].
  cbn [find strip flat_map].
  destruct (node_matches key n) eqn:M.
  - apply node_matches_spec in M. rewrite M. cbn [app find fst]. rewrite bytes_eqb_refl. reflexivity.
  - destruct (n_key n) as [k|] eqn:K.
    + cbn [app find fst]. destruct (bytes_eqb k key) eqn:E.
      * apply bytes_eqb_eq in E. subst k.
        assert (node_matches key n = true) by (apply node_matches_spec; exact K). congruence.
      * exact IH.
    + cbn [app]. exact IH.
Qed.

(* GetValue answers from the association list *)
Lemma get_value_assoc : forall h c key, get_value h c key = assoc key (binds h c).
Proof. intros. unfold get_value, binds. apply find_assoc. Qed.

(* ------------------------------------------------------------------ SetValue *)
Lemma set_value_spec : forall h c k v,
  let (h', c') := set_value h c k v in
  h' = mk_node (Some k) v c :: h /\ c' = Some (length h).
Proof. intros. cbn. split; reflexivity. Qed.

Lemma binds_set_value : forall h c k v,
  binds (fst (set_value h c k v)) (snd (set_value h c k v)) = (k, v) :: binds h c.
Proof. intros. unfold set_value, alloc, binds. cbn [fst snd]. rewrite chain_cons_new. reflexivity. Qed.

(* ------------------------------------------------------------------ SetValues *)
Lemma alloc_batch_heap : forall b h c,
  exists ex, fst (alloc_batch h b c) = ex ++ h /\ length ex = length b.
Proof.
  induction b as [|[k v] b IH]; intros h c.
  - exists []. split; reflexivity.
  - cbn [alloc_batch]. destruct (IH h c) as [ex [E L]].
    destruct (alloc_batch h b c) as [h1 c1] eqn:A. cbn [fst] in E. unfold alloc. cbn [fst].
    exists (mk_node (Some k) v c1 :: ex). split; [cbn; rewrite E; reflexivity | cbn; rewrite L; reflexivity].
Qed.

Lemma alloc_batch_head : forall b h c,
  b <> [] -> snd (alloc_batch h b c) = Some (length b + length h - 1).
Proof.
  intros [|[k v] b] h c H; [contradiction|].
  cbn [alloc_batch]. destruct (alloc_batch_heap b h c) as [ex [E L]].
  destruct (alloc_batch h b c) as [h1 c1] eqn:A. cbn [fst] in E. unfold alloc. cbn [snd].
  subst h1. rewrite app_length, L. cbn [length]. f_equal. lia.
Qed.

Lemma alloc_batch_ok : forall b h c, ctx_ok h c -> ctx_ok (fst (alloc_batch h b c)) (snd (alloc_batch h b c)).
Proof.
  intros [|[k v] b] h c H; [exact H|].
  cbn [alloc_batch]. destruct (alloc_batch h b c) as [h1 c1]. unfold alloc. cbn. lia.
Qed.

Lemma alloc_batch_binds : forall b h c,
  ctx_ok h c ->
  binds (fst (alloc_batch h b c)) (snd (alloc_batch h b c)) = b ++ binds h c.
Proof.
  induction b as [|[k v] b IH]; intros h c H; [reflexivity|].
  cbn [alloc_batch]. specialize (IH h c H).
  destruct (alloc_batch h b c) as [h1 c1] eqn:A. cbn [fst snd] in IH.
  unfold alloc, binds. cbn [fst snd]. rewrite chain_cons_new. cbn [strip flat_map n_key n_val n_next app].
  f_equal. exact IH.
Qed.

(* everything SetValues / SetValue can do to the heap: put new nodes in front *)
Lemma set_values_heap : forall h c b, exists ex, fst (set_values h c b) = ex ++ h /\ ex <> [].
Proof.
  intros h c [|p b].
  - exists [mk_node None vnone c]. split; [reflexivity | discriminate].
  - unfold set_values. destruct (alloc_batch_heap (p :: b) h c) as [ex [E L]].
    exists ex. split; [exact E|]. destruct ex; [discriminate | discriminate].
Qed.

Lemma set_values_head : forall h c b,
  exists j, snd (set_values h c b) = Some j /\ length h <= j < length (fst (set_values h c b)).
Proof.
  intros h c [|p b].
  - exists (length h). cbn. split; [reflexivity | lia].
  - unfold set_values. exists (length (p :: b) + length h - 1).
    split; [apply alloc_batch_head; discriminate|].
    destruct (alloc_batch_heap (p :: b) h c) as [ex [E L]]. rewrite E, app_length, L. cbn [length]. lia.
Qed.

(* the bindings of the new context: the batch in iteration order, then the parent's - for an empty batch
   the parent's alone (the default-constructed node carries no key) *)
Lemma set_values_binds : forall h c b,
  ctx_ok h c -> binds (fst (set_values h c b)) (snd (set_values h c b)) = b ++ binds h c.
Proof.
  intros h c [|p b] H.
  - unfold set_values, alloc, binds. cbn [fst snd]. rewrite chain_cons_new. reflexivity.
  - unfold set_values. apply alloc_batch_binds. exact H.
Qed.

(* ------------------------------------------------------------------ latest binding wins *)
Theorem set_value_get_same : forall h c k v,
  get_value (fst (set_value h c k v)) (snd (set_value h c k v)) k = v.
Proof.
  intros. unfold get_value, set_value, alloc. cbn [fst snd]. rewrite chain_cons_new. cbn [find].
  assert (M : node_matches k (mk_node (Some k) v c) = true) by (apply node_matches_spec; reflexivity).
  rewrite M. reflexivity.
Qed.

Theorem set_value_get_other : forall h c k v k',
  k' <> k ->
  get_value (fst (set_value h c k v)) (snd (set_value h c k v)) k' = get_value h c k'.
Proof.
  intros. unfold get_value, set_value, alloc. cbn [fst snd]. rewrite chain_cons_new. cbn [find n_next].
  destruct (node_matches k' (mk_node (Some k) v c)) eqn:M; [|reflexivity].
  apply node_matches_spec in M. cbn in M. congruence.
Qed.

(* keys that differ only by a suffix, a NUL or case never answer for each other *)
Example prefix_keys_distinct :
  let h := fst (set_value [] root (bs "ab") (KI, 1%Z)) in
  let c := snd (set_value [] root (bs "ab") (KI, 1%Z)) in
  get_value h c (bs "a") = vnone /\ get_value h c (bs "abc") = vnone /\
  get_value h c [x61; x62; x00] = vnone /\ get_value h c [] = vnone /\ get_value h c (bs "ab") = (KI, 1%Z).
Proof. vm_compute. repeat split. Qed.
