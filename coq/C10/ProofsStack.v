(* C10 proofs, part 2: ThreadLocalContextStorage::Stack {size_, capacity_, base_[]} refines a list.
   Push (with Resize(size*2) and its copy loop), Pop, Top, Contains and Detach (with its unwinding loop)
   are exactly the list operations, for every reachable stack, across every reallocation. *)
From V Require Import C10.Spec C10.ProofsCtx.
From Coq Require Import Lia ZifyBool ZifyNat.
Local Open Scope nat_scope.

(* ------------------------------------------------------------------ list toolkit *)
Lemma set_nth_length : forall A i (v : A) l, length (set_nth i v l) = length l.
Proof. intros A i v l. revert i. induction l as [|x l IH]; intros [|i]; cbn; try reflexivity. rewrite IH. reflexivity. Qed.

Lemma nth_set_nth_same : forall A i (v d : A) l, i < length l -> nth i (set_nth i v l) d = v.
Proof. intros A i v d l. revert i. induction l as [|x l IH]; intros [|i] H; cbn in *; try lia; [reflexivity | apply IH; lia]. Qed.

Lemma nth_set_nth_other : forall A i j (v d : A) l, i <> j -> nth j (set_nth i v l) d = nth j l d.
Proof.
  intros A i j v d l. revert i j. induction l as [|x l IH]; intros [|i] [|j] H; cbn; try reflexivity; try lia.
  apply IH. lia.
Qed.

Lemma firstn_set_nth : forall A i (v : A) l, firstn i (set_nth i v l) = firstn i l.
Proof. intros A i v l. revert i. induction l as [|x l IH]; intros [|i]; cbn; try reflexivity. rewrite IH. reflexivity. Qed.

Lemma firstn_S_nth : forall A n (l : list A) d, n < length l -> firstn (S n) l = firstn n l ++ [nth n l d].
Proof.
  intros A n l d. revert n. induction l as [|x l IH]; intros [|n] H; cbn in *; try lia; [reflexivity|].
  rewrite <- IH by lia. reflexivity.
Qed.

Lemma set_nth_app_mid : forall A (a : list A) v x r, set_nth (length a) v (a ++ x :: r) = a ++ v :: r.
Proof. intros A a v x r. induction a as [|y a IH]; cbn; [reflexivity | rewrite IH; reflexivity]. Qed.

Lemma skipn_S_nth : forall A n (l : list A) d, n < length l -> skipn n l = nth n l d :: skipn (S n) l.
Proof.
  intros A n l d. revert n. induction l as [|x l IH]; intros [|n] H; cbn in *; try lia; [reflexivity|].
  apply IH. lia.
Qed.

Lemma nth_repeat_root : forall n i, nth i (repeat root n) root = root.
Proof. induction n as [|n IH]; intros [|i]; cbn; try reflexivity. apply IH. Qed.

(* ------------------------------------------------------------------ the copy loop of Resize *)
Lemma copy_loop_spec : forall n src dst,
  n <= length src -> n <= length dst -> copy_loop n src dst = firstn n src ++ skipn n dst.
Proof.
  induction n as [|n IH]; intros src dst Hs Hd; [reflexivity|].
  cbn [copy_loop]. rewrite IH by lia.
  rewrite (skipn_S_nth _ n dst root) by lia.
  replace n with (length (firstn n src)) at 1 by (rewrite firstn_length; lia).
  rewrite set_nth_app_mid. rewrite (firstn_S_nth _ n src root) by lia. rewrite <- app_assoc. reflexivity.
Qed.

(* ------------------------------------------------------------------ well-formed stacks and their abstraction *)
Definition stack_wf (s : stack) : Prop :=
  st_size s <= st_cap s /\ length (st_base s) = st_cap s /\
  (forall i, st_size s <= i -> nth i (st_base s) root = root).     (* popped slots were reset to Context() *)

Definition abs (s : stack) : list ctx := rev (firstn (st_size s) (st_base s)).     (* top first *)

Lemma stack0_wf : stack_wf stack0.
Proof. unfold stack_wf, stack0. cbn. repeat split; [lia|]. intros [|i] _; reflexivity. Qed.

Lemma abs_stack0 : abs stack0 = [].
Proof. reflexivity. Qed.

Lemma abs_length : forall s, stack_wf s -> length (abs s) = st_size s.
Proof. intros s [H1 [H2 _]]. unfold abs. rewrite rev_length, firstn_length. lia. Qed.

Lemma abs_S : forall n cap base, n < length base ->
  abs (mk_stack (S n) cap base) = nth n base root :: abs (mk_stack n cap base).
Proof.
  intros. unfold abs. cbn [st_size st_base]. rewrite (firstn_S_nth _ n base root) by assumption.
  rewrite rev_app_distr. reflexivity.
Qed.

Lemma top_abs : forall s, stack_wf s -> top s = hd root (abs s).
Proof.
  intros [n cap base] [H1 [H2 H3]]. cbn [st_size st_cap st_base] in *. unfold top. cbn [st_size st_base].
  destruct n as [|n]; [reflexivity|]. cbn [Nat.eqb]. rewrite abs_S by lia. cbn [hd]. f_equal. lia.
Qed.

Lemma pop_abs : forall s, stack_wf s -> stack_wf (pop s) /\ abs (pop s) = tl (abs s).
Proof.
  intros [n cap base] W. pose proof W as [H1 [H2 H3]]. cbn [st_size st_cap st_base] in *.
  unfold pop. cbn [st_size st_cap st_base]. destruct n as [|n]; [split; [exact W | reflexivity]|].
  cbn [Nat.eqb]. replace (S n - 1) with n by lia. split.
  - unfold stack_wf. cbn [st_size st_cap st_base]. rewrite set_nth_length. repeat split; [lia | exact H2 |].
    intros i Hi. destruct (Nat.eq_dec i n) as [->|Hne].
    + apply nth_set_nth_same. lia.
    + rewrite nth_set_nth_other by lia. apply H3. lia.
  - rewrite abs_S by lia. cbn [tl]. unfold abs. cbn [st_size st_base]. rewrite firstn_set_nth. reflexivity.
Qed.

Lemma push_abs : forall s c, stack_wf s -> stack_wf (push s c) /\ abs (push s c) = c :: abs s.
Proof.
  intros [n cap base] c [H1 [H2 H3]]. cbn [st_size st_cap st_base] in *.
  unfold push. cbn [st_size st_cap st_base].
  destruct (Nat.ltb cap (S n)) eqn:E.
  - (* reallocation: size = capacity *)
    assert (Hn : cap = n) by lia. clear E H1. rewrite Hn in *. clear Hn.
    unfold resize. cbn [st_size st_cap st_base].
    assert (N0 : Nat.eqb (S n * 2) 0 = false) by (apply Nat.eqb_neq; lia). rewrite N0.
    replace (S n - 1) with n by lia.
    set (newcap := S n * 2).
    assert (B : (if Nat.eqb n 0 then repeat root newcap
                 else copy_loop (Nat.min n newcap) base (repeat root newcap)) = base ++ repeat root (newcap - n)).
    { destruct (Nat.eqb n 0) eqn:Z.
      - apply Nat.eqb_eq in Z. subst n. destruct base; [|discriminate]. cbn [app]. f_equal; lia.
      - replace (Nat.min n newcap) with n by (unfold newcap; lia).
        rewrite copy_loop_spec by (rewrite ?repeat_length; unfold newcap; lia).
        rewrite <- H2, firstn_all. f_equal.
        replace newcap with (length base + (newcap - length base)) at 1 by (unfold newcap; lia).
        rewrite repeat_app, skipn_app, repeat_length, Nat.sub_diag.
        rewrite skipn_all2 by (rewrite repeat_length; lia). reflexivity. }
    rewrite B. clear B.
    assert (R : repeat root (newcap - n) = root :: repeat root (newcap - n - 1)).
    { replace (newcap - n) with (S (newcap - n - 1)) at 1 by (unfold newcap; lia). reflexivity. }
    assert (S1 : set_nth n c (base ++ root :: repeat root (newcap - n - 1)) = base ++ c :: repeat root (newcap - n - 1)).
    { rewrite <- H2. apply set_nth_app_mid. }
    rewrite R, S1. clear R S1. split.
    + unfold stack_wf. cbn [st_size st_cap st_base]. rewrite app_length. cbn [length]. rewrite repeat_length.
      repeat split; [unfold newcap; lia | unfold newcap; lia |].
      intros i Hi. rewrite app_nth2 by lia. rewrite H2.
      destruct (i - n) as [|j] eqn:D; [lia|]. cbn [nth]. apply nth_repeat_root.
    + rewrite abs_S by (rewrite app_length; cbn [length]; lia).
      rewrite app_nth2 by lia. rewrite H2, Nat.sub_diag. cbn [nth]. f_equal.
      unfold abs. cbn [st_size st_base]. rewrite firstn_app, H2, Nat.sub_diag. cbn [firstn]. rewrite app_nil_r.
      reflexivity.
  - (* room left *)
    assert (S n <= cap) by lia. cbn [st_size st_cap st_base]. replace (S n - 1) with n by lia. split.
    + unfold stack_wf. cbn [st_size st_cap st_base]. rewrite set_nth_length. repeat split; [lia | exact H2 |].
      intros i Hi. rewrite nth_set_nth_other by lia. apply H3. lia.
    + rewrite abs_S by (rewrite set_nth_length; lia). rewrite nth_set_nth_same by lia. f_equal.
      unfold abs. cbn [st_size st_base]. rewrite firstn_set_nth. reflexivity.
Qed.

(* capacity: doubles (from the new size) exactly when the stack is full, never shrinks *)
Lemma push_capacity : forall s c,
  st_cap (push s c) = if Nat.ltb (st_cap s) (S (st_size s)) then 2 * S (st_size s) else st_cap s.
Proof.
  intros [n cap base] c. unfold push. cbn [st_size st_cap st_base].
  destruct (Nat.ltb cap (S n)) eqn:E; [|reflexivity].
  unfold resize. cbn [st_size st_cap st_base].
  assert (N0 : Nat.eqb (S n * 2) 0 = false) by (apply Nat.eqb_neq; lia). rewrite N0. lia.
Qed.

Lemma pop_capacity : forall s, st_cap (pop s) = st_cap s.
Proof. intros [n cap base]. unfold pop. cbn [st_size st_cap st_base]. destruct (Nat.eqb n 0); reflexivity. Qed.

(* ------------------------------------------------------------------ Contains *)
Lemma contains_from_abs : forall pos cap base c, pos <= length base ->
  contains_from pos base c = existsb (ctx_eqb c) (abs (mk_stack pos cap base)).
Proof.
  induction pos as [|p IH]; intros cap base c H; [reflexivity|].
  cbn [contains_from]. rewrite abs_S by lia. cbn [existsb].
  destruct (ctx_eqb c (nth p base root)); [reflexivity|]. cbn [orb]. apply IH. lia.
Qed.

Lemma contains_abs : forall s c, stack_wf s -> contains s c = existsb (ctx_eqb c) (abs s).
Proof.
  intros [n cap base] c [H1 [H2 _]]. cbn [st_size st_cap st_base] in *. unfold contains. cbn [st_size st_base].
  apply contains_from_abs. lia.
Qed.

(* ------------------------------------------------------------------ Detach on lists *)
(* everything above and including the most recent occurrence of [c] goes away *)
Fixpoint lunwind (c : ctx) (l : list ctx) : option (list ctx) :=
  match l with
  | [] => None
  | x :: r => if ctx_eqb c x then Some r else lunwind c r
  end.
Definition ldetach (l : list ctx) (c : ctx) : list ctx * bool :=
  match lunwind c l with
  | Some r => (r, true)
  | None => (l, match l with [] => ctx_eqb c root | _ => false end)
  end.

Fixpoint drop_until (c : ctx) (l : list ctx) : list ctx :=
  match l with
  | [] => []
  | x :: r => if ctx_eqb c x then l else drop_until c r
  end.

Lemma lunwind_none : forall c l, existsb (ctx_eqb c) l = false <-> lunwind c l = None.
Proof.
  intros c l. induction l as [|x l IH]; cbn; [split; reflexivity|].
  destruct (ctx_eqb c x); cbn; [split; discriminate | exact IH].
Qed.

Lemma lunwind_drop : forall c l, existsb (ctx_eqb c) l = true -> lunwind c l = Some (tl (drop_until c l)).
Proof.
  intros c l. induction l as [|x l IH]; cbn; [discriminate|].
  destruct (ctx_eqb c x); cbn; [reflexivity | exact IH].
Qed.

Lemma pop_until_abs : forall fuel s c, stack_wf s -> length (abs s) <= fuel ->
  stack_wf (pop_until fuel s c) /\ abs (pop_until fuel s c) = drop_until c (abs s).
Proof.
  induction fuel as [|f IH]; intros s c W L.
  - cbn [pop_until]. split; [exact W|]. destruct (abs s); [reflexivity | cbn in L; lia].
  - cbn [pop_until]. rewrite (top_abs s W). destruct (abs s) as [|x r] eqn:A.
    + cbn [hd drop_until]. destruct (ctx_eqb c root).
      * split; [exact W | exact A].
      * destruct (pop_abs s W) as [W' A']. rewrite A in A'. cbn [tl] in A'.
        destruct (IH (pop s) c W') as [W2 A2]; [rewrite A'; cbn; lia|]. rewrite A' in A2. split; assumption.
    + cbn [hd drop_until]. destruct (ctx_eqb c x).
      * split; [exact W | exact A].
      * destruct (pop_abs s W) as [W' A']. rewrite A in A'. cbn [tl] in A'.
        destruct (IH (pop s) c W') as [W2 A2]; [rewrite A'; cbn in L; lia|]. rewrite A' in A2. split; assumption.
Qed.

(* Detach as coded = Detach on the list, for every well-formed stack and every token context *)
Lemma detach_abs : forall s c, stack_wf s ->
  stack_wf (fst (detach s c)) /\ (abs (fst (detach s c)), snd (detach s c)) = ldetach (abs s) c.
Proof.
  intros s c W. unfold detach, ldetach. rewrite (top_abs s W), (contains_abs s c W).
  destruct (abs s) as [|x r] eqn:A.
  - cbn [hd lunwind existsb]. destruct (ctx_eqb c root) eqn:E; cbn [fst snd negb].
    + destruct (pop_abs s W) as [W' A']. rewrite A in A'. cbn [tl] in A'. rewrite A'. split; [exact W' | reflexivity].
    + rewrite A. split; [exact W | reflexivity].
  - cbn [hd lunwind existsb]. destruct (ctx_eqb c x) eqn:E; cbn [fst snd orb].
    + destruct (pop_abs s W) as [W' A']. rewrite A in A'. cbn [tl] in A'. rewrite A'. split; [exact W' | reflexivity].
    + destruct (existsb (ctx_eqb c) r) eqn:X; cbn [negb fst snd].
      * destruct (pop_until_abs (st_size s) s c W) as [W1 A1]; [rewrite abs_length by exact W; lia|].
        destruct (pop_abs _ W1) as [W2 A2]. rewrite A2, A1, A. cbn [drop_until]. rewrite E.
        rewrite (lunwind_drop c r X). split; [exact W2 | reflexivity].
      * apply lunwind_none in X. rewrite X, A. split; [exact W | reflexivity].
Qed.

(* ------------------------------------------------------------------ the named facts about Detach, on lists *)
Lemma ldetach_top : forall c l, ldetach (c :: l) c = (l, true).
Proof. intros. unfold ldetach. cbn [lunwind]. rewrite ctx_eqb_refl. reflexivity. Qed.

Lemma ldetach_out_of_order : forall c above below,
  ~ In c above -> ldetach (above ++ c :: below) c = (below, true).
Proof.
  intros c above below H. unfold ldetach.
  assert (L : lunwind c (above ++ c :: below) = Some below).
  { induction above as [|x a IH]; cbn [app lunwind].
    - rewrite ctx_eqb_refl. reflexivity.
    - destruct (ctx_eqb c x) eqn:E.
      + apply ctx_eqb_eq in E. subst. exfalso. apply H. left. reflexivity.
      + apply IH. intro. apply H. right. assumption. }
  rewrite L. reflexivity.
Qed.

Lemma lunwind_not_in : forall c l, ~ In c l -> lunwind c l = None.
Proof.
  intros c l. induction l as [|x l IH]; intro H; [reflexivity|]. cbn [lunwind].
  destruct (ctx_eqb c x) eqn:E.
  - apply ctx_eqb_eq in E. subst. exfalso. apply H. left. reflexivity.
  - apply IH. intro. apply H. right. assumption.
Qed.

Lemma ldetach_foreign : forall c l,
  ~ In c l -> ldetach l c = (l, match l with [] => ctx_eqb c root | _ => false end).
Proof. intros c l H. unfold ldetach. rewrite (lunwind_not_in c l H). reflexivity. Qed.

(* ------------------------------------------------------------------ any sequence of stack operations *)
Inductive sop := SPush (c : ctx) | SPop | SDetach (c : ctx).

Definition sop_stack (s : stack) (o : sop) : stack :=
  match o with SPush c => push s c | SPop => pop s | SDetach c => fst (detach s c) end.
Definition sop_list (l : list ctx) (o : sop) : list ctx :=
  match o with SPush c => c :: l | SPop => tl l | SDetach c => fst (ldetach l c) end.

Theorem stack_refines_list_ops : forall ops s,
  stack_wf s ->
  stack_wf (fold_left sop_stack ops s) /\ abs (fold_left sop_stack ops s) = fold_left sop_list ops (abs s).
Proof.
  induction ops as [|o ops IH]; intros s W; [split; [exact W | reflexivity]|].
  cbn [fold_left]. destruct o as [c| |c]; cbn [sop_stack sop_list].
  - destruct (push_abs s c W) as [W' A]. rewrite <- A. apply IH. exact W'.
  - destruct (pop_abs s W) as [W' A]. rewrite <- A. apply IH. exact W'.
  - destruct (detach_abs s c W) as [W' A].
    assert (A' : abs (fst (detach s c)) = fst (ldetach (abs s) c)) by (rewrite <- A; reflexivity).
    rewrite <- A'. apply IH. exact W'.
Qed.

(* depth 200 crosses the reallocations at sizes 1, 3, 7, 15, 31, 63, 127 *)
Example deep_stack_capacity :
  st_cap (fold_left sop_stack (repeat (SPush root) 200) stack0) = 254 /\
  st_size (fold_left sop_stack (repeat (SPush root) 200) stack0) = 200.
Proof. vm_compute. split; reflexivity. Qed.

(* ------------------------------------------------------------------ popping through the public interface *)
Lemma pop_public_abs : forall s, stack_wf s -> stack_wf (pop_public s) /\ abs (pop_public s) = tl (abs s).
Proof.
  intros s W. unfold pop_public.
  destruct (push_abs s (top s) W) as [W1 A1].
  destruct (detach_abs (push s (top s)) (top s) W1) as [W2 A2].
  rewrite A1, ldetach_top in A2. inversion A2 as [[A2a A2b]].
  destruct (detach_abs _ (top s) W2) as [W3 A3]. split; [exact W3|].
  assert (A3' : abs (fst (detach (fst (detach (push s (top s)) (top s))) (top s))) =
                fst (ldetach (abs (fst (detach (push s (top s)) (top s)))) (top s))) by (rewrite <- A3; reflexivity).
  rewrite A3', A2a. rewrite (top_abs s W). destruct (abs s) as [|x r]; cbn [hd tl].
  - unfold ldetach. cbn [lunwind]. reflexivity.
  - rewrite ldetach_top. reflexivity.
Qed.
