(* C10 proofs, part 6: the sentences of the property as theorems about the model -
   for every reachable state, every operation sequence, every schedule. *)
From V Require Import C10.Glue C10.ProofsCtx C10.ProofsStack C10.ProofsSim C10.ProofsStep C10.ProofsCheck.
From Coq Require Import Lia ZifyBool ZifyNat.
Local Open Scope nat_scope.

(* ------------------------------------------------------------------ reachable thread worlds *)
Inductive reachable : tstate -> Prop :=
| reach_init : reachable tstate0
| reach_step : forall t o, reachable t -> reachable (fst (step t o))
| reach_fork : forall t, reachable t -> reachable (fork t).

Lemma reachable_R : forall t, reachable t -> exists a, R t a.
Proof.
  intros t H. induction H as [|t o H [a HR]|t H [a HR]].
  - exists sstate0. apply R_init.
  - exists (fst (sstep a o)). apply (step_sim t a o HR).
  - exists (sfork a). apply R_fork. exact HR.
Qed.

Lemma run_cons_fst : forall t o ops, fst (run t (o :: ops)) = fst (run (fst (step t o)) ops).
Proof. intros. cbn [run]. destruct (step t o) as [t1 out]. cbn [fst]. destruct (run t1 ops) as [t2 outs2]. reflexivity. Qed.

Lemma reachable_run : forall ops t, reachable t -> reachable (fst (run t ops)).
Proof.
  induction ops as [|o ops IH]; intros t H; [exact H|]. rewrite run_cons_fst. apply IH. apply reach_step. exact H.
Qed.

(* ------------------------------------------------------------------ contexts never change *)
Definition named_ok (t : tstate) : Prop := forall i, i < length (t_pool t) -> ctx_ok (t_heap t) (nth i (t_pool t) root).

Lemma named_ok_reachable : forall t, reachable t -> named_ok t.
Proof. intros t H. destruct (reachable_R t H) as [a HR]. intros i Hi. apply (R_ctx _ _ HR i Hi). Qed.

(* every operation only allocates new nodes in front of the heap and names new contexts at the end *)
Lemma step_extends : forall t o, exists ex p,
  t_heap (fst (step t o)) = ex ++ t_heap t /\ t_pool (fst (step t o)) = t_pool t ++ p.
Proof.
  intros t o. destruct o as [r k v | r b | r k | r k | r | keys | i j | r | k | k | | sp]; cbn [step];
    try (exists [], []; cbn; rewrite app_nil_r; split; reflexivity).
  - eexists [_], [_]. cbn. split; reflexivity.
  - destruct (set_values_heap (t_heap t) (resolve t r) b) as [ex [E _]].
    destruct (set_values (t_heap t) (resolve t r) b) as [h' c'] eqn:SV. cbn [fst] in E.
    exists ex, [c']. cbn. split; [exact E | reflexivity].
  - destruct (tok_ctx (nth k (t_toks t) TDead)) as [c|].
    + destruct (detach (t_stk t) c) as [s b]. exists [], []. cbn. rewrite app_nil_r. split; reflexivity.
    + exists [], []. cbn. rewrite app_nil_r. split; reflexivity.
  - destruct (nth k (t_toks t) TDead); exists [], []; cbn; rewrite app_nil_r; split; reflexivity.
  - eexists [_], [_]. cbn. split; reflexivity.
Qed.

Lemma run_extends : forall ops t, exists ex p,
  t_heap (fst (run t ops)) = ex ++ t_heap t /\ t_pool (fst (run t ops)) = t_pool t ++ p.
Proof.
  induction ops as [|o ops IH]; intro t.
  - exists [], []. cbn. rewrite app_nil_r. split; reflexivity.
  - rewrite run_cons_fst. destruct (step_extends t o) as [ex1 [p1 [E1 P1]]].
    destruct (IH (fst (step t o))) as [ex2 [p2 [E2 P2]]].
    exists (ex2 ++ ex1), (p1 ++ p2). rewrite E2, E1, P2, P1, !app_assoc. split; reflexivity.
Qed.

(* A Context never changes after creation: whatever the program does next (any operations, any number),
   every context it has named keeps its name and keeps answering GetValue and HasKey exactly as before. *)
Theorem context_immutable_run : forall ops t i key,
  reachable t -> i < length (t_pool t) ->
  let c := nth i (t_pool t) root in
  let t' := fst (run t ops) in
  nth i (t_pool t') root = c /\
  get_value (t_heap t') c key = get_value (t_heap t) c key /\
  has_key (t_heap t') c key = has_key (t_heap t) c key.
Proof.
  intros ops t i key H Hi c t'. destruct (run_extends ops t) as [ex [p [E P]]]. subst t' c.
  rewrite E, P. rewrite app_nth1 by exact Hi.
  assert (G : get_value (ex ++ t_heap t) (nth i (t_pool t) root) key = get_value (t_heap t) (nth i (t_pool t) root) key).
  { unfold get_value. rewrite chain_app_old; [reflexivity|]. apply (named_ok_reachable t H i Hi). }
  split; [reflexivity|]. split; [exact G|]. unfold has_key. rewrite G. reflexivity.
Qed.

Example context_immutable_nonvacuous :
  let t := fst (run tstate0 [OSet (CIdx 0) [x6b] (KI, 5%Z)]) in
  reachable t /\ 1 < length (t_pool t) /\ get_value (t_heap t) (nth 1 (t_pool t) root) [x6b] = (KI, 5%Z).
Proof. split; [apply (reachable_run _ _ reach_init)|]. vm_compute. split; [lia | reflexivity]. Qed.

(* ------------------------------------------------------------------ the most recent binding wins *)
Lemma alloc_batch_get : forall b h c k, ctx_ok h c ->
  get_value (fst (alloc_batch h b c)) (snd (alloc_batch h b c)) k =
  match find (fun p => bytes_eqb (fst p) k) b with Some p => snd p | None => get_value h c k end.
Proof.
  induction b as [|[k0 v0] b IH]; intros h c k H; [reflexivity|].
  cbn [alloc_batch]. specialize (IH h c k H).
  destruct (alloc_batch h b c) as [h1 c1] eqn:A. cbn [fst snd] in IH.
  unfold alloc, get_value. cbn [fst snd]. rewrite chain_cons_new. cbn [find n_next fst].
  destruct (node_matches k (mk_node (Some k0) v0 c1)) eqn:M.
  - apply node_matches_spec in M. cbn in M. inversion M; subst.
    rewrite bytes_eqb_refl. reflexivity.
  - destruct (bytes_eqb k0 k) eqn:E.
    + apply bytes_eqb_eq in E. subst.
      assert (node_matches k (mk_node (Some k) v0 c1) = true) by (apply node_matches_spec; reflexivity).
      congruence.
    + exact IH.
Qed.

(* SetValues with a non-empty batch: the first element of the batch (iteration order) that has exactly this key,
   else whatever the parent answers *)
Theorem set_values_get : forall h c b k, ctx_ok h c -> b <> [] ->
  get_value (fst (set_values h c b)) (snd (set_values h c b)) k =
  match find (fun p => bytes_eqb (fst p) k) b with Some p => snd p | None => get_value h c k end.
Proof. intros h c [|p b] k H B; [contradiction|]. unfold set_values. apply alloc_batch_get. exact H. Qed.

(* SetValues with an EMPTY batch (finding F20, repaired in 4bc3189): a new context that answers every key - the
   empty key included - exactly as its parent does *)
Theorem set_values_empty_keeps_parent : forall h c k,
  get_value (fst (set_values h c [])) (snd (set_values h c [])) k = get_value h c k /\
  has_key (fst (set_values h c [])) (snd (set_values h c [])) k = has_key h c k.
Proof.
  intros h c k.
  assert (G : get_value (fst (set_values h c [])) (snd (set_values h c [])) k = get_value h c k).
  { unfold set_values, alloc, get_value. cbn [fst snd]. rewrite chain_cons_new. cbn [find n_next]. reflexivity. }
  split; [exact G|]. unfold has_key. rewrite G. reflexivity.
Qed.

(* the situation in which the unrepaired code lost the binding *)
Example set_values_empty_nonvacuous :
  let h := fst (set_value [] root [] (KI, 5%Z)) in
  let c := snd (set_value [] root [] (KI, 5%Z)) in
  get_value h c [] = (KI, 5%Z) /\ get_value (fst (set_values h c [])) (snd (set_values h c [])) [] = (KI, 5%Z) /\
  snd (set_values h c []) <> c.
Proof. vm_compute. repeat split. discriminate. Qed.

(* ------------------------------------------------------------------ Attach / Detach on the real stack *)
Theorem attach_makes_current : forall s c, stack_wf s -> top (push s c) = c.
Proof.
  intros s c W. destruct (push_abs s c W) as [W' A]. rewrite (top_abs _ W'), A. reflexivity.
Qed.

Theorem detach_top_restores : forall s c, stack_wf s ->
  abs (fst (detach (push s c) c)) = abs s /\ snd (detach (push s c) c) = true /\
  top (fst (detach (push s c) c)) = top s.
Proof.
  intros s c W. destruct (push_abs s c W) as [W1 A1]. destruct (detach_abs (push s c) c W1) as [W2 A2].
  rewrite A1, ldetach_top in A2. injection A2 as A2a A2b.
  split; [exact A2a|]. split; [exact A2b|]. rewrite (top_abs _ W2), (top_abs _ W), A2a. reflexivity.
Qed.

Theorem detach_out_of_order_unwinds_to_most_recent : forall s c above below, stack_wf s ->
  abs s = above ++ c :: below -> ~ In c above ->
  abs (fst (detach s c)) = below /\ snd (detach s c) = true.
Proof.
  intros s c above below W A N. destruct (detach_abs s c W) as [W' D].
  rewrite A, (ldetach_out_of_order c above below N) in D. injection D as D1 D2. split; assumption.
Qed.

Example detach_out_of_order_nonvacuous :
  let s := push (push (push stack0 (Some 1)) (Some 2)) (Some 1) in
  let s' := push s (Some 3) in
  abs s' = [Some 3] ++ Some 1 :: [Some 2; Some 1] /\ ~ In (Some 1) [Some 3] /\
  abs (fst (detach s' (Some 1))) = [Some 2; Some 1].
Proof. vm_compute. split; [reflexivity|]. split; [|reflexivity]. intros [H|[]]. discriminate. Qed.

(* a token whose context is not on the stack: the stack object is left exactly as it was; the result is false,
   except for a token of Context() on an empty stack, which "equals the current context" *)
Theorem detach_foreign_noop : forall s c, stack_wf s -> ~ In c (abs s) ->
  fst (detach s c) = s /\ snd (detach s c) = (is_nilb (abs s) && ctx_eqb c root).
Proof.
  intros s c W N. unfold detach. rewrite (top_abs s W), (contains_abs s c W).
  assert (X : existsb (ctx_eqb c) (abs s) = false) by (apply lunwind_none; apply lunwind_not_in; exact N).
  rewrite X. pose proof (abs_length s W) as L. destruct (abs s) as [|x r] eqn:A.
  - cbn [hd is_nilb andb]. destruct (ctx_eqb c root); cbn [fst snd negb]; [|split; reflexivity].
    split; [|reflexivity]. unfold pop. cbn in L. rewrite <- L. reflexivity.
  - cbn [hd is_nilb andb]. destruct (ctx_eqb c x) eqn:E.
    + apply ctx_eqb_eq in E. subst. exfalso. apply N. left. reflexivity.
    + cbn [negb fst snd]. split; reflexivity.
Qed.

Example detach_foreign_nonvacuous :
  let s := push (push stack0 (Some 1)) (Some 2) in
  stack_wf s /\ ~ In (Some 7) (abs s) /\ detach s (Some 7) = (s, false).
Proof.
  split; [apply push_abs; apply push_abs; apply stack0_wf|]. split; [|vm_compute; reflexivity].
  vm_compute. intros [H|[H|[]]]; discriminate.
Qed.

(* ------------------------------------------------------------------ balanced sequences *)
Inductive balanced : list sop -> Prop :=
| bal_nil : balanced []
| bal_wrap : forall c p, balanced p -> balanced (SPush c :: p ++ [SDetach c])
| bal_app : forall p q, balanced p -> balanced q -> balanced (p ++ q).

Lemma balanced_list : forall p, balanced p -> forall l, fold_left sop_list p l = l.
Proof.
  intros p H. induction H as [|c p H IH|p q Hp IHp Hq IHq]; intro l.
  - reflexivity.
  - cbn [fold_left sop_list]. rewrite fold_left_app, IH. cbn [fold_left sop_list]. rewrite ldetach_top. reflexivity.
  - rewrite fold_left_app, IHp, IHq. reflexivity.
Qed.

(* Attach ... Detach pairs that nest properly (any depth, any contexts, also the same context several times)
   leave the runtime stack as it was *)
Theorem balanced_sequence_restores : forall p s, balanced p -> stack_wf s ->
  abs (fold_left sop_stack p s) = abs s /\ top (fold_left sop_stack p s) = top s.
Proof.
  intros p s B W. destruct (stack_refines_list_ops p s W) as [W' A]. rewrite (balanced_list p B) in A.
  split; [exact A|]. rewrite (top_abs _ W'), (top_abs _ W), A. reflexivity.
Qed.

Example balanced_nonvacuous :
  balanced [SPush (Some 1); SPush (Some 1); SDetach (Some 1); SPush (Some 2); SDetach (Some 2); SDetach (Some 1)].
Proof.
  apply (bal_wrap (Some 1) ([SPush (Some 1); SDetach (Some 1)] ++ [SPush (Some 2); SDetach (Some 2)])).
  apply bal_app; apply (bal_wrap _ []); constructor.
Qed.

(* ------------------------------------------------------------------ Scope *)
Definition cur_span (t : tstate) : Z := span_of (get_value (t_heap t) (top (t_stk t)) span_key).

(* A Scope activates its span.  When it is released - after any properly nested activity above it - the context
   that was current before is current again, and it still answers with the span that was active before,
   whatever has been allocated in between. *)
Theorem scope_release_reactivates_previous_span : forall t sp p,
  reachable t -> balanced p ->
  let t1 := fst (step t (OScope sp)) in
  let c := nth (length (t_pool t)) (t_pool t1) root in
  nth (length (t_toks t)) (t_toks t1) TDead = TScope c /\
  top (t_stk t1) = c /\ cur_span t1 = sp /\
  let s2 := fold_left sop_stack p (t_stk t1) in
  abs (fst (detach s2 c)) = abs (t_stk t) /\
  top (fst (detach s2 c)) = top (t_stk t) /\
  forall ex, span_of (get_value (ex ++ t_heap t1) (top (fst (detach s2 c))) span_key) = cur_span t.
Proof.
  intros t sp p H B t1 c. destruct (reachable_R t H) as [a HR]. pose proof (R_wf _ _ HR) as W.
  subst t1 c. cbn [step set_value alloc fst t_pool t_toks t_stk t_heap].
  rewrite !app_nth2 by lia. rewrite !Nat.sub_diag. cbn [nth].
  set (c := Some (length (t_heap t))).
  destruct (push_abs (t_stk t) c W) as [W1 A1].
  split; [reflexivity|]. split; [apply attach_makes_current; exact W|]. split.
  - unfold cur_span. cbn [t_heap t_stk]. rewrite (attach_makes_current _ _ W).
    pose proof (set_value_get_same (t_heap t) (top (t_stk t)) span_key (KS, sp)) as G.
    unfold set_value, alloc in G. cbn [fst snd] in G. unfold c. rewrite G. reflexivity.
  - cbn zeta. destruct (stack_refines_list_ops p (push (t_stk t) c) W1) as [W2 A2].
    rewrite (balanced_list p B), A1 in A2.
    destruct (detach_abs (fold_left sop_stack p (push (t_stk t) c)) c W2) as [W3 A3].
    rewrite A2, ldetach_top in A3. injection A3 as A3a A3b.
    assert (T : top (fst (detach (fold_left sop_stack p (push (t_stk t) c)) c)) = top (t_stk t)).
    { rewrite (top_abs _ W3), (top_abs _ W), A3a. reflexivity. }
    split; [exact A3a|]. split; [exact T|]. intro ex. rewrite T. unfold cur_span, get_value.
    destruct (scur_ok t a HR) as [Li E].
    assert (O : ctx_ok (t_heap t) (top (t_stk t))) by (rewrite E; apply (R_ctx _ _ HR _ Li)).
    change (mk_node (Some span_key) (KS, sp) (top (t_stk t)) :: t_heap t)
      with ([mk_node (Some span_key) (KS, sp) (top (t_stk t))] ++ t_heap t).
    rewrite app_assoc, chain_app_old by exact O. reflexivity.
Qed.

Example scope_nonvacuous :
  let t := fst (run tstate0 [OScope 3%Z]) in
  reachable t /\ cur_span t = 3%Z /\ cur_span (fst (run t [OScope 4%Z])) = 4%Z /\
  cur_span (fst (run t [OScope 4%Z; OKill 1])) = 3%Z.
Proof. split; [apply (reachable_run _ _ reach_init)|]. vm_compute. repeat split. Qed.

(* ------------------------------------------------------------------ threads *)
Definition proj (t : nat) (sched : list (nat * op)) : list op :=
  map snd (filter (fun p => Nat.eqb (fst p) t) sched).

Fixpoint step_outs (st : tstate) (ops : list op) : list (list tok) :=
  match ops with
  | [] => []
  | o :: ops' => snd (step st o) :: step_outs (fst (step st o)) ops'
  end.

Lemma mstep_other : forall m t o u, u <> t -> fst (mstep m t o) u = m u.
Proof.
  intros m t o u H. unfold mstep. destruct (step (m t) o) as [st out]. cbn [fst].
  destruct (Nat.eqb u t) eqn:E; [apply Nat.eqb_eq in E; contradiction | reflexivity].
Qed.

Lemma mstep_self : forall m t o, fst (mstep m t o) t = fst (step (m t) o) /\ snd (mstep m t o) = snd (step (m t) o).
Proof.
  intros m t o. unfold mstep. destruct (step (m t) o) as [st out]. cbn [fst snd]. rewrite Nat.eqb_refl. split; reflexivity.
Qed.

(* What one thread attaches is never visible to another: under EVERY schedule (any interleaving of the threads'
   operations) the world of thread [t] - its stack, its tokens, the answers of its contexts - and everything it
   observes are exactly what it gets when it runs its own operations alone. *)
Theorem threads_isolated : forall sched m t,
  fst (mrun m sched) t = fst (run (m t) (proj t sched)) /\
  map snd (filter (fun p => Nat.eqb (fst p) t) (snd (mrun m sched))) = step_outs (m t) (proj t sched).
Proof.
  induction sched as [|[u o] sched IH]; intros m t; [split; reflexivity|].
  cbn [mrun]. specialize (IH (fst (mstep m u o)) t).
  destruct (mstep m u o) as [m1 out] eqn:MS. cbn [fst] in IH.
  destruct (mrun m1 sched) as [m2 outs2] eqn:MR. cbn [fst snd] in *.
  unfold proj in *. cbn [filter fst].
  destruct (Nat.eqb u t) eqn:E.
  - apply Nat.eqb_eq in E. subst u. cbn [map snd run step_outs].
    destruct (mstep_self m t o) as [S1 S2]. rewrite MS in S1, S2. cbn [fst snd] in S1, S2.
    rewrite S1 in IH. destruct IH as [I1 I2]. rewrite <- S2.
    destruct (step (m t) o) as [t1 o1] eqn:ST. cbn [fst snd] in *.
    destruct (run t1 (map snd (filter (fun p => Nat.eqb (fst p) t) sched))) as [t2 o2]. cbn [fst] in *.
    split; [exact I1 | f_equal; exact I2].
  - assert (N : t <> u) by (intro; subst; rewrite Nat.eqb_refl in E; discriminate).
    pose proof (mstep_other m u o t N) as S1. rewrite MS in S1. cbn [fst] in S1. rewrite S1 in IH. exact IH.
Qed.

(* the single step: an operation of thread [t] leaves every other thread's world untouched *)
Theorem threads_isolated_step : forall m t o u, u <> t ->
  t_stk (fst (mstep m t o) u) = t_stk (m u) /\ fst (mstep m t o) u = m u.
Proof. intros. rewrite mstep_other by assumption. split; reflexivity. Qed.

(* the run of a segment prints exactly the per-operation outputs, each terminated by ";" *)
Lemma run_step_outs : forall ops st, snd (run st ops) = flat_map (fun o => o ++ [sep]) (step_outs st ops).
Proof.
  induction ops as [|o ops IH]; intro st; [reflexivity|]. cbn [run step_outs flat_map].
  specialize (IH (fst (step st o))). destruct (step st o) as [st1 out]. cbn [fst snd] in *.
  destruct (run st1 ops) as [st2 outs2]. cbn [snd] in *. rewrite IH, <- app_assoc. reflexivity.
Qed.

Example threads_isolated_nonvacuous :
  let m := fun _ : nat => tstate0 in
  let sched := [(1, OAttach (CIdx 0)); (2, OCur); (1, OSet CCur [x61] (KB, 1%Z)); (2, OAttach (CIdx 0)); (1, OCur)] in
  proj 1 sched = [OAttach (CIdx 0); OSet CCur [x61] (KB, 1%Z); OCur] /\ st_size (t_stk (fst (mrun m sched) 2)) = 1.
Proof. vm_compute. split; reflexivity. Qed.

(* ------------------------------------------------------------------ summaries used by Properties_C10.v *)
Lemma latest_binding_wins_set : forall h c k v k',
  let h' := fst (set_value h c k v) in
  let c' := snd (set_value h c k v) in
  get_value h' c' k = v /\ (k' <> k -> get_value h' c' k' = get_value h c k').
Proof. intros. split; [apply set_value_get_same | apply set_value_get_other]. Qed.

(* the abstract machine of the SPEC, run on its own *)
Definition srun (a : sstate) (ops : list op) : sstate := fold_left (fun a o => fst (sstep a o)) ops a.

(* for EVERY program the model's world and the SPEC's world stay related: in particular the array stack is
   well formed, within bounds, and holds exactly the SPEC's list of names, top first *)
Theorem run_R : forall ops t a, R t a -> R (fst (run t ops)) (srun a ops).
Proof.
  induction ops as [|o ops IH]; intros t a HR; [exact HR|]. rewrite run_cons_fst. cbn [srun fold_left].
  apply IH. apply (step_sim t a o HR).
Qed.

Theorem machine_stack_refines_list : forall ops,
  let t := fst (run tstate0 ops) in
  let a := srun sstate0 ops in
  st_size (t_stk t) <= st_cap (t_stk t) /\ length (st_base (t_stk t)) = st_cap (t_stk t) /\
  abs (t_stk t) = map (fun i => nth i (t_pool t) root) (s_stack a) /\
  top (t_stk t) = nth (scur a) (t_pool t) root /\
  cur_idx t = Z.of_nat (scur a).
Proof.
  intros ops t a. pose proof (run_R ops tstate0 sstate0 R_init) as HR. fold t a in HR.
  destruct (R_wf _ _ HR) as [W1 [W2 _]]. split; [exact W1|]. split; [exact W2|].
  split; [apply (R_stack _ _ HR)|]. split; [apply (scur_ok t a HR) | apply (cur_sim t a HR)].
Qed.

Example deep_program_nonvacuous :
  let ops := OSet (CIdx 0) [x61] (KB, 1%Z) :: repeat (OAttach (CIdx 0)) 3 ++ OAttach (CIdx 1) :: repeat (OAttach (CIdx 0)) 36 ++ [ODetach 3] in
  st_cap (t_stk (fst (run tstate0 ops))) = 62 /\ s_stack (srun sstate0 ops) = [0; 0; 0].
Proof. vm_compute. split; reflexivity. Qed.

(* non-vacuity of the remaining hypotheses *)
Example set_values_get_nonvacuous :
  let h := fst (set_value [] root [x6b] (KI, 1%Z)) in
  let c := snd (set_value [] root [x6b] (KI, 1%Z)) in
  let b := [([x6b], (KI, 2%Z)); ([x61], (KB, 1%Z)); ([x6b], (KI, 3%Z))] in
  ctx_ok h c /\ b <> [] /\
  get_value (fst (set_values h c b)) (snd (set_values h c b)) [x6b] = (KI, 2%Z) /\
  get_value h c [x6b] = (KI, 1%Z).
Proof. split; [cbn; lia|]. split; [discriminate|]. vm_compute. split; reflexivity. Qed.

Example stack_wf_nonvacuous :
  let s := fold_left sop_stack [SPush (Some 1); SPush (Some 2); SPush (Some 3); SPop; SPush (Some 4); SDetach (Some 1); SPush None] stack0 in
  stack_wf s /\ abs s = [None] /\ st_cap s = 6.
Proof.
  split; [apply stack_refines_list_ops; apply stack0_wf|]. vm_compute. split; reflexivity.
Qed.

Example reachable_nonvacuous :
  let t := fork (fst (run tstate0 [OSet (CIdx 0) [x61] (KB, 1%Z); OAttach (CIdx 1); OScope 2%Z])) in
  reachable t /\ length (t_pool t) = 3 /\ t_toks t = [TBorrowed (Some 0); TDead].
Proof. split; [apply reach_fork; apply (reachable_run _ _ reach_init)|]. vm_compute. split; reflexivity. Qed.
