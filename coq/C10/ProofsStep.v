(* C10 proofs, part 4: every operation of the model is simulated by the abstract machine with the same
   output; hence the checker accepts the model's observation of every program (model_meets_spec). *)
From V Require Import C10.Spec C10.ProofsCtx C10.ProofsStack C10.ProofsSim.
From Coq Require Import Lia ZifyBool ZifyNat.
Local Open Scope nat_scope.

Definition outs (cs : list chunk) : list tok := flat_map fst cs.

(* ------------------------------------------------------------------ list toolkit *)
Lemma flat_map_flat_map : forall A B C (f : B -> list C) (g : A -> list B) l,
  flat_map f (flat_map g l) = flat_map (fun x => flat_map f (g x)) l.
Proof. intros. induction l as [|x l IH]; [reflexivity|]. cbn. rewrite flat_map_app, IH. reflexivity. Qed.

Lemma flat_map_map : forall A B C (f : B -> list C) (g : A -> B) l,
  flat_map f (map g l) = flat_map (fun x => f (g x)) l.
Proof. intros. induction l as [|x l IH]; [reflexivity|]. cbn. rewrite IH. reflexivity. Qed.

Lemma flat_map_ext_in : forall A B (f g : A -> list B) l,
  (forall x, In x l -> f x = g x) -> flat_map f l = flat_map g l.
Proof.
  intros A B f g l H. induction l as [|x l IH]; [reflexivity|]. cbn.
  rewrite (H x) by (left; reflexivity). rewrite IH; [reflexivity|]. intros y Hy. apply H. right. exact Hy.
Qed.

Lemma map_nth_seq : forall A (l : list A) d, map (fun i => nth i l d) (seq 0 (length l)) = l.
Proof.
  intros A l d. induction l as [|x l IH]; [reflexivity|]. cbn [length seq map nth].
  rewrite <- seq_shift, map_map. cbn [nth]. rewrite IH. reflexivity.
Qed.

(* ------------------------------------------------------------------ DUMP *)
Lemma dump_sim : forall t a keys, R t a ->
  dump (t_heap t) (t_pool t) keys = outs (sdump a keys).
Proof.
  intros t a keys HR. unfold dump, outs, sdump.
  rewrite flat_map_flat_map.
  rewrite <- (map_nth_seq _ (t_pool t) root) at 1. rewrite flat_map_map.
  rewrite (R_len _ _ HR). apply flat_map_ext_in. intros i Hi. apply in_seq in Hi.
  rewrite flat_map_map. cbn [fst]. apply flat_map_ext_in. intros k Hk.
  f_equal. apply (get_sim t a i k HR). rewrite (R_len _ _ HR). lia.
Qed.

(* ------------------------------------------------------------------ killing a token *)
Lemma R_kill : forall t a k last,
  R t a ->
  R (mk_t (t_heap t) (t_pool t) (t_stk t) (set_nth k TDead (t_toks t)))
    (mk_s (s_pool a) (s_stack a) (set_nth k SDead (s_toks a)) last).
Proof.
  intros t a k last HR. constructor; cbn [t_heap t_pool t_stk t_toks s_pool s_stack s_toks].
  - apply (R_len _ _ HR).
  - apply (R_ctx _ _ HR).
  - apply (R_root _ _ HR).
  - apply (R_nodup _ _ HR).
  - apply (R_wf _ _ HR).
  - apply (R_stack _ _ HR).
  - apply (R_stack_idx _ _ HR).
  - rewrite set_nth_length. apply (R_depth _ _ HR).
  - rewrite !set_nth_length. apply (R_tlen _ _ HR).
  - intro j. rewrite !nth_set_nth. rewrite (R_tlen _ _ HR).
    destruct (Nat.eqb j k && Nat.ltb k (length (s_toks a))); [exact I | apply (R_toks _ _ HR)].
Qed.

(* ------------------------------------------------------------------ one operation *)
Theorem step_sim : forall t a o, R t a ->
  R (fst (step t o)) (fst (sstep a o)) /\ snd (step t o) = outs (snd (sstep a o)).
Proof.
  intros t a o HR. destruct o as [r k v | r b | r k | r k | r | keys | i j | r | k | k | | sp].
  - (* SetValue *)
    destruct (res_ok t a r HR) as [Hi E]. cbn [step sstep set_value alloc fst snd]. rewrite E.
    split; [|reflexivity].
    apply (R_alloc t a [mk_node (Some k) v (nm (t_pool t) (sres a r))] (length (t_heap t))); [exact HR | lia |].
    destruct (sctx_rel t a _ HR Hi) as [O B].
    unfold ctxrel, binds. cbn [app]. rewrite chain_cons_new. cbn [n_next a_binds].
    split; [cbn; lia|]. cbn [strip flat_map n_key n_val app]. f_equal. exact B.
  - (* SetValues *)
    destruct (res_ok t a r HR) as [Hi E]. cbn [step sstep]. rewrite E.
    destruct (set_values_heap (t_heap t) (nm (t_pool t) (sres a r)) b) as [ex [EH _]].
    destruct (set_values_head (t_heap t) (nm (t_pool t) (sres a r)) b) as [j [EJ [J1 J2]]].
    destruct (sctx_rel t a _ HR Hi) as [O B].
    pose proof (set_values_binds (t_heap t) _ b O) as SB.
    destruct (set_values (t_heap t) (nm (t_pool t) (sres a r)) b) as [h' c'] eqn:SV.
    cbn [fst snd] in *. subst h' c'. split; [|reflexivity].
    apply R_alloc; [exact HR | exact J1 |].
    unfold ctxrel. cbn [a_binds]. split; [cbn; lia|]. rewrite SB, B. reflexivity.
  - (* GetValue *)
    destruct (res_ok t a r HR) as [Hi E]. cbn [step sstep fst snd outs flat_map app]. rewrite E.
    split; [exact HR|]. rewrite (get_sim t a _ k HR Hi). rewrite app_nil_r. reflexivity.
  - (* HasKey *)
    destruct (res_ok t a r HR) as [Hi E]. cbn [step sstep fst snd outs flat_map app]. rewrite E.
    split; [exact HR|]. unfold has_key. rewrite (get_sim t a _ k HR Hi). reflexivity.
  - (* GetSpan *)
    destruct (res_ok t a r HR) as [Hi E]. cbn [step sstep fst snd outs flat_map app]. rewrite E.
    split; [exact HR|]. rewrite (get_sim t a _ span_key HR Hi). reflexivity.
  - (* Dump *)
    cbn [step sstep fst snd]. split; [exact HR|]. apply dump_sim; assumption.
  - (* operator== *)
    cbn [step sstep fst snd outs flat_map app]. split; [exact HR|].
    destruct (clampi_ok t a i HR) as [Li Ei]. destruct (clampi_ok t a j HR) as [Lj Ej].
    fold (nm (t_pool t) i). fold (nm (t_pool t) j). rewrite Ei, Ej.
    rewrite (nm_eqb t a _ _ HR Li Lj). rewrite Nat.eqb_sym. reflexivity.
  - (* Attach *)
    destruct (res_ok t a r HR) as [Hi E]. cbn [step sstep fst snd]. rewrite E. split; [|reflexivity].
    apply R_push; [exact HR | exact Hi |]. cbn. split; [exact Hi | reflexivity].
  - (* Detach *)
    cbn [step sstep]. pose proof (R_toks _ _ HR k) as T.
    destruct (nth k (t_toks t) TDead) as [|c|c|c] eqn:TK; destruct (nth k (s_toks a) SDead) as [|i|i|i] eqn:SK;
      cbn in T; try contradiction; cbn [tok_ctx].
    + split; [exact HR | reflexivity].
    + destruct T as [Li Ec]. fold (nm (t_pool t) i) in Ec. subst c.
      destruct (detach_sim t a i HR Li) as [W [A [B [F L]]]].
      destruct (detach (t_stk t) (nm (t_pool t) i)) as [s' b'] eqn:D.
      destruct (sdetach (s_stack a) i) as [[stk' b2] kd] eqn:SD. cbn [fst snd] in *. subst b'.
      split; [apply R_set_stack; assumption | reflexivity].
    + destruct T as [Li Ec]. fold (nm (t_pool t) i) in Ec. subst c.
      destruct (detach_sim t a i HR Li) as [W [A [B [F L]]]].
      destruct (detach (t_stk t) (nm (t_pool t) i)) as [s' b'] eqn:D.
      destruct (sdetach (s_stack a) i) as [[stk' b2] kd] eqn:SD. cbn [fst snd] in *. subst b'.
      split; [apply R_set_stack; assumption | reflexivity].
    + split; [exact HR | reflexivity].
  - (* destroy a token / scope *)
    cbn [step sstep]. pose proof (R_toks _ _ HR k) as T.
    destruct (nth k (t_toks t) TDead) as [|c|c|c] eqn:TK; destruct (nth k (s_toks a) SDead) as [|i|i|i] eqn:SK;
      cbn in T; try contradiction.
    + split; [exact HR | reflexivity].
    + destruct T as [Li Ec]. fold (nm (t_pool t) i) in Ec. subst c.
      destruct (detach_sim t a i HR Li) as [W [A [B [F L]]]].
      destruct (sdetach (s_stack a) i) as [[stk' b2] kd] eqn:SD. cbn [fst snd] in *.
      split; [|reflexivity].
      apply (R_kill (with_stk t (fst (detach (t_stk t) (nm (t_pool t) i)))) (set_stack a stk' "x") k).
      apply R_set_stack; assumption.
    + split; [exact HR | reflexivity].
    + destruct T as [Li Ec]. fold (nm (t_pool t) i) in Ec. subst c.
      destruct (detach_sim t a i HR Li) as [W [A [B [F L]]]].
      destruct (sdetach (s_stack a) i) as [[stk' b2] kd] eqn:SD. cbn [fst snd] in *.
      split; [|reflexivity].
      apply (R_kill (with_stk t (fst (detach (t_stk t) (nm (t_pool t) i)))) (set_stack a stk' "x") k).
      apply R_set_stack; assumption.
  - (* GetCurrent *)
    cbn [step sstep fst snd outs flat_map app]. split; [exact HR|]. rewrite (cur_sim t a HR). reflexivity.
  - (* Scope *)
    destruct (scur_ok t a HR) as [Hi E]. cbn [step sstep set_value alloc fst snd]. rewrite E.
    split; [|reflexivity].
    set (c := Some (length (t_heap t))).
    set (n := mk_node (Some span_key) (KS, sp) (nm (t_pool t) (scur a))).
    set (ac := mk_actx ((span_key, (KS, sp)) :: a_binds (sctx a (scur a)))).
    assert (R1 : R (mk_t ([n] ++ t_heap t) (t_pool t ++ [c]) (t_stk t) (t_toks t))
                   (mk_s (s_pool a ++ [ac]) (s_stack a) (s_toks a) "x")).
    { apply R_alloc; [exact HR | lia |].
      destruct (sctx_rel t a _ HR Hi) as [O B].
      unfold ctxrel, binds, ac, n. cbn [app]. rewrite chain_cons_new. cbn [n_next a_binds].
      split; [cbn; lia|]. cbn [strip flat_map n_key n_val app]. f_equal. exact B. }
    assert (NC : nm (t_pool t ++ [c]) (length (s_pool a)) = c).
    { unfold nm. rewrite <- (R_len _ _ HR). rewrite app_nth2 by lia. rewrite Nat.sub_diag. reflexivity. }
    pose proof (R_push _ _ (length (s_pool a)) (TScope c) (SScope (length (s_pool a))) "scope_activates_span" R1) as R2.
    cbn [t_heap t_pool t_stk t_toks s_pool s_stack s_toks] in R2. rewrite NC in R2. cbn [app] in R2.
    apply R2.
    + rewrite app_length, (R_len _ _ HR). cbn. lia.
    + cbn. split; [rewrite app_length, (R_len _ _ HR); cbn; lia | exact NC].
Qed.
