(* C10 proofs, part 5: model_meets_spec - the checker that is run on the implementation's observations
   accepts the model's observation of every program (outside the reach of finding F20), threads included. *)
From V Require Import C10.Glue C10.ProofsCtx C10.ProofsStack C10.ProofsSim C10.ProofsStep.
From Coq Require Import Lia ZifyBool ZifyNat.
Local Open Scope nat_scope.

(* ------------------------------------------------------------------ the checker on its own expectation *)
Lemma tok_eqb_refl : forall t, tok_eqb t t = true.
Proof. intros [b|z|b]; cbn; [apply bytes_eqb_refl | apply Z.eqb_refl | apply bytes_eqb_refl]. Qed.

Lemma strip_prefix_app : forall e l, strip_prefix e (e ++ l) = Some l.
Proof. induction e as [|x e IH]; intro l; cbn; [reflexivity|]. rewrite tok_eqb_refl. apply IH. Qed.

Lemma eat_outs : forall cs rest, eat cs (outs cs ++ rest) = inl rest.
Proof.
  induction cs as [|[e cl] cs IH]; intro rest; [reflexivity|].
  unfold outs. cbn [flat_map fst eat]. rewrite <- app_assoc, strip_prefix_app. apply IH.
Qed.

Lemma eat_tok_same : forall t rest, eat_tok t (t :: rest) = inl rest.
Proof. intros. unfold eat_tok. rewrite tok_eqb_refl. reflexivity. Qed.

(* ------------------------------------------------------------------ a whole segment *)
Lemma run_sim : forall ops t a rest, R t a ->
  R (fst (run t ops)) (fst (check_ops a ops (snd (run t ops) ++ rest))) /\
  snd (check_ops a ops (snd (run t ops) ++ rest)) = inl rest.
Proof.
  induction ops as [|o ops IH]; intros t a rest HR.
  - cbn. split; [exact HR | reflexivity].
  - destruct (step_sim t a o HR) as [HR1 O1].
    specialize (IH (fst (step t o)) (fst (sstep a o)) rest HR1).
    cbn [run check_ops].
    destruct (step t o) as [t1 out] eqn:ST. destruct (sstep a o) as [a1 cs] eqn:SS. cbn [fst snd] in *.
    destruct (run t1 ops) as [t2 outs2] eqn:RN. cbn [fst snd] in *.
    subst out. rewrite <- app_assoc. rewrite eat_outs. cbn [app]. rewrite eat_tok_same. exact IH.
Qed.

(* ------------------------------------------------------------------ revealing the stack *)
Fixpoint reveal (n : nat) (stk : list nat) : list nat :=
  match n with 0 => [] | S n' => hd 0 stk :: reveal n' (tl stk) end.

Lemma reveal_spec : forall n stk, length stk <= n -> reveal n stk = stk ++ repeat 0 (n - length stk).
Proof.
  induction n as [|n IH]; intros stk L.
  - destruct stk; [reflexivity | cbn in L; lia].
  - destruct stk as [|x r]; cbn [reveal hd tl].
    + rewrite IH by (cbn; lia). cbn. replace (n - 0) with n by lia. reflexivity.
    + cbn in L. rewrite IH by lia. reflexivity.
Qed.

Lemma drain_sim : forall n t a, R t a -> drain n t = map (fun i => TZ (Z.of_nat i)) (reveal n (s_stack a)).
Proof.
  induction n as [|n IH]; intros t a HR; [reflexivity|].
  cbn [drain reveal map]. rewrite (cur_sim t a HR). unfold scur. f_equal.
  destruct (pop_public_abs (t_stk t) (R_wf _ _ HR)) as [W A].
  assert (HR' : R (with_stk t (pop_public (t_stk t))) (set_stack a (tl (s_stack a)) "x")).
  { apply R_set_stack; [exact HR | exact W | | |].
    - rewrite A, (R_stack _ _ HR). destruct (s_stack a); reflexivity.
    - pose proof (R_stack_idx _ _ HR) as F. destruct (s_stack a); [constructor | inversion F; assumption].
    - destruct (s_stack a); cbn; lia. }
  rewrite (IH _ _ HR'). reflexivity.
Qed.

Lemma finish_sim : forall t a rest, R t a -> check_finish a (finish t ++ rest) = inl rest.
Proof.
  intros t a rest HR. unfold check_finish, finish, sfinish. cbn [eat].
  rewrite (drain_sim _ t a HR). rewrite (R_tlen _ _ HR).
  rewrite reveal_spec by apply (R_depth _ _ HR).
  rewrite <- app_assoc. rewrite strip_prefix_app. cbn [app]. apply eat_tok_same.
Qed.

(* ------------------------------------------------------------------ threads *)
Lemma R_fork : forall t a, R t a -> R (fork t) (sfork a).
Proof.
  intros t a HR. constructor; cbn [fork sfork t_heap t_pool t_stk t_toks s_pool s_stack s_toks].
  - apply (R_len _ _ HR).
  - apply (R_ctx _ _ HR).
  - apply (R_root _ _ HR).
  - apply (R_nodup _ _ HR).
  - apply stack0_wf.
  - reflexivity.
  - constructor.
  - cbn. lia.
  - rewrite !map_length. apply (R_tlen _ _ HR).
  - intro k. change TDead with (fork_tok TDead). change SDead with (sfork_tok SDead). rewrite !map_nth.
    pose proof (R_toks _ _ HR k) as T.
    destruct (nth k (t_toks t) TDead), (nth k (s_toks a) SDead); cbn in *; tauto.
Qed.

Lemma R_same : forall t a b, R t a -> s_pool b = s_pool a -> s_stack b = s_stack a -> s_toks b = s_toks a -> R t b.
Proof.
  intros t a b HR E1 E2 E3. constructor; rewrite ?E1, ?E2, ?E3; apply HR.
Qed.

Lemma thread_sim : forall t a ops rest, R t a ->
  check_thread a ops (run_thread t ops ++ rest) = inl rest.
Proof.
  intros t a ops rest HR. unfold check_thread, run_thread.
  destruct (run_sim ops (fork t) (sfork a) (finish (fst (run (fork t) ops)) ++ bar :: rest) (R_fork t a HR))
    as [R1 C1].
  destruct (run (fork t) ops) as [t1 out] eqn:RN. cbn [fst snd] in *.
  replace ((out ++ finish t1 ++ [bar]) ++ rest) with (out ++ finish t1 ++ bar :: rest)
    by (rewrite <- !app_assoc; reflexivity).
  destruct (check_ops (sfork a) ops (out ++ finish t1 ++ bar :: rest)) as [a1 r1] eqn:CK. cbn [fst snd] in *.
  subst r1. rewrite (finish_sim t1 a1 (bar :: rest) R1). apply eat_tok_same.
Qed.

Lemma threads_sim : forall ts t a rest, R t a ->
  check_threads a ts (flat_map (run_thread t) ts ++ rest) = inl rest.
Proof.
  induction ts as [|ops ts IH]; intros t a rest HR; [reflexivity|].
  cbn [flat_map check_threads]. rewrite <- app_assoc.
  rewrite (thread_sim t a ops _ HR). apply IH; assumption.
Qed.

(* ------------------------------------------------------------------ a whole case *)
Theorem check_case_model : forall m ts, check_case m ts (run_case m ts) = [].
Proof.
  intros m ts. unfold check_case, run_case.
  set (tail := fun st : tstate => flat_map (run_thread st) ts ++ (TZ (cur_idx st) :: sep :: finish st) ++ [bar]).
  destruct (run_sim m tstate0 sstate0 (bar :: tail (fst (run tstate0 m))) R_init) as [R1 C1].
  destruct (run tstate0 m) as [t1 out] eqn:RN. cbn [fst snd] in *.
  change (out ++ bar :: flat_map (run_thread t1) ts ++ (TZ (cur_idx t1) :: sep :: finish t1) ++ [bar])
    with (out ++ bar :: tail t1).
  destruct (check_ops sstate0 m (out ++ bar :: tail t1)) as [a1 r1] eqn:CK. cbn [fst snd] in *. subst r1.
  rewrite eat_tok_same. unfold tail.
  rewrite (threads_sim ts t1 a1 _ R1).
  set (a2 := match ts with [] => a1 | _ :: _ => after_join a1 end).
  assert (R2 : R t1 a2).
  { unfold a2. destruct ts; [exact R1 | apply (R_same t1 a1); [exact R1 | reflexivity | reflexivity | reflexivity]]. }
  cbn [eat app]. rewrite (cur_sim t1 a2 R2). cbn [strip_prefix]. rewrite tok_eqb_refl.
  rewrite eat_tok_same. rewrite (finish_sim t1 a2 [bar] R2). rewrite eat_tok_same. reflexivity.
Qed.

(* on the wire: whatever case line parses *)
Theorem model_meets_spec_wire : forall l m ts,
  parse_case l = Some (m, ts) -> run_spec l (run_model l) = [].
Proof.
  intros l m ts P. unfold run_spec, run_model. destruct (is_purity l); [reflexivity|].
  rewrite P. apply check_case_model.
Qed.

(* a purity-probe line: the model predicts PURE, which the checker accepts *)
Theorem model_meets_spec_purity_line : forall l, is_purity l = true -> run_spec l (run_model l) = [].
Proof. intros l H. unfold run_spec, run_model. rewrite H. reflexivity. Qed.

Example purity_line_nonvacuous : is_purity [tag "PURITY"; TZ 7; TZ 4; TZ 60; TZ 3] = true.
Proof. reflexivity. Qed.

Example model_meets_spec_nonvacuous :
  exists m ts, parse_case [tag "SV"; TZ 0; TB [x6b]; tag "i"; TZ 5; tag ";"; tag "AT"; TZ 1; tag "|"; tag "CUR"] = Some (m, ts)
               /\ m <> [] /\ ts <> [].
Proof. eexists. eexists. split; [vm_compute; reflexivity|]. split; discriminate. Qed.

(* regression for finding F20 (repaired in 4bc3189): an empty SetValues batch used to shadow an existing binding of the
   empty key; the witness program is now accepted and the empty key still answers *)
Definition f20_witness : list tok :=
  [tag "SV"; TZ 0; TB []; tag "i"; TZ 5; tag ";"; tag "SVS"; TZ 1; TZ 0; tag ";"; tag "HK"; TZ 2; TB []].

Example f20_witness_accepted :
  run_spec f20_witness (run_model f20_witness) = [] /\
  run_model f20_witness = [sep; sep; TZ 1%Z; sep; bar; TZ 0%Z; sep; sep; bar].
Proof. vm_compute. split; reflexivity. Qed.
