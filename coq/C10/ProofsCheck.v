(* C10 proofs, part 5: model_meets_spec - the checker that is run on the implementation's observations
   accepts the model's observation of every program (outside the reach of finding F20), threads included. *)
From V Require Import C10.Glue C10.ProofsCtx C10.ProofsStack C10.ProofsSim C10.ProofsStep.
From Coq Require Import Lia ZifyBool ZifyNat.
Local Open Scope nat_scope.

(* ------------------------------------------------------------------ the checker on its own expectation *)
Lemma tok_eqb_refl : forall t, tok_eqb t t = true.
Proof. intros [b|z|b]; cbn; [apply bytes_eqb_refl | apply Z.eqb_refl | apply bytes_eqb_refl]. Qed.

Lemma strip_prefix_app : forall e l, strip_prefix e (e ++ l) = Some l.
Proof. induction e as [|x e IH]; intro l; cbn; [reflexivity|]. rewrite tok_eqb_refl. apply IH. Qed.

Lemma eat_outs : forall cs rest, eat cs (outs cs ++ rest) = inl rest.
Proof.
  induction cs as [|[e cl] cs IH]; intro rest; [reflexivity|].
  unfold outs. cbn [flat_map fst eat]. rewrite <- app_assoc, strip_prefix_app. apply IH.
Qed.

Lemma eat_tok_same : forall t rest, eat_tok t (t :: rest) = inl rest.
Proof. intros. unfold eat_tok. rewrite tok_eqb_refl. reflexivity. Qed.

(* ------------------------------------------------------------------ programs outside the reach of F20 *)
Definition nonempty_keys_op (o : op) : bool :=
  match o with
  | OGet _ k | OHas _ k => negb (is_nilb k)
  | ODump keys => forallb (fun k => negb (is_nilb k)) keys
  | _ => true
  end.
Definition no_empty_batch_op (o : op) : bool := match o with OSetValues _ [] => false | _ => true end.
Definition flags_clear (a : sstate) : Prop := forall i, a_empty_batch (sctx a i) = false.

Definition prog_safe (a : sstate) (ops : list op) : Prop :=
  (flags_clear a /\ forallb no_empty_batch_op ops = true) \/ forallb nonempty_keys_op ops = true.

Lemma safe_of_flags : forall a o, flags_clear a -> op_safe a o.
Proof.
  intros a o F. destruct o; cbn; try exact I; intros; right; apply F.
Qed.

Lemma safe_of_keys : forall a o, nonempty_keys_op o = true -> op_safe a o.
Proof.
  intros a o H. destruct o as [r k v | r b | r k | r k | r | keys | i j | r | k | k | | sp]; cbn in *; try exact I.
  - left. destruct k; [discriminate | discriminate].
  - left. destruct k; [discriminate | discriminate].
  - intros i k _ Hk. left. rewrite forallb_forall in H. specialize (H k Hk). destruct k; [discriminate | discriminate].
Qed.

Lemma sctx_snoc : forall pool stk toks last x i,
  sctx (mk_s (pool ++ [x]) stk toks last) i =
  if Nat.ltb i (length pool) then nth i pool actx0 else if Nat.eqb i (length pool) then x else actx0.
Proof.
  intros. unfold sctx. cbn [s_pool]. destruct (Nat.ltb i (length pool)) eqn:L.
  - apply app_nth1. lia.
  - rewrite app_nth2 by lia. destruct (Nat.eqb i (length pool)) eqn:E.
    + replace (i - length pool) with 0 by lia. reflexivity.
    + destruct (i - length pool) as [|[|m]] eqn:D; [lia | reflexivity | reflexivity].
Qed.

Lemma flags_step : forall a o, flags_clear a -> no_empty_batch_op o = true -> flags_clear (fst (sstep a o)).
Proof.
  intros a o F N. destruct o as [r k v | r b | r k | r k | r | keys | i j | r | k | k | | sp];
    cbn [sstep fst]; try exact F.
  - intro i. rewrite sctx_snoc. destruct (Nat.ltb i (length (s_pool a))); [apply (F i)|].
    destruct (Nat.eqb i (length (s_pool a))); [apply F | reflexivity].
  - intro i. rewrite sctx_snoc. destruct (Nat.ltb i (length (s_pool a))); [apply (F i)|].
    destruct (Nat.eqb i (length (s_pool a))); [|reflexivity]. cbn [a_empty_batch].
    rewrite F. destruct b; [discriminate | reflexivity].
  - destruct (nth k (s_toks a) SDead); try exact F;
      destruct (sdetach (s_stack a) i) as [[stk b] kd]; exact F.
  - destruct (nth k (s_toks a) SDead); try exact F;
      destruct (sdetach (s_stack a) i) as [[stk b] kd]; exact F.
  - intro i. rewrite sctx_snoc. destruct (Nat.ltb i (length (s_pool a))); [apply (F i)|].
    destruct (Nat.eqb i (length (s_pool a))); [apply F | reflexivity].
Qed.

(* ------------------------------------------------------------------ a whole segment *)
Lemma run_sim : forall ops t a rest, R t a -> prog_safe a ops ->
  R (fst (run t ops)) (fst (check_ops a ops (snd (run t ops) ++ rest))) /\
  snd (check_ops a ops (snd (run t ops) ++ rest)) = inl rest /\
  (flags_clear a -> forallb no_empty_batch_op ops = true ->
   flags_clear (fst (check_ops a ops (snd (run t ops) ++ rest)))).
Proof.
  induction ops as [|o ops IH]; intros t a rest HR S.
  - cbn. split; [exact HR | split; [reflexivity | tauto]].
  - assert (So : op_safe a o).
    { destruct S as [[F N]|K].
      - apply safe_of_flags. exact F.
      - apply safe_of_keys. cbn in K. apply andb_true_iff in K. tauto. }
    destruct (step_sim t a o HR) as [HR1 O1]. specialize (O1 So).
    assert (S1 : prog_safe (fst (sstep a o)) ops).
    { destruct S as [[F N]|K].
      - cbn in N. apply andb_true_iff in N. destruct N as [N1 N2]. left. split; [apply flags_step; assumption | exact N2].
      - right. cbn in K. apply andb_true_iff in K. tauto. }
    specialize (IH (fst (step t o)) (fst (sstep a o)) rest HR1 S1).
    cbn [run check_ops].
    destruct (step t o) as [t1 out] eqn:ST. destruct (sstep a o) as [a1 cs] eqn:SS. cbn [fst snd] in *.
    destruct (run t1 ops) as [t2 outs2] eqn:RN. cbn [fst snd] in *.
    subst out. rewrite <- app_assoc. rewrite eat_outs. cbn [app]. rewrite eat_tok_same.
    destruct IH as [I1 [I2 I3]]. split; [exact I1 | split; [exact I2|]].
    intros F N. cbn in N. apply andb_true_iff in N. destruct N as [N1 N2].
    apply I3; [|exact N2]. pose proof (flags_step a o F N1) as FS. rewrite SS in FS. exact FS.
Qed.

(* ------------------------------------------------------------------ revealing the stack *)
Fixpoint reveal (n : nat) (stk : list nat) : list nat :=
  match n with 0 => [] | S n' => hd 0 stk :: reveal n' (tl stk) end.

Lemma reveal_spec : forall n stk, length stk <= n -> reveal n stk = stk ++ repeat 0 (n - length stk).
Proof.
  induction n as [|n IH]; intros stk L.
  - destruct stk; [reflexivity | cbn in L; lia].
  - destruct stk as [|x r]; cbn [reveal hd tl].
    + rewrite IH by (cbn; lia). cbn. replace (n - 0) with n by lia. reflexivity.
    + cbn in L. rewrite IH by lia. reflexivity.
Qed.

Lemma drain_sim : forall n t a, R t a -> drain n t = map (fun i => TZ (Z.of_nat i)) (reveal n (s_stack a)).
Proof.
  induction n as [|n IH]; intros t a HR; [reflexivity|].
  cbn [drain reveal map]. rewrite (cur_sim t a HR). unfold scur. f_equal.
  destruct (pop_public_abs (t_stk t) (R_wf _ _ HR)) as [W A].
  assert (HR' : R (with_stk t (pop_public (t_stk t))) (set_stack a (tl (s_stack a)) "x")).
  { apply R_set_stack; [exact HR | exact W | | |].
    - rewrite A, (R_stack _ _ HR). destruct (s_stack a); reflexivity.
    - pose proof (R_stack_idx _ _ HR) as F. destruct (s_stack a); [constructor | inversion F; assumption].
    - destruct (s_stack a); cbn; lia. }
  rewrite (IH _ _ HR'). reflexivity.
Qed.

Lemma finish_sim : forall t a rest, R t a -> check_finish a (finish t ++ rest) = inl rest.
Proof.
  intros t a rest HR. unfold check_finish, finish, sfinish. cbn [eat].
  rewrite (drain_sim _ t a HR). rewrite (R_tlen _ _ HR).
  rewrite reveal_spec by apply (R_depth _ _ HR).
  rewrite <- app_assoc. rewrite strip_prefix_app. cbn [app]. apply eat_tok_same.
Qed.

(* ------------------------------------------------------------------ threads *)
Lemma R_fork : forall t a, R t a -> R (fork t) (sfork a).
Proof.
  intros t a HR. constructor; cbn [fork sfork t_heap t_pool t_stk t_toks s_pool s_stack s_toks].
  - apply (R_len _ _ HR).
  - apply (R_ctx _ _ HR).
  - apply (R_root _ _ HR).
  - apply (R_nodup _ _ HR).
  - apply stack0_wf.
  - reflexivity.
  - constructor.
  - cbn. lia.
  - rewrite !map_length. apply (R_tlen _ _ HR).
  - intro k. change TDead with (fork_tok TDead). change SDead with (sfork_tok SDead). rewrite !map_nth.
    pose proof (R_toks _ _ HR k) as T.
    destruct (nth k (t_toks t) TDead), (nth k (s_toks a) SDead); cbn in *; tauto.
Qed.

Lemma flags_same_pool : forall a b, s_pool a = s_pool b -> flags_clear a -> flags_clear b.
Proof. intros a b E F i. unfold sctx. rewrite <- E. apply F. Qed.

Lemma R_same : forall t a b, R t a -> s_pool b = s_pool a -> s_stack b = s_stack a -> s_toks b = s_toks a -> R t b.
Proof.
  intros t a b HR E1 E2 E3. constructor; rewrite ?E1, ?E2, ?E3; apply HR.
Qed.

Definition seg_safe (a : sstate) (ts : list (list op)) : Prop :=
  (flags_clear a /\ forallb (forallb no_empty_batch_op) ts = true) \/ forallb (forallb nonempty_keys_op) ts = true.

Lemma thread_sim : forall t a ops rest, R t a -> prog_safe a ops ->
  check_thread a ops (run_thread t ops ++ rest) = inl rest.
Proof.
  intros t a ops rest HR S. unfold check_thread, run_thread.
  assert (S' : prog_safe (sfork a) ops).
  { destruct S as [[F N]|K]; [left; split; [|exact N] | right; exact K].
    apply (flags_same_pool a); [reflexivity | exact F]. }
  destruct (run_sim ops (fork t) (sfork a) (finish (fst (run (fork t) ops)) ++ bar :: rest) (R_fork t a HR) S')
    as [R1 [C1 _]].
  destruct (run (fork t) ops) as [t1 out] eqn:RN. cbn [fst snd] in *.
  replace ((out ++ finish t1 ++ [bar]) ++ rest) with (out ++ finish t1 ++ bar :: rest)
    by (rewrite <- !app_assoc; reflexivity).
  destruct (check_ops (sfork a) ops (out ++ finish t1 ++ bar :: rest)) as [a1 r1] eqn:CK. cbn [fst snd] in *.
  subst r1. rewrite (finish_sim t1 a1 (bar :: rest) R1). apply eat_tok_same.
Qed.

Lemma threads_sim : forall ts t a rest, R t a -> seg_safe a ts ->
  check_threads a ts (flat_map (run_thread t) ts ++ rest) = inl rest.
Proof.
  induction ts as [|ops ts IH]; intros t a rest HR S; [reflexivity|].
  cbn [flat_map check_threads]. rewrite <- app_assoc.
  assert (S1 : prog_safe a ops /\ seg_safe a ts).
  { destruct S as [[F N]|K].
    - cbn in N. apply andb_true_iff in N. destruct N. split; left; split; assumption.
    - cbn in K. apply andb_true_iff in K. destruct K. split; right; assumption. }
  destruct S1 as [S1 S2]. rewrite (thread_sim t a ops _ HR S1). apply IH; assumption.
Qed.

(* ------------------------------------------------------------------ a whole case *)
Definition case_safe (m : list op) (ts : list (list op)) : Prop :=
  (forallb no_empty_batch_op m = true /\ forallb (forallb no_empty_batch_op) ts = true) \/
  (forallb nonempty_keys_op m = true /\ forallb (forallb nonempty_keys_op) ts = true).

Lemma flags_init : flags_clear sstate0.
Proof. intros [|[|i]]; reflexivity. Qed.

Theorem check_case_model : forall m ts, case_safe m ts -> check_case m ts (run_case m ts) = [].
Proof.
  intros m ts S. unfold check_case, run_case.
  assert (S0 : prog_safe sstate0 m).
  { destruct S as [[N _]|[K _]]; [left; split; [apply flags_init | exact N] | right; exact K]. }
  set (tail := fun st : tstate => flat_map (run_thread st) ts ++ (TZ (cur_idx st) :: sep :: finish st) ++ [bar]).
  destruct (run_sim m tstate0 sstate0 (bar :: tail (fst (run tstate0 m))) R_init S0) as [R1 [C1 F1]].
  destruct (run tstate0 m) as [t1 out] eqn:RN. cbn [fst snd] in *.
  change (out ++ bar :: flat_map (run_thread t1) ts ++ (TZ (cur_idx t1) :: sep :: finish t1) ++ [bar])
    with (out ++ bar :: tail t1).
  destruct (check_ops sstate0 m (out ++ bar :: tail t1)) as [a1 r1] eqn:CK. cbn [fst snd] in *. subst r1.
  rewrite eat_tok_same. unfold tail.
  assert (S2 : seg_safe a1 ts).
  { destruct S as [[N1 N2]|[K1 K2]]; [left; split; [apply F1; [apply flags_init | exact N1] | exact N2] | right; exact K2]. }
  rewrite (threads_sim ts t1 a1 _ R1 S2).
  set (a2 := match ts with [] => a1 | _ :: _ => after_join a1 end).
  assert (R2 : R t1 a2).
  { unfold a2. destruct ts; [exact R1 | apply (R_same t1 a1); [exact R1 | reflexivity | reflexivity | reflexivity]]. }
  cbn [eat app]. rewrite (cur_sim t1 a2 R2). cbn [strip_prefix]. rewrite tok_eqb_refl.
  rewrite eat_tok_same. rewrite (finish_sim t1 a2 [bar] R2). rewrite eat_tok_same. reflexivity.
Qed.

(* on the wire: whatever case line parses *)
Theorem model_meets_spec_wire : forall l m ts,
  parse_case l = Some (m, ts) -> case_safe m ts -> run_spec l (run_model l) = [].
Proof. intros l m ts P S. unfold run_spec, run_model. rewrite P. apply check_case_model. exact S. Qed.

Example model_meets_spec_nonvacuous :
  exists m ts, parse_case [tag "SV"; TZ 0; TB [x6b]; tag "i"; TZ 5; tag ";"; tag "AT"; TZ 1; tag "|"; tag "CUR"] = Some (m, ts)
               /\ case_safe m ts /\ m <> [] /\ ts <> [].
Proof. eexists. eexists. split; [vm_compute; reflexivity|]. split; [left; split; reflexivity|]. split; discriminate. Qed.

(* finding F20: an empty SetValues batch shadows an existing binding of the empty key - the model reproduces the
   code, the SPEC (same bindings as the parent) rejects it *)
Definition f20_witness : list tok :=
  [tag "SV"; TZ 0; TB []; tag "i"; TZ 5; tag ";"; tag "SVS"; TZ 1; TZ 0; tag ";"; tag "HK"; TZ 2; TB []].

Theorem setvalues_empty_batch_refuted_witness :
  run_spec f20_witness (run_model f20_witness) = fail "setvalues_empty_batch:empty_key_shadowed".
Proof. vm_compute. reflexivity. Qed.
