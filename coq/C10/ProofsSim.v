(* C10 proofs, part 3: the model (DataList heap, array stack, tokens) simulates the abstract machine of
   the SPEC (association lists, list of names) operation by operation, with equal outputs. *)
From V Require Import C10.Spec C10.ProofsCtx C10.ProofsStack.
From Coq Require Import Lia ZifyBool ZifyNat.
Local Open Scope nat_scope.

(* ------------------------------------------------------------------ the simulation relation *)
Definition ctxrel (h : heap) (c : ctx) (a : actx) : Prop :=
  ctx_ok h c /\ binds h c = a_binds a.

Definition tokrel (pool : list ctx) (ct : tokst) (st : stok) : Prop :=
  match ct, st with
  | TDead, SDead => True
  | TLive c, SLive i | TBorrowed c, SBorrowed i | TScope c, SScope i => i < length pool /\ nth i pool root = c
  | _, _ => False
  end.

Definition nm (pool : list ctx) (i : nat) : ctx := nth i pool root.      (* the context a name stands for *)

Record R (t : tstate) (a : sstate) : Prop := mkR {
  R_len : length (t_pool t) = length (s_pool a);
  R_ctx : forall i, i < length (t_pool t) -> ctxrel (t_heap t) (nm (t_pool t) i) (nth i (s_pool a) actx0);
  R_root : exists p, t_pool t = root :: p;
  R_nodup : NoDup (t_pool t);
  R_wf : stack_wf (t_stk t);
  R_stack : abs (t_stk t) = map (nm (t_pool t)) (s_stack a);
  R_stack_idx : Forall (fun i => i < length (t_pool t)) (s_stack a);
  R_depth : length (s_stack a) <= length (s_toks a);
  R_tlen : length (t_toks t) = length (s_toks a);
  R_toks : forall k, tokrel (t_pool t) (nth k (t_toks t) TDead) (nth k (s_toks a) SDead)
}.

Lemma R_init : R tstate0 sstate0.
Proof.
  constructor; cbn.
  - reflexivity.
  - intros i H. assert (i = 0) by lia. subst. split; [exact I | reflexivity].
  - exists []. reflexivity.
  - constructor; [intros [] | constructor].
  - apply stack0_wf.
  - reflexivity.
  - constructor.
  - lia.
  - reflexivity.
  - intros [|k]; exact I.
Qed.

(* ------------------------------------------------------------------ names *)
Lemma nm_root : forall t a, R t a -> nm (t_pool t) 0 = root.
Proof. intros t a [_ _ [p E] _ _ _ _ _ _ _]. unfold nm. rewrite E. reflexivity. Qed.

Lemma pool_pos : forall t a, R t a -> 0 < length (t_pool t).
Proof. intros t a [_ _ [p E] _ _ _ _ _ _ _]. rewrite E. cbn. lia. Qed.

Lemma nm_inj : forall t a i j, R t a -> i < length (t_pool t) -> j < length (t_pool t) ->
  nm (t_pool t) i = nm (t_pool t) j -> i = j.
Proof. intros t a i j HR Hi Hj E. eapply (proj1 (NoDup_nth (t_pool t) root)); eauto. apply (R_nodup _ _ HR). Qed.

Lemma nm_eqb : forall t a i j, R t a -> i < length (t_pool t) -> j < length (t_pool t) ->
  ctx_eqb (nm (t_pool t) i) (nm (t_pool t) j) = Nat.eqb j i.
Proof.
  intros t a i j HR Hi Hj. destruct (Nat.eqb j i) eqn:E.
  - apply Nat.eqb_eq in E. subst. apply ctx_eqb_refl.
  - apply ctx_eqb_neq. intro H. apply (nm_inj t a i j HR Hi Hj) in H. subst. rewrite Nat.eqb_refl in E. discriminate.
Qed.

Lemma nm_overflow : forall t a i, R t a -> length (t_pool t) <= i -> nm (t_pool t) i = nm (t_pool t) 0.
Proof. intros t a i HR H. rewrite (nm_root t a HR). unfold nm. apply nth_overflow. exact H. Qed.

Lemma clampi_ok : forall t a i, R t a ->
  clampi a i < length (t_pool t) /\ nm (t_pool t) i = nm (t_pool t) (clampi a i).
Proof.
  intros t a i HR. unfold clampi. rewrite <- (R_len _ _ HR). pose proof (pool_pos t a HR).
  destruct (Nat.ltb i (length (t_pool t))) eqn:E.
  - split; [lia | reflexivity].
  - split; [lia | apply (nm_overflow t a i HR); lia].
Qed.

Lemma scur_ok : forall t a, R t a -> scur a < length (t_pool t) /\ top (t_stk t) = nm (t_pool t) (scur a).
Proof.
  intros t a HR. rewrite (top_abs _ (R_wf _ _ HR)), (R_stack _ _ HR). unfold scur.
  pose proof (R_stack_idx _ _ HR) as F. destruct (s_stack a) as [|x r]; cbn [hd map].
  - split; [apply (pool_pos t a HR) | symmetry; apply (nm_root t a HR)].
  - inversion F; subst. split; [assumption | reflexivity].
Qed.

Lemma res_ok : forall t a r, R t a ->
  sres a r < length (t_pool t) /\ resolve t r = nm (t_pool t) (sres a r).
Proof.
  intros t a [|i] HR; cbn [sres resolve].
  - apply scur_ok. exact HR.
  - apply (clampi_ok t a i HR).
Qed.

Lemma sctx_rel : forall t a i, R t a -> i < length (t_pool t) -> ctxrel (t_heap t) (nm (t_pool t) i) (sctx a i).
Proof. intros t a i HR H. unfold sctx. apply (R_ctx _ _ HR). exact H. Qed.

(* ------------------------------------------------------------------ queries *)
Lemma get_sim : forall t a i k, R t a -> i < length (t_pool t) ->
  get_value (t_heap t) (nm (t_pool t) i) k = assoc k (a_binds (sctx a i)).
Proof.
  intros t a i k HR Hi. destruct (sctx_rel t a i HR Hi) as [_ B]. rewrite <- B. apply get_value_assoc.
Qed.

(* ------------------------------------------------------------------ list toolkit *)
Lemma NoDup_snoc : forall A (l : list A) x, NoDup l -> ~ In x l -> NoDup (l ++ [x]).
Proof.
  intros A l x N H. induction N as [|y l Hy N IH]; cbn.
  - constructor; [intros [] | constructor].
  - constructor.
    + intro I. apply in_app_or in I. destruct I as [I|[I|[]]]; [contradiction|]. subst. apply H. left. reflexivity.
    + apply IH. intro. apply H. right. assumption.
Qed.

Lemma nth_set_nth : forall A j k (v d : A) l,
  nth k (set_nth j v l) d = if Nat.eqb k j && Nat.ltb j (length l) then v else nth k l d.
Proof.
  intros A j k v d l. destruct (Nat.eqb k j) eqn:E.
  - apply Nat.eqb_eq in E. subst k. destruct (Nat.ltb j (length l)) eqn:L; cbn [andb].
    + apply nth_set_nth_same. lia.
    + rewrite !nth_overflow; rewrite ?set_nth_length; try lia. reflexivity.
  - cbn [andb]. apply nth_set_nth_other. intro. subst. rewrite Nat.eqb_refl in E. discriminate.
Qed.

(* ------------------------------------------------------------------ allocation of a new named context *)
Lemma ctxrel_app : forall ex h c a, ctxrel h c a -> ctxrel (ex ++ h) c a.
Proof.
  intros ex h c a [O B]. unfold ctxrel, binds in *. rewrite (chain_app_old ex h c O).
  split; [apply ctx_ok_app; exact O | exact B].
Qed.

Lemma R_alloc : forall t a ex j ac last,
  R t a -> length (t_heap t) <= j -> ctxrel (ex ++ t_heap t) (Some j) ac ->
  R (mk_t (ex ++ t_heap t) (t_pool t ++ [Some j]) (t_stk t) (t_toks t))
    (mk_s (s_pool a ++ [ac]) (s_stack a) (s_toks a) last).
Proof.
  intros t a ex j ac last HR Hj Hc.
  assert (OLD : forall i, i < length (t_pool t) -> nm (t_pool t ++ [Some j]) i = nm (t_pool t) i).
  { intros i Hi. unfold nm. apply app_nth1. exact Hi. }
  constructor; cbn [t_heap t_pool t_stk t_toks s_pool s_stack s_toks].
  - rewrite !app_length. cbn. rewrite (R_len _ _ HR). reflexivity.
  - intros i Hi. rewrite app_length in Hi. cbn in Hi.
    destruct (Nat.eq_dec i (length (t_pool t))) as [->|Hne].
    + unfold nm. rewrite app_nth2 by lia. rewrite Nat.sub_diag. rewrite (R_len _ _ HR).
      rewrite app_nth2 by lia. rewrite Nat.sub_diag. exact Hc.
    + rewrite OLD by lia. rewrite app_nth1 by (rewrite <- (R_len _ _ HR); lia).
      apply ctxrel_app. apply (R_ctx _ _ HR). lia.
  - destruct (R_root _ _ HR) as [p E]. exists (p ++ [Some j]). rewrite E. reflexivity.
  - apply NoDup_snoc; [apply (R_nodup _ _ HR)|]. intro I.
    destruct (In_nth _ _ root I) as [i [Hi E]].
    destruct (R_ctx _ _ HR i Hi) as [O _]. unfold nm in O. rewrite E in O. cbn in O. lia.
  - apply (R_wf _ _ HR).
  - rewrite (R_stack _ _ HR). apply map_ext_in. intros i Hi. symmetry. apply OLD.
    pose proof (R_stack_idx _ _ HR) as F. rewrite Forall_forall in F. apply F. exact Hi.
  - pose proof (R_stack_idx _ _ HR) as F. rewrite Forall_forall in *. intros i Hi. rewrite app_length. specialize (F i Hi). lia.
  - apply (R_depth _ _ HR).
  - apply (R_tlen _ _ HR).
  - intro k. pose proof (R_toks _ _ HR k) as T.
    destruct (nth k (t_toks t) TDead), (nth k (s_toks a) SDead); cbn in *; try exact T;
      destruct T as [T1 T2]; (split; [rewrite app_length; lia | rewrite app_nth1 by lia; exact T2]).
Qed.

(* ------------------------------------------------------------------ Attach *)
Lemma R_push : forall t a i ct st last,
  R t a -> i < length (t_pool t) -> tokrel (t_pool t) ct st ->
  R (mk_t (t_heap t) (t_pool t) (push (t_stk t) (nm (t_pool t) i)) (t_toks t ++ [ct]))
    (mk_s (s_pool a) (i :: s_stack a) (s_toks a ++ [st]) last).
Proof.
  intros t a i ct st last HR Hi HT.
  destruct (push_abs (t_stk t) (nm (t_pool t) i) (R_wf _ _ HR)) as [W A].
  constructor; cbn [t_heap t_pool t_stk t_toks s_pool s_stack s_toks].
  - apply (R_len _ _ HR).
  - apply (R_ctx _ _ HR).
  - apply (R_root _ _ HR).
  - apply (R_nodup _ _ HR).
  - exact W.
  - rewrite A, (R_stack _ _ HR). reflexivity.
  - constructor; [exact Hi | apply (R_stack_idx _ _ HR)].
  - rewrite app_length. cbn. pose proof (R_depth _ _ HR). lia.
  - rewrite !app_length. cbn. rewrite (R_tlen _ _ HR). reflexivity.
  - intro k. destruct (Nat.lt_ge_cases k (length (t_toks t))) as [L|L].
    + rewrite !app_nth1 by (rewrite <- ?(R_tlen _ _ HR); lia). apply (R_toks _ _ HR).
    + rewrite !app_nth2 by (rewrite <- ?(R_tlen _ _ HR); lia). rewrite <- (R_tlen _ _ HR).
      destruct (k - length (t_toks t)) as [|[|m]]; cbn; [exact HT | exact I | exact I].
Qed.

(* ------------------------------------------------------------------ Detach *)
Lemma lunwind_map : forall t a i stk, R t a -> i < length (t_pool t) ->
  Forall (fun x => x < length (t_pool t)) stk ->
  lunwind (nm (t_pool t) i) (map (nm (t_pool t)) stk) = option_map (map (nm (t_pool t))) (unwind i stk).
Proof.
  intros t a i stk HR Hi F. induction stk as [|x r IH]; [reflexivity|].
  inversion F; subst. cbn [map lunwind unwind]. rewrite (nm_eqb t a i x HR Hi) by assumption.
  destruct (Nat.eqb x i); [reflexivity | apply IH; assumption].
Qed.

Lemma unwind_sub : forall i stk r, unwind i stk = Some r ->
  length r < length stk /\ (forall P : nat -> Prop, Forall P stk -> Forall P r).
Proof.
  intros i stk. induction stk as [|x s IH]; intros r H; [discriminate|]. cbn [unwind] in H.
  destruct (Nat.eqb x i).
  - inversion H; subst. split; [cbn; lia|]. intros P F. inversion F; assumption.
  - destruct (IH r H) as [L Q]. split; [cbn; lia|]. intros P F. inversion F; subst. apply Q. assumption.
Qed.

Lemma detach_sim : forall t a i, R t a -> i < length (t_pool t) ->
  let d := detach (t_stk t) (nm (t_pool t) i) in
  let stk' := fst (fst (sdetach (s_stack a) i)) in
  stack_wf (fst d) /\ abs (fst d) = map (nm (t_pool t)) stk' /\ snd d = snd (fst (sdetach (s_stack a) i)) /\
  Forall (fun x => x < length (t_pool t)) stk' /\ length stk' <= length (s_stack a).
Proof.
  intros t a i HR Hi d stk'. subst d stk'.
  destruct (detach_abs (t_stk t) (nm (t_pool t) i) (R_wf _ _ HR)) as [W A].
  rewrite (R_stack _ _ HR) in A. unfold ldetach in A.
  rewrite (lunwind_map t a i (s_stack a) HR Hi (R_stack_idx _ _ HR)) in A.
  unfold sdetach. destruct (unwind i (s_stack a)) as [r|] eqn:U; cbn [option_map fst snd] in *.
  - injection A as A1 A2. destruct (unwind_sub _ _ _ U) as [L Q].
    refine (conj W (conj _ (conj _ (conj _ _)))); [exact A1 | exact A2 | apply Q; apply (R_stack_idx _ _ HR) | lia].
  - injection A as A1 A2.
    refine (conj W (conj A1 (conj _ (conj _ _)))); [ | apply (R_stack_idx _ _ HR) | lia].
    rewrite A2. destruct (s_stack a) as [|x r]; cbn [map]; [|reflexivity].
    rewrite <- (nm_root t a HR). rewrite (nm_eqb t a i 0 HR Hi (pool_pos t a HR)).
    rewrite Nat.eqb_sym. reflexivity.
Qed.

Lemma R_set_stack : forall t a s' stk' last,
  R t a -> stack_wf s' -> abs s' = map (nm (t_pool t)) stk' ->
  Forall (fun x => x < length (t_pool t)) stk' -> length stk' <= length (s_stack a) ->
  R (with_stk t s') (set_stack a stk' last).
Proof.
  intros t a s' stk' last HR W A F L. constructor; cbn [with_stk set_stack t_heap t_pool t_stk t_toks s_pool s_stack s_toks].
  - apply (R_len _ _ HR).
  - apply (R_ctx _ _ HR).
  - apply (R_root _ _ HR).
  - apply (R_nodup _ _ HR).
  - exact W.
  - exact A.
  - exact F.
  - pose proof (R_depth _ _ HR). lia.
  - apply (R_tlen _ _ HR).
  - apply (R_toks _ _ HR).
Qed.

(* ------------------------------------------------------------------ which named context is current *)
Lemma find_idx_nth : forall (l : list ctx) i k, NoDup l -> i < length l ->
  find_idx (nth i l root) l k = Z.of_nat (k + i).
Proof.
  induction l as [|x l IH]; intros i k N Hi; [cbn in Hi; lia|]. inversion N; subst.
  destruct i as [|i]; cbn [nth find_idx].
  - rewrite ctx_eqb_refl. f_equal. lia.
  - destruct (ctx_eqb x (nth i l root)) eqn:E.
    + apply ctx_eqb_eq in E. subst x. exfalso. apply H1. apply nth_In. cbn in Hi. lia.
    + rewrite IH by (cbn in Hi; try assumption; lia). f_equal. lia.
Qed.

Lemma cur_sim : forall t a, R t a -> cur_idx t = Z.of_nat (scur a).
Proof.
  intros t a HR. unfold cur_idx. destruct (scur_ok t a HR) as [L E]. rewrite E. unfold nm.
  rewrite find_idx_nth by (try apply (R_nodup _ _ HR); exact L). reflexivity.
Qed.
