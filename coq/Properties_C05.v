(* C05 - placeholder while the proofs are being written *)
From V Require Import C05.Glue.
Theorem placeholder : forall active c, ctx_valid c = true -> resolve_parent active (PAsCtx c) = c.
Proof. intros active c H. unfold resolve_parent. rewrite H. reflexivity. Qed.
Print Assumptions placeholder.
