(* C05 - New spans get correct identity, parentage, flags and trace state.
   Every sentence of the property as a theorem about the model (coq/C05/Model.v over coq/C10/Model.v and
   coq/C12/Model.v); proofs in coq/C05/Proofs*.v.  The id generator and the sampler are oracles: the pure
   theorems quantify over an arbitrary sampler function [samp] and arbitrary generated ids [gsid] [gtid]. *)
From V Require Import C10.ProofsCtx C10.ProofsStack C10.ProofsProps.
From V Require Import C05.Glue C05.ProofsCore C05.ProofsWorld C05.ProofsMeets C05.ProofsWire.
From V Require Import Gen.Consts.
From Coq Require Import Lia.

(* --- "given explicitly as a SpanContext, taken from an explicit Context, or else the span active on the calling
   thread, in that order of precedence": [active] is GetCurrentSpan()->GetContext(); PAsCtx c = options.parent holds
   the SpanContext c; PAsContext c r = it holds a Context whose span has context c and whose root marker is r *)
Theorem parent_precedence : forall active : span_ctx,
  (forall c, ctx_valid c = true -> resolve_parent active (PAsCtx c) = c) /\
  (forall c, ctx_valid c = false -> resolve_parent active (PAsCtx c) = active) /\
  (forall c r, ctx_valid c = true -> resolve_parent active (PAsContext c r) = c) /\
  (forall c, ctx_valid c = false -> resolve_parent active (PAsContext c true) = ctx_invalid) /\
  (forall c, ctx_valid c = false -> resolve_parent active (PAsContext c false) = active) /\
  ctx_valid ctx_invalid = false.
Proof. exact ProofsCore.parent_precedence. Qed.
Print Assumptions parent_precedence.

(* --- "A span started with a valid parent ... has the parent's trace id, records the parent's span id as its
   parent, and a fresh non-zero span id" (the id the generator returned; no trace id is drawn) *)
Theorem child_inherits_trace_id_and_records_parent : forall samp random gsid gtid active pa,
  let parent := resolve_parent active pa in
  let b := new_span samp random gsid gtid parent in
  ctx_valid parent = true ->
  c_tid (b_ctx b) = c_tid parent /\ b_psid b = c_sid parent /\ c_sid (b_ctx b) = gsid /\ b_tid_calls b = 0%Z.
Proof. exact ProofsCore.child_inherits_trace_id_and_records_parent. Qed.
Print Assumptions child_inherits_trace_id_and_records_parent.

(* --- "without a valid parent (or when the context is marked as root) it starts a new trace with fresh non-zero
   ids and no parent" *)
Theorem root_has_fresh_ids_no_parent : forall samp random gsid gtid active pa,
  let parent := resolve_parent active pa in
  let b := new_span samp random gsid gtid parent in
  ctx_valid parent = false ->
  c_tid (b_ctx b) = gtid /\ c_sid (b_ctx b) = gsid /\ b_psid b = zeros 8 /\ b_tid_calls b = 1%Z /\
  c_ts (b_ctx b) = match sr_ts (b_res b) with Some h => h | None => [] end.
Proof. exact ProofsCore.root_has_fresh_ids_no_parent. Qed.
Print Assumptions root_has_fresh_ids_no_parent.

Theorem root_marker_starts_new_trace : forall samp random gsid gtid active c,
  ctx_valid c = false ->
  let b := new_span samp random gsid gtid (resolve_parent active (PAsContext c true)) in
  c_tid (b_ctx b) = gtid /\ b_psid b = zeros 8.
Proof. exact ProofsCore.root_marker_starts_new_trace. Qed.
Print Assumptions root_marker_starts_new_trace.

(* "fresh NON-ZERO": the ids are the generator's; the context of the new span is valid exactly when they are
   non-zero (the trace id only when it is used).  With a generator that returns a zero id the span is still
   created, but its context is invalid: it is not a parent for anybody and is not propagated. *)
Theorem invalid_generator_ids : forall samp random gsid gtid parent,
  let b := new_span samp random gsid gtid parent in
  (all_zero gsid = true -> ctx_valid (b_ctx b) = false) /\
  (ctx_valid parent = false -> all_zero gtid = true -> ctx_valid (b_ctx b) = false) /\
  (all_zero gsid = false -> all_zero gtid = false -> ctx_valid (b_ctx b) = true) /\
  (all_zero gsid = false -> ctx_valid parent = true -> ctx_valid (b_ctx b) = true).
Proof. exact ProofsCore.invalid_generator_ids. Qed.
Print Assumptions invalid_generator_ids.

(* --- "Its sampled flag equals the sampler's decision": for every parent (every one of the 256 flag bytes, valid
   or not, remote or local) and every answer of every sampler.  (F4, repaired in 6f9bc57: the parent's sampled
   bit no longer survives a DROP / RECORD_ONLY decision.) *)
Theorem sampled_flag_equals_decision : forall samp random gsid gtid parent,
  let b := new_span samp random gsid gtid parent in
  ctx_sampled (b_ctx b) = is_sampled (sr_dec (b_res b)) /\
  b_res b = samp parent (if ctx_valid parent then c_tid parent else gtid).
Proof. exact ProofsCore.sampled_flag_equals_decision_full. Qed.
Print Assumptions sampled_flag_equals_decision.

(* --- "only W3C level-1 flag bits are set": nothing outside the mask the code applies (read from trace_flags.h:
   kAllW3CTraceContext1Flags = kIsSampled); the flags byte is 0 or 1; the random-trace-id bit (level 2) never set *)
Theorem only_level1_flag_bits : forall samp random gsid gtid parent,
  let b := new_span samp random gsid gtid parent in
  Z.land (flags_z (b_ctx b)) (255 - c12_kAllW3CTraceContext1Flags) = 0%Z /\
  (flags_z (b_ctx b) = 0%Z \/ flags_z (b_ctx b) = 1%Z) /\
  c12_kAllW3CTraceContext1Flags = c12_kIsSampled /\
  Z.land (flags_z (b_ctx b)) c12_kIsRandom = 0%Z.
Proof. exact ProofsCore.only_level1_flag_bits_full. Qed.
Print Assumptions only_level1_flag_bits.

(* --- "its trace state is the sampler's if given else the parent's" (empty for a new trace) *)
Theorem tracestate_choice : forall samp random gsid gtid parent,
  let b := new_span samp random gsid gtid parent in
  c_ts (b_ctx b) =
  match sr_ts (b_res b) with
  | Some h => h
  | None => if ctx_valid parent then c_ts parent else []
  end.
Proof. exact ProofsCore.tracestate_choice. Qed.
Print Assumptions tracestate_choice.

(* --- "a span that is not recorded is never exported yet still exposes this valid context for propagation".
   (1) pure: recording = the decision; the context (identity, flags, trace state: the theorems above) does not depend on
       whether the span records; it is local and valid whenever the generator's ids are non-zero;
   (2) every reachable world, every schedule on every number of threads: the exporter has received exactly the spans
       that were created recording and were ended, each once;
   (3) whatever happens later, a span keeps the context (and parent, recording flag) it was started with. *)
Theorem not_recorded_still_valid_context : forall samp random gsid gtid parent,
  let b := new_span samp random gsid gtid parent in
  b_rec b = is_recording (sr_dec (b_res b)) /\
  c_remote (b_ctx b) = false /\
  ctx_valid (b_ctx b) = negb (all_zero gsid) && (ctx_valid parent || negb (all_zero gtid)).
Proof. exact ProofsCore.not_recorded_still_valid_context. Qed.
Print Assumptions not_recorded_still_valid_context.

Theorem not_recorded_not_exported_but_valid_context : forall cf n ops,
  let w := fst (srun cf (world0 n) ops) in
  NoDup (w_exp w) /\
  (forall k, In k (w_exp w) -> k < length (w_spans w)) /\
  (forall k s, nth_error (w_spans w) k = Some s -> (In k (w_exp w) <-> sp_rec s = true /\ sp_ended s = true)) /\
  (forall k s, nth_error (w_spans w) k = Some s -> sp_rec s = false -> ~ In k (w_exp w)).
Proof. exact ProofsWorld.not_recorded_not_exported_full. Qed.
Print Assumptions not_recorded_not_exported_but_valid_context.

Theorem span_context_never_changes : forall cf ops w k s,
  nth_error (w_spans w) k = Some s ->
  exists s', nth_error (w_spans (fst (srun cf w ops))) k = Some s' /\
    sp_ctx s' = sp_ctx s /\ sp_psid s' = sp_psid s /\ sp_rec s' = sp_rec s /\ sp_attrs s' = sp_attrs s /\
    (sp_ended s = true -> sp_ended s' = true).
Proof. exact span_identity_stable. Qed.
Print Assumptions span_context_never_changes.

(* --- the world: what one StartSpan does, on any thread of any reachable world *)
Theorem start_span_in_world : forall cf w t p gsid gtid scr, cf_enabled cf = true ->
  let b := new_span (cf_samp cf scr) (cf_random cf) gsid gtid
                    (resolve_parent (active_ctx w t) (eval_parent w t p)) in
  let w' := fst (sstep cf w t (SStart p gsid gtid scr)) in
  w_spans w' = w_spans w ++ [mk_span (b_ctx b) (b_psid b) (b_rec b) false (b_attrs b)] /\
  w_exp w' = w_exp w /\ w_heap w' = w_heap w /\ w_stks w' = w_stks w /\
  snd (sstep cf w t (SStart p gsid gtid scr)) =
    OStart (mk_so (active_ctx w t) (cx_obs (eval_parent w t p)) (b_ctx b) (b_rec b) 1 (b_tid_calls b)
                  (Some (b_seen_parent b, b_seen_tid b, seen_of (b_res b)))).
Proof. exact start_step. Qed.
Print Assumptions start_span_in_world.

(* the invariant of every reachable world (well-formed stacks, live contexts, span references that exist, the
   exporter's log) holds under every schedule *)
Theorem world_invariant : forall cf n ops, WInv (fst (srun cf (world0 n) ops)).
Proof. exact WInv_reachable. Qed.
Print Assumptions world_invariant.

(* --- "several threads each with its own active-span stack": whatever another thread does, the span active on
   this thread stays the same; a span made active with WithActiveSpan/Scope on a thread is the parent of a span
   started there with default options, whatever the other threads do in between; releasing the scope
   re-activates the previous one *)
Theorem active_span_is_thread_local : forall cf w t u o, WInv w -> u <> t ->
  active_idx (fst (sstep cf w u o)) t = active_idx w t /\ active_ctx (fst (sstep cf w u o)) t = active_ctx w t.
Proof. exact ProofsWorld.active_span_is_thread_local. Qed.
Print Assumptions active_span_is_thread_local.

Theorem child_of_active_span_under_any_schedule : forall cf w t sp ops gsid gtid scr,
  WInv w -> cf_enabled cf = true -> t < length (w_stks w) ->
  span_ref_ok w sp = true -> ctx_valid (ctx_of_idx w sp) = true ->
  on_other_threads t ops ->
  let w1 := fst (srun cf (fst (sstep cf w t (SCtx (OScope sp)))) ops) in
  let w2 := fst (sstep cf w1 t (SStart PDef gsid gtid scr)) in
  exists s, w_spans w2 = w_spans w1 ++ [s] /\
    c_tid (sp_ctx s) = c_tid (ctx_of_idx w sp) /\ sp_psid s = c_sid (ctx_of_idx w sp) /\ c_sid (sp_ctx s) = gsid.
Proof. exact ProofsWorld.child_of_active_span_under_any_schedule. Qed.
Print Assumptions child_of_active_span_under_any_schedule.

Theorem scope_exit_reactivates_previous : forall cf w t sp, WInv w -> span_ref_ok w sp = true -> t < length (w_stks w) ->
  let w1 := fst (sstep cf w t (SCtx (OScope sp))) in
  let w2 := fst (sstep cf w1 t (SCtx (OKill (length (w_toks w))))) in
  active_idx w2 t = active_idx w t /\ active_ctx w2 t = active_ctx w t.
Proof. exact ProofsWorld.scope_exit_reactivates_previous. Qed.
Print Assumptions scope_exit_reactivates_previous.

(* the other two mechanisms in a world: they win over whatever is active on the thread *)
Theorem explicit_span_context_wins : forall cf w t c gsid gtid scr, cf_enabled cf = true -> ctx_valid c = true ->
  let w' := fst (sstep cf w t (SStart (PSc c) gsid gtid scr)) in
  exists s, w_spans w' = w_spans w ++ [s] /\ c_tid (sp_ctx s) = c_tid c /\ sp_psid s = c_sid c /\ c_sid (sp_ctx s) = gsid.
Proof. exact ProofsWorld.explicit_span_context_wins. Qed.
Print Assumptions explicit_span_context_wins.

Theorem explicit_context_span_wins : forall cf w t i k gsid gtid scr,
  WInv w -> cf_enabled cf = true -> span_ref_ok w k = true -> ctx_valid (ctx_of_idx w k) = true ->
  let w1 := fst (sstep cf w t (SCtx (OSet (CIdx i) span_key (KS, k)))) in
  let w2 := fst (sstep cf w1 t (SStart (PCx (CIdx (length (w_pool w)))) gsid gtid scr)) in
  exists s, w_spans w2 = w_spans w1 ++ [s] /\
    c_tid (sp_ctx s) = c_tid (ctx_of_idx w k) /\ sp_psid s = c_sid (ctx_of_idx w k) /\ c_sid (sp_ctx s) = gsid.
Proof. exact ProofsWorld.explicit_context_span_wins. Qed.
Print Assumptions explicit_context_span_wins.

Theorem root_marker_context_starts_trace : forall cf w t i gsid gtid scr,
  WInv w -> cf_enabled cf = true ->
  span_of (get_value (w_heap w) (nth i (w_pool w) root) span_key) = (-1)%Z ->
  let w1 := fst (sstep cf w t (SCtx (OSet (CIdx i) root_key (KB, 1%Z)))) in
  let w2 := fst (sstep cf w1 t (SStart (PCx (CIdx (length (w_pool w)))) gsid gtid scr)) in
  exists s, w_spans w2 = w_spans w1 ++ [s] /\ c_tid (sp_ctx s) = gtid /\ sp_psid s = zeros 8 /\ c_sid (sp_ctx s) = gsid.
Proof. exact ProofsWorld.root_marker_context_starts_trace. Qed.
Print Assumptions root_marker_context_starts_trace.

(* --- this model and C12's model of the sampling part of StartSpan are the same function where C12's is defined
   (no active span, explicit SpanContext, built-in sampler) *)
Theorem agrees_with_C12_start_span : forall s explicit gsid gtid random x,
  let b := new_span (fun p t => let r := should_sample s p t x in mk_sres (fst r) (snd r) None) random gsid gtid
                    (resolve_parent ctx_invalid (PAsCtx explicit)) in
  let st := start_span s explicit gtid random x in
  c_tid (b_ctx b) = st_tid st /\ c_ts (b_ctx b) = st_ts st /\ b_rec b = st_recording st /\ flags_z (b_ctx b) = st_flags st.
Proof. exact ProofsCore.agrees_with_C12_start_span. Qed.
Print Assumptions agrees_with_C12_start_span.

(* --- the checker that ./check runs on the implementation's observations accepts the model's observation of every
   program: every number of threads, every schedule, every configuration - for ANY sampler function that answers the
   script when it is declared to be the scripted sampler and whose attribute map is null or the scripted one.
   The two oracles: with a custom (scripted) id generator nothing is assumed about the ids; with the SDK's default
   RandomIdGenerator the ids written in the operations stand for what it returns and are assumed FRESH when drawn
   (non-zero, different from the span id / trace id of every span so far: [oracle_fresh]) - the checker then also
   demands freshness of what the implementation shows (the fresh_ids clauses). *)
Theorem model_meets_spec_oracles : forall cf n ops, samp_ok cf -> threads_ok n ops -> oracle_fresh cf (world0 n) ops ->
  spec_case cf n ops (run_case cf n ops) = [].
Proof. exact ProofsMeets.model_meets_spec_oracles. Qed.
Print Assumptions model_meets_spec_oracles.

Theorem model_meets_spec_any_sampler : forall cf n ops, samp_ok cf -> threads_ok n ops -> cf_defgen cf = false ->
  spec_case cf n ops (run_case cf n ops) = [].
Proof. exact ProofsMeets.model_meets_spec_any_sampler. Qed.
Print Assumptions model_meets_spec_any_sampler.

(* ... in particular for every configuration a case file can describe: the built-in samplers of C12 (always on/off,
   ratio, parent-based), the scripted one, ParentBased around either; enabled or disabled tracer; IsRandom or not *)
Theorem model_meets_spec : forall enabled random s n ops, threads_ok n ops ->
  spec_case (cfg_of enabled random s) n ops (run_case (cfg_of enabled random s) n ops) = [].
Proof. exact ProofsMeets.model_meets_spec. Qed.
Print Assumptions model_meets_spec.

Theorem model_meets_spec_default_generator : forall enabled s n ops, threads_ok n ops ->
  oracle_fresh (cfg_of_default enabled s) (world0 n) ops ->
  spec_case (cfg_of_default enabled s) n ops (run_case (cfg_of_default enabled s) n ops) = [].
Proof. exact ProofsMeets.model_meets_spec_default_generator. Qed.
Print Assumptions model_meets_spec_default_generator.

(* --- and through the token format: printing the model's observation and parsing it the way run_spec parses the
   implementation's line gives the observation back, so on every case line that parses the extracted checker
   reports nothing about the extracted model's output *)
Theorem observation_roundtrip : forall cf n ops,
  parse_case_obs ops (print_case (run_case cf n ops)) = Some (run_case cf n ops).
Proof. exact ProofsWire.observation_roundtrip. Qed.
Print Assumptions observation_roundtrip.

Theorem model_meets_spec_wire : forall l : list tok, parse_case l <> None \/ is_purity l = true -> case_oracle_fresh l ->
  run_spec l (run_model l) = [].
Proof. exact ProofsWire.model_meets_spec_wire. Qed.
Print Assumptions model_meets_spec_wire.

Theorem model_meets_spec_wire_scripted : forall l cf n ops, parse_case l = Some (cf, n, ops) -> cf_defgen cf = false ->
  run_spec l (run_model l) = [].
Proof. exact ProofsWire.model_meets_spec_wire_scripted. Qed.
Print Assumptions model_meets_spec_wire_scripted.
