(* placeholder until C17/Proofs*.v land: nothing is claimed proved yet *)
From V Require Import C17.Glue.
Theorem c17_placeholder : True. Proof. exact I. Qed.
Print Assumptions c17_placeholder.
