(* C17 - Gauges report the latest value; observables are read once per collection.
   Every theorem is about the executable model coq/C17/Model.v (registry vector, AsyncMetricStorage::Record, sum / last-value
   Merge and Diff, TemporalMetricStorage::buildMetrics, the clock as an oracle), tied to the C++ by the differential run of
   ./check C17 (real MeterProvider, 1..4 readers of mixed temporality, scripted callbacks, real and scripted clock).
   Histories are arbitrary lists of operations; [op_ok] is what the case parser guarantees (reader indices exist, callback
   identities come from the finite universe); the points handed out are compared on the attribute sets of [attrs]. *)
From V Require Import C17.Glue C17.ProofsReg C17.ProofsBase C17.ProofsSum C17.ProofsGauge C17.ProofsMeets C17.ProofsHist C17.ProofsLv C17.ProofsTop C17.ProofsWire C17.ProofsRace C17.ProofsLts C17.ProofsLtsSpec C17.ProofsLtsCount C17.ProofsLtsCount2.
Local Open Scope Z_scope.

(* ---- "At each collection by a reader every callback registered on an observable instrument is invoked exactly once":
   for EVERY operation sequence the collection invokes every key (instrument, function, state) exactly as often as it is
   registered - [live_count]: the AddCallback calls since its last RemoveCallback, none if the instrument is not an observable one
   or has been destroyed.  A callback registered twice is invoked twice (once per registration), as the code does. *)
Theorem callback_once_per_collection : forall c ops r,
  exists o, snd (run c (ops ++ [OCollect r])) = snd (run c ops) ++ [o] /\
            forall k, count_key k (co_inv o) = live_count c ops k.
Proof. exact callback_once_per_collection_lemma. Qed.
Print Assumptions callback_once_per_collection.

(* the headline reading: registered once since its last removal on a live observable instrument => invoked exactly once *)
Theorem registered_once_invoked_exactly_once : forall c pre post r i f s,
  registrable c i = true ->
  existsb (is_destroy i) (pre ++ OAdd i f s :: post) = false ->
  existsb (is_rem (i, f, s)) post = false -> existsb (is_add (i, f, s)) post = false ->
  adds (i, f, s) (after_last_rem (i, f, s) pre) = O ->
  exists o, snd (run c ((pre ++ OAdd i f s :: post) ++ [OCollect r])) = snd (run c (pre ++ OAdd i f s :: post)) ++ [o] /\
            count_key (i, f, s) (co_inv o) = 1%nat.
Proof. exact registered_once_invoked_once. Qed.
Print Assumptions registered_once_invoked_exactly_once.

(* ---- "and a removed callback ... is never invoked again" (unless it is added again) *)
Theorem removed_never_invoked : forall c pre post r i f s,
  existsb (is_add (i, f, s)) post = false ->
  exists o, snd (run c ((pre ++ ORem i f s :: post) ++ [OCollect r])) = snd (run c (pre ++ ORem i f s :: post)) ++ [o] /\
            count_key (i, f, s) (co_inv o) = O.
Proof. exact removed_never_invoked_lemma. Qed.
Print Assumptions removed_never_invoked.

(* ---- "(or one whose instrument was destroyed)": never again, whatever is attempted on the dead handle afterwards *)
Theorem destroyed_instrument_never_invoked : forall c pre post r i f s,
  exists o, snd (run c ((pre ++ ODestroy i :: post) ++ [OCollect r])) = snd (run c (pre ++ ODestroy i :: post)) ++ [o] /\
            count_key (i, f, s) (co_inv o) = O.
Proof. exact destroyed_never_invoked_lemma. Qed.
Print Assumptions destroyed_instrument_never_invoked.

Theorem unregistered_never_invoked : forall c ops r k,
  existsb (is_add k) ops = false ->
  exists o, snd (run c (ops ++ [OCollect r])) = snd (run c ops) ++ [o] /\ count_key k (co_inv o) = O.
Proof. exact unregistered_never_invoked_lemma. Qed.
Print Assumptions unregistered_never_invoked.

(* ---- "For observable counters and up-down counters whose callbacks report running totals, a cumulative reader receives the
   reported total": for every history (totals going up or down, attribute sets appearing and disappearing, any interleaving of
   readers, several callbacks on one instrument, the same callback registered twice) it is given exactly the attribute sets
   reported so far, each with the total most recently reported for it; when one collection reports an attribute set more than
   once the last report counts.  The only hypothesis is the property's domain: no negative total on a monotonic counter. *)
Theorem cumulative_reader_gets_reported_total : forall c i, (i < ninstr c)%nat -> forall ops r,
  Forall (op_ok c) ops -> (r < nreaders c)%nat -> cumulative c r = true -> is_last (kind_of c i) = false ->
  no_negative_total c (ops ++ [OCollect r]) i ->
  exists o, snd (run c (ops ++ [OCollect r])) = snd (run c ops) ++ [o] /\
            forall a, In a attrs ->
              given c i (nth i (co_tabs o) None) a =
              option_map (fun v => PSum v (is_mono (kind_of c i))) (last_report (events c (ops ++ [OCollect r]) i) a).
Proof. exact cumulative_reader_gets_reported_total_lemma. Qed.
Print Assumptions cumulative_reader_gets_reported_total.

(* regression for finding F27 (fixed in 93457c3; the statement above was refuted there): the same callback registered twice
   reporting total 10 - both readers are given 10 (the cumulative one was given 0); two callbacks reporting different totals
   for one attribute set - the last report counts *)
Theorem repeated_report_last_counts :
  Forall (op_ok f27_cfg) f27_ops /\
  map cp_instr (run_print f27_cfg f27_ops) = [[Some (1, [(0, PSum 10 true)])]; [Some (0, [(0, PSum 10 true)])]] /\
  map cp_instr (run_print f27_cfg f27b_ops) =
    [[Some (1, [(0, PSum 12 true)])]; [Some (0, [(0, PSum 15 true)])]; [Some (1, [(0, PSum 15 true)])]].
Proof. exact repeated_report_lemma. Qed.
Print Assumptions repeated_report_last_counts.

(* ---- "and a delta reader receives the difference from what that same reader was last given, independent of other readers'
   collections": [pre ++ [OCollect r]] ends with the reader's previous collection, [post] contains none of its collections
   (anything else: other readers' collections, registrations, removals, new totals).  It is given exactly the attribute sets
   reported since, each with (most recent total) - (its total at the reader's previous collection, 0 if never reported) *)
Theorem delta_reader_gets_difference_from_own_last : forall c i, (i < ninstr c)%nat -> forall pre post r,
  Forall (op_ok c) (pre ++ OCollect r :: post) -> (r < nreaders c)%nat -> cumulative c r = false ->
  is_last (kind_of c i) = false -> Forall (fun o => o <> OCollect r) post ->
  no_negative_total c ((pre ++ OCollect r :: post) ++ [OCollect r]) i ->
  exists o, snd (run c ((pre ++ OCollect r :: post) ++ [OCollect r])) = snd (run c (pre ++ OCollect r :: post)) ++ [o] /\
            forall a, In a attrs ->
              given c i (nth i (co_tabs o) None) a =
              match last_report (events_after c (pre ++ [OCollect r]) (post ++ [OCollect r]) i) a with
              | Some v => Some (PSum (v - total_at c (pre ++ [OCollect r]) i a) (is_mono (kind_of c i)))
              | None => None
              end.
Proof. exact delta_reader_gets_difference_from_own_last_lemma. Qed.
Print Assumptions delta_reader_gets_difference_from_own_last.

(* the reader's first collection: the difference from nothing *)
Theorem delta_reader_first_collection : forall c i, (i < ninstr c)%nat -> forall ops r,
  Forall (op_ok c) ops -> (r < nreaders c)%nat -> cumulative c r = false -> is_last (kind_of c i) = false ->
  Forall (fun o => o <> OCollect r) ops ->
  no_negative_total c (ops ++ [OCollect r]) i ->
  exists o, snd (run c (ops ++ [OCollect r])) = snd (run c ops) ++ [o] /\
            forall a, In a attrs ->
              given c i (nth i (co_tabs o) None) a =
              option_map (fun v => PSum v (is_mono (kind_of c i))) (last_report (events c (ops ++ [OCollect r]) i) a).
Proof. exact delta_reader_first_collection_lemma. Qed.
Print Assumptions delta_reader_first_collection.

(* ---- "observable and synchronous gauges report, per attribute set, the most recently observed or recorded value":
   under the stated hypothesis that the clock strictly increases in call order ([clock_increasing]: the real clock, or every
   scripted step positive).  A cumulative reader is given every attribute set ever observed / recorded with its latest value,
   a delta reader those observed / recorded since its own previous collection.  Covers kinds 2/5 (observable gauge) and 6/7
   (the synchronous last-value storage path). *)
Theorem gauge_reports_latest : forall c i, (i < ninstr c)%nat -> forall ops r,
  Forall (op_ok c) ops -> (r < nreaders c)%nat -> cumulative c r = true -> is_last (kind_of c i) = true ->
  clock_increasing c (ops ++ [OCollect r]) ->
  exists o, snd (run c (ops ++ [OCollect r])) = snd (run c ops) ++ [o] /\
            forall a, In a attrs ->
              given c i (nth i (co_tabs o) None) a =
              option_map (fun v => PLast v true) (last_report (events c (ops ++ [OCollect r]) i) a).
Proof. exact gauge_reports_latest_cumulative_lemma. Qed.
Print Assumptions gauge_reports_latest.

Theorem gauge_reports_latest_delta_reader : forall c i, (i < ninstr c)%nat -> forall pre post r,
  Forall (op_ok c) (pre ++ OCollect r :: post) -> (r < nreaders c)%nat -> cumulative c r = false ->
  is_last (kind_of c i) = true -> Forall (fun o => o <> OCollect r) post ->
  clock_increasing c ((pre ++ OCollect r :: post) ++ [OCollect r]) ->
  exists o, snd (run c ((pre ++ OCollect r :: post) ++ [OCollect r])) = snd (run c (pre ++ OCollect r :: post)) ++ [o] /\
            forall a, In a attrs ->
              given c i (nth i (co_tabs o) None) a =
              option_map (fun v => PLast v true) (last_report (events_after c (pre ++ [OCollect r]) (post ++ [OCollect r]) i) a).
Proof. exact gauge_reports_latest_delta_lemma. Qed.
Print Assumptions gauge_reports_latest_delta_reader.

Theorem clock_increasing_meaning : forall c ops,
  clock_increasing c ops <-> (c_scripted c = false \/ forall d, In (OStep d) ops -> 0 < d).
Proof. exact clock_increasing_iff. Qed.
Print Assumptions clock_increasing_meaning.

(* ---- what the code does on a clock tie (the hypothesis of gauge_reports_latest fails): Merge and Diff keep their receiver
   only if its sample is STRICTLY later, so on a tie the argument wins - Diff(previous, next) keeps the new observation, but
   merged.Merge(last_reported) on the cumulative path keeps what was reported before *)
Theorem gauge_tie : forall k x y, is_last k = true -> a_ts x = a_ts y -> merge k x y = y /\ diff k x y = y.
Proof. exact gauge_tie_argument_wins. Qed.
Print Assumptions gauge_tie.

(* for every pair of values: a cumulative reader of an observable gauge whose second observation carries the same time stamp
   (step 0) or an earlier one (step -1) is given the FIRST value again; with a positive step it is given the second *)
Theorem gauge_tie_cumulative_reader_stale : forall v1 v2,
  map cp_instr (run_print tie_cfg (tie_ops 0 v1 v2)) = [[Some (1, [(0, PLast v1 true)])]; [Some (1, [(0, PLast v1 true)])]] /\
  map cp_instr (run_print tie_cfg (tie_ops (-1) v1 v2)) = [[Some (1, [(0, PLast v1 true)])]; [Some (1, [(0, PLast v1 true)])]] /\
  map cp_instr (run_print tie_cfg (tie_ops 1 v1 v2)) = [[Some (1, [(0, PLast v1 true)])]; [Some (1, [(0, PLast v2 true)])]].
Proof. exact gauge_tie_stale_lemma. Qed.
Print Assumptions gauge_tie_cumulative_reader_stale.

(* while a delta reader on the merge path is given the new value on a tie *)
Theorem gauge_tie_delta_reader_new : forall v1 v2,
  map cp_instr (run_print tie_cfg2 (tie_ops2 v1 v2)) =
  [[Some (0, [(0, PLast v1 true)])]; [Some (1, [(0, PLast v1 true)])]; [Some (0, [(0, PLast v2 true)])]; [Some (1, [(0, PLast v1 true)])]].
Proof. exact gauge_tie_delta_lemma. Qed.
Print Assumptions gauge_tie_delta_reader_new.

(* ---- the refinement behind the value theorems: for every admissible history, every instrument inside the domain is handed
   exactly the points the abstract state of the SPEC prescribes (latest value, per reader last-given total and touched set) *)
Theorem collect_gives_expected : forall c ops r,
  Forall (op_ok c) ops -> (r < nreaders c)%nat ->
  exists o, snd (run c (ops ++ [OCollect r])) = snd (run c ops) ++ [o] /\
            forall i, (i < ninstr c)%nat -> dom c (sobserve c (final_sstate c ops)) i ->
            forall a, In a attrs -> given c i (nth i (co_tabs o) None) a = expected c (sobserve c (final_sstate c ops)) i r a.
Proof. exact collect_points. Qed.
Print Assumptions collect_gives_expected.

(* ---- the SPEC checker that ./check runs on the implementation's observations accepts the model's output:
   for every LV case and every OBS history the parser accepts (nothing is excluded) *)
Theorem model_meets_spec : forall cs, case_good cs -> spec_on cs = [].
Proof. exact model_meets_spec_lemma. Qed.
Print Assumptions model_meets_spec.

(* the same on token lines, through the wire format: what the model prints is parsed back to itself *)
Theorem observations_round_trip : forall l, parse_obs (print_obs l) = Some l.
Proof. exact parse_print_obs. Qed.
Print Assumptions observations_round_trip.

Theorem model_meets_spec_on_the_wire : forall l cs, parse_case l = Some cs -> run_spec_seq l (run_model_seq l) = [].
Proof. exact model_meets_spec_wire_lemma. Qed.
Print Assumptions model_meets_spec_on_the_wire.

Theorem parsed_cases_are_well_formed : forall l c ops, parse_case l = Some (CObs c ops) -> Forall (op_ok c) ops.
Proof. exact parse_case_ok. Qed.
Print Assumptions parsed_cases_are_well_formed.

(* ---- ORACE cases (AddCallback / RemoveCallback / instrument destruction racing with collections under the scheduler shim):
   the SPEC of coq/C17/SpecRace.v is evaluated on the implementation's event history under each explored schedule; there is no
   theorem over all interleavings.  The SPEC is neither vacuous nor unsatisfiable: it accepts a removal that waits for the
   running pass and rejects a callback entered after its removal returned. *)
Theorem race_spec_is_discriminating :
  spec_race race_init race_threads true history_waits = [] /\
  spec_race race_init race_threads true history_copy = fail "removed_never_invoked:after_removal_returned" /\
  spec_race [RAdd k0] [[RRem k0]; [RCollect 0]] true
    [EBA (-1) k0; ERA (-1) k0; EBR 0 k0; ERR 0 k0; EBC 1 0; ECall 1 k0; EDone 1 k0; EEC 1 0; EBC (-1) 1; EEC (-1) 1]
    = [tag "removed_never_invoked:after_removal_returned"; tag "removed_never_invoked:invoked_in_later_collection"] /\
  spec_race [RAdd k0] [[RCollect 0]] true [EBA (-1) k0; ERA (-1) k0; EBC 0 0; EEC 0 0; EBC (-1) 1; ECall (-1) k0; EDone (-1) k0; EEC (-1) 1]
    = fail "callback_once_per_collection:not_invoked".
Proof. exact race_spec_examples. Qed.
Print Assumptions race_spec_is_discriminating.

(* ---- the callback registry at lock granularity (coq/C17/Lts.v): an acceptor for the event histories of ORACE cases, for ANY
   number of threads; [accepted l = Some st] quantifies over every interleaving of collections (Observe holds callbacks_m_ for the
   whole pass), AddCallback / RemoveCallback / instrument destruction (lock; mutate; unlock).  Assumption: callbacks do not
   re-enter the registry.  Outside: data races inside the critical section, weak memory.  The implementation's histories are
   replayed through the extracted acceptor on every run (clause registry_lock_protocol:history_rejected). *)
Theorem lts_mutual_exclusion : forall l st u v,
  accepted l = Some st -> holds (l_thr st u) = true -> holds (l_thr st v) = true -> u = v.
Proof. exact lts_mutual_exclusion_lemma. Qed.
Print Assumptions lts_mutual_exclusion.

(* while a pass holds the lock no mutation takes effect *)
Theorem lts_pass_sees_frozen_list : forall l st u r b snap called todo,
  accepted l = Some st -> l_thr st u = TPass r b snap called todo ->
  l_regs st = snap /\ map fst snap = called ++ map fst todo.
Proof. exact lts_pass_sees_frozen_list_lemma. Qed.
Print Assumptions lts_pass_sees_frozen_list.

(* in each pass every record present at the lock acquisition is called exactly once, in registration order, and nothing else *)
Theorem lts_pass_calls_every_record_once : forall l st st' u,
  accepted l = Some st -> accept st (EUnlock u) = Some st' ->
  forall r b snap called todo, l_thr st u = TPass r b snap called todo ->
  todo = [] /\ called = map fst (l_regs st) /\ l_regs st' = l_regs st.
Proof. exact lts_pass_calls_every_record_once_lemma. Qed.
Print Assumptions lts_pass_calls_every_record_once.

(* "a removed callback (or one whose instrument was destroyed) is never invoked again", for every interleaving: no call of k is
   entered after a removal of k has returned unless an AddCallback of k that began before the call had not returned when that
   removal began (the clause of SpecRace.v, on positions of the history) *)
Theorem lts_removed_never_invoked : forall l st, accepted l = Some st -> forall p t k,
  nth_error l p = Some (ECall t k) -> call_after_removal (number l) p k = false.
Proof. exact accepted_never_called_after_removal. Qed.
Print Assumptions lts_removed_never_invoked.

(* no two callbacks of the registry overlap (in particular no callback runs concurrently with itself) *)
Theorem lts_callbacks_never_overlap : forall l st, accepted l = Some st -> forall p t k q t' k',
  nth_error l p = Some (ECall t k) -> nth_error l q = Some (ECall t' k') -> (p < q)%nat -> t' <> t ->
  exists j, (p < j)%nat /\ (j < q)%nat /\ nth_error l j = Some (EDone t k).
Proof. exact accepted_exclusive. Qed.
Print Assumptions lts_callbacks_never_overlap.

(* "every registered callback exactly once per collection", for every interleaving: in every collection (begin b, end e) the number
   of calls of k lies between the registrations certainly present throughout [b, e] and those possibly present (SpecRace.v) *)
Theorem lts_collection_counts : forall l st, accepted l = Some st -> forall b t r e k,
  nth_error l b = Some (EBC t r) -> ret_of (number l) b (is_ec t r) = Some e ->
  (min_calls (number l) k b e <= calls_in (number l) t k b e)%nat /\ (calls_in (number l) t k b e <= max_calls (number l) k b e)%nat.
Proof. exact accepted_collection_counts. Qed.
Print Assumptions lts_collection_counts.

(* every accepted history passes all clauses of the race SPEC about calls (the remaining clauses of spec_race are about the run
   having finished and the history matching the script of the case) *)
Theorem accepted_trace_meets_spec_race : forall l st,
  accepted l = Some st -> check_removed (number l) ++ check_collections (number l) ++ check_exclusive (number l) = [].
Proof. exact accepted_trace_meets_spec_race_lemma. Qed.
Print Assumptions accepted_trace_meets_spec_race.

(* non-vacuity: an accepted interleaving in which RemoveCallback waits for the running pass (and passes all three clauses);
   histories in which the removal takes the lock during the pass, the pass unlocks early (seeded C17_e), or a removed callback is
   called in a later pass are rejected at the offending event *)
Theorem lts_is_discriminating :
  first_rejected linit lts_waits = None /\
  (check_removed (number lts_waits) ++ check_collections (number lts_waits) ++ check_exclusive (number lts_waits) = []) /\
  first_rejected linit lts_steals = Some 12%nat /\
  first_rejected linit lts_copy = Some 10%nat /\
  first_rejected linit lts_stale = Some 16%nat /\
  check_removed (number lts_copy) = fail "removed_never_invoked:after_removal_returned".
Proof. exact lts_examples. Qed.
Print Assumptions lts_is_discriminating.

(* ---- PURITY lines (independence probe harness/c17_purity.cc: real threads under ThreadSanitizer, each collecting its own
   MeterProvider; one provider collected while a registry of it is mutated).  The model treats distinct providers / registries as
   independent values, so it predicts PURE, which the probe's SPEC accepts; every other observation of the probe names a failed
   clause.  The probe is a run-time check of that modelling assumption (no hidden state shared across registries), not a theorem. *)
Theorem purity_model_meets_spec : forall l s th r i,
  l = [tag "PURITY"; TZ s; TZ th; TZ r; TZ i] -> run_spec l (run_model l) = [].
Proof. intros l s th r i ->. reflexivity. Qed.
Print Assumptions purity_model_meets_spec.
