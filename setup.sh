#!/bin/sh
# Builds the framework from files on disk only (offline): Coq development, extracted models, SDK objects.
set -e
cd "$(dirname "$0")"
python3 tools/extract_consts.py
cd coq && coq_makefile -f _CoqProject -o Makefile >/dev/null && timeout 3000 make -j16 -k >/dev/null 2>&1 || true
cd ..
python3 tools/prebuild.py || true
