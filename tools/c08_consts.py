"""C08 part of the constants translator: the overflow attribute of the metrics cardinality limit
(sdk/include/opentelemetry/sdk/metrics/state/attributes_hashmap.h), read from /repo's current sources.
Trusted: the regexes below."""
import re

A = "sdk/include/opentelemetry/sdk/metrics/state/attributes_hashmap.h"


def emit_c08(emit, find, join_literals, Missing):
    m = find(A, r"kAttributesLimitOverflowKey\s*=\s*(\"(?:[^\"\\]|\\.)*\")\s*;", "kAttributesLimitOverflowKey")
    emit("Definition kAttributesLimitOverflowKey : list N := [%s].   (* %s *)" % ("; ".join(str(b) for b in join_literals(m.group(1))), A))
    m = find(A, r"\bbool\s+kAttributesLimitOverflowValue\s*=\s*(true|false)\s*;", "kAttributesLimitOverflowValue")
    emit("Definition kAttributesLimitOverflowValue : bool := %s." % m.group(1))
    # the precalculated overflow attribute set must be exactly {key: value}
    m = find(A, r"kOverflowAttributes\s*=\s*\{\s*\{\s*kAttributesLimitOverflowKey\s*,\s*kAttributesLimitOverflowValue\s*\}\s*\}\s*;",
             "kOverflowAttributes = {{kAttributesLimitOverflowKey, kAttributesLimitOverflowValue}}")
