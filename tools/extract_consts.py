#!/usr/bin/env python3
"""Translator: regenerates coq/Gen/Consts.v from /repo's *current* sources.

Every constant, table and regular-expression literal that a property statement pins is read
from the source text here and emitted as a Gallina definition, so the theorems that mention
them are re-checked against what the code says now.  A literal that can no longer be found
is a broken tie: the script exits 2 and names it (the runner reports it as such).

Trusted: this file (regexes below, the C++ literal un-escaper, the regex-subset parser).
"""
import os, re, sys

REPO = os.environ.get("VERIF_REPO", "/repo")
OUT = os.path.join(os.environ.get("VERIF_COQ_DIR") or os.path.join(os.path.dirname(os.path.abspath(__file__)), "..", "coq"), "Gen", "Consts.v")


class Missing(Exception):
    pass


def src(rel):
    p = os.path.join(REPO, rel)
    try:
        with open(p, encoding="utf-8", errors="surrogateescape") as f:
            return f.read()
    except OSError:
        raise Missing("file " + rel)


def find(rel, pattern, what, flags=re.S):
    m = re.search(pattern, src(rel), flags)
    if not m:
        raise Missing("%s in %s" % (what, rel))
    return m


def c_unescape(lit):
    """bytes of a C++ narrow string literal body (no quotes); adjacent literals already joined"""
    out = bytearray()
    i = 0
    while i < len(lit):
        c = lit[i]
        if c != "\\":
            out += c.encode("utf-8", "surrogateescape")
            i += 1
            continue
        i += 1
        c = lit[i]
        simple = {"n": 10, "t": 9, "r": 13, "0": 0, "\\": 92, '"': 34, "'": 39, "a": 7, "b": 8, "f": 12, "v": 11}
        if c == "x":
            j = i + 1
            while j < len(lit) and lit[j] in "0123456789abcdefABCDEF":
                j += 1
            out.append(int(lit[i + 1:j], 16) & 0xFF)
            i = j
        elif c in "01234567":
            j = i
            while j < len(lit) and j < i + 3 and lit[j] in "01234567":
                j += 1
            out.append(int(lit[i:j], 8) & 0xFF)
            i = j
        elif c in simple:
            out.append(simple[c])
            i += 1
        else:
            raise Missing("unsupported C escape \\" + c)
    return bytes(out)


def join_literals(text):
    """concatenate adjacent "..." "..." pieces found in text"""
    parts = re.findall(r'"((?:[^"\\]|\\.)*)"', text, re.S)
    if not parts:
        raise Missing("string literal")
    return b"".join(c_unescape(p) for p in parts)


def parse_regex(pat, anchored_optional=True):
    """subset: ^? ( class | literal | (literal) ) ( {m,n} | {n} | ? )? ... $?
    returns list of (ranges, lo, hi).  Anything else raises Missing (broken tie)."""
    items = []
    i = 0
    n = len(pat)
    if i < n and pat[i] == ord("^"):
        i += 1
    end = n
    if end > i and pat[end - 1] == ord("$") and not (end - 2 >= 0 and pat[end - 2] == ord("\\")):
        end -= 1

    def read_atom_char(i):
        # inside or outside class: returns (value, next_i)
        c = pat[i]
        if c == ord("\\"):
            d = pat[i + 1]
            if d == ord("x"):
                return int(pat[i + 2:i + 4].decode(), 16), i + 4
            if chr(d) in "-\\/.[]{}()*+?^$|":
                return d, i + 2
            raise Missing("unsupported regex escape \\%c" % d)
        return c, i + 1

    while i < end:
        c = pat[i]
        if c == ord("["):
            i += 1
            rs = []
            if pat[i] == ord("^"):
                raise Missing("negated class not supported")
            first = True
            while pat[i] != ord("]") or first and False:
                lo, i = read_atom_char(i)
                if pat[i] == ord("-") and pat[i + 1] != ord("]"):
                    hi, i = read_atom_char(i + 1)
                else:
                    hi = lo
                rs.append((lo, hi))
                first = False
            i += 1
        elif c == ord("("):
            v, j = read_atom_char(i + 1)
            if pat[j] != ord(")"):
                raise Missing("only single-literal groups supported")
            rs = [(v, v)]
            i = j + 1
        elif chr(c) in "*+?{}|.)":
            raise Missing("unsupported regex construct %c" % c)
        else:
            v, i = read_atom_char(i)
            rs = [(v, v)]
        lo = hi = 1
        if i < end and pat[i] == ord("{"):
            j = pat.index(b"}", i)
            body = pat[i + 1:j].decode()
            if "," in body:
                a, b = body.split(",")
                lo, hi = int(a), int(b)
            else:
                lo = hi = int(body)
            i = j + 1
        elif i < end and pat[i] == ord("?"):
            lo, hi = 0, 1
            i += 1
        items.append((rs, lo, hi))
    return items


def coq_regex(name, items):
    body = ";\n   ".join(
        "mk_item [%s] %d %d" % ("; ".join("(%d, %d)" % r for r in rs), lo, hi) for rs, lo, hi in items)
    return "Definition %s : list item :=\n  [%s]%%N.\n" % (name, body)


def main():
    out = []
    emit = out.append
    emit("(* GENERATED by tools/extract_consts.py from /repo's current sources - do not edit. *)")
    emit("From V Require Import Base.Rx.")
    emit("Local Open Scope N_scope.\n")

    def nat_const(coq, rel, pattern, what=None):
        m = find(rel, pattern, what or coq)
        v = int(m.group(1), 0)
        emit("Definition %s : nat := %s.   (* %s *)" % (coq, str(v) if v <= 1000 else "N.to_nat %d%%N" % v, rel))

    failed = {}     # section -> error; a failed section emits nothing: exactly the Coq files that use its constants stop compiling

    def section(title, props, fn):
        mark = len(out)
        try:
            fn()
        except Missing as e:
            del out[mark:]
            emit("(* SECTION FAILED: %s: cannot find %s *)" % (title, e))
            failed[title] = {"props": props, "error": "cannot find %s" % e}

    def sec_0():
        # --- W3C trace context (C09)
        H = "api/include/opentelemetry/trace/propagation/http_trace_context.h"
        nat_const("kTraceParentSize", H, r"kTraceParentSize\s*=\s*(\d+)\s*;")
        nat_const("kVersionSize", H, r"kVersionSize\s*=\s*(\d+)\s*;")
        nat_const("kTraceIdSize", H, r"kTraceIdSize\s*=\s*(\d+)\s*;")
        nat_const("kSpanIdSize", H, r"kSpanIdSize\s*=\s*(\d+)\s*;")
        nat_const("kTraceFlagsSize", H, r"kTraceFlagsSize\s*=\s*(\d+)\s*;")
        m = find(H, r"kInvalidVersion\s*=\s*(0[xX][0-9a-fA-F]+|\d+)\s*;", "kInvalidVersion")
        emit("Definition kInvalidVersion : N := %d." % int(m.group(1), 0))

    section('W3C traceparent sizes (C09)', ['C09'], sec_0)

    def sec_0b():
        # hex table
        X = "api/include/opentelemetry/trace/propagation/detail/hex.h"
        m = find(X, r"kHexDigits\[256\]\s*=\s*\{(.*?)\}", "kHexDigits table")
        vals = [int(v) for v in re.findall(r"-?\d+", m.group(1))]
        if len(vals) != 256:
            raise Missing("kHexDigits has %d entries" % len(vals))
        emit("Definition kHexDigits : list Z := [%s]%%Z." % "; ".join(str(v) for v in vals))

    section('hex digit table (C09 C16, Base)', ['C09', 'C16'], sec_0b)

    def sec_0c():
        F = "api/include/opentelemetry/trace/trace_flags.h"
        # TraceFlags digit table
        m = find(F, r"ToLowerBase16\(nostd::span<char, 2> buffer\).*?kHex\[\]\s*=\s*(\"[^;]*\")\s*;", "TraceFlags kHex")
        tbl = join_literals(m.group(1))
        emit("Definition kFlagsHexTable : list N := [%s]." % "; ".join(str(b) for b in tbl))
        # TraceId / SpanId digit tables (C09: the injected ids go through these)
        for nm, rel, width in (("kTraceIdHexTable", "api/include/opentelemetry/trace/trace_id.h", r"2 \* kSize"),
                               ("kSpanIdHexTable", "api/include/opentelemetry/trace/span_id.h", r"2 \* kSize")):
            m = find(rel, r"ToLowerBase16\(nostd::span<char, %s> buffer\).*?kHex\[\]\s*=\s*(\"[^;]*\")\s*;" % width, nm)
            emit("Definition %s : list N := [%s]." % (nm, "; ".join(str(b) for b in join_literals(m.group(1)))))
    section('TraceFlags / TraceId / SpanId lower-hex tables (C09)', ['C09'], sec_0c)

    def sec_0d():
        F = "api/include/opentelemetry/trace/trace_flags.h"
        nat_const("kIsSampled", F, r"kIsSampled\s*=\s*(\d+)\s*;")

    section('TraceFlags::kIsSampled (C05 C09 C12 C16)', ['C05', 'C09', 'C12', 'C16'], sec_0d)

    def sec_1():
        # --- TraceState (C14)
        T = "api/include/opentelemetry/trace/trace_state.h"
        nat_const("kKeyMaxSize", T, r"kKeyMaxSize\s*=\s*(\d+)\s*;")
        nat_const("kValueMaxSize", T, r"kValueMaxSize\s*=\s*(\d+)\s*;")
        nat_const("kMaxKeyValuePairs", T, r"kMaxKeyValuePairs\s*=\s*(\d+)\s*;")
        for name in ("reg_key", "reg_key_multitenant", "reg_value"):
            m = find(T, r"static\s+std::regex\s+%s\s*\(\s*((?:\"(?:[^\"\\]|\\.)*\"\s*)+)\)" % name, "regex " + name)
            emit(coq_regex(name, parse_regex(join_literals(m.group(1)))))

    section('TraceState (C14)', ['C14'], sec_1)

    def sec_2():
        # --- Baggage (C15)
        B = "api/include/opentelemetry/baggage/baggage.h"
        nat_const("kMaxKeyValuePairsBaggage", B, r"kMaxKeyValuePairs\s*=\s*(\d+)\s*;")
        nat_const("kMaxKeyValueSize", B, r"kMaxKeyValueSize\s*=\s*(\d+)\s*;")
        nat_const("kMaxSizeBaggage", B, r"kMaxSize\s*=\s*(\d+)\s*;")

    section('Baggage (C15)', ['C15'], sec_2)

    def sec_3():
        # --- instrument names (C19)
        V = "sdk/src/metrics/instrument_metadata_validator.cc"
        for coq, cname in (("kInstrumentNamePattern", "kInstrumentNamePattern"), ("kInstrumentUnitPattern", "kInstrumentUnitPattern")):
            m = find(V, r"%s\s*=\s*((?:\"(?:[^\"\\]|\\.)*\"\s*)+);" % cname, cname)
            emit(coq_regex(coq, parse_regex(join_literals(m.group(1)))))
    section('instrument name/unit patterns (C19)', ['C19'], sec_3)

    def sec_3b():
        V = "sdk/src/metrics/instrument_metadata_validator.cc"
        # the limits of the hand-written (non-regex) validator variant, in source order: ValidateName, ValidateUnit (C19)
        lims = re.findall(r"const\s+size_t\s+kMaxSize\s*=\s*(\d+)\s*;", src(V))
        if len(lims) != 2:
            raise Missing("the two kMaxSize limits of the non-regex validators in " + V)
        emit("Definition kNrNameMaxSize : nat := %d.   (* %s *)" % (int(lims[0]), V))
        emit("Definition kNrUnitMaxSize : nat := %d.   (* %s *)" % (int(lims[1]), V))
    section('limits of the non-regex instrument validators (C19)', ['C19'], sec_3b)

    def sec_3c():
        # the name a disabled SDK Logger answers with (api NoopLogger::GetName), used by the LoggerProvider registry lookup (C19)
        m = find("api/include/opentelemetry/logs/noop.h",
                 r"class\s+NoopLogger\b.*?GetName\(\)\s*noexcept\s*override\s*\{\s*return\s*(\"(?:[^\"\\]|\\.)*\")\s*;", "NoopLogger::GetName literal")
        emit("Definition kNoopLoggerName : list N := [%s]." % "; ".join(str(b) for b in join_literals(m.group(1))))

    section('NoopLogger name (C13 C19)', ['C13', 'C19'], sec_3c)

    def sec_4():
        # --- metrics limits (C08) and default histogram boundaries (C07)
        A = "sdk/include/opentelemetry/sdk/metrics/state/attributes_hashmap.h"
        nat_const("kAggregationCardinalityLimit", A, r"kAggregationCardinalityLimit\s*=\s*(\d+)\s*;")
        sys.path.insert(0, os.path.dirname(os.path.abspath(__file__)))
        from c08_consts import emit_c08
        emit_c08(emit, find, join_literals, Missing)

    section('metrics limits (C08) and default histogram boundaries (C07)', ['C07', 'C08'], sec_4)

    def sec_5():
        # --- B3 / Jaeger propagators (C16): id sizes and the hex-string lengths the B3 buffers are derived from
        nat_const("kTraceIdBytes", "api/include/opentelemetry/trace/trace_id.h", r"static\s+constexpr\s+int\s+kSize\s*=\s*(\d+)\s*;", "TraceId::kSize")
        nat_const("kSpanIdBytes", "api/include/opentelemetry/trace/span_id.h", r"static\s+constexpr\s+int\s+kSize\s*=\s*(\d+)\s*;", "SpanId::kSize")
        P = "api/include/opentelemetry/trace/propagation/b3_propagator.h"
        nat_const("kB3TraceIdHexStrLength", P, r"kTraceIdHexStrLength\s*=\s*(\d+)\s*;")
        nat_const("kB3SpanIdHexStrLength", P, r"kSpanIdHexStrLength\s*=\s*(\d+)\s*;")

    section('B3 / Jaeger propagators (C16): id sizes and the hex-string lengths the B3 buffers are derived from', ['C16'], sec_5)

    def sec_6():
        # --- environment readers and resources (C18): see tools/c18_consts.py
        sys.path.insert(0, os.path.dirname(os.path.abspath(__file__)))
        from c18_consts import emit_c18
        emit_c18(emit, find, src, join_literals, Missing)

    section('environment readers and resources (C18): see tools/c18_consts.py', ['C18'], sec_6)

    def sec_7():
        # --- context key under which the active span is stored (C10)
        m = find("api/include/opentelemetry/trace/span_metadata.h", r"constexpr\s+char\s+kSpanKey\[\]\s*=\s*(\"(?:[^\"\\]|\\.)*\")\s*;", "kSpanKey")
        emit("Definition kSpanKeyBytes : list N := [%s]." % "; ".join(str(b) for b in join_literals(m.group(1))))

    section('context key under which the active span is stored (C10)', ['C10'], sec_7)

    def sec_8():
        # --- histogram defaults and sentinels (C07): see tools/c07_consts.py
        sys.path.insert(0, os.path.dirname(os.path.abspath(__file__)))
        from c07_consts import emit_c07
        emit_c07(emit, find, src, Missing)

    section('histogram defaults and sentinels (C07): see tools/c07_consts.py', ['C07'], sec_8)

    def sec_9():
        # --- samplers and the sampling part of Tracer::StartSpan (C12): see tools/c12_consts.py
        sys.path.insert(0, os.path.dirname(os.path.abspath(__file__)))
        from c12_consts import emit_c12
        emit_c12(emit, find, src, join_literals, Missing)

    section('samplers and the sampling part of Tracer::StartSpan (C12): see tools/c12_consts.py', ['C12'], sec_9)

    def sec_10():
        # --- spin-lock back-off constant (C11): see tools/c11_consts.py
        sys.path.insert(0, os.path.dirname(os.path.abspath(__file__)))
        from c11_consts import emit_c11
        emit_c11(emit, find, src, Missing)

    section('spin-lock back-off constant (C11): see tools/c11_consts.py', ['C11'], sec_10)

    def sec_11():
        # --- root-span marker key of an explicit parent Context (C05): see tools/c05_consts.py
        sys.path.insert(0, os.path.dirname(os.path.abspath(__file__)))
        from c05_consts import emit_c05
        emit_c05(emit, find, join_literals, Missing)

    section('root-span marker key of an explicit parent Context (C05): see tools/c05_consts.py', ['C05'], sec_11)

    def sec_12():
        # --- severities passed on by the Trace()..Fatal() wrappers of logs::Logger (C13): see tools/c13_consts.py
        sys.path.insert(0, os.path.dirname(os.path.abspath(__file__)))
        from c13_consts import emit_c13
        emit_c13(emit, find, src, Missing)


    section('severities passed on by the Trace()..Fatal() wrappers of logs::Logger (C13): see tools/c13_consts.py', ['C13'], sec_12)

    text = "\n".join(out) + "\n"
    old = None
    try:
        with open(OUT) as f:
            old = f.read()
    except OSError:
        pass
    if old != text:
        os.makedirs(os.path.dirname(OUT), exist_ok=True)
        with open(OUT, "w") as f:
            f.write(text)
    import json
    with open(os.path.join(os.path.dirname(OUT), "consts_status.json"), "w") as f:
        json.dump(failed, f, indent=1)
    for t, v in failed.items():
        print("extract_consts: section '%s' (%s): %s" % (t, ",".join(v["props"]), v["error"]), file=sys.stderr)
    return 0


if __name__ == "__main__":
    try:
        sys.exit(main())
    except Missing as e:
        print("extract_consts: cannot find %s" % e, file=sys.stderr)
        sys.exit(2)
