#!/usr/bin/env python3
"""Writes seeded/RESULTS.md from seeded/*/{meta,confirm,check_results}.json and normalises every seeded/<id>/meta.json
(property, what it needs to manifest, what was run)."""
import glob, json, os
ROOT = os.path.dirname(os.path.dirname(os.path.abspath(__file__)))
NOTES = {
    "C20_a": "first evaluation: NOT detected (every string_view operand lived in its own buffer); the C20 driver/generator was strengthened with aliasing SVA cases (two slices of one buffer, commit 5692c02) - now caught with a concrete input",
    "C16_b": "first evaluation: only 'no-failing-input-found' (garbage ids are non-zero, the SPEC accepted them); SPEC strengthened: installed ids must be the padded hex value of the header's id fields (commit 29082b0) - now a concrete VIOLATION (extract:overlong_id_installed)",
    "C01_b": "first evaluation: C02 concrete, C01 only 'no-failing-input-found'; the C01 history clause drop:within_flush_budget was added - now concrete for C01 too",
    "C06_c": "first evaluation: NOT detected (a record/collect race window a few instructions wide; the real-thread RACE cases never hit it); C06 now runs SRACE cases under the deterministic scheduler shim with the schedule as an input (harness/c06_sched_driver.cc, coq/C06/SpecSched.v, commit f607e64) - caught with a replayable schedule",
    "C05_c": "first evaluation: NOT detected (the driver only used scripted id generators); C05 now also drives the default RandomIdGenerator from several threads and checks freshness/parentage on an abstraction of the ids - caught with a concrete case",
    "C02_e": "first evaluation: only 'no-failing-input-found' (the run-away trace of a ForceFlush that never returns overflowed the extracted model's stack, and no schedule stalled the caller between its entry test and its ticket); fixed: unlimited stack for the model driver, capped step-limit traces, 'stall' schedule family - now concrete (terminate:crash_or_deadlock)",
    "C02_f": "as C02_e (exporter ForceFlush failing -> ticket never published -> ForceFlush/Shutdown never return): concrete after the same changes",
    "C18_c": "first evaluation: NOT detected (provider cases only looked at batches with data); C18 now collects empty batches too and checks resource_ on every callback (NULLRES token) - caught",
    "C19_d": "first evaluation: NOT detected (sequential cases only); C19 now runs PRACE cases (2-3 threads of GetTracer/GetMeter/GetLogger under the scheduler shim, commit 269fc39) - caught with a replayable schedule",
    "C10_e": "first evaluation: NOT detected (the driver kept every Context alive and ASan's quarantine prevents address reuse); C10 now has stale-token histories on temporaries, run on a sanitizer-free driver variant as well - caught",
    "C17_e": "first evaluation: NOT detected (Observe vs RemoveCallback is a two-thread interleaving; C17 was sequential); C17 now runs ORACE cases under the scheduler shim with coq/C17/SpecRace.v (commit f6059d3) - caught with a replayable schedule",
    "C12_e": "first evaluation: NOT detected by C12 (caught by C05); C12 now models parent resolution (span in the context first, root marker second) and drives root-marked contexts holding a span (commit b10d932) - caught",
    "C13_f": "first evaluation: NOT detected by C13 (caught by C01/C03: exactly_once:duplicate, batch:too_large); C13 now has batch processors with small batch sizes in front of a non-owning exporter and closed-gate bursts (commit c9b96e3) - caught",
    "C13_e": "LoggerProvider::GetLogger race on the scope attributes: outside C13's quantifier (no schedules); caught by C19's PRACE cases",
    "C14_e": "first evaluation: NOT detected (hidden per-thread validator state needs the same bytes as value then as key); C14 generator got the history_cases family - caught",
    "C05_e": "first evaluation: only 'no-failing-input-found' (the SPEC trusted the implementation's report of the active span); the C05 SPEC now keeps its own per-thread scope stack (C10's abstract machine) and judges parentage against it; deep-nesting and stale-scope generators - concrete (also caught by C10)",
    "C05_f": "as C05_e",
    "C16_e": "first evaluation: NOT detected (every case extracted into an empty Context); C16 now extracts into non-empty destination contexts (RTD cases, theorem extract_into_any_context) - caught",
    "C16_f": "first evaluation: NOT detected (two concurrent Injects sharing a static buffer; outside the 'inputs' quantifier); C16 got PINJ cases on the scheduler shim - caught",
    "C07_e": "Aggregate() moved outside the storage lock (a record/collect race): outside C07's quantifier (no schedules); caught by C06's SRACE cases",
    "C08_f": "same defect as C07_e/C06_e: outside C08's quantifier; caught by C06",
    "C09_e": "first evaluation: NOT detected (unsynchronised ToHeader memo, two threads; outside C09's 'inputs' quantifier, no scheduling point for the shim); C09 got a ThreadSanitizer purity probe of the model's purity assumption (harness/purity, commit 1322965) - caught (purity:data_race)",
    "C09_f": "hex table halved, out-of-bounds only where plain char is unsigned: on this platform the property holds; the constants translator no longer finds the 256-entry table -> reported as a broken tie with no-failing-input-found",
    "C03_f": "first evaluation: only 'no-failing-input-found'; structured periodic schedules (collect thread stopped inside Export, worker time-out, next cycle) - concrete (export:overlap)",
    "C17_g": "round 4: NOT detected at first (a static result object shared by every ObservableRegistry in the process; needs two PROVIDERS collected concurrently); C17 got a ThreadSanitizer independence probe over distinct providers (commit 717ecb1) - caught (purity:data_race)",
    "C06_g": "round 4: NOT detected at first (a process-wide static scratch key used under different storages' locks); C06 got a ThreadSanitizer independence probe over distinct instruments / view streams / meters - caught (purity:data_race)",
    "C19_g": "round 4: NOT detected at first (a mutable scratch member of the per-provider ViewRegistry used under per-meter locks); C19 got a ThreadSanitizer independence probe (commit b17ceca) - caught (purity:data_race)",
    "C19_h": "round 4: NOT detected at first (lazy tracer config: 'resolved' flag raised before the data is written); same probe, scenario first StartSpan on shared tracers - caught (purity:data_race)",
    "C04_g": "round 4: NOT detected at first by C04 (SimpleSpanProcessor slot written outside the lock; needs two DIFFERENT spans ended concurrently); C04 got MRACE cases (commit cce5f01) and the simple-processor history checker of C03 got the clause export:not_the_callers_record - caught by both",
    "C02_h": "hand-made mutation for the tightened periodic acceptor (RWEnd): the worker skips its per-cycle read of the shutdown latch when woken by ForceFlush; the 23-step Shutdown bound of c02_periodic_shutdown_joinable_under_fair_worker no longer holds but no finite history fails -> broken tie, no-failing-input-found (before the tightening the traces were accepted silently)",
    "C02_i": "round 5: NOT detected at first (MeterContext::ForceFlush stops calling the remaining readers once the caller's finite timeout is used up; the COMPOSE cases only used the default timeout); COMPOSE got ops ft/ht (500 us budget, 1.5 ms children) - caught (compose:child_skipped)",
    "C01_a": "the change is in CircularBuffer::Add: caught by C11 (ring under the shim); C01 runs use the queue as an atomic FIFO (one scheduling point per queue call) by design and cannot see it",
}
rows = []
for d in sorted(glob.glob(os.path.join(ROOT, "seeded", "C*_*"))):
    sid = os.path.basename(d)
    def load(n):
        try:
            return json.load(open(os.path.join(d, n)))
        except Exception:
            return {}
    meta, conf, chk = load("meta.json"), load("confirm.json"), load("check_results.json")
    prop = meta.get("property") or sid.split("_")[0]
    files = meta.get("files_changed") or []
    caught = []
    for pid, r in chk.items():
        if not isinstance(r, dict) or "exit" not in r:
            continue
        if r["exit"] == 1:
            how = "VIOLATION (concrete input; clauses %s)" % ", ".join((r.get("failed_clauses") or [])[:3]) if r.get("kind") == "spec_violation_on_implementation" \
                else "VIOLATION no-failing-input-found (proof/correspondence broken)"
        else:
            how = "not detected"
        caught.append("%s: %s" % (pid, how))
    meta["property"] = prop
    meta["confirmed_by_integrator"] = {
        "demo_unpatched_exit": conf.get("demo_unpatched", {}).get("exit"),
        "suite_with_patch": conf.get("suite_patched", {}).get("summary"),
        "demo_patched_exit": conf.get("demo_patched", {}).get("exit"),
        "confirmed": conf.get("confirmed"),
        "how": "tools/seed_confirm.py in a scratch worktree with its own build (cmake RelWithDebInfo, full build, ctest -j8, demo.sh before/after git apply)",
    }
    meta["checks"] = chk
    json.dump(meta, open(os.path.join(d, "meta.json"), "w"), indent=1)
    rows.append((sid, prop, (meta.get("summary") or "")[:220].replace("\n", " "), (meta.get("what_it_needs_to_manifest") or "")[:200].replace("\n", " "),
                 ", ".join(files)[:120], "yes" if conf.get("confirmed") else ("pending" if not conf else "NO"), "; ".join(caught) or "pending"))
with open(os.path.join(ROOT, "seeded", "RESULTS.md"), "w") as f:
    f.write("# Seeded changes\n\nEach change was written by an independent sub-agent that saw only the property text and its own worktree; it compiles, "
            "passes the repository's own tests and comes with a demonstration that fails with the change and passes without it. "
            "'confirmed' = re-checked by the integrator (tools/seed_confirm.py: demo passes unpatched, full suite green with the patch, demo fails patched). "
            "'checks' = outcome of `./check Cnn` on a tree with the change applied (tools/seed_eval.py).\n\n")
    f.write("| id | property | change | needs to manifest | files | confirmed | checks |\n|---|---|---|---|---|---|---|\n")
    for r in rows:
        f.write("| " + " | ".join(x.replace("|", "/") for x in r) + " |\n")
    f.write("\n## Notes (checks strengthened after a miss)\n\n")
    for k in sorted(NOTES):
        f.write("* **%s** - %s\n" % (k, NOTES[k]))
print("rows:", len(rows))
