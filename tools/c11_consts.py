"""C11 part of the constants translator (called from tools/extract_consts.py:main).

Reads the spin-lock back-off constant that the C11 model of SpinLockMutex::lock() pins (number of
fast-spin try_lock iterations before the yield).  Not found => Missing (broken tie)."""


def emit_c11(emit, find, src, Missing):
    S = "api/include/opentelemetry/common/spin_lock_mutex.h"
    m = find(S, r"constexpr\s+int\s+SPINLOCK_FAST_ITERATIONS\s*=\s*(\d+)\s*;", "SPINLOCK_FAST_ITERATIONS")
    v = int(m.group(1))
    if v > 1000:
        raise Missing("SPINLOCK_FAST_ITERATIONS <= 1000 (found %d) in %s" % (v, S))
    emit("Definition c11_spin_fast_iterations : nat := %d.   (* %s *)" % (v, S))
