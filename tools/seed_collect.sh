#!/bin/bash
# usage: tools/seed_collect.sh Cnn [extra props to evaluate]   -- collects /tmp/seed3_Cnn/out{,2} as seeded/Cnn_e / _f,
# queues evaluation (/tmp/seedq/eval) and confirmation (/tmp/seedq/confirm), removes the scratch worktree
id=$1; shift; cd /verif
for s in e:out f:out2; do n=${s%%:*}; o=${s##*:}
  if [ -d /tmp/seed3_$id/$o ]; then
    mkdir -p seeded/${id}_$n; cp /tmp/seed3_$id/$o/{patch.diff,demo.cc,demo.sh,meta.json} seeded/${id}_$n/ 2>/dev/null
    cp /tmp/seed3_$id/$o/demo_test.cc seeded/${id}_$n/ 2>/dev/null
    if git -C /repo apply --check /verif/seeded/${id}_$n/patch.diff; then
      echo "seeded/${id}_$n $id $*" > /tmp/seedq/eval/$(date +%s%N)_${id}_$n.job
      echo "seeded/${id}_$n" > /tmp/seedq/confirm/$(date +%s%N)_${id}_$n.job
      echo "${id}_$n collected"
    else echo "${id}_$n: patch does not apply"; fi
  fi
done
git -C /repo worktree remove --force /tmp/seed3_$id 2>/dev/null; rm -rf /tmp/seed3_$id
