#!/bin/bash
# usage: [SUF="g:out h:out2"] tools/seed_collect.sh Cnn [extra props to evaluate]   -- collects /tmp/seed3_Cnn/out{,2} as seeded/Cnn_e / _f,
# queues evaluation (/tmp/seedq/eval) and confirmation (/tmp/seedq/confirm), removes the scratch worktree
id=$1; shift; cd /verif
for s in ${SUF:-e:out f:out2}; do n=${s%%:*}; o=${s##*:}
  if [ -d /tmp/seed3_$id/$o ]; then
    mkdir -p seeded/${id}_$n
    # everything the demonstration needs (auxiliary headers live in sub-directories), except built binaries / large files
    (cd /tmp/seed3_$id/$o && find . -type f -size -200k ! -perm -u+x -o -type f -name "*.sh" | cpio -pdm /verif/seeded/${id}_$n/ 2>/dev/null)
    if git -C /repo apply --check /verif/seeded/${id}_$n/patch.diff; then
      echo "seeded/${id}_$n $id $*" > /tmp/seedq/eval/$(date +%s%N)_${id}_$n.job
      echo "seeded/${id}_$n" > /tmp/seedq/confirm/$(date +%s%N)_${id}_$n.job
      echo "${id}_$n collected"
    else echo "${id}_$n: patch does not apply"; fi
  fi
done
git -C /repo worktree remove --force /tmp/seed3_$id 2>/dev/null; rm -rf /tmp/seed3_$id
