#!/bin/bash
# usage: [SUF="g:out h:out2"] tools/seed_collect.sh Cnn [extra props to evaluate]   -- collects /tmp/seed3_Cnn/out{,2} as seeded/Cnn_e / _f
# (or the suffixes given in SUF), queues evaluation (/tmp/seedq/eval) and confirmation (/tmp/seedq/confirm), and removes the
# scratch worktree ONLY when every out directory was copied completely
id=$1; shift; cd /verif
ok=1
for s in ${SUF:-e:out f:out2}; do n=${s%%:*}; o=${s##*:}
  if [ -d /tmp/seed3_$id/$o ]; then
    mkdir -p seeded/${id}_$n
    # everything the demonstration needs (auxiliary headers live in sub-directories), except built binaries / large files
    (cd /tmp/seed3_$id/$o && find . -type f -size -200k \( ! -perm -u+x -o -name "*.sh" \) -exec cp --parents {} /verif/seeded/${id}_$n/ \;)
    if [ -s seeded/${id}_$n/patch.diff ] && git -C /repo apply --check /verif/seeded/${id}_$n/patch.diff; then
      echo "seeded/${id}_$n $id $*" > /tmp/seedq/eval/$(date +%s%N)_${id}_$n.job
      echo "seeded/${id}_$n" > /tmp/seedq/confirm/$(date +%s%N)_${id}_$n.job
      echo "${id}_$n collected"
    else echo "${id}_$n: patch missing or does not apply - worktree kept"; ok=0; fi
  fi
done
if [ $ok = 1 ]; then git -C /repo worktree remove --force /tmp/seed3_$id 2>/dev/null; rm -rf /tmp/seed3_$id; fi
