#!/usr/bin/env python3
"""Regenerates MANIFEST.json from the property modules in props/ (one check per module)."""
import importlib, json, os, sys
ROOT = os.path.dirname(os.path.dirname(os.path.abspath(__file__)))
sys.path.insert(0, ROOT)
ids = [json.loads(l)["id"] for l in open(os.path.join(ROOT, "properties.jsonl"))]
checks, na = [], []
for pid in ids:
    try:
        m = importlib.import_module("props." + pid.lower())
    except ModuleNotFoundError:
        na.append({"property_id": pid, "reason": "check not built yet (machine-checked proof is applicable; see DESIGN.md section 4 for the planned model and theorems)"})
        continue
    checks.append({
        "property_id": pid,
        "quick_cmd": "./check %s --tier quick" % pid,
        "thorough_cmd": "./check %s --tier thorough" % pid,
        "evidence_file": "/verif/evidence/%s.json" % pid,
        "replay_cmd_template": "./check %s --replay {path}" % pid,
        "engine": getattr(m, "ENGINE", "E-coq+E-diff"),
        "level_claimed": {"category": m.LEVEL, "text": m.LEVEL_TEXT, "design_ref": "DESIGN.md section 4, " + pid},
        "level_note": m.LEVEL_NOTE,
        "technique": getattr(m, "TECHNIQUE", "machine-checked proof in Coq 8.16 about a Gallina model, tied to the C++ by a differential correspondence check of the extracted model"),
    })
man = {
    "version": 1,
    "setup_cmd": "./setup.sh",
    "hooks": {"guard": "OPENTELEMETRY_CPP_VERIF",
              "enable": "drivers are compiled by tools/vlib.py from /repo's working tree with -DOPENTELEMETRY_CPP_VERIF=1; no source hook exists in /repo (observation goes through public/protected interfaces and, for the concurrent properties, token-renamed scratch copies compiled against the scheduler shim)",
              "baseline_off_cmd": "python3 tools/baseline.py",
              "source_commits": [], "add_only": True},
    "engines": [
        {"name": "E-coq", "path": "coq/", "serves_properties": [c["property_id"] for c in checks], "kind_free_text": "Coq 8.16.1 development: models, specs, theorems; Properties_Cnn.v hold only the property theorems with Print Assumptions"},
        {"name": "E-diff", "path": "tools/runner.py", "serves_properties": [c["property_id"] for c in checks if "E-sched" not in c["engine"]], "kind_free_text": "correspondence: extracted model (OCaml) vs rebuilt C++ driver on generated cases; extracted SPEC run on the implementation's observations"},
        {"name": "E-sched", "path": "harness/sched/", "serves_properties": [c["property_id"] for c in checks if "E-sched" in c["engine"]], "kind_free_text": "correspondence on schedules: unmodified sources copied with std::atomic/thread/mutex/condition_variable/clock rewritten to a deterministic scheduler shim (tools/shimcopy.py), run under systematic and random schedules; the extracted acceptor model must accept every event trace and the extracted history SPEC is run on it"},
    ],
    "checks": checks,
    "not_applicable": na,
    "notes": "See DESIGN.md. known_findings.json lists genuine defects recorded (open) or repaired (fixed: <commit>).",
}
json.dump(man, open(os.path.join(ROOT, "MANIFEST.json"), "w"), indent=1)
print("checks:", [c["property_id"] for c in checks], "n/a:", len(na))
