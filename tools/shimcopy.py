"""Scratch copies of repository sources with the scheduler-shim token table applied (DESIGN.md 2.3).

shim_copy(name, files) copies each repository-relative file into build/shim/<name>/ (headers under
include/..., sources under src/...), rewrites the std:: concurrency vocabulary to the verif:: shim
(harness/sched/sched.h) and checks that nothing of that vocabulary is left: a construct the table does
not cover is a broken tie (TieBroken), never silently ignored.  Returns (include_dir, [source paths])."""
import os, re
from . import vlib
from .vlib import TieBroken

TABLE = [
    (r"std::atomic\s*<", "verif::atomic<"),
    (r"std::atomic_flag\b", "verif::atomic_flag"),
    (r"std::condition_variable\b", "verif::condition_variable"),
    (r"std::cv_status\b", "verif::cv_status"),
    (r"std::mutex\b", "verif::mutex"),
    (r"std::this_thread::", "verif::this_thread::"),
    (r"std::thread\b", "verif::thread"),
    (r"std::future_status\b", "verif::future_status"),
    (r"std::future\b", "verif::future"),
    (r"std::promise\b", "verif::promise"),
    (r"std::chrono::steady_clock::now\s*\(\s*\)", "verif::steady_now()"),
    (r"std::chrono::system_clock::now\s*\(\s*\)", "verif::system_now()"),
]
LEFTOVER = re.compile(r"std::(atomic\w*|mutex|timed_mutex|recursive_mutex|shared_mutex|condition_variable\w*|thread|jthread|this_thread|cv_status|"
                      r"future|promise|async|call_once|once_flag|counting_semaphore|latch|barrier)\b|_clock::now\s*\(")


def strip_comments(text):
    return re.sub(r"//[^\n]*|/\*.*?\*/", lambda m: re.sub(r"[^\n]", " ", m.group(0)), text, flags=re.S)


def shim_copy(name, files, extra_rules=(), allow_leftover=()):
    """files: repository-relative paths.  extra_rules: [(regex, replacement, min_count)] applied after the table;
    a rule that matches fewer than min_count times is a broken tie."""
    dest = os.path.join(vlib.BUILD, "shim", name)
    inc = os.path.join(dest, "include")
    srcs = []
    counts = {}
    for rel in files:
        p = os.path.join(vlib.REPO, rel)
        try:
            text = open(p, encoding="utf-8", errors="surrogateescape").read()
        except OSError:
            raise TieBroken("shim copy: cannot read " + rel)
        for pat, rep in TABLE:
            text, n = re.subn(pat, rep, text)
            counts[pat] = counts.get(pat, 0) + n
        for pat, rep, mn in extra_rules:
            text, n = re.subn(pat, rep, text)
            counts[pat] = counts.get(pat, 0) + n
        left = [m.group(0) for m in LEFTOVER.finditer(strip_comments(text)) if m.group(0) not in allow_leftover]
        if left:
            raise TieBroken("shim copy: %s still uses %s after the token table (the tie to the scheduler shim is incomplete)" % (rel, sorted(set(left))))
        text = '#include "sched/sched.h"\n' + text
        if "/include/" in rel:
            out = os.path.join(inc, rel.split("/include/", 1)[1])
        else:
            out = os.path.join(dest, "src", rel.split("/src/", 1)[1] if "/src/" in rel else os.path.basename(rel))
            srcs.append(out)
        os.makedirs(os.path.dirname(out), exist_ok=True)
        old = None
        try:
            old = open(out, encoding="utf-8", errors="surrogateescape").read()
        except OSError:
            pass
        if old != text:
            with open(out, "w", encoding="utf-8", errors="surrogateescape") as f:
                f.write(text)
    for pat, rep, mn in extra_rules:
        if counts.get(pat, 0) < mn:
            raise TieBroken("shim copy: rule %r matched %d times (< %d) in %s" % (pat, counts.get(pat, 0), mn, files))
    return inc, srcs, counts
