#!/usr/bin/env python3
"""Warm the caches (extracted model drivers, C++ drivers, SDK objects) so quick checks are quick."""
import importlib, json, os, sys
ROOT = os.path.dirname(os.path.dirname(os.path.abspath(__file__)))
sys.path.insert(0, ROOT)
from tools import vlib
from concurrent.futures import ThreadPoolExecutor
ids = [json.loads(l)["id"] for l in open(os.path.join(ROOT, "properties.jsonl"))]
def one(pid):
    try:
        m = importlib.import_module("props." + pid.lower())
    except ModuleNotFoundError:
        return
    try:
        if hasattr(m, "prebuild"):
            m.prebuild()
        else:
            vlib.build_model_driver(pid)
            d = m.DRIVER
            if hasattr(m, "build_driver"):
                m.build_driver()
            else:
              vlib.build_driver(pid.lower() + "_driver", d["srcs"], sdk=d.get("sdk", False), variant=d.get("variant", "san"),
                              extra_flags=d.get("flags", ()), libs=d.get("libs", ("-lpthread",)))
        print("prebuilt", pid)
    except Exception as e:
        print("prebuild", pid, "failed:", str(e)[:300])
# SDK objects first (shared), then drivers
try:
    vlib.compile_many(vlib.sdk_sources(), vlib.BASE_FLAGS + vlib.VARIANTS["san"])
except Exception as e:
    print("sdk prebuild failed:", str(e)[:300])
with ThreadPoolExecutor(max_workers=4) as ex:
    list(ex.map(one, ids))
