"""E-coq + E-diff decision procedure (DESIGN.md 2.4), generic over a property module in props/."""
import importlib, json, os, sys, time
from . import vlib
from .vlib import ROOT, TieBroken, sh


def _write(path, lines):
    with open(path, "w") as f:
        for l in lines:
            f.write(l + "\n")


def _read(path):
    with open(path, errors="replace") as f:
        return [l.rstrip("\n") for l in f]


class Run:
    def __init__(self, prop, tier, seed):
        self.p = prop
        self.pid = prop.ID
        self.tier = tier
        self.seed = seed
        # one work directory per (property, checked tree); an exclusive lock serialises two runs of the same check on the
        # same tree (their case/observation files would otherwise mix)
        sub = self.pid
        if os.path.realpath(vlib.REPO) != "/repo":
            import hashlib
            sub += "_alt_" + hashlib.md5(os.path.realpath(vlib.REPO).encode()).hexdigest()[:8]
        self.work = os.path.join(ROOT, "work", sub)
        os.makedirs(self.work, exist_ok=True)
        import fcntl
        self._lock = open(os.path.join(self.work, ".lock"), "w")
        fcntl.flock(self._lock, fcntl.LOCK_EX)
        os.makedirs(os.path.join(ROOT, "replay"), exist_ok=True)
        os.makedirs(os.path.join(ROOT, "evidence"), exist_ok=True)
        self.t0 = time.time()
        self.notes = []

    # ------------------------------------------------------------------ builds
    def build_all(self):
        self.tie_errors = []
        try:
            vlib.regen_consts(self.pid)
        except TieBroken as e:
            self.tie_errors.append(str(e))
        self.model_exe = None
        try:
            self.model_exe = vlib.build_model_driver(self.pid)
        except TieBroken as e:
            self.tie_errors.append(str(e))
        self.proofs = vlib.coq_properties(self.pid)
        self.impl_exe = None
        try:
            d = self.p.DRIVER
            if hasattr(self.p, "build_driver"):      # shim drivers build scratch copies first (tools/shimcopy.py)
                self.impl_exe = self.p.build_driver()
            else:
              self.impl_exe = vlib.build_driver(self.pid.lower() + "_driver", d["srcs"], sdk=d.get("sdk", False),
                                              variant=d.get("variant", "san"), extra_flags=d.get("flags", ()),
                                              libs=d.get("libs", ("-lpthread",)))
        except TieBroken as e:
            self.tie_errors.append(str(e))
        except Exception as e:      # a property's own build step failed in an unforeseen way: still a broken tie
            self.tie_errors.append("driver build: %r" % e)

    # ------------------------------------------------------------------ one batch of cases
    def run_batch(self, cases, label):
        """returns list of dict(case, impl, model, tag, spec, mspec)"""
        cf = os.path.join(self.work, label + ".cases")
        _write(cf, cases)
        impl = None
        crash = None
        if self.impl_exe:
            env = dict(vlib.SAN_ENV)
            env.update(getattr(self.p, "ENV", {}))
            tmo = getattr(self.p, "IMPL_TIMEOUT", 1800)
            rc, out = sh([self.impl_exe, cf], timeout=tmo, env=env)
            lines = out.split("\n")
            if lines and lines[-1] == "":
                lines.pop()
            # a time-out of the whole batch (a loaded machine, a large thorough batch) is not the fault of the case that
            # happened to be running: keep the complete lines and continue with the remaining cases; only a case that makes
            # no progress on its own within the time limit is reported (as a hang)
            def complete_lines(text):
                """complete output lines of a timed-out run (the marker and a partially written last line dropped)"""
                i = text.rfind("\n[timeout after")
                body = text[:i] if i >= 0 else text
                ls = body.split("\n")
                return ls[:-1]                      # the last element is "" (body ended with a newline) or a partial line
            rounds = 0
            while rc == 124 and rounds < 20:
                rounds += 1
                done = complete_lines(out) if rounds == 1 else lines
                if len(done) >= len(cases):
                    lines, rc = done[:len(cases)], 0
                    break
                rest = cases[len(done):]
                cf_r = os.path.join(self.work, label + ".rest%d.cases" % rounds)
                _write(cf_r, rest)
                rc, out2 = sh([self.impl_exe, cf_r], timeout=tmo, env=env)
                if rc == 124:
                    more = complete_lines(out2)
                    if not more:
                        lines = done                          # no progress at all: the first remaining case hangs
                        break
                else:
                    more = out2.split("\n")
                    if more and more[-1] == "":
                        more.pop()
                lines = done + more
                self.notes.append("driver batch timed out after %ds; continued with the remaining %d cases" % (tmo, len(rest)))
            if rc != 0 or len(lines) != len(cases):
                # the driver died: the failing case is the first one without an output line
                good = []
                for l in lines:
                    if l.startswith("=====") or "ERROR: " in l or "runtime error" in l or l.startswith("    #") or "DEADLYSIGNAL" in l or "Sanitizer" in l:
                        break
                    good.append(l)
                good = good[:len(cases)]
                crash = {"index": len(good), "rc": rc, "report": "\n".join(lines[len(good):len(good) + 40])}
                impl = good
            else:
                impl = lines
        res = []
        model = tags = None
        trace_mode = getattr(self.p, "TRACE_MODE", False)
        orig_cases = cases
        if trace_mode:
            # E-sched acceptance: the implementation's line is "<summary> || <event trace>"; the model is an
            # acceptor that replays "<case> || <event trace>" and prints the summary it derives (or REJECT ...)
            traces = []
            summ = []
            for i, c in enumerate(cases):
                l = impl[i] if impl is not None and i < len(impl) else ""
                if l.endswith(" ||") or l == "||":
                    l += " "
                a, _, b = l.partition(" || ")
                summ.append(a.strip())
                traces.append(b.strip())
            cases = [c + " || " + t for c, t in zip(cases, traces)]
            if impl is not None:
                impl = summ[:len(impl)]
            cf = os.path.join(self.work, label + ".tcases")
            _write(cf, cases)
        if self.model_exe:
            rc, out = sh([self.model_exe, "model", cf], timeout=1800, bigstack=True)
            ml = out.split("\n")
            if ml and ml[-1] == "":
                ml.pop()
            if rc != 0 or len(ml) != len(cases):
                self.tie_errors.append("model driver failed (rc=%d): %s" % (rc, out[-500:]))
            else:
                tags = [l.split(" | ", 1)[0] if " | " in l else l.split(" |", 1)[0] for l in ml]
                model = [l.split(" | ", 1)[1] if " | " in l else "" for l in ml]
        spec = mspec = None
        if self.model_exe and impl is not None:
            n = len(impl)
            of = os.path.join(self.work, label + ".impl")
            _write(of, impl)
            cf2 = cf
            if n != len(cases):
                cf2 = os.path.join(self.work, label + ".cases.part")
                _write(cf2, cases[:n])
            rc, out = sh([self.model_exe, "spec", cf2, of], timeout=1800, bigstack=True)
            sl = out.split("\n")
            if sl and sl[-1] == "":
                sl.pop()
            if rc == 0 and len(sl) == n:
                spec = sl
            else:
                self.tie_errors.append("spec evaluation failed (rc=%d): %s" % (rc, out[-500:]))
        if self.model_exe and model is not None:
            of = os.path.join(self.work, label + ".model")
            _write(of, model)
            rc, out = sh([self.model_exe, "spec", cf, of], timeout=1800, bigstack=True)
            sl = out.split("\n")
            if sl and sl[-1] == "":
                sl.pop()
            if rc == 0 and len(sl) == len(cases):
                mspec = sl
        for i, c in enumerate(orig_cases):
            res.append({"case": c, "tcase": cases[i],
                        "impl": impl[i] if impl is not None and i < len(impl) else None,
                        "model": model[i] if model is not None else None,
                        "tag": tags[i] if tags is not None else None,
                        "spec": spec[i] if spec is not None and i < len(spec) else None,
                        "mspec": mspec[i] if mspec is not None else None})
        if crash is not None and crash["index"] < len(cases):
            res[crash["index"]]["crash"] = crash
        return res

    # ------------------------------------------------------------------ classification
    def classify(self, results):
        known = vlib.load_known_findings(self.pid)
        open_sigs = [(k["signature"], k) for k in known if k.get("status", "open") == "open"]
        import fnmatch
        out = {"new": [], "known": {}, "diffs": [], "model_spec_only": []}
        for r in results:
            fails = []
            if r.get("crash"):
                fails.append("crash:driver_died_rc%d" % r["crash"]["rc"])
            if r["spec"] not in (None, "ok"):
                fails += r["spec"].split()
            if r["impl"] is not None and r["impl"].startswith("BADCASE"):
                fails.append("harness:badcase")
            # "the observation / history could not be understood" is a broken correspondence (a construct the harness does not
            # know, e.g. a new shared variable), not a failing input of the property: reported with no-failing-input-found
            tie_level = [f for f in fails if "unparsable" in f or f == "obs:unknown_event" or f.startswith("harness:")]
            if tie_level and not r.get("crash"):
                fails = [f for f in fails if f not in tie_level]
                r["tie_fails"] = tie_level
                if r not in out["diffs"]:
                    out["diffs"].append(r)
            unmatched = []
            for f in fails:
                hit = [k for s, k in open_sigs if fnmatch.fnmatchcase(f, s)]
                if hit:
                    out["known"].setdefault(hit[0]["id"], {"k": hit[0], "n": 0, "example": r})["n"] += 1
                else:
                    unmatched.append(f)
            if unmatched:
                r["fails"] = unmatched
                out["new"].append(r)
            if r["impl"] is not None and r["model"] is not None and r["impl"] != r["model"] and not r.get("crash") and r not in out["diffs"]:
                out["diffs"].append(r)
            if r["mspec"] not in (None, "ok") and r["spec"] == "ok":
                out["model_spec_only"].append(r)
        return out

    # ------------------------------------------------------------------ main
    def gen_cases(self, seed, tier):
        rng = vlib.XorShift(seed)
        cases = []
        cdir = os.path.join(ROOT, "corpus", self.pid)
        if os.path.isdir(cdir):
            for f in sorted(os.listdir(cdir)):
                cases += [l for l in _read(os.path.join(cdir, f)) if l.strip() and not l.startswith("#")]
        self.n_corpus = len(cases)
        cases += self.p.gen(rng, tier)
        return cases

    def replay_path(self, suffix):
        return os.path.join(ROOT, "replay", "%s_%s_%d.json" % (self.pid, suffix, self.seed))

    def main(self):
        self.build_all()
        cases = self.gen_cases(self.seed, self.tier)
        results = self.run_batch(cases, "main") if (self.impl_exe or self.model_exe) else []
        cl = self.classify(results)
        proofs_ok = self.proofs["ok"]
        corr_ok = not cl["diffs"] and not self.tie_errors and self.impl_exe is not None and self.model_exe is not None
        widened = 0
        if not cl["new"] and (not proofs_ok or not corr_ok) and self.impl_exe and self.model_exe:
            # widen the search for a concrete failing input before giving up
            for k in range(1, 4 if self.tier == "quick" else 9):
                if hasattr(self.p, "widen"):
                    extra = self.p.widen(vlib.XorShift(self.seed * 1000003 + k), k)
                else:
                    extra = self.p.gen(vlib.XorShift(self.seed * 1000003 + k), "thorough")
                # centre extra effort on neighbours of the first disagreeing cases when the property offers it
                if cl["diffs"] and hasattr(self.p, "neighbours"):
                    extra = self.p.neighbours(vlib.XorShift(self.seed + k), [d["case"] for d in cl["diffs"][:5]]) + extra
                r2 = self.run_batch(extra, "widen%d" % k)
                widened += len(extra)
                c2 = self.classify(r2)
                results += r2
                for key in ("new", "diffs", "model_spec_only"):
                    cl[key] += c2[key]
                for kid, v in c2["known"].items():
                    if kid in cl["known"]:
                        cl["known"][kid]["n"] += v["n"]
                    else:
                        cl["known"][kid] = v
                if c2["new"]:
                    break
        for kid, v in sorted(cl["known"].items()):
            print("KNOWN-FINDING: property=%s %s: %s (%d cases this run, e.g. %s)" %
                  (self.pid, kid, v["k"].get("what", v["k"]["signature"]), v["n"], v["example"]["case"][:160]))
        violations = 0
        rc = 0
        if cl["new"]:
            violations = len(cl["new"])
            first = self.shrink(cl["new"][0])
            path = self.replay_path("violation")
            json.dump({"property": self.pid, "kind": "spec_violation_on_implementation",
                       "failed_clauses": first["fails"], "case": first["case"], "impl_observation": first["impl"],
                       "model_observation": first["model"], "crash": first.get("crash"),
                       "more": [{"case": r["case"], "failed_clauses": r["fails"]} for r in cl["new"][1:20]],
                       "how_to_replay": "./check %s --replay %s" % (self.pid, path)}, open(path, "w"), indent=1)
            print("VIOLATION property=%s replay=%s" % (self.pid, path))
            rc = 1
        elif not proofs_ok or not corr_ok:
            violations = 1
            path = self.replay_path("broken")
            what = []
            if not proofs_ok:
                what.append({"broken": "proof", "file": "coq/Properties_%s.v" % self.pid,
                             "static_scan": self.proofs.get("static_bad"), "foreign_axioms": self.proofs.get("foreign_axioms"),
                             "log_tail": self.proofs["log"][-3000:]})
            if self.tie_errors:
                what.append({"broken": "tie", "errors": [e[-3000:] for e in self.tie_errors]})
            if cl["diffs"]:
                what.append({"broken": "correspondence", "n_disagreements": len(cl["diffs"]),
                             "first": [{"case": d["case"], "impl": d["impl"], "model": d["model"], "spec_on_impl": d["spec"]} for d in cl["diffs"][:10]]})
            json.dump({"property": self.pid, "kind": "no_longer_shown", "what": what, "widened_cases": widened,
                       "how_to_replay": "./check %s --replay %s" % (self.pid, path)}, open(path, "w"), indent=1)
            print("VIOLATION property=%s replay=%s no-failing-input-found" % (self.pid, path))
            rc = 1
        self.write_evidence(cases, results, cl, violations, widened)
        return rc

    def shrink(self, r):
        f = getattr(self.p, "shrink", None)
        if not f or not self.impl_exe or not self.model_exe:
            return r
        target = set(r["fails"])

        def still_fails(case):
            rr = self.run_batch([case], "shrink")[0]
            c = self.classify([rr])
            return bool(c["new"]) and bool(set(c["new"][0]["fails"]) & target), rr
        try:
            best = r
            for cand in f(r["case"]):
                ok, rr = still_fails(cand)
                if ok:
                    rr["fails"] = self.classify([rr])["new"][0]["fails"]
                    best = rr
                    break
            return best
        except Exception as e:   # shrinking is best effort
            self.notes.append("shrink failed: %r" % e)
            return r

    def write_evidence(self, cases, results, cl, violations, widened):
        tags = {}
        for r in results:
            tags[r["tag"] or "?"] = tags.get(r["tag"] or "?", 0) + 1
        trivial = set(getattr(self.p, "TRIVIAL_TAGS", ()))
        distinct = len({r["case"] for r in results if (r["tag"] or "?") not in trivial and r["tag"]})
        thms = self.proofs.get("theorems", [])
        axioms = sorted({a for t in thms for a in t["axioms"]})
        samples = [{"case": r["case"][:400], "impl": (r["impl"] or "")[:300], "model": (r["model"] or "")[:300], "tag": r["tag"]}
                   for r in results[self.n_corpus:self.n_corpus + 3]] + [{"theorem": t["name"], "axioms": t["axioms"]} for t in thms[:40]]
        ev = {
            "property_id": self.pid, "tier": self.tier, "seed": self.seed, "level": self.p.LEVEL,
            "coverage": {
                "obligations": max(1, self.proofs.get("obligations", 0)),
                "discharged": self.proofs.get("discharged", 0),
                "checker_cmd": "make -C coq Properties_%s.vo  (coqc 8.16.1, full .vo build; Print Assumptions per property theorem)" % self.pid,
                "trusted_base": ["Coq 8.16.1 kernel + vm_compute (no native_compute)",
                                 "axioms reported by Print Assumptions: " + (", ".join(axioms) if axioms else "none (closed under the global context)"),
                                 "extraction (ExtrOcamlBasic only) + ocaml/driver.ml", "tools/extract_consts.py (constants translator)",
                                 "C++ driver " + ", ".join(self.p.DRIVER["srcs"]) + " and harness/common/verif_io.h",
                                 "generators in props/%s.py" % self.pid.lower()] + list(getattr(self.p, "TRUSTED", [])),
                "property_theorems": [t["name"] for t in thms],
                "proof_files": self.proofs.get("files", []),
                "proofs_ok": self.proofs["ok"],
                "evaluations": len(results),
                "distinct_nontrivial": distinct,
                "rule": getattr(self.p, "RULE", "generated by props module; non-trivial = model branch tag not in %s; distinct = distinct case lines" % sorted(trivial)),
                "branch_tag_histogram": tags,
                "corpus_cases": self.n_corpus,
                "widened_cases": widened,
                "traces_validated_against_impl": sum(1 for r in results if r["impl"] is not None and r["impl"] == r["model"]),
                "disagreements": len(cl["diffs"]),
                "spec_failures_on_impl_new": len(cl["new"]),
                "spec_failures_on_impl_known": {k: v["n"] for k, v in cl["known"].items()},
                "model_violates_spec_where_impl_does_not": len(cl["model_spec_only"]),
                "samples": samples,
                "tie_errors": [e[:500] for e in self.tie_errors],
                "notes": self.notes,
            },
            "assumptions": list(getattr(self.p, "ASSUMPTIONS", [])),
            "wall_s": round(time.time() - self.t0, 2),
            "violations": violations,
        }
        # evidence/ describes /repo itself: a run against another checkout (VERIF_REPO, mutation tests) writes elsewhere
        evdir = os.path.join(ROOT, "evidence") if os.path.realpath(vlib.REPO) == "/repo" else os.path.join(vlib.BUILD, "evidence")
        os.makedirs(evdir, exist_ok=True)
        with open(os.path.join(evdir, self.pid + ".json"), "w") as f:
            json.dump(ev, f, indent=1)

    def replay(self, path):
        data = json.load(open(path))
        self.build_all()
        cases = []
        if data.get("case"):
            cases.append(data["case"])
        for w in data.get("what", []):
            for d in w.get("first", []):
                cases.append(d["case"])
            if w.get("broken") in ("proof", "tie"):
                print("broken %s: %s" % (w["broken"], json.dumps(w)[:2000]))
        if not self.proofs["ok"]:
            print("proofs: NOT OK\n" + self.proofs["log"][-2000:])
        for e in self.tie_errors:
            print("tie error: " + e[-2000:])
        bad = (not self.proofs["ok"]) or bool(self.tie_errors)
        if cases:
            res = self.run_batch(cases, "replay")
            cl = self.classify(res)
            for r in res:
                print("case : " + r["case"])
                print("impl : %s" % r["impl"])
                print("model: %s" % r["model"])
                print("spec(impl): %s   spec(model): %s" % (r["spec"], r["mspec"]))
                if r.get("crash"):
                    print("crash: " + r["crash"]["report"])
            bad = bad or bool(cl["new"]) or bool(cl["diffs"])
        print("REPLAY: " + ("still failing" if bad else "passes now"))
        return 1 if bad else 0


def load_prop(pid):
    sys.path.insert(0, ROOT)
    return importlib.import_module("props." + pid.lower())
