"""C13 part of the constants translator (called from tools/extract_consts.py:main).

Reads, from api/include/opentelemetry/logs/{logger.h,severity.h}, the severity number each of the named
wrappers Trace() .. Fatal() passes on (templated form `this->EmitLogRecord(Severity::kX, ...)` and the plain
form `this->Log(Severity::kX, message)` must agree), in the order Trace, Debug, Info, Warn, Error, Fatal.
Not found / disagreeing => Missing (broken tie)."""
import re


def emit_c13(emit, find, src, Missing):
    L = "api/include/opentelemetry/logs/logger.h"
    S = "api/include/opentelemetry/logs/severity.h"
    enum = find(S, r"enum\s+class\s+Severity\s*:\s*uint8_t\s*\{(.*?)\}", "enum class Severity").group(1)
    vals = {m.group(1): int(m.group(2), 0) for m in re.finditer(r"(k\w+)\s*=\s*(\d+)", enum)}
    text = src(L)
    out = []
    for name in ("Trace", "Debug", "Info", "Warn", "Error", "Fatal"):
        m1 = re.search(r"void\s+%s\s*\(\s*ArgumentType\s*&&\s*\.\.\.\s*args\s*\)\s*noexcept\s*\{.*?this->EmitLogRecord\(\s*Severity::(k\w+)\s*," % name, text, re.S)
        m2 = re.search(r"inline\s+void\s+%s\s*\(\s*nostd::string_view\s+message\s*\)\s*noexcept\s*\{\s*this->Log\(\s*Severity::(k\w+)\s*,\s*message\s*\)" % name, text, re.S)
        if not m1 or not m2:
            raise Missing("Logger::%s wrappers in %s" % (name, L))
        if m1.group(1) != m2.group(1) or m1.group(1) not in vals:
            raise Missing("Logger::%s wrappers disagree on the severity (%s / %s)" % (name, m1.group(1), m2.group(1)))
        out.append(vals[m1.group(1)])
    emit("Definition c13_level_severities : list Z := [%s]%%Z.   (* %s *)" % ("; ".join(str(v) for v in out), L))
