#!/usr/bin/env python3
"""Runs the repository's pinned test suite in /repo/_build (guard OFF: the build never defines
OPENTELEMETRY_CPP_VERIF) and compares with /root/.vp/BASELINE.json's stable_pass list.
usage: tools/baseline.py [--no-build]      exit 0 = every stable test passes."""
import json, os, subprocess, sys, xml.etree.ElementTree as ET

BUILD = "/repo/_build"
def main():
    if "--no-build" not in sys.argv:
        r = subprocess.run(["cmake", "--build", BUILD, "-j", "14"], stdout=subprocess.PIPE, stderr=subprocess.STDOUT, text=True)
        if r.returncode != 0:
            print(r.stdout[-4000:]); print("BUILD FAILED"); return 2
    junit = "/tmp/verif_baseline_junit.xml"
    subprocess.run(["ctest", "--test-dir", BUILD, "-j16", "--timeout", "900", "--output-junit", junit],
                   stdout=subprocess.DEVNULL, stderr=subprocess.DEVNULL)
    passed, failed = set(), set()
    for tc in ET.parse(junit).getroot().iter("testcase"):
        n = tc.get("name")
        ok = tc.find("failure") is None and tc.find("error") is None and tc.get("status") in ("run", None)
        names = {n + "::" + n}
        for i, ch in enumerate(n):
            if ch == ".":
                names.add(n[:i] + "::" + n[i + 1:])
                names.add(n[:i].rsplit(".", 1)[-1] + "::" + n[i + 1:])
        (passed if ok else failed).update(names)
    base = json.load(open("/root/.vp/BASELINE.json"))
    stable = base["stable_pass"]
    import fnmatch
    pg = [x for x in passed if "*" in x]; fg = [x for x in failed if "*" in x]
    def inp(t): return t in passed or any(fnmatch.fnmatchcase(t, g) for g in pg)
    def inf(t): return t in failed or any(fnmatch.fnmatchcase(t, g) for g in fg)
    bad = [t for t in stable if inf(t) and not inp(t)]
    unknown = [t for t in stable if not inp(t) and not inf(t)]
    print("stable=%d passed=%d failed_stable=%d unmatched=%d" % (len(stable), sum(inp(t) for t in stable), len(bad), len(unknown)))
    for t in bad[:50]:
        print("FAILED", t)
    for t in unknown[:20]:
        print("UNMATCHED", t)
    os.remove(junit)
    return 1 if bad or unknown else 0
if __name__ == "__main__":
    sys.exit(main())
