#!/usr/bin/env python3
"""Purity probe support (generic; used by props/c09.py, reusable by any property whose model treats
library operations as pure functions of immutable values).

A purity probe is a second small driver (harness/<x>_purity.cc on top of harness/purity/purity_probe.h)
built with clang's ThreadSanitizer, in which several real threads call the const operations on SHARED
objects.  It is a run-time probe of a modelling assumption, not a theorem.

  build_probe(name, srcs)                    -> path of the TSan binary (content-hash cached under build/)
  make_dispatcher(name, main_exe, probe_exe) -> path of an executable that behaves like a normal case driver
                                                (`<exe> <casefile>` -> one observation line per case): lines
                                                starting with the tag PURITY go to the probe (one process
                                                per case), all other lines to main_exe, output merged in order.

Case line:      PURITY <size> <threads> <rounds> <iters>
Observations:   PURE | DIFFERS x<hex description> | RACE x<hex head of the ThreadSanitizer report>
                | HARNESSRACE x<...> (a race report without any frame in the repository's headers/sources)
"""
import hashlib, os, re, subprocess, sys

sys.path.insert(0, os.path.dirname(os.path.dirname(os.path.abspath(__file__))))

CLANG = os.environ.get("VERIF_CLANGXX", "clang++")
TSAN_FLAGS = ["-O1", "-g", "-fsanitize=thread"]
TSAN_ENV = "halt_on_error=1:report_signal_unsafe=0:exitcode=66:second_deadlock_stack=1"
PROBE_TIMEOUT = 300


def build_probe(name, srcs, sdk_srcs=(), extra_flags=()):
    """compile with clang++ -fsanitize=thread against the current tree (vlib.REPO) ; cached by the hash of the
    preprocessed translation units.  sdk_srcs: repository sources (relative to the tree) to compile in as well."""
    from tools import vlib
    flags = [f for f in vlib.BASE_FLAGS] + TSAN_FLAGS + list(extra_flags)
    all_srcs = [s if os.path.isabs(s) else os.path.join(vlib.ROOT, s) for s in srcs] + [os.path.join(vlib.REPO, s) for s in sdk_srcs]
    objdir = os.path.join(vlib.BUILD_ROOT, "obj")
    os.makedirs(objdir, exist_ok=True)
    objs = []
    for src in all_srcs:
        rc, pre = vlib.sh([CLANG] + flags + ["-E", src], timeout=300)
        if rc != 0:
            raise vlib.TieBroken("purity probe does not preprocess against the current tree:\n" + pre[-3000:])
        key = hashlib.sha256(("clang-tsan " + " ".join(flags) + "\n" + pre).encode("utf-8", "replace")).hexdigest()
        obj = os.path.join(objdir, key + ".o")
        if not os.path.exists(obj):
            tmp = obj + ".%d.tmp" % os.getpid()
            rc, out = vlib.sh([CLANG] + flags + ["-c", src, "-o", tmp], timeout=900)
            if rc != 0:
                raise vlib.TieBroken("purity probe does not compile against the current tree:\n" + out[-3000:])
            os.replace(tmp, obj)
        objs.append(obj)
    h = hashlib.sha256((" ".join(objs) + " ".join(flags)).encode()).hexdigest()[:16]
    bindir = os.path.join(vlib.BUILD_ROOT, "bin")
    os.makedirs(bindir, exist_ok=True)
    exe = os.path.join(bindir, "%s_%s" % (name, h))
    if not os.path.exists(exe):
        tmp = exe + ".%d.tmp" % os.getpid()
        rc, out = vlib.sh([CLANG] + TSAN_FLAGS + objs + ["-o", tmp, "-lpthread"], timeout=600)
        if rc != 0:
            raise vlib.TieBroken("purity probe link failed:\n" + out[-3000:])
        os.replace(tmp, exe)
    return exe


def make_dispatcher(name, main_exe, probe_exe):
    from tools import vlib
    bindir = os.path.join(vlib.BUILD_ROOT, "bin")
    h = hashlib.sha256((main_exe + "\n" + probe_exe + "\n" + vlib.REPO).encode()).hexdigest()[:16]
    path = os.path.join(bindir, "%s_%s.sh" % (name, h))
    text = "#!/bin/sh\nexec python3 %s dispatch %s %s %s \"$@\"\n" % (
        os.path.abspath(__file__), main_exe, probe_exe, os.path.realpath(vlib.REPO))
    if not os.path.exists(path) or open(path).read() != text:
        tmp = path + ".%d.tmp" % os.getpid()
        with open(tmp, "w") as f:
            f.write(text)
        os.chmod(tmp, 0o755)
        os.replace(tmp, path)
    return path


def hx(b):
    return "x" + b.hex()


def report_head(text, repo):
    """the head of a ThreadSanitizer report without pids, addresses and build ids; returns (head, in_library)"""
    lines = text.split("\n")
    try:
        start = next(i for i, l in enumerate(lines) if "WARNING: ThreadSanitizer" in l)
    except StopIteration:
        return text[-600:], False
    keep, in_lib, frames = [], False, 0
    for l in lines[start:]:
        l = re.sub(r"\(pid=\d+\)", "", l)
        l = re.sub(r"\(BuildId: [0-9a-f]+\)", "", l)
        l = re.sub(r"\([^()\s]*\+0x[0-9a-f]+\)", "", l)
        l = re.sub(r"0x[0-9a-f]{6,}", "ADDR", l)
        l = l.replace(repo + "/", "").rstrip()
        s = l.strip()
        if s.startswith("WARNING: ThreadSanitizer") or s.startswith("SUMMARY:"):
            keep.append(s)
        elif re.match(r"(Read|Write|Previous|Atomic|Location|Mutex|Thread T\d+ .*created)", s):
            keep.append(s)
            frames = 0
        elif re.match(r"#\d+ ", s):
            lib = "opentelemetry" in s and "harness/" not in s.split(" ")[-1]
            if "opentelemetry/" in s or "sdk/src/" in s:
                in_lib = True
            if frames < 8 and (lib or frames < 3):
                keep.append("  " + s[:260])
            frames += 1
        if s.startswith("SUMMARY:"):
            break
    return "\n".join(keep)[:2400], in_lib


def run_probe_case(probe_exe, toks, repo):
    env = dict(os.environ)
    env["TSAN_OPTIONS"] = TSAN_ENV
    env["LC_ALL"] = "C"
    try:
        p = subprocess.run([probe_exe] + toks[1:], stdout=subprocess.PIPE, stderr=subprocess.PIPE, env=env, timeout=PROBE_TIMEOUT)
    except subprocess.TimeoutExpired:
        return "HANG"
    out = p.stdout.decode("utf-8", "replace").strip().split("\n")
    err = p.stderr.decode("utf-8", "replace")
    if p.returncode == 66 or "WARNING: ThreadSanitizer" in err:
        head, in_lib = report_head(err, repo)
        return ("RACE " if in_lib else "HARNESSRACE ") + hx(head.encode())
    if p.returncode != 0:
        return "CRASH %d %s" % (p.returncode, hx(err[-600:].encode()))
    last = out[-1] if out else ""
    return last if last else "CRASH 0 x"


def dispatch(main_exe, probe_exe, repo, casefile):
    cases = [l.rstrip("\n") for l in open(casefile)]
    if cases and cases[-1] == "":
        cases.pop()
    is_p = [c.split(" ", 1)[0] == "PURITY" for c in cases]
    rest = [c for c, p in zip(cases, is_p) if not p]
    main_lines, main_rc, tail = [], 0, ""
    if rest:
        rf = casefile + ".main"
        with open(rf, "w") as f:
            f.write("\n".join(rest) + "\n")
        p = subprocess.run([main_exe, rf], stdout=subprocess.PIPE, stderr=subprocess.STDOUT)
        main_rc = p.returncode
        text = p.stdout.decode("utf-8", "replace")
        main_lines = text.split("\n")
        if main_lines and main_lines[-1] == "":
            main_lines.pop()
    out = sys.stdout
    k = 0
    for c, p in zip(cases, is_p):
        if p:
            out.write(run_probe_case(probe_exe, c.split(), repo) + "\n")
        else:
            if main_rc != 0 and k >= len(main_lines):
                break
            if k < len(main_lines):
                l = main_lines[k]
                k += 1
                out.write(l + "\n")
                if main_rc != 0 and (l.startswith("=====") or "ERROR: " in l or "runtime error" in l or "Sanitizer" in l):
                    # the main driver died here: pass the rest of its report through unchanged
                    out.write("\n".join(main_lines[k:]) + "\n")
                    break
    out.flush()
    return main_rc


if __name__ == "__main__":
    if len(sys.argv) == 6 and sys.argv[1] == "dispatch":
        sys.exit(dispatch(sys.argv[2], sys.argv[3], sys.argv[4], sys.argv[5]))
    print(__doc__)
    sys.exit(2)
