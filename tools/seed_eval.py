#!/usr/bin/env python3
"""Evaluate a seeded change (seeded/<id>/patch.diff) against the checks.

usage: tools/seed_eval.py seeded/<id> [Cnn ...]        (default: the property named in meta.json)

Applies the patch to a scratch worktree of /repo (default /tmp/wt_seedeval, created on demand), runs
`VERIF_REPO=<worktree> ./check Cnn` for each property and prints/records the outcome, then resets the worktree.
With --in-repo the patch is applied to /repo itself (git apply) and undone afterwards (git checkout -- .), exactly as
the registered checks will be used; do that only when nothing else is running against /repo.
With --suite the repository's own tests are also built and run in the worktree (needs <worktree>/_build)."""
import json, os, subprocess, sys, time

ROOT = os.path.dirname(os.path.dirname(os.path.abspath(__file__)))


def sh(cmd, **kw):
    return subprocess.run(cmd, shell=isinstance(cmd, str), stdout=subprocess.PIPE, stderr=subprocess.STDOUT, text=True, **kw)


def main():
    args = [a for a in sys.argv[1:] if not a.startswith("--")]
    flags = {a for a in sys.argv[1:] if a.startswith("--")}
    sd = os.path.abspath(args[0])
    meta = json.load(open(os.path.join(sd, "meta.json")))
    props = args[1:] or [meta["property"]]
    patch = os.path.join(sd, "patch.diff")
    in_repo = "--in-repo" in flags
    wt = "/repo" if in_repo else os.environ.get("SEED_WT", "/tmp/wt_seedeval")
    if not in_repo and not os.path.isdir(wt):
        print(sh(["git", "-C", "/repo", "worktree", "add", "-f", wt, "HEAD"]).stdout)
    if not in_repo:
        sh(["git", "-C", wt, "checkout", "-q", "--detach", sh(["git", "-C", "/repo", "rev-parse", "HEAD"]).stdout.strip()])
        sh(["git", "-C", wt, "checkout", "--", "."])
    r = sh(["git", "-C", wt, "apply", patch])
    if r.returncode != 0:
        print("patch does not apply:", r.stdout)
        return 2
    results = {}
    try:
        if "--suite" in flags and not in_repo:
            b = sh("cmake --build %s/_build -j 8 2>&1 | tail -3" % wt)
            t = sh("ctest --test-dir %s/_build -j8 --timeout 900 2>&1 | tail -15" % wt)
            results["suite"] = (b.stdout[-400:] + t.stdout[-1500:])
            print(results["suite"])
        for pid in props:
            env = dict(os.environ)
            if not in_repo:
                env["VERIF_REPO"] = wt
            t0 = time.time()
            c = sh([os.path.join(ROOT, "check"), pid], cwd=ROOT, env=env)
            lines = [l for l in c.stdout.split("\n") if l.startswith("VIOLATION") or l.startswith("KNOWN-FINDING")]
            results[pid] = {"exit": c.returncode, "lines": lines, "wall_s": round(time.time() - t0, 1)}
            print(pid, "exit", c.returncode, "|", " ; ".join(l[:200] for l in lines))
            for l in lines:
                if l.startswith("VIOLATION") and "replay=" in l:
                    rp = l.split("replay=")[1].split()[0]
                    try:
                        d = json.load(open(rp))
                        results[pid]["kind"] = d.get("kind")
                        results[pid]["failed_clauses"] = d.get("failed_clauses")
                        results[pid]["case"] = (d.get("case") or "")[:600]
                    except Exception:
                        pass
    finally:
        sh(["git", "-C", wt, "checkout", "--", "."])
        if in_repo:
            # restore the evidence / constants of the unchanged tree
            pass
    out = os.path.join(sd, "check_results.json")
    json.dump(results, open(out, "w"), indent=1)
    print("written", out)
    return 0


if __name__ == "__main__":
    sys.exit(main())
