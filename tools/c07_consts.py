"""C07 part of the constants translator: default histogram boundaries, min/max sentinels and the
record_min_max defaults, read from /repo's current sources.

Doubles are emitted exactly as pairs (m, e) meaning m * 2^e with m odd (or m = e = 0); int64 values as
integers.  Trusted: the regexes and tables below."""
import re

from fractions import Fraction

INT64_MAX = 2 ** 63 - 1
INT64_MIN = -2 ** 63
DBL_MAX_U = Fraction((2 ** 53 - 1) * 2 ** 971)  # DBL_MAX
DBL_MIN_U = Fraction(1, 2 ** 1022)              # smallest positive normal

# what a sentinel initialiser may say (after removing blanks, parentheses and `std::`)
SENTINELS = {
    ("int64_t", "numeric_limits<int64_t>::max"): INT64_MAX,
    ("int64_t", "numeric_limits<int64_t>::min"): INT64_MIN,
    ("int64_t", "numeric_limits<int64_t>::lowest"): INT64_MIN,
    ("double", "numeric_limits<double>::max"): DBL_MAX_U,
    ("double", "numeric_limits<double>::lowest"): -DBL_MAX_U,
    ("double", "numeric_limits<double>::min"): DBL_MIN_U,
    ("double", "-numeric_limits<double>::max"): -DBL_MAX_U,
}


def zlit(v):
    return "(%d)%%Z" % v


def dlit(q):
    """exact dyadic rational -> Coq pair (m, e), m odd"""
    q = Fraction(q)
    if q == 0:
        return "(0, 0)%Z"
    m, d = q.numerator, q.denominator
    e = 0
    while d > 1:
        if d % 2:
            raise ValueError("not dyadic")
        d //= 2
        e -= 1
    while m % 2 == 0:
        m //= 2
        e += 1
    return "(%d, %d)%%Z" % (m, e)


def dbl_units(lit, Missing):
    t = lit.strip().rstrip("fFlL")
    try:
        x = float(t)
    except ValueError:
        raise Missing("unparsable floating literal '%s' in default histogram boundaries" % lit)
    if x != x or x in (float("inf"), float("-inf")):
        raise Missing("non-finite default histogram boundary '%s'" % lit)
    n, d = x.as_integer_ratio()
    return Fraction(n, d)


def emit_c07(emit, find, src, Missing):
    CC = "sdk/src/metrics/aggregation/histogram_aggregation.cc"
    HH = "sdk/include/opentelemetry/sdk/metrics/aggregation/histogram_aggregation.h"
    text = src(CC)
    for cls, ty, coq in (("LongHistogramAggregation", "int64_t", "Long"), ("DoubleHistogramAggregation", "double", "Double")):
        m = re.search(r"%s::%s\s*\(\s*const\s+AggregationConfig\s*\*[^)]*\)\s*\{(.*?)\n\}" % (cls, cls), text, re.S)
        if not m:
            raise Missing("constructor %s(const AggregationConfig*) in %s" % (cls, CC))
        body = m.group(1)
        b = re.search(r"else\s*\{\s*point_data_\.boundaries_\s*=\s*\{([^}]*)\}\s*;", body, re.S)
        if not b:
            raise Missing("default boundaries literal of %s in %s" % (cls, CC))
        lits = [x for x in (s.strip() for s in b.group(1).split(",")) if x]
        vals = [dbl_units(x, Missing) for x in lits]
        emit("Definition kHistDefaultBounds%s : list (Z * Z) := [%s].   (* %s; (m, e) = m * 2^e *)" % (coq, "; ".join(dlit(v) for v in vals), CC))
        for fld in ("min", "max"):
            s = re.search(r"point_data_\.%s_\s*=\s*([^;]*);" % fld, body)
            if not s:
                raise Missing("initial %s_ of %s in %s" % (fld, cls, CC))
            key = re.sub(r"[\s()]|std::", "", s.group(1))
            if (ty, key) not in SENTINELS:
                raise Missing("unrecognised initial %s_ '%s' of %s in %s" % (fld, s.group(1).strip(), cls, CC))
            val = SENTINELS[(ty, key)]
            if ty == "double":
                emit("Definition kHist%sInit%s : Z * Z := %s.   (* %s *)" % (fld.capitalize(), coq, dlit(val), s.group(1).strip()))
            else:
                emit("Definition kHist%sInit%s : Z := %s.   (* %s *)" % (fld.capitalize(), coq, zlit(val), s.group(1).strip()))
        s = re.search(r"point_data_\.sum_\s*=\s*([^;]*);", body)
        if not s or re.sub(r"[\s()]|static_cast<int64_t>", "", s.group(1)) not in ("0", "0.0"):
            raise Missing("zero initial sum_ of %s in %s" % (cls, CC))
        # default of the member used when no config is given
        h = re.search(r"class\s+%s\b.*?\n\};" % cls, src(HH), re.S)
        d = h and re.search(r"bool\s+record_min_max_\s*=\s*(true|false)\s*;", h.group(0))
        if not d:
            raise Missing("record_min_max_ default of %s in %s" % (cls, HH))
        emit("Definition kHistRecordMinMaxDefault%s : bool := %s." % (coq, d.group(1)))
