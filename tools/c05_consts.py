"""C05 part of the constants translator (called from tools/extract_consts.py:main).

Reads the context key under which StartSpanOptions' explicit Context marks a root span (kIsRootSpanKey).
The flag masks of Tracer::StartSpan are read by tools/c12_consts.py (c12_kIsSampled, c12_kIsRandom,
c12_kAllW3CTraceContext1Flags and the check that exactly that mask is live in tracer.cc).
Not found => Missing (broken tie)."""


def emit_c05(emit, find, join_literals, Missing):
    S = "api/include/opentelemetry/trace/span_metadata.h"
    m = find(S, r"constexpr\s+char\s+kIsRootSpanKey\[\]\s*=\s*(\"(?:[^\"\\]|\\.)*\")\s*;", "kIsRootSpanKey")
    emit("Definition kIsRootSpanKeyBytes : list N := [%s].   (* %s *)" % ("; ".join(str(b) for b in join_literals(m.group(1))), S))
