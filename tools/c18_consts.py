"""C18 part of the constants translator (called from tools/extract_consts.py:main).

Reads from /repo's current sources: the literals GetBoolEnvironmentVariable compares with, the unit
table of GetTimeoutFromString (unit text -> std::chrono type -> factor in system_clock ticks, assumed
to be nanoseconds as on libstdc++), the default resource attributes of Resource::GetDefault, the keys
and literals Resource::Create / OTELResourceDetector::Detect use.  Anything not found raises Missing."""
import re

CHRONO_NS = {"nanoseconds": 1, "microseconds": 10 ** 3, "milliseconds": 10 ** 6, "seconds": 10 ** 9,
             "minutes": 60 * 10 ** 9, "hours": 3600 * 10 ** 9}


def nlist(b):
    return "[%s]" % "; ".join(str(x) for x in b)


def emit_c18(emit, find, src, join_literals, Missing):
    E = "sdk/src/common/env_variables.cc"
    body = find(E, r"bool GetBoolEnvironmentVariable\(.*?\n\}\n", "GetBoolEnvironmentVariable").group(0)
    cmps = re.findall(r'strcasecmp\(raw_value\.c_str\(\),\s*("(?:[^"\\]|\\.)*")\)\s*==\s*0\)\s*\{\s*value\s*=\s*(true|false)\s*;\s*return\s+(true|false)\s*;', body)
    if len(cmps) != 2:
        raise Missing("the two strcasecmp branches of GetBoolEnvironmentVariable in " + E)
    emit("Definition c18_bool_literals : list (list N * bool * bool) := [%s]."
         % "; ".join("(%s, %s, %s)" % (nlist(join_literals(l)), v, r) for l, v, r in cmps))
    m = re.search(r'defaulting to false"\);\s*value\s*=\s*(true|false)\s*;\s*return\s+(true|false)\s*;', body)
    if not m:
        raise Missing("the invalid-value branch of GetBoolEnvironmentVariable in " + E)
    emit("Definition c18_bool_invalid : bool * bool := (%s, %s).   (* (value, return) for any other non-empty text *)" % (m.group(1), m.group(2)))

    body = find(E, r"static bool GetTimeoutFromString\(.*?\n\}\n", "GetTimeoutFromString").group(0)
    units = re.findall(r'if\s*\(unit\s*==\s*("(?:[^"\\]|\\.)*")\)\s*\{(?:\s*//[^\n]*\n)*\s*return\s+ConvertTimeout<std::chrono::(\w+)>\(result,\s*value\);', body)
    if not units:
        raise Missing("unit table of GetTimeoutFromString in " + E)
    rows = []
    for lit, ty in units:
        if ty not in CHRONO_NS:
            raise Missing("std::chrono::%s is not a known duration type" % ty)
        rows.append("(%s, %d%%Z)" % (nlist(join_literals(lit)), CHRONO_NS[ty]))
    emit("Definition c18_duration_units : list (list N * Z) := [%s]." % "; ".join(rows))

    R = "sdk/src/resource/resource.cc"
    ver = join_literals(find("sdk/include/opentelemetry/sdk/version/version.h",
                             r'#define\s+OPENTELEMETRY_SDK_VERSION\s+("(?:[^"\\]|\\.)*")', "OPENTELEMETRY_SDK_VERSION").group(1))

    def semconv(ns_path, name):
        rel = {"telemetry": "api/include/opentelemetry/semconv/telemetry_attributes.h",
               "service": "api/include/opentelemetry/semconv/service_attributes.h",
               "process": "api/include/opentelemetry/semconv/incubating/process_attributes.h"}.get(ns_path)
        if rel is None:
            raise Missing("semconv namespace " + ns_path)
        return join_literals(find(rel, r'static\s+constexpr\s+const\s+char\s*\*\s*%s\s*=\s*("(?:[^"\\]|\\.)*")\s*;' % name, name).group(1))

    body = find(R, r"Resource &Resource::GetDefault\(\).*?\n\}\n", "Resource::GetDefault").group(0)
    ents = re.findall(r'\{semconv::(\w+)::(\w+),\s*("(?:[^"\\]|\\.)*"|OPENTELEMETRY_SDK_VERSION)\}', body)
    if not ents:
        raise Missing("default attributes in Resource::GetDefault")
    emit("Definition c18_default_attrs : list (list N * list N) := [%s]."
         % "; ".join("(%s, %s)" % (nlist(semconv(ns, nm)), nlist(ver if v == "OPENTELEMETRY_SDK_VERSION" else join_literals(v))) for ns, nm, v in ents))
    m = re.search(r'default_resource\(\s*\{.*?\}\s*,\s*std::string\{("(?:[^"\\]|\\.)*")?\}\)', body, re.S)
    if not m:
        raise Missing("schema URL of the default resource")
    emit("Definition c18_default_schema : list N := %s." % nlist(join_literals(m.group(1)) if m.group(1) else b""))

    body = find(R, r"Resource Resource::Create\(.*?\n\}\n", "Resource::Create").group(0)
    m = re.search(r"attributes_\.find\(semconv::(\w+)::(\w+)\)\s*==\s*resource\.attributes_\.end\(\)", body)
    if not m:
        raise Missing("service.name test in Resource::Create")
    emit("Definition c18_key_service_name : list N := %s." % nlist(semconv(m.group(1), m.group(2))))
    m = re.search(r"it_process_executable_name\s*=\s*resource\.attributes_\.find\(semconv::(\w+)::(\w+)\)", body)
    if not m:
        raise Missing("process.executable.name lookup in Resource::Create")
    emit("Definition c18_key_process_executable_name : list N := %s." % nlist(semconv(m.group(1), m.group(2))))
    m = re.search(r'default_service_name\s*=\s*("(?:[^"\\]|\\.)*")\s*;', body)
    if not m:
        raise Missing("unknown_service literal in Resource::Create")
    emit("Definition c18_unknown_service : list N := %s." % nlist(join_literals(m.group(1))))
    m = re.search(r'default_service_name\s*\+=\s*("(?:[^"\\]|\\.)*")\s*\+', body)
    if not m:
        raise Missing("separator literal in Resource::Create")
    emit("Definition c18_unknown_service_sep : list N := %s." % nlist(join_literals(m.group(1))))

    D = "sdk/src/resource/resource_detector.cc"
    body = find(D, r"Resource OTELResourceDetector::Detect\(\).*?\n\}\n", "OTELResourceDetector::Detect").group(0)
    m = re.search(r"std::getline\(iss,\s*token,\s*'(.)'\)", body)
    if not m:
        raise Missing("list separator in OTELResourceDetector::Detect")
    emit("Definition c18_list_sep : N := %d." % ord(m.group(1)))
    m = re.search(r"token\.find\('(.)'\)", body)
    if not m:
        raise Missing("key/value separator in OTELResourceDetector::Detect")
    emit("Definition c18_kv_sep : N := %d." % ord(m.group(1)))
    m = re.search(r"attributes\[semconv::(\w+)::(\w+)\]\s*=\s*service_name\s*;", body)
    if not m:
        raise Missing("service name assignment in OTELResourceDetector::Detect")
    emit("Definition c18_key_detector_service_name : list N := %s." % nlist(semconv(m.group(1), m.group(2))))
