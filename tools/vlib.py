"""Shared machinery for ./check: building Coq, the extracted model, the C++ drivers (always from
/repo's current working tree), running them, and writing evidence.  See DESIGN.md section 2."""
import fcntl, glob, hashlib, json, os, re, subprocess, sys, time
from concurrent.futures import ThreadPoolExecutor

ROOT = os.path.dirname(os.path.dirname(os.path.abspath(__file__)))
REPO = os.environ.get("VERIF_REPO", "/repo")
BUILD = os.path.join(ROOT, "build")
BUILD_ROOT = BUILD          # content-addressed object / binary caches are shared by all trees
COQ = os.path.join(ROOT, "coq")
if os.path.realpath(REPO) != "/repo":
    # a run against another checkout (mutation tests) regenerates Gen/Consts.v from that tree: it works on its own copy
    # of the Coq development so that concurrent checks of /repo itself are not disturbed
    _alt = os.path.join(BUILD, "alt", hashlib.md5(os.path.realpath(REPO).encode()).hexdigest()[:10])
    os.makedirs(_alt, exist_ok=True)
    subprocess.run(["rsync", "-a", "--delete", "--exclude", "Gen/Consts.v*", "--exclude", "Gen/.Consts*", COQ + "/", os.path.join(_alt, "coq") + "/"], check=False)
    COQ = os.path.join(_alt, "coq")
    BUILD = _alt
os.environ["VERIF_COQ_DIR"] = COQ
GUARD = "OPENTELEMETRY_CPP_VERIF"
NCPU = os.cpu_count() or 8

ALLOWED_AXIOMS = {
    # axioms declared by Coq's standard library (named in DESIGN.md section 8)
    "sig_forall_dec", "sig_not_dec", "functional_extensionality_dep", "classic",
    "eq_rect_eq", "proof_irrelevance", "JMeq_eq", "constructive_indefinite_description",
    "propositional_extensionality", "classical_indefinite_description",
}


class TieBroken(Exception):
    """the model/driver/translator can no longer be built against the current tree"""


def _big_stack():
    """the extracted model is not tail-recursive: a run-away implementation trace (step limit) must not overflow its stack"""
    import resource
    soft, hard = resource.getrlimit(resource.RLIMIT_STACK)
    want = hard if hard != resource.RLIM_INFINITY else resource.RLIM_INFINITY
    try:
        resource.setrlimit(resource.RLIMIT_STACK, (want, hard))
    except (ValueError, OSError):
        pass


def sh(cmd, timeout=1200, cwd=None, env=None, input=None, bigstack=False):
    e = dict(os.environ)
    if env:
        e.update(env)
    try:
        r = subprocess.run(cmd, cwd=cwd, env=e, input=input, stdout=subprocess.PIPE, stderr=subprocess.STDOUT,
                           timeout=timeout, text=True, errors="replace", shell=isinstance(cmd, str),
                           preexec_fn=_big_stack if bigstack else None)
        return r.returncode, r.stdout
    except subprocess.TimeoutExpired as ex:
        out = ex.stdout or ""
        if isinstance(out, bytes):
            out = out.decode(errors="replace")
        return 124, out + "\n[timeout after %ss]" % timeout


class Lock:
    def __init__(self, name):
        os.makedirs(BUILD, exist_ok=True)
        self.path = os.path.join(BUILD, "." + name + ".lock")

    def __enter__(self):
        self.f = open(self.path, "w")
        fcntl.flock(self.f, fcntl.LOCK_EX)

    def __exit__(self, *a):
        fcntl.flock(self.f, fcntl.LOCK_UN)
        self.f.close()


# ----------------------------------------------------------------------------- Coq

def regen_consts(pid=None):
    """regenerate coq/Gen/Consts.v from the checked tree.  The translator works section by section: a section whose source
    construct it no longer finds emits nothing (the Coq files that use those constants then stop compiling) and is a broken
    tie for the properties it serves - not for the others."""
    rc, out = sh([sys.executable, os.path.join(ROOT, "tools", "extract_consts.py")], timeout=60)
    if rc != 0:
        raise TieBroken("constants translator: " + out.strip())
    try:
        import json
        failed = json.load(open(os.path.join(COQ, "Gen", "consts_status.json")))
    except (OSError, ValueError):
        failed = {}
    mine = ["%s: %s" % (t, v["error"]) for t, v in failed.items() if pid is None or pid in v.get("props", [])]
    if mine:
        raise TieBroken("constants translator: extract_consts: " + "; ".join(mine))


def coq_makefile():
    mk = os.path.join(COQ, "Makefile")
    cp = os.path.join(COQ, "_CoqProject")
    if not os.path.exists(mk) or os.path.getmtime(mk) < os.path.getmtime(cp):
        rc, out = sh(["coq_makefile", "-f", "_CoqProject", "-o", "Makefile"], cwd=COQ, timeout=60)
        if rc != 0:
            raise TieBroken("coq_makefile: " + out)


def coq_make(targets, timeout=3000):
    """full `make` (used by setup only); returns (ok, log)"""
    with Lock("coq"):
        coq_makefile()
        rc, out = sh(["make", "-j%d" % NCPU, "-k"] + targets, cwd=COQ, timeout=timeout)
    return rc == 0, out


def _coq_args():
    args = []
    for line in open(os.path.join(COQ, "_CoqProject")):
        t = line.split()
        if not t:
            continue
        if t[0] == "-Q" and len(t) == 3:
            args += ["-Q", t[1], t[2]]
        elif t[0] == "-arg":
            i = 0
            while i + 1 < len(t):
                if t[i] == "-arg":
                    args.append(t[i + 1]); i += 2
                else:
                    i += 1
    return args


_DEP_CACHE = {}


def coq_direct_deps(vfile):
    """project-local files `vfile` requires (relative .v paths), via coqdep; cached per (path, mtime)"""
    full = os.path.join(COQ, vfile)
    try:
        key = (vfile, os.stat(full).st_mtime_ns)
    except OSError:
        return []
    if key in _DEP_CACHE:
        return _DEP_CACHE[key]
    rc, out = sh(["coqdep", "-Q", ".", "V", vfile], cwd=COQ, timeout=60)
    deps = []
    first = out.split("\n")[0] if out else ""
    rhs = first.split(":", 1)[1] if ":" in first else ""
    for dep in re.findall(r"(\S+)\.vo\b", rhs):
        p = dep + ".v"
        if p != vfile and os.path.exists(os.path.join(COQ, p)) and p not in deps:
            deps.append(p)
    _DEP_CACHE[key] = deps
    return deps


def coq_topo(vfile):
    order, seen = [], set()

    def visit(f):
        if f in seen:
            return
        seen.add(f)
        for d in coq_direct_deps(f):
            visit(d)
        order.append(f)
    visit(vfile)
    return order


def _mt(path):
    try:
        return os.stat(path).st_mtime_ns
    except OSError:
        return None


def coq_build(vfile, force_last=False, timeout=1500):
    """mini-make with one lock PER FILE (several checks build concurrently without waiting for each other's
    unrelated proof files): compiles the transitive dependencies of `vfile` that are stale, then `vfile`.
    returns (ok, log, output of the last compilation of vfile or None)"""
    args = _coq_args()
    log, last_out = [], None
    for f in coq_topo(vfile):
        vo = os.path.join(COQ, f + "o")
        with Lock("coq_" + re.sub(r"[^A-Za-z0-9]", "_", f)):
            src = _mt(os.path.join(COQ, f))
            tgt = _mt(vo)
            stale = tgt is None or src is None or tgt < src
            if not stale:
                for d in coq_direct_deps(f):
                    dm = _mt(os.path.join(COQ, d + "o"))
                    if dm is None or dm > tgt:
                        stale = True
                        break
            if stale or (force_last and f == vfile):
                rc, out = sh(["coqc"] + args + [f], cwd=COQ, timeout=timeout)
                log.append("coqc %s -> %d\n%s" % (f, rc, out[-4000:]))
                if f == vfile:
                    last_out = out
                if rc != 0:
                    return False, "\n".join(log), last_out
    return True, "\n".join(log), last_out


FORBIDDEN = re.compile(r"\b(Admitted|admit|Axiom|Axioms|Parameter|Parameters|Conjecture|Admit Obligations|bypass_check)\b|Unset\s+Guard|Unset\s+Positivity|Unset\s+Universe|-type-in-type|impredicative-set")


def strip_coq_comments(text):
    out, depth, i = [], 0, 0
    while i < len(text):
        if text.startswith("(*", i):
            depth += 1; i += 2
        elif text.startswith("*)", i) and depth:
            depth -= 1; i += 2
        else:
            if depth == 0:
                out.append(text[i])
            elif text[i] == "\n":
                out.append("\n")
            i += 1
    return "".join(out)


def coq_static_scan(files):
    """forbidden vernacular, and Variable/Hypothesis outside a Section"""
    bad = []
    for f in files:
        text = strip_coq_comments(open(f).read())
        # drop string literals
        text = re.sub(r'"[^"]*"', '""', text)
        depth = 0
        for ln, line in enumerate(text.split("\n"), 1):
            if FORBIDDEN.search(line):
                bad.append("%s:%d: %s" % (os.path.relpath(f, ROOT), ln, line.strip()))
            if re.match(r"\s*Section\b", line):
                depth += 1
            elif re.match(r"\s*End\b", line) and depth:
                depth -= 1
            elif depth == 0 and re.match(r"\s*(Local\s+|Global\s+)?(Variable|Variables|Hypothesis|Hypotheses|Context)\b", line):
                bad.append("%s:%d: section-less %s" % (os.path.relpath(f, ROOT), ln, line.strip()))
    return bad


def coq_deps(vfile):
    """transitive project-local .v dependencies of a file, the file itself included"""
    return sorted(coq_topo(vfile))


def coq_properties(pid):
    """compile Properties_<pid>.v (after its dependencies), parse Print Assumptions.
    returns dict(ok, theorems=[{name, axioms}], log, files, obligations, static_bad)"""
    pf = "Properties_%s.v" % pid
    res = {"ok": False, "theorems": [], "log": "", "obligations": 0, "discharged": 0, "static_bad": [], "files": []}
    if not os.path.exists(os.path.join(COQ, pf)):
        res["log"] = "missing " + pf
        return res
    files = coq_deps(pf)
    res["files"] = files
    res["static_bad"] = coq_static_scan([os.path.join(COQ, f) for f in files])
    nthm = 0
    for f in files:
        t = strip_coq_comments(open(os.path.join(COQ, f)).read())
        nthm += len(re.findall(r"^\s*(?:Local\s+|Global\s+|#\[[^\]]*\]\s*)?(Theorem|Lemma|Corollary|Fact|Example|Proposition|Remark)\b", t, re.M))
    res["obligations"] = nthm
    ok, log, out = coq_build(pf, force_last=True)
    res["log"] = log
    if not ok:
        # count what did get through: every project file whose .vo exists and is fresh
        done = 0
        for f in files:
            vo = os.path.join(COQ, f + "o")
            if os.path.exists(vo) and os.path.getmtime(vo) >= os.path.getmtime(os.path.join(COQ, f)):
                t = strip_coq_comments(open(os.path.join(COQ, f)).read())
                done += len(re.findall(r"^\s*(?:Local\s+|Global\s+)?(Theorem|Lemma|Corollary|Fact|Example|Proposition|Remark)\b", t, re.M))
        res["discharged"] = done
        return res
    # the properties file itself is recompiled on every run: its output carries the Print Assumptions blocks
    out = out or ""
    names = re.findall(r"Print Assumptions\s+([\w.']+)\s*\.", strip_coq_comments(open(os.path.join(COQ, pf)).read()))
    blocks = re.split(r"(?m)^(?=Closed under the global context|Axioms:)", out)
    blocks = [b for b in blocks if b.startswith("Closed under") or b.startswith("Axioms:")]
    thms = []
    for i, n in enumerate(names):
        ax = []
        if i < len(blocks) and blocks[i].startswith("Axioms:"):
            ax = re.findall(r"(?m)^([A-Za-z_][\w.']*)\s*:", blocks[i][len("Axioms:"):])
        thms.append({"name": n, "axioms": ax})
    res["theorems"] = thms
    res["assumptions_parsed"] = len(blocks) == len(names)
    foreign = sorted({a for t in thms for a in t["axioms"] if a.split(".")[-1] not in ALLOWED_AXIOMS})
    res["foreign_axioms"] = foreign
    res["ok"] = (not res["static_bad"]) and not foreign and len(blocks) == len(names) and len(names) > 0
    res["discharged"] = nthm if res["ok"] else 0
    return res


def build_model_driver(pid):
    """extract the model (coq/<pid>/Extract.v -> coq/<pid>_model.ml) and link the generic OCaml driver"""
    low = pid.lower()
    ml = os.path.join(COQ, low + "_model.ml")
    vo = os.path.join(COQ, pid, "Extract.vo")
    if not os.path.exists(ml) and os.path.exists(vo):
        os.remove(vo)
    ok, log, _ = coq_build("%s/Extract.v" % pid, force_last=not os.path.exists(ml))
    if not ok or not os.path.exists(ml):
        raise TieBroken("model extraction failed:\n" + log[-3000:])
    if re.search(r"^val (run_model|run_tag|run_spec)\d+ :", open(ml + "i").read(), re.M):
        raise TieBroken("extraction renamed an entry point (name clash between two imported modules defining run_model/run_tag/run_spec): rename the inner one")
    d = os.path.join(BUILD, "ocaml", low)
    os.makedirs(d, exist_ok=True)
    exe = os.path.join(d, "model_driver")
    srcs = {"model.ml": ml, "model.mli": ml + "i", "driver.ml": os.path.join(ROOT, "ocaml", "driver.ml")}
    h = hashlib.sha256()
    for k in sorted(srcs):
        h.update(open(srcs[k], "rb").read())
    stamp = os.path.join(d, "stamp")
    if os.path.exists(exe) and os.path.exists(stamp) and open(stamp).read() == h.hexdigest():
        return exe
    with Lock("ocaml_" + low):
        for k, v in srcs.items():
            with open(os.path.join(d, k), "wb") as f:
                f.write(open(v, "rb").read())
        rc, out = sh(["ocamlfind", "ocamlopt", "-O3", "-w", "-a", "model.mli", "model.ml", "driver.ml", "-o", "model_driver"], cwd=d, timeout=600)
        if rc != 0:
            raise TieBroken("ocaml build failed:\n" + out[-3000:])
        open(stamp, "w").write(h.hexdigest())
    return exe


# ----------------------------------------------------------------------------- C++

CXX = os.environ.get("VERIF_CXX", "g++")
BASE_FLAGS = ["-std=gnu++17", "-DOPENTELEMETRY_ABI_VERSION_NO=1", "-D" + GUARD + "=1",
              "-I" + REPO + "/api/include", "-I" + REPO + "/sdk/include", "-I" + REPO + "/sdk", "-I" + REPO + "/ext/include",
              "-I" + os.path.join(ROOT, "harness"), "-Wno-deprecated-declarations"]
VARIANTS = {
    "san": ["-O1", "-g", "-fno-omit-frame-pointer", "-fsanitize=address,undefined", "-fno-sanitize-recover=all"],
    "plain": ["-O1", "-g"],
    "tsan": ["-O1", "-g", "-fsanitize=thread"],
}


def _obj_for(src, flags):
    """compile src with flags into build/obj/<sha256 of preprocessed TU + flags>.o ; returns (path, log or None)"""
    rc, pre = sh([CXX] + flags + ["-E", src], timeout=300)
    if rc != 0:
        return None, pre
    key = hashlib.sha256((" ".join(flags) + "\n" + pre).encode("utf-8", "replace")).hexdigest()
    objdir = os.path.join(BUILD_ROOT, "obj")
    os.makedirs(objdir, exist_ok=True)
    obj = os.path.join(objdir, key + ".o")
    if os.path.exists(obj):
        return obj, None
    tmp = obj + ".%d.tmp" % os.getpid()
    rc, out = sh([CXX] + flags + ["-c", src, "-o", tmp], timeout=900)
    if rc != 0:
        return None, out
    os.replace(tmp, obj)
    return obj, None


def sdk_sources():
    srcs = sorted(glob.glob(REPO + "/sdk/src/**/*.cc", recursive=True))
    return [s for s in srcs if not s.endswith("_windows.cc")]


def compile_many(srcs, flags):
    objs, errs = [], []
    with ThreadPoolExecutor(max_workers=NCPU) as ex:
        for src, (obj, log) in zip(srcs, ex.map(lambda s: _obj_for(s, flags), srcs)):
            if obj is None:
                errs.append("%s:\n%s" % (src, log[-3000:]))
            else:
                objs.append(obj)
    if errs:
        raise TieBroken("compilation against the current tree failed:\n" + "\n".join(errs[:3]))
    return objs


def build_driver(name, srcs, sdk=False, variant="san", extra_flags=(), extra_srcs=(), libs=("-lpthread",),
                 pre_flags=(), sdk_exclude=()):
    """compile harness sources (+ the SDK from the working tree when sdk=True) and link build/bin/<name>.
    pre_flags go in front of the repository's include paths (scratch copies made by tools/shimcopy.py);
    sdk_exclude drops SDK sources whose path ends with one of the given suffixes (replaced by extra_srcs)."""
    flags = list(pre_flags) + BASE_FLAGS + VARIANTS[variant] + list(extra_flags)
    all_srcs = [os.path.join(ROOT, s) if not os.path.isabs(s) else s for s in srcs] + list(extra_srcs)
    if sdk:
        all_srcs += [s for s in sdk_sources() if not any(s.endswith(x) for x in sdk_exclude)]
    objs = compile_many(all_srcs, flags)
    h = hashlib.sha256((" ".join(objs) + " ".join(flags)).encode()).hexdigest()[:16]
    bindir = os.path.join(BUILD_ROOT, "bin")
    os.makedirs(bindir, exist_ok=True)
    exe = os.path.join(bindir, "%s_%s" % (name, h))
    if not os.path.exists(exe):
        tmp = exe + ".%d.tmp" % os.getpid()
        rc, out = sh([CXX] + VARIANTS[variant] + objs + ["-o", tmp] + list(libs), timeout=600)
        if rc != 0:
            raise TieBroken("link failed:\n" + out[-3000:])
        os.replace(tmp, exe)
        _prune_bins(bindir, name)
    else:
        try:
            os.utime(exe, None)      # mark as recently used
        except OSError:
            pass
    return exe


def _prune_bins(bindir, name, keep=3, min_age_s=2 * 3600):
    """binaries are content-addressed and pile up (each ~90 MB with the SDK linked in): keep the newest few of a driver
    and anything used in the last two hours"""
    try:
        cands = [os.path.join(bindir, f) for f in os.listdir(bindir) if re.fullmatch(re.escape(name) + r"_[0-9a-f]{16}", f)]
        cands.sort(key=lambda p: os.path.getmtime(p), reverse=True)
        now = time.time()
        for p in cands[keep:]:
            if now - os.path.getmtime(p) > min_age_s:
                os.remove(p)
    except OSError:
        pass


SAN_ENV = {"ASAN_OPTIONS": "detect_leaks=1:abort_on_error=0:exitcode=99:allocator_may_return_null=1",
           "UBSAN_OPTIONS": "print_stacktrace=1:halt_on_error=1:exitcode=98", "LC_ALL": "C"}


# ----------------------------------------------------------------------------- misc

class XorShift:
    """the one PRNG every random choice derives from (seeded from VERIF_SEED)"""

    def __init__(self, seed):
        self.s = (seed * 0x9E3779B97F4A7C15 + 0x1234567) & 0xFFFFFFFFFFFFFFFF or 88172645463325252

    def next(self):
        x = self.s
        x ^= (x << 13) & 0xFFFFFFFFFFFFFFFF
        x ^= x >> 7
        x ^= (x << 17) & 0xFFFFFFFFFFFFFFFF
        self.s = x
        return x

    def below(self, n):
        return self.next() % n if n > 0 else 0

    def chance(self, num, den):
        return self.below(den) < num

    def choice(self, seq):
        return seq[self.below(len(seq))]

    def bytes(self, n):
        return bytes(self.below(256) for _ in range(n))

    def shuffle(self, l):
        for i in range(len(l) - 1, 0, -1):
            j = self.below(i + 1)
            l[i], l[j] = l[j], l[i]


def hx(b):
    if isinstance(b, str):
        b = b.encode("latin-1")
    return "x" + bytes(b).hex()


def load_known_findings(pid):
    p = os.path.join(ROOT, "known_findings.json")
    try:
        data = json.load(open(p))
    except OSError:
        return []
    return [f for f in data.get("findings", []) if f.get("property") == pid]
