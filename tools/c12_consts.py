"""C12 part of the constants translator (called from tools/extract_consts.py:main).

Reads from /repo's current sources: the trace-flag bit masks Tracer::StartSpan combines with the
sampling decision, the description literals of the built-in samplers, and the integer constant
CalculateThreshold multiplies the ratio with.  Anything not found raises Missing."""
import re


def nlist(b):
    return "[%s]" % "; ".join(str(x) for x in b)


def emit_c12(emit, find, src, join_literals, Missing):
    F = "api/include/opentelemetry/trace/trace_flags.h"
    vals = {}
    for name in ("kIsSampled", "kIsRandom"):
        m = find(F, r"static\s+constexpr\s+uint8_t\s+%s\s*=\s*(0[xX][0-9a-fA-F]+|\d+)\s*;" % name, name)
        vals[name] = int(m.group(1), 0)
    m = find(F, r"static\s+constexpr\s+uint8_t\s+kAllW3CTraceContext1Flags\s*=\s*([^;]+);", "kAllW3CTraceContext1Flags")
    v = 0
    for term in m.group(1).split("|"):
        term = term.strip()
        if term in vals:
            v |= vals[term]
        elif re.fullmatch(r"0[xX][0-9a-fA-F]+|\d+", term):
            v |= int(term, 0)
        else:
            raise Missing("value of kAllW3CTraceContext1Flags (term %r) in %s" % (term, F))
    emit("Definition c12_kIsSampled : Z := %d%%Z.   (* %s *)" % (vals["kIsSampled"], F))
    emit("Definition c12_kIsRandom : Z := %d%%Z.   (* %s *)" % (vals["kIsRandom"], F))
    emit("Definition c12_kAllW3CTraceContext1Flags : Z := %d%%Z.   (* %s *)" % (v, F))
    # which mask Tracer::StartSpan applies (the '#if 1' branch)
    T = "sdk/src/trace/tracer.cc"
    m = find(T, r"#if 1\b(?:(?!#endif).)*?flags\s*&=\s*opentelemetry::trace::TraceFlags::(\w+)\s*;", "active 'flags &=' mask in Tracer::StartSpan")
    if m.group(1) != "kAllW3CTraceContext1Flags":
        raise Missing("Tracer::StartSpan masking with kAllW3CTraceContext1Flags (found %s) in %s" % (m.group(1), T))

    for coq, rel, cls in (("c12_desc_always_on", "sdk/include/opentelemetry/sdk/trace/samplers/always_on.h", "AlwaysOnSampler"),
                          ("c12_desc_always_off", "sdk/include/opentelemetry/sdk/trace/samplers/always_off.h", "AlwaysOffSampler")):
        m = find(rel, r"GetDescription\(\)\s*const\s*noexcept\s*override\s*\{\s*return\s*(\"(?:[^\"\\]|\\.)*\")\s*;", cls + "::GetDescription literal")
        emit("Definition %s : list N := %s.   (* %s *)" % (coq, nlist(join_literals(m.group(1))), rel))
    P = "sdk/src/trace/samplers/parent.cc"
    m = find(P, r"description_\(\s*(\"(?:[^\"\\]|\\.)*\")\s*\+\s*std::string\{delegate_sampler->GetDescription\(\)\}\s*\+\s*(\"(?:[^\"\\]|\\.)*\")\s*\)",
             "ParentBasedSampler description_ initialiser")
    emit("Definition c12_desc_parent_prefix : list N := %s.   (* %s *)" % (nlist(join_literals(m.group(1))), P))
    emit("Definition c12_desc_parent_suffix : list N := %s.   (* %s *)" % (nlist(join_literals(m.group(2))), P))
    R = "sdk/src/trace/samplers/trace_id_ratio.cc"
    m = find(R, r"description_\s*=\s*(\"(?:[^\"\\]|\\.)*\")\s*\+\s*std::to_string\(ratio\)\s*\+\s*(\"(?:[^\"\\]|\\.)*\")\s*;", "TraceIdRatioBasedSampler description_")
    emit("Definition c12_desc_ratio_prefix : list N := %s.   (* %s *)" % (nlist(join_literals(m.group(1))), R))
    emit("Definition c12_desc_ratio_suffix : list N := %s.   (* %s *)" % (nlist(join_literals(m.group(2))), R))
    # the factor of CalculateThreshold:  const double product = UINT32_MAX * ratio;
    m = find(R, r"const\s+double\s+product\s*=\s*(\w+)\s*\*\s*ratio\s*;", "factor of 'product' in CalculateThreshold")
    factors = {"UINT32_MAX": 2 ** 32 - 1, "UINT64_MAX": 2 ** 64 - 1, "UINT16_MAX": 2 ** 16 - 1, "INT32_MAX": 2 ** 31 - 1}
    if m.group(1) not in factors:
        raise Missing("known integer macro as factor of 'product' (found %s) in %s" % (m.group(1), R))
    emit("Definition c12_threshold_factor : Z := %d%%Z.   (* %s: %s *)" % (factors[m.group(1)], R, m.group(1)))
    m = find(R, r"ldexp\(\s*modf\(product,\s*&hi_bits\)\s*,\s*(\d+)\s*\)", "ldexp exponent in CalculateThreshold")
    emit("Definition c12_threshold_shift : Z := %d%%Z.   (* %s *)" % (int(m.group(1)), R))
