"""C12 part of the constants translator (called from tools/extract_consts.py:main).

Reads from /repo's current sources: the trace-flag bit masks Tracer::StartSpan combines with the
sampling decision, the description literals of the built-in samplers, and the integer constant
CalculateThreshold multiplies the ratio with.  Anything not found raises Missing."""
import re


def nlist(b):
    return "[%s]" % "; ".join(str(x) for x in b)


def emit_c12(emit, find, src, join_literals, Missing):
    F = "api/include/opentelemetry/trace/trace_flags.h"
    vals = {}
    for name in ("kIsSampled", "kIsRandom"):
        m = find(F, r"static\s+constexpr\s+uint8_t\s+%s\s*=\s*(0[xX][0-9a-fA-F]+|\d+)\s*;" % name, name)
        vals[name] = int(m.group(1), 0)
    m = find(F, r"static\s+constexpr\s+uint8_t\s+kAllW3CTraceContext1Flags\s*=\s*([^;]+);", "kAllW3CTraceContext1Flags")
    v = 0
    for term in m.group(1).split("|"):
        term = term.strip()
        if term in vals:
            v |= vals[term]
        elif re.fullmatch(r"0[xX][0-9a-fA-F]+|\d+", term):
            v |= int(term, 0)
        else:
            raise Missing("value of kAllW3CTraceContext1Flags (term %r) in %s" % (term, F))
    emit("Definition c12_kIsSampled : Z := %d%%Z.   (* %s *)" % (vals["kIsSampled"], F))
    emit("Definition c12_kIsRandom : Z := %d%%Z.   (* %s *)" % (vals["kIsRandom"], F))
    emit("Definition c12_kAllW3CTraceContext1Flags : Z := %d%%Z.   (* %s *)" % (v, F))
    # which mask Tracer::StartSpan applies to the flags (code under '#if 0' is ignored)
    T = "sdk/src/trace/tracer.cc"
    live = re.sub(r"(?ms)^#if 0\b.*?^#endif", "", src(T))
    masks = re.findall(r"flags\s*&=\s*[\w:]*TraceFlags::(kAll\w+)\s*;", live)
    if masks != ["kAllW3CTraceContext1Flags"]:
        raise Missing("exactly one live 'flags &= TraceFlags::kAllW3CTraceContext1Flags' in Tracer::StartSpan (found %r) in %s" % (masks, T))

    for coq, rel, cls in (("c12_desc_always_on", "sdk/include/opentelemetry/sdk/trace/samplers/always_on.h", "AlwaysOnSampler"),
                          ("c12_desc_always_off", "sdk/include/opentelemetry/sdk/trace/samplers/always_off.h", "AlwaysOffSampler")):
        m = find(rel, r"GetDescription\(\)\s*const\s*noexcept\s*override\s*\{\s*return\s*(\"(?:[^\"\\]|\\.)*\")\s*;", cls + "::GetDescription literal")
        emit("Definition %s : list N := %s.   (* %s *)" % (coq, nlist(join_literals(m.group(1))), rel))
    LIT = r'"(?:[^"\\]|\\.)*"'
    P = "sdk/src/trace/samplers/parent.cc"
    # the description expressions: <literal> + <delegate description | to_string(ratio)> + <literal>, however it is spelled
    m = find(P, r"description_\s*[\(\{=]((?:%s|[^;\"])*?GetDescription\(\)(?:%s|[^;\"])*?)(?:\n\{|;)" % (LIT, LIT), "ParentBasedSampler description_ initialiser")
    lits = re.findall(LIT, m.group(1))
    if len(lits) != 2 or m.group(1).find(lits[0]) > m.group(1).find("GetDescription"):
        raise Missing("ParentBasedSampler description as literal + delegate description + literal in " + P)
    emit("Definition c12_desc_parent_prefix : list N := %s.   (* %s *)" % (nlist(join_literals(lits[0])), P))
    emit("Definition c12_desc_parent_suffix : list N := %s.   (* %s *)" % (nlist(join_literals(lits[1])), P))
    R = "sdk/src/trace/samplers/trace_id_ratio.cc"
    m = find(R, r"description_\s*[\(\{=]((?:%s|[^;\"])*?to_string\((?:%s|[^;\"])*?)(?:\n\{|;)" % (LIT, LIT), "TraceIdRatioBasedSampler description_")
    lits = re.findall(LIT, m.group(1))
    if len(lits) != 2 or m.group(1).find(lits[0]) > m.group(1).find("to_string"):
        raise Missing("TraceIdRatioBasedSampler description as literal + to_string + literal in " + R)
    emit("Definition c12_desc_ratio_prefix : list N := %s.   (* %s *)" % (nlist(join_literals(lits[0])), R))
    emit("Definition c12_desc_ratio_suffix : list N := %s.   (* %s *)" % (nlist(join_literals(lits[1])), R))
    # the factor and the shift of CalculateThreshold:  product = UINT32_MAX * ratio;  ldexp(modf(...), 32)
    # (tolerant of renamed locals and of an explicit cast / literal for the factor; the numeric values are what is pinned)
    body = find(R, r"uint64_t\s+CalculateThreshold\s*\(\s*double\s+(\w+)\s*\)[^{]*\{(.*?)\n\}", "body of CalculateThreshold")
    arg, text = body.group(1), body.group(2)
    text = re.sub(r"//[^\n]*", "", text)
    m = re.search(r"=\s*([^;=]*?)\s*\*\s*%s\s*;" % arg, text) or re.search(r"=\s*%s\s*\*\s*([^;=]*?)\s*;" % arg, text)
    if not m:
        raise Missing("the product '<factor> * %s' in CalculateThreshold in %s" % (arg, R))
    f = m.group(1).strip()
    f = re.sub(r"^static_cast\s*<\s*double\s*>\s*\((.*)\)$", r"\1", f)
    f = re.sub(r"^\(\s*double\s*\)\s*", "", f).strip()
    factors = {"UINT32_MAX": 2 ** 32 - 1, "UINT64_MAX": 2 ** 64 - 1, "UINT16_MAX": 2 ** 16 - 1, "INT32_MAX": 2 ** 31 - 1, "INT64_MAX": 2 ** 63 - 1}
    if f in factors:
        v = factors[f]
    elif re.fullmatch(r"(\d+)(?:\.0*)?(?:[uU]?[lL]{0,2}|[lL]{0,2}[uU]?)", f):
        v = int(re.match(r"\d+", f).group(0))
    elif re.fullmatch(r"0[xX][0-9a-fA-F]+(?:[uU]?[lL]{0,2})", f):
        v = int(re.match(r"0[xX][0-9a-fA-F]+", f).group(0), 16)
    else:
        raise Missing("a recognisable integer factor of the product in CalculateThreshold (found %r) in %s" % (f, R))
    emit("Definition c12_threshold_factor : Z := %d%%Z.   (* %s: %s *)" % (v, R, f))
    m = re.search(r"ldexp\s*\((.*),\s*(\d+)\s*\)", text)
    if not m:
        raise Missing("ldexp(<fraction>, <n>) in CalculateThreshold in %s" % R)
    emit("Definition c12_threshold_shift : Z := %d%%Z.   (* %s *)" % (int(m.group(2)), R))
