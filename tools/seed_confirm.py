#!/usr/bin/env python3
"""Confirm a seeded change independently: in a scratch worktree with its own build directory
(default /tmp/wt_seedeval, built once with `cmake -G Ninja -DCMAKE_BUILD_TYPE=RelWithDebInfo`):
  1. unpatched tree: the demonstration passes (exit 0);
  2. patched tree: it compiles, the repository's own test suite passes, the demonstration fails.
usage: tools/seed_confirm.py seeded/<id> [...]      writes seeded/<id>/confirm.json"""
import json, os, re, shutil, subprocess, sys, time

WT = os.environ.get("SEED_WT", "/tmp/wt_seedeval")
BASE = json.load(open("/root/.vp/BASELINE.json"))


def sh(cmd, timeout=3600):
    r = subprocess.run(cmd, shell=True, stdout=subprocess.PIPE, stderr=subprocess.STDOUT, text=True, timeout=timeout)
    return r.returncode, r.stdout


def demo(name):
    rc, out = sh("cd %s && sh %s/demo.sh" % (WT, name), timeout=1800)
    return rc, out[-1500:]


def main():
    for sd in sys.argv[1:]:
        sd = os.path.abspath(sd)
        name = "out2" if sd.rstrip("/")[-2:] in ("_b", "_d", "_f", "_h") else "out"
        res = {"seed": os.path.basename(sd), "at": time.strftime("%F %T")}
        sh("git -C %s checkout -- . && rm -rf %s/out %s/out2" % (WT, WT, WT))
        shutil.copytree(sd, os.path.join(WT, name))
        sh("cmake --build %s/_build -j 8 2>&1 | tail -2" % WT)
        rc0, o0 = demo(name)
        res["demo_unpatched"] = {"exit": rc0, "tail": o0[-600:]}
        rc, out = sh("git -C %s apply %s/patch.diff" % (WT, sd))
        if rc != 0:
            res["error"] = "patch does not apply: " + out[-300:]
        else:
            rcb, ob = sh("cmake --build %s/_build -j 8 2>&1 | tail -15" % WT)
            res["build_patched"] = {"exit": rcb, "tail": ob[-500:]}
            rct, ot = sh("ctest --test-dir %s/_build -j8 --timeout 900 2>&1 | tail -40" % WT)
            failed = re.findall(r"^\s*\d+ - (\S+) \(", ot, re.M)
            m = re.search(r"(\d+)% tests passed, (\d+) tests failed out of (\d+)", ot)
            res["suite_patched"] = {"summary": m.group(0) if m else ot[-300:], "failed": failed}
            rc1, o1 = demo(name)
            res["demo_patched"] = {"exit": rc1, "tail": o1[-800:]}
            res["confirmed"] = bool(rc0 == 0 and rcb == 0 and m and int(m.group(2)) == 0 and rc1 != 0)
        sh("git -C %s checkout -- . && rm -rf %s/out %s/out2" % (WT, WT, WT))
        json.dump(res, open(os.path.join(sd, "confirm.json"), "w"), indent=1)
        print(os.path.basename(sd), "confirmed" if res.get("confirmed") else "NOT CONFIRMED",
              res.get("demo_unpatched", {}).get("exit"), res.get("suite_patched", {}).get("summary"), res.get("demo_patched", {}).get("exit"))


if __name__ == "__main__":
    main()
