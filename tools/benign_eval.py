#!/usr/bin/env python3
"""Run the checks against behaviour-preserving rewrites (benign/<id>/benign_k.diff, written by independent sub-agents from
docs/BENIGN_BRIEF.md): every check is expected to stay quiet (exit 0, no VIOLATION line).

usage: tools/benign_eval.py benign/<id> [Cnn ...]     (default property: the one in meta.json)
Each diff is applied on its own to a scratch worktree of /repo (SEED_WT, default /tmp/wt_seedcheck), `VERIF_REPO=<worktree>
./check Cnn` is run, the worktree is reset.  Results go to benign/<id>/check_results.json."""
import glob, json, os, subprocess, sys, time

ROOT = os.path.dirname(os.path.dirname(os.path.abspath(__file__)))


def sh(cmd, **kw):
    return subprocess.run(cmd, stdout=subprocess.PIPE, stderr=subprocess.STDOUT, text=True, **kw)


def main():
    bd = os.path.abspath(sys.argv[1])
    meta = json.load(open(os.path.join(bd, "meta.json")))
    props = sys.argv[2:] or [meta["property"]]
    wt = os.environ.get("SEED_WT", "/tmp/wt_seedcheck")
    if not os.path.isdir(wt):
        print(sh(["git", "-C", "/repo", "worktree", "add", "-f", "--detach", wt, "HEAD"]).stdout)
    head = sh(["git", "-C", "/repo", "rev-parse", "HEAD"]).stdout.strip()
    results = {}
    for diff in sorted(glob.glob(os.path.join(bd, "benign_*.diff"))):
        name = os.path.basename(diff)
        sh(["git", "-C", wt, "checkout", "--", "."])
        sh(["git", "-C", wt, "checkout", "-q", "--detach", head])
        r = sh(["git", "-C", wt, "apply", diff])
        if r.returncode != 0:
            results[name] = {"error": "patch does not apply: " + r.stdout[-300:]}
            print(name, "does not apply")
            continue
        results[name] = {}
        try:
            for pid in props:
                env = dict(os.environ, VERIF_REPO=wt)
                t0 = time.time()
                c = sh([os.path.join(ROOT, "check"), pid], cwd=ROOT, env=env)
                lines = [l[:400] for l in c.stdout.split("\n") if l.startswith("VIOLATION")]
                rec = {"exit": c.returncode, "violations": lines, "wall_s": round(time.time() - t0, 1)}
                for l in lines:
                    if "replay=" in l:
                        try:
                            d = json.load(open(l.split("replay=")[1].split()[0]))
                            rec["kind"] = d.get("kind")
                            rec["detail"] = (str(d.get("failed_clauses") or d.get("detail") or ""))[:400]
                            rec["case"] = (d.get("case") or "")[:300]
                        except Exception:
                            pass
                results[name][pid] = rec
                print(name, pid, "quiet" if c.returncode == 0 and not lines else "ALARM: " + " ; ".join(lines)[:300])
        finally:
            sh(["git", "-C", wt, "checkout", "--", "."])
    json.dump(results, open(os.path.join(bd, "check_results.json"), "w"), indent=1)
    return 0


if __name__ == "__main__":
    sys.exit(main())
