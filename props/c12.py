"""C12 - sampling is consistent (ratio / parent-based / always-on / always-off samplers).  Case generator and configuration.

Case format: coq/C12/Glue.v.  Doubles travel as the integer holding their IEEE-754 bit pattern."""
import math, struct
from tools.vlib import hx

ID = "C12"
LEVEL = "proof"
DRIVER = {"srcs": ["harness/c12_driver.cc"], "sdk": True}
TRIVIAL_TAGS = {"BADCASE"}
ASSUMPTIONS = [
    "NaN ratios are outside the property's domain (its quantifier ranges over ratios in [0,1] and out-of-range ratios below 0 and above 1): "
    "TraceIdRatioBasedSampler(NaN) converts NaN to uint64_t, which is undefined behaviour in C++; the driver never constructs it, the theorems exclude NaN explicitly; "
    "+inf behaves as ratio >= 1, -inf as ratio <= 0 (generated and checked)",
    "double arithmetic of the build is IEEE-754 binary64 with round-to-nearest-even, no excess precision and no fused multiply-add: the model rounds "
    "`UINT32_MAX * ratio` and `ldexp(...) + product` separately, as the x86-64 baseline (SSE2, no FMA instructions) does; a target with FMA and GCC's default "
    "-ffp-contract=fast could fuse the two and is outside the model; libm modf/ldexp are exact; tied by the bit-exact comparison of threshold_ on every run",
    "the host is little-endian (memcpy of the first 8 trace-id bytes into a uint64_t); tied by the correspondence run",
    "trace states are represented by their header text; the generator only produces headers h with ToHeader(FromHeader(h)) = h (distinct simple keys, at most 4 members)",
    "SPAN cases: no span is active on the driver's thread (the parent comes from StartSpanOptions::parent as a SpanContext); SPANCX cases: the thread's current "
    "context and the Context given as options.parent are built by the driver with Context::SetValue(kIsRootSpanKey, ..) and trace::SetSpan(.., DefaultSpan(parent)); "
    "which span IS the parent is taken from the documentation of StartSpanOptions::parent (span in the context first, is_root_span marker second, then the active span)",
    "`consults its root sampler only for spans without a valid parent` is observed with a call-counting Sampler wrapped around the delegate",
    "the description text of TraceIdRatioBasedSampler goes through std::to_string(double) (printf %f); the model assumes glibc's correctly rounded, ties-to-even conversion; not part of the property, only of the correspondence",
]
TRUSTED = ["model coq/C12/Ratio.v + coq/C12/Model.v is hand-written (Flocq binary64 transcription of CalculateThreshold); tied by this correspondence run",
           "Flocq 4.1.0 (IEEE754.BinarySingleNaN, Bits) and, through it, the axioms of Coq's real numbers"]

U64 = (1 << 64) - 1
U32 = (1 << 32) - 1


def bits(d):
    return struct.unpack("<Q", struct.pack("<d", d))[0]


def dbl(b):
    return struct.unpack("<d", struct.pack("<Q", b & U64))[0]


def is_nan_bits(b):
    return (b >> 52) & 0x7FF == 0x7FF and (b & ((1 << 52) - 1)) != 0


def thr(r):
    """CalculateThreshold in Python doubles - used ONLY to aim trace ids at the decision boundary, never as an oracle"""
    if r <= 0.0:
        return 0
    if r >= 1.0:
        return U64
    p = U32 * r
    frac, hi = math.modf(p)
    lo = math.ldexp(frac, 32) + p
    return ((int(hi) << 32) + int(lo)) & U64


SPECIAL = [0.0, -0.0, 1.0, 5e-324, 1e-323, 2.2250738585072009e-308, 2.2250738585072014e-308, 1.0 - 2.0 ** -53, 1.0 - 2.0 ** -52,
           1.0 + 2.0 ** -52, 2.0 ** -53, 2.0 ** -54, 2.0 ** -52, 2.0 ** -64, 2.0 ** -63, 2.0 ** -65, 2.0 ** -32, 2.0 ** -31, 2.0 ** -33,
           1.0 / U32, 2.0 / U32, 0.5, 0.25, 0.75, 0.01, 0.1, 1e-7, 5e-7, 0.0078125, 0.9999995, 0.99999949999, 1.5e-6, 2.5e-6,
           float("inf"), float("-inf"), 2.0, -1.0, 1e300, -1e-300, -5e-324, 1.7976931348623157e308, -1.7976931348623157e308,
           0.5 - 2.0 ** -54, 0.5 + 2.0 ** -53, (U32 - 1.0) / U32, (U32 - 0.5) / U32, 0.999999999767, 0.9999999997671694]


def nudge(rng, b, span=3):
    """a bit pattern a few ulps away (never a NaN)"""
    b2 = (b + rng.below(2 * span + 1) - span) & U64
    return b if is_nan_bits(b2) else b2


def rnd_ratio_bits(rng):
    k = rng.below(16)
    if k == 0:
        return bits(rng.choice(SPECIAL))
    if k == 1:
        return nudge(rng, bits(rng.choice(SPECIAL)), 4)
    if k == 2:      # neighbourhood of a power of two, all exponents down to the subnormals
        e = rng.choice([rng.below(70), rng.below(1075), 1000 + rng.below(75)])
        return nudge(rng, bits(math.ldexp(1.0, -e)) if e <= 1074 else 0, 3)
    if k in (3, 4, 5):   # bucket crossings: product = (2^32-1)*r crosses an integer
        j = rng.choice([1, 2, 3, rng.below(U32), rng.below(U32), rng.below(1 << 20), U32 - 1 - rng.below(4), U32 - rng.below(1 << 16)])
        return nudge(rng, bits(j / float(U32)), 3)
    if k == 6:      # within 2^-53 .. 2^-40 of 1 and of 0
        return bits(1.0) - 1 - rng.below(1 << rng.below(14)) if rng.chance(1, 2) else rng.below(1 << rng.below(14)) + (1 if rng.chance(1, 2) else bits(2.2250738585072014e-308) - 8)
    if k == 7:      # subnormals
        return rng.below(1 << 52)
    if k == 8:      # out of range
        return rng.choice([bits(1.0) + 1 + rng.below(1 << 30), bits(-1.0) - rng.below(1 << 30), (1 << 63) | rng.below(1 << 62),
                           bits(1.0) + (rng.below(1 << 62) % (bits(float("inf")) - bits(1.0)))])
    if k in (9, 10):   # uniform in [0,1)
        return bits(rng.below(1 << 53) / float(1 << 53))
    if k == 11:     # product below one: the whole threshold comes from the low word
        return bits(rng.below(1 << 53) / float(1 << 53) / float(1 << (31 + rng.below(12))))
    if k == 12:     # small exponents
        return bits(math.ldexp(0.5 + rng.below(1 << 52) / float(1 << 53), -rng.below(80)))
    if k == 13:     # short mantissas (exact products)
        return bits(rng.below(1 << 10) / 1024.0)
    # any bit pattern that is not a NaN
    b = rng.next() & U64
    return bits(0.3) if is_nan_bits(b) else b


def tid_with_prefix(rng, v):
    """16-byte trace id whose first 8 bytes hold v little-endian"""
    tail = rng.choice([bytes(8), rng.bytes(8), b"\xff" * 8])
    return struct.pack("<Q", v & U64) + tail


def rnd_tid(rng, aim=None):
    k = rng.below(12)
    if aim is not None and k < 6:
        d = rng.choice([0, 1, -1, 2, -2, 1023, 1024, 1025, -1024, 2048, -2048, 4096, rng.below(1 << 12) - (1 << 11), rng.below(1 << 33) - (1 << 32)])
        return tid_with_prefix(rng, min(U64, max(0, aim + d)))
    if k == 6:
        return tid_with_prefix(rng, rng.choice([0, 1, 2, U64, U64 - 1, U64 - 1023, U64 - 1024, U64 - 1025, U64 - 2047, U64 - 2048, U64 - 2049,
                                                1 << 63, (1 << 63) - 1, (1 << 53), (1 << 53) + 1, (1 << 32), (1 << 32) - 1]))
    if k == 7:
        return tid_with_prefix(rng, U64 - rng.below(4096))       # the region where (double)id rounds up to 2^64
    if k == 8:
        return tid_with_prefix(rng, rng.below(1 << rng.below(65)))
    if k == 9:      # only the bytes after the first eight differ from zero
        return bytes(8) + rng.bytes(8)
    return rng.bytes(16)


TS = [b"", b"", b"a=1", b"k1=v1,k2=v2", b"vendor=opaque-value,z9=q", b"foo=bar,baz=42,k=x,y=z", b"congo=t61rcWkgMzE"]


def rnd_parent(rng, flags=None, force=None):
    """<tid> <sid> <flags> <remote> <ts>; force in (None, 'valid', 'invalid')"""
    k = rng.below(8) if force is None else (0 if force == "invalid" else 7)
    if force == "invalid":
        k = rng.below(3)
    tid = rng.bytes(16)
    sid = rng.bytes(8)
    if tid == bytes(16):
        tid = b"\x01" + bytes(15)
    if sid == bytes(8):
        sid = b"\x01" + bytes(7)
    if force != "valid":
        if k == 0:
            tid, sid = bytes(16), bytes(8)
        elif k == 1:
            tid = bytes(16)
        elif k == 2:
            sid = bytes(8)
    if force != "invalid" and k == 3:       # one single bit set somewhere
        tid = bytearray(16); tid[rng.below(16)] = 1 << rng.below(8); tid = bytes(tid)
        sid = bytearray(8); sid[rng.below(8)] = 1 << rng.below(8); sid = bytes(sid)
    f = rng.below(256) if flags is None else flags
    return "%s %s %d %d %s" % (hx(tid), hx(sid), f, rng.below(2), hx(rng.choice(TS)))


def rnd_extra(rng):
    name = rng.choice([b"", b"span", b"a b", rng.bytes(rng.below(12))])
    return "%s %d %d %d" % (hx(name), rng.below(5), rng.below(4), rng.below(3))


def rnd_leaf(rng):
    k = rng.below(5)
    if k == 0:
        return "ON"
    if k == 1:
        return "OFF"
    return "RATIO %d" % rnd_ratio_bits(rng)


def rnd_sampler(rng):
    return "PB " * rng.choice([0, 0, 0, 1, 1, 2, 3]) + rnd_leaf(rng)


def aim_of_sampler(s):
    t = s.split()
    if "RATIO" in t:
        return thr(dbl(int(t[-1])))
    return None


def mono(b1, b2, tid):
    return "MONO %d %d %s" % (b1, b2, hx(tid))


def rnd_pair(rng):
    k = rng.below(10)
    b1 = rnd_ratio_bits(rng)
    if k < 3:       # adjacent doubles
        b2 = b1 + 1 if not is_nan_bits(b1 + 1) and (b1 + 1) & U64 == b1 + 1 else b1
    elif k < 5:
        b2 = nudge(rng, b1, 6)
    elif k == 5:
        b2 = b1
    elif k == 6:    # +0 / -0 and sign flips
        b2 = b1 ^ (1 << 63)
    elif k == 7:    # next bucket
        r = dbl(b1)
        b2 = bits(min(1.0, max(0.0, r) + rng.choice([1.0, 0.5, 2.0, 1e-3]) / U32))
    else:
        b2 = rnd_ratio_bits(rng)
    if rng.chance(1, 2):
        b1, b2 = b2, b1
    return b1, b2


def ctx_shape(rng, kind):
    """a span context of a given kind: vs/vu = valid sampled/unsampled, r/l = remote/local, inv = invalid; other flag bits random"""
    if kind == "NONE":
        return "NONE"
    tid, sid = rng.bytes(16), rng.bytes(8)
    if tid == bytes(16):
        tid = b"\x01" + bytes(15)
    if sid == bytes(8):
        sid = b"\x01" + bytes(7)
    if kind == "inv":
        k = rng.below(3)
        if k != 1:
            tid = bytes(16)
        if k != 0:
            sid = bytes(8)
        return "%s %s %d %d %s" % (hx(tid), hx(sid), rng.below(256), rng.below(2), hx(rng.choice(TS)))
    f = (rng.below(128) << 1) | (1 if kind[1] == "s" else 0)
    return "%s %s %d %d %s" % (hx(tid), hx(sid), f, 1 if kind[2] == "r" else 0, hx(rng.choice(TS)))


SPAN_KINDS = ["NONE", "vsr", "vsl", "vur", "vul", "inv"]


def spancx(rng, s, cur_marker, cur_kind, arg):
    aim = aim_of_sampler(s)
    return "SPANCX %s | %d %s | %s | %s %d %s" % (s, cur_marker, ctx_shape(rng, cur_kind), arg, hx(rnd_tid(rng, aim)), rng.below(2), rnd_extra(rng))


def rnd_arg(rng):
    k = rng.below(8)
    if k == 0:
        return "IMPL"
    if k == 1:
        return "CUR"
    if k == 2:
        return "SC " + ctx_shape(rng, rng.choice(SPAN_KINDS[1:]))
    return "CX %d %s" % (rng.choice([0, 1, 1, 1, 2]), ctx_shape(rng, rng.choice(SPAN_KINDS)))


def gen_spancx(rng, n):
    out = []
    mid = [bits(0.5), bits(0.25), bits(0.01), bits(0.9)]
    roots = ["ON", "OFF", "RATIO %d" % bits(0.0), "RATIO %d" % bits(1.0)] + ["RATIO %d" % b for b in mid[:2]]
    samplers = ["PB " + r for r in roots] + ["PB PB OFF", "PB PB RATIO %d" % mid[0], "ON", "OFF", "RATIO %d" % mid[0]]
    # every parent-context shape for every parent-based configuration, passed as an explicit Context and as the current context
    for s in samplers:
        for m in (0, 1, 2):
            for k in SPAN_KINDS:
                out.append(spancx(rng, s, rng.choice([0, 1, 2]), rng.choice(SPAN_KINDS), "CX %d %s" % (m, ctx_shape(rng, k))))
                out.append(spancx(rng, s, m, k, "CUR"))
                out.append(spancx(rng, s, m, k, "IMPL"))
        for k in SPAN_KINDS[1:]:
            out.append(spancx(rng, s, rng.choice([0, 1, 2]), rng.choice(SPAN_KINDS), "SC " + ctx_shape(rng, k)))
    for _ in range(150 * n):
        s = "PB " * rng.choice([0, 1, 1, 1, 2]) + rnd_leaf(rng)
        out.append(spancx(rng, s, rng.choice([0, 1, 1, 2]), rng.choice(SPAN_KINDS), rnd_arg(rng)))
    return out


def gen(rng, tier):
    n = 4 if tier == "quick" else 40
    cases = []
    # thresholds: every special value and its neighbours, then the structured random stream
    for d in SPECIAL:
        b = bits(d)
        for db in (-2, -1, 0, 1, 2):
            if 0 <= b + db <= U64 and not is_nan_bits(b + db):
                cases.append("THR %d" % (b + db))
    for e in range(0, 1076, 1 if tier == "thorough" else 7):
        b = bits(math.ldexp(1.0, -e)) if e <= 1074 else 0
        for db in (-1, 0, 1):
            if b + db >= 0:
                cases.append("THR %d" % (b + db))
    for _ in range(1000 * n):
        cases.append("THR %d" % rnd_ratio_bits(rng))
    # monotonicity: pairs of ratios, ids aimed at the two thresholds
    for _ in range(2000 * n):
        b1, b2 = rnd_pair(rng)
        aim = thr(dbl(rng.choice([b1, b2])))
        cases.append(mono(b1, b2, rnd_tid(rng, aim)))
    for d in SPECIAL:      # every special against every neighbour class, ids at the edge
        b1 = bits(d)
        for b2 in (b1, b1 + 1 if not is_nan_bits(b1 + 1) and b1 + 1 <= U64 else b1, bits(rng.choice(SPECIAL))):
            cases.append(mono(b1, b2, rnd_tid(rng, thr(d))))
    # single calls: every sampler shape x parent kind
    for _ in range(800 * n):
        s = rnd_sampler(rng)
        cases.append("SS %s | %s | %s %s" % (s, rnd_parent(rng), hx(rnd_tid(rng, aim_of_sampler(s))), rnd_extra(rng)))
    # parent-based with a counting delegate: every flags byte, valid and invalid parents, every delegate kind
    for f in range(256):
        s = rnd_sampler(rng)
        cases.append("PB %s | %s | %s %s" % (s, rnd_parent(rng, f, "valid"), hx(rnd_tid(rng, aim_of_sampler(s))), rnd_extra(rng)))
        if f % 4 == 0 or tier == "thorough":
            s = rnd_sampler(rng)
            cases.append("PB %s | %s | %s %s" % (s, rnd_parent(rng, f, "invalid"), hx(rnd_tid(rng, aim_of_sampler(s))), rnd_extra(rng)))
    for _ in range(250 * n):
        s = rnd_sampler(rng)
        cases.append("PB %s | %s | %s %s" % (s, rnd_parent(rng), hx(rnd_tid(rng, aim_of_sampler(s))), rnd_extra(rng)))
    # independence of everything but (trace id, ratio)
    for _ in range(400 * n):
        b = rnd_ratio_bits(rng)
        cases.append("DEP %d %s | %s %s | %s %s" % (b, hx(rnd_tid(rng, thr(dbl(b)))), rnd_parent(rng), rnd_extra(rng), rnd_parent(rng), rnd_extra(rng)))
    # spans started through a Tracer
    for _ in range(400 * n):
        s = rnd_sampler(rng)
        cases.append("SPAN %s | %s | %s %d %s" % (s, rnd_parent(rng), hx(rnd_tid(rng, aim_of_sampler(s))), rng.below(2), rnd_extra(rng)))
    # the parent arrives through contexts (explicit Context / current context, with and without the is_root_span marker)
    cases += gen_spancx(rng, n)
    # descriptions
    for s in ("ON", "OFF", "PB ON", "PB OFF", "PB PB ON", "PB PB PB OFF"):
        cases.append("DESC " + s)
    for d in SPECIAL:
        cases.append("DESC RATIO %d" % bits(d))
    for _ in range(120 * n):
        k = rng.below(4)
        if k == 0:      # decimal ties and near-ties of the 6-digit rounding
            j = rng.below(1000000)
            b = nudge(rng, bits((j + 0.5) / 1e6), 2)
        elif k == 1:
            b = bits(rng.below(1 << 20) / float(1 << 20))
        else:
            b = rnd_ratio_bits(rng)
        cases.append("DESC %sRATIO %d" % ("PB " * rng.below(3), b))
    return cases


def neighbours(rng, cases):
    out = []
    for c in cases:
        t = c.split()
        if t[0] == "THR":
            b = int(t[1])
            for _ in range(200):
                out.append("THR %d" % nudge(rng, b, 50))
        elif t[0] == "MONO":
            b1, b2 = int(t[1]), int(t[2])
            tid = bytes.fromhex(t[3][1:])
            v = struct.unpack("<Q", tid[:8])[0]
            for _ in range(200):
                out.append(mono(nudge(rng, b1, 8), nudge(rng, b2, 8), tid_with_prefix(rng, min(U64, max(0, v + rng.below(8193) - 4096)))))
        elif t[0] == "SPANCX":
            for _ in range(40):
                out.append(spancx(rng, c.split(" | ")[0][len("SPANCX "):], rng.choice([0, 1, 2]), rng.choice(SPAN_KINDS), rnd_arg(rng)))
        elif t[0] in ("SS", "PB", "SPAN"):
            i = t.index("|")
            for f in range(0, 256, 3):
                u = list(t)
                u[i + 3] = str(f)
                out.append(" ".join(u))
    return out


def shrink(case):
    t = case.split()
    if t[0] == "MONO":
        yield "MONO %s %s %s" % (t[1], t[2], hx(bytes.fromhex(t[3][1:])[:8] + bytes(8)))
    elif t[0] in ("SS", "PB", "SPAN"):
        # drop the ignored arguments
        u = list(t)
        u[-4:] = ["x", "0", "0", "0"]
        yield " ".join(u)
        while u[1] == "PB" and u[2] in ("PB", "ON", "OFF", "RATIO") and t[0] != "PB":
            u = [u[0]] + u[2:]
            yield " ".join(u)


LEVEL_TEXT = ("Theorems in coq/Properties_C12.v about a bit-exact Flocq binary64 model of CalculateThreshold and Gallina models of the four built-in "
              "samplers and the sampling part of Tracer::StartSpan: the threshold is monotone in the ratio over all non-NaN doubles and never wraps, "
              "hence a trace sampled at a ratio is sampled at every larger ratio; ratio <= 0 samples nothing, ratio >= 1 everything; the decision is a "
              "function of (first 8 trace-id bytes, ratio) only; the parent-based four-way table; always-on/off constant.  The model is tied to the C++ on "
              "every run: threshold_ and decisions of the rebuilt ASan/UBSan driver are compared bit for bit with the extracted model on generated ratios "
              "(adjacent doubles around 0, 1, powers of two, subnormals, bucket crossings, out of range, infinities) and trace ids aimed at the decision "
              "boundary, and the extracted SPEC is run on the implementation's outputs.")
LEVEL_NOTE = ("Trusted: Coq kernel, Flocq 4.1.0 and the standard-library axioms of the real numbers it uses, extraction, ocaml/driver.ml, the C++ driver "
              "(reads the private threshold_ member), the generator, tools/extract_consts.py + tools/c12_consts.py; the model is hand-written (tied by "
              "correspondence, not verified against C++ semantics); NaN ratios are undefined behaviour in the C++ and excluded.")
