"""C14 - TraceState stays a valid, duplicate-free W3C list under every update.  Case generator and configuration.

case:  H x<header> { | SET i xk xv | DEL i xk | RT i | FH xh | GET i xk | HDR i | EMPTY i }
Object 0 is FromHeader(header); SET/DEL/RT/FH append a new object; i addresses ANY earlier object.
The python reference below only STEERS the generator (so that keys already present and the 32-member
limit are hit often); it decides nothing."""
import re
from tools.vlib import hx

ID = "C14"
LEVEL = "proof"
DRIVER = {"srcs": ["harness/c14_driver.cc", "harness/c14_purity.cc"], "sdk": False}


def build_driver():
    """the ASan/UBSan case driver + the ThreadSanitizer purity probe (clang++), behind one dispatcher that behaves like a
    single case driver: PURITY lines go to the probe (one process per line), everything else to the case driver"""
    from tools import vlib, purity
    main = vlib.build_driver("c14_driver", ["harness/c14_driver.cc"], sdk=False)
    probe = purity.build_probe("c14_purity", ["harness/c14_purity.cc"])
    return purity.make_dispatcher("c14_dispatch", main, probe)


def purity_cases(tier):
    # PURITY <members of the shared TraceState> <threads> <rounds (fresh shared objects each)> <iterations of every op per round>
    k = 1 if tier == "quick" else 5
    return ["PURITY 0 4 %d 4" % (150 * k), "PURITY 1 4 %d 4" % (150 * k), "PURITY 8 4 %d 3" % (120 * k), "PURITY 32 3 %d 2" % (60 * k)]

TRIVIAL_TAGS = {"hdr_empty", "ops_none"}
ASSUMPTIONS = [
    "the model treats every TraceState operation as a PURE function of immutable values (objects are lists); this is NOT a theorem about the C++: it is probed "
    "at run time on every check by harness/c14_purity.cc (clang ThreadSanitizer build; 3-4 real threads released by a barrier call ToHeader, Get, Set of an "
    "existing/new/invalid key, Delete, GetAllEntries, Empty, the static IsValidKey/IsValidValue, FromHeader on shared header strings and the shared GetDefault() "
    "singleton on FRESH shared objects with 0/1/8/32 members every round, results compared with a single-threaded reference; clauses purity:data_race, "
    "purity:result_differs); per-thread hidden state is the business of the history cases, not of this probe",
    "std::regex (ECMAScript, no multiline) and isspace behave as modelled in the C locale; the three regex literals are re-translated from trace_state.h on every run",
    "`right--` in StringUtil::Trim never wraps below 0 (proved unreachable in the index-level model: trim_ix_never_underflows is implied by tokenizer_refines_split; the model itself saturates)",
    "'the original object is never modified' is observed by re-reading every earlier object (entries, ToHeader, Empty) after every operation; in the model objects are values, so the statement is the store-append lemma original_unchanged",
    "memory safety on arbitrary bytes is evidenced by the ASan/UBSan build (all strings are handed over as exact-size heap blocks without a terminating NUL), not by a theorem",
    "all operations of a case, and all cases of a file, run on one thread of one driver process in the given order and the driver keeps no per-op state of its own (re-reading objects calls no validator); the model is a stateless function, so validators that carry state across calls (memo/caches) are exposed by the history cases (value role then key role of the same bytes); only the regex validators are compiled in this configuration (OPENTELEMETRY_HAVE_WORKING_REGEX), the NonRegEx variants are not exercised",
    "FromHeader does not reject a header that repeats a key (the property text does not ask for it); duplicate-freedom is proved as preserved by Set/Delete and as 'Set never produces a second member with the key it sets'",
]
TRUSTED = ["model coq/C14/Impl.v (index/capacity level) is hand-written; tied to the C++ by this correspondence run and proved equal to coq/C14/Model.v"]

KEY_RE = re.compile(rb"[a-z0-9][a-z0-9*_\-/]{0,255}\Z")
KEY_MT_RE = re.compile(rb"[a-z0-9][a-z0-9*_\-/]{0,240}@[a-z0-9][a-z0-9*_\-/]{0,13}\Z")
VAL_RE = re.compile(rb"[\x20-\x2B\x2D-\x3C\x3E-\x7E]{0,255}[\x21-\x2B\x2D-\x3C\x3E-\x7E]\Z")


def vkey(k):
    return bool(KEY_RE.match(k) or KEY_MT_RE.match(k))


def vval(v):
    return bool(VAL_RE.match(v))


# steering reference (NOT the checker)
def ref_set(l, k, v):
    if not (vkey(k) and vval(v)):
        return []
    if any(e[0] == k for e in l) or len(l) < 32:
        return [(k, v)] + [e for e in l if e[0] != k]
    return list(l)


def ref_del(l, k):
    return [e for e in l if e[0] != k] if vkey(k) else []


def ref_parse(h):
    parts = h.split(b",")
    n = len(parts) - (1 if parts[-1] == b"" else 0)
    if n > 32:
        return []
    out = []
    for m in parts:
        m = m.strip(b" \t\n\r\x0b\x0c")
        if not m:
            continue
        if b"=" not in m:
            return []
        k, v = m.split(b"=", 1)
        if not (vkey(k) and vval(v)):
            return []
        out.append((k, v))
    return out


def ref_hdr(l):
    return b",".join(k + b"=" + v for k, v in l)


KEYCH = b"abcdefghijklmnopqrstuvwxyz0123456789_-*/"
KEY1 = KEYCH[:36]
VALCH = bytes(c for c in range(0x20, 0x7f) if c not in (0x2c, 0x3d))
VALNB = bytes(c for c in VALCH if c != 0x20)
WS = [b" ", b"\t", b"\n", b"\r", b"\x0b", b"\x0c"]
POOL = [b"a", b"b", b"c", b"k", b"0", b"t@v", b"a@b", b"z*/_-"]     # small alphabet: collisions are the rule
FILL = [b"f%d" % i for i in range(40)]


def rnd_key_body(rng, n):
    return bytes(rng.choice(KEYCH) for _ in range(n))


def simple_key(rng, n):
    return bytes([rng.choice(KEY1)]) + rnd_key_body(rng, n - 1) if n > 0 else b""


def mt_key(rng, nt, ns):
    return simple_key(rng, nt) + b"@" + simple_key(rng, ns)


def boundary_keys(rng):
    """(key, comment) at every edge of the two key grammars"""
    return [
        simple_key(rng, 1), simple_key(rng, 2), simple_key(rng, 255), simple_key(rng, 256), simple_key(rng, 257), simple_key(rng, 300),
        mt_key(rng, 1, 1), mt_key(rng, 241, 14), mt_key(rng, 242, 14), mt_key(rng, 241, 15), mt_key(rng, 240, 14), mt_key(rng, 241, 13),
        mt_key(rng, 1, 14), mt_key(rng, 1, 15), mt_key(rng, 241, 1), mt_key(rng, 242, 1), mt_key(rng, 250, 5), mt_key(rng, 255, 1),
        b"@v", b"t@", b"@", b"a@b@c", b"a@@b", b"a@_b", b"_a", b"-a", b"*a", b"/a", b"A", b"aB", b"a b", b" a", b"a ", b"", b"a=b", b"a,b",
        b"a\x00", b"a\x00b", b"\x00", b"a\x80", b"\xe4", b"a\xff", b"a.b", b"a+b", b"a\n", b"a\t", b"9", b"9@9", b"a@B", b"a@b ", b"a:b",
    ]


def rnd_val(rng, n):
    if n <= 0:
        return b""
    return bytes(rng.choice(VALCH) for _ in range(n - 1)) + bytes([rng.choice(VALNB)])


def boundary_vals(rng):
    return [
        rnd_val(rng, 1), rnd_val(rng, 2), rnd_val(rng, 255), rnd_val(rng, 256), rnd_val(rng, 257), rnd_val(rng, 300),
        b" " + rnd_val(rng, 255), b" " + rnd_val(rng, 256), rnd_val(rng, 255) + b" ", rnd_val(rng, 256)[:255] + b" ",
        b"", b" ", b"  ", b" v", b"v ", b"v v", b"a,b", b"a=b", b"=", b",", b"~", b"\x7f", b"\x1f", b"!", b"\x00", b"v\x00", b"v\x00w",
        b"\x80", b"v\xe4", b"\xff", b"v\t", b"\tv", b"v\n", b"-", b"<", b">", b"+", b";", b"\"", b"\\",
    ]


def value_only_strings(rng):
    """legal as a VALUE, illegal as a KEY (upper case, blanks, punctuation only values allow, a second '@', over-long
    tenant part, ...): a validator that remembers anything across calls confuses the two grammars on these"""
    return cached(rng, "vo", lambda r: [
        b"Prod", b"Foo", b"A", b"has space", b" lead", b"x!y", b"~", b"a.b", b"a:b", b"a+b", b"\"q\"", b"aB", b"_a", b"-a", b"*", b"/a",
        b"@", b"a@", b"@a", b"a@b@c", b"a@@b", b"a@_b", b"a@B",
        simple_key(r, 242) + b"@" + simple_key(r, 3), simple_key(r, 10) + b"@" + simple_key(r, 15), b"Z" * 256, b"a" * 255 + b"A",
    ])


def history_cases(rng, n):
    """hidden state across calls: the same bytes validated in one role and IMMEDIATELY afterwards in the other role, on one
    thread, nothing else accepted in between -- across consecutive operations and inside one FromHeader input"""
    out = []
    full32 = ",".join("f%d=v" % i for i in range(32)).encode()
    for V in value_only_strings(rng):
        assert vval(V) and not vkey(V), V
        for base in (b"k1=v1,k2=v2", b"", full32):
            b = hx(base)
            out.append("H %s | SET 0 %s %s | SET 1 %s %s | HDR 2 | RT 2" % (b, hx(b"env"), hx(V), hx(V), hx(b"x")))
            out.append("H %s | SET 0 %s %s | DEL 1 %s | EMPTY 2" % (b, hx(b"k1"), hx(V), hx(V)))
            out.append("H %s | SET 0 %s %s | GET 1 %s | SET 1 %s %s" % (b, hx(b"k1"), hx(V), hx(V), hx(V), hx(b"y")))
            out.append("H %s | SET 0 %s %s | DEL 0 %s | SET 0 %s %s" % (b, hx(b"k1"), hx(V), hx(V), hx(V), hx(V)))
            out.append("H %s | SET 0 %s %s | SET 0 %s %s | DEL 1 %s | DEL 2 %s" % (b, hx(b"k1"), hx(V), hx(V), hx(V), hx(V), hx(V)))
        if b"," not in V and V == V.strip():
            # one FromHeader input: a member's value is the next member's key (and the harmless opposite order)
            for h in (b"a=" + V + b"," + V + b"=b", V + b"=b,a=" + V, b"a=1,k=" + V + b"," + V + b"=w,b=2", b"k=" + V + b" , " + V + b"=w",
                      b"k=" + V + b",," + V + b"=w", b"k=" + V + b"," + V + b"=" + V, b"a=" + V + b",b=" + V + b"," + V + b"=c"):
                out.append("H %s | RT 0" % hx(h))
                out.append("H x | FH %s | RT 1 | FH %s" % (hx(h), hx(h)))
            # across operations into a parse, and out of a parse into an operation
            out.append("H %s | SET 0 %s %s | FH %s | FH %s" % (hx(b"a=1"), hx(b"k"), hx(V), hx(V + b"=w"), hx(b"a=1," + V + b"=w")))
            out.append("H %s | DEL 0 %s | SET 0 %s %s | GET 0 %s" % (hx(b"a=1,k=" + V), hx(V), hx(V), hx(b"x"), hx(V)))
    # the same shapes with a string that is legal in BOTH roles (every legal key is a legal value): must stay harmless
    for K in (b"a", b"t@v", simple_key(rng, 256), mt_key(rng, 241, 14)):
        out.append("H %s | SET 0 %s %s | SET 1 %s %s | DEL 2 %s | RT 2" % (hx(b"k1=v1"), hx(b"k"), hx(K), hx(K), hx(b"x"), hx(K)))
        out.append("H %s | RT 0" % hx(b"a=" + K + b"," + K + b"=b"))
    # a REJECTED string repeated at once in the same and in the other role (a negative memo would show here), and an accepted
    # key repeated as a value
    for B in (b"BAD", b"a,b", b"a=b", b"v ", b"", b"\x7f", b"a" * 257):
        out.append("H %s | SET 0 %s %s | SET 0 %s %s | SET 0 %s %s | DEL 0 %s | DEL 0 %s | GET 0 %s" %
                   (hx(b"k1=v1"), hx(B), hx(b"v"), hx(B), hx(b"v"), hx(b"k"), hx(B), hx(B), hx(B), hx(B)))
    for _ in range(40 * n):
        V = rng.choice(value_only_strings(rng))
        st = members_for(rng, rng.choice([0, 1, 3, 30, 31, 32]))
        toks = ["H " + hx(join_ows(rng, st, False))]
        nobj = 1
        for _ in range(1 + rng.below(5)):
            i = rng.below(nobj)
            k = rng.choice(POOL + FILL[:4])
            toks.append("SET %d %s %s" % (i, hx(k), hx(V))); nobj += 1
            op = rng.below(4)
            j = rng.choice([i, nobj - 1])
            if op == 0:
                toks.append("SET %d %s %s" % (j, hx(V), hx(rnd_val(rng, 1 + rng.below(3))))); nobj += 1
            elif op == 1:
                toks.append("DEL %d %s" % (j, hx(V))); nobj += 1
            elif op == 2:
                toks.append("GET %d %s" % (j, hx(V)))
            elif b"," not in V and V == V.strip():
                toks.append("FH " + hx(V + b"=w," + rng.choice(POOL) + b"=" + V)); nobj += 1
            if rng.chance(1, 2):
                toks.append("RT %d" % (nobj - 1)); nobj += 1
        out.append(" | ".join(toks))
    return out


def cached(rng, name, f):
    """boundary tables are drawn once per generator run (from the same rng) and reused"""
    d = rng.__dict__.setdefault("_c14", {})
    if name not in d:
        d[name] = f(rng)
    return d[name]


def pick_key(rng, state):
    """mostly keys that collide: present in the target, in the small pool, or a filler"""
    r = rng.below(20)
    if r < 6 and state:
        return rng.choice(state)[0]
    if r < 11:
        return rng.choice(POOL)
    if r < 16:
        return rng.choice(FILL)
    if r < 18:
        return rng.choice(cached(rng, "bk", boundary_keys))
    return simple_key(rng, 1 + rng.below(4))


def pick_val(rng):
    r = rng.below(12)
    if r < 8:
        return rnd_val(rng, 1 + rng.below(3))
    if r < 10:
        return rng.choice(cached(rng, "bv", boundary_vals))
    return b"v%d" % rng.below(5)


def members_for(rng, n, distinct=True):
    ms = []
    used = set()
    pool = FILL + POOL
    for i in range(n):
        if distinct:
            k = pool[i] if i < len(pool) else b"g%d" % i
        else:
            k = rng.choice(POOL)
        if k in used and distinct:
            k = b"h%d" % i
        used.add(k)
        ms.append((k, rnd_val(rng, 1 + rng.below(3))))
    if distinct:
        rng.shuffle(ms)
    return ms


def ops_case(rng, h, nops, start_focus=None):
    """operation sequence steered by the reference states"""
    states = [ref_parse(h)]
    toks = ["H " + hx(h)]
    last_val = None     # the value of the immediately preceding Set: reused as the next key (hidden state across calls)
    for _ in range(nops):
        # target: usually the newest object, otherwise any earlier one
        i = len(states) - 1 if rng.chance(3, 4) else rng.below(len(states))
        st = states[i]
        r = rng.below(100)
        echo = last_val if (last_val is not None and rng.chance(1, 3)) else None
        last_val_next = None
        if echo is not None and r >= 80:
            r = rng.below(80)
        if r < 46:
            k = pick_key(rng, st) if echo is None else echo
            if echo is None and len(st) >= 31 and rng.chance(1, 2):
                # aim at the limit: a fresh key or one that is present
                k = rng.choice(st)[0] if rng.chance(1, 2) else b"n%d" % rng.below(1000)
            v = pick_val(rng) if rng.chance(3, 4) else rng.choice(value_only_strings(rng))
            toks.append("SET %d %s %s" % (i, hx(k), hx(v)))
            states.append(ref_set(st, k, v))
            last_val_next = v
            if echo is None and rng.chance(1, 4):   # read it back at once
                toks.append("GET %d %s" % (len(states) - 1, hx(k)))
                last_val_next = None
        elif r < 60:
            k = pick_key(rng, st) if echo is None else echo
            toks.append("DEL %d %s" % (i, hx(k)))
            states.append(ref_del(st, k))
        elif r < 80:
            toks.append("GET %d %s" % (i, hx(pick_key(rng, st) if echo is None else echo)))
        elif r < 88:
            toks.append("RT %d" % i)
            states.append(ref_parse(ref_hdr(st)))
        elif r < 92:
            toks.append("HDR %d" % i)
        elif r < 96:
            toks.append("EMPTY %d" % i)
        else:
            hh = rnd_header(rng)
            toks.append("FH " + hx(hh))
            states.append(ref_parse(hh))
        last_val = last_val_next
    return " | ".join(toks)


def join_ows(rng, ms, ows):
    parts = []
    for k, v in ms:
        m = k + b"=" + v
        if ows and rng.chance(1, 2):
            m = b"".join(rng.choice(WS) for _ in range(rng.below(3))) + m + b"".join(rng.choice(WS) for _ in range(rng.below(3)))
        parts.append(m)
    return b",".join(parts)


def rnd_header(rng):
    kind = rng.below(16)
    n = rng.choice([0, 1, 1, 2, 3, 5, 8, 30, 31, 32, 32, 33, 34, 40])
    ms = members_for(rng, n, distinct=rng.chance(3, 4))
    if kind < 4:
        return join_ows(rng, ms, False)
    if kind < 6:
        return join_ows(rng, ms, True)
    if kind == 6:      # empty members anywhere (they count as list positions)
        parts = [k + b"=" + v for k, v in ms]
        for _ in range(1 + rng.below(3)):
            parts.insert(rng.below(len(parts) + 1), rng.choice([b"", b" ", b"\t", b"  "]))
        return b",".join(parts)
    if kind == 7:      # trailing / leading separators
        h = join_ows(rng, ms, False)
        return rng.choice([b",", b"", b" ,", b", ", b",,"]) + h + rng.choice([b",", b", ", b",,", b" ", b", ,", b""])
    if kind == 8 and ms:    # one member without '='
        parts = [k + b"=" + v for k, v in ms]
        j = rng.choice([0, len(parts) - 1, rng.below(len(parts))])
        parts[j] = rng.choice([b"novalue", parts[j].replace(b"=", b""), b"=", b"a", b"a b"])
        return b",".join(parts)
    if kind == 9 and ms:    # one invalid key or value: first, middle or last (partial results would show)
        j = rng.choice([0, len(ms) - 1, rng.below(len(ms))])
        if rng.chance(1, 2):
            ms[j] = (rng.choice([b for b in cached(rng, "bk", boundary_keys) if b"," not in b]), ms[j][1])
        else:
            ms[j] = (ms[j][0], rng.choice([b for b in cached(rng, "bv", boundary_vals) if b"," not in b]))
        return join_ows(rng, ms, rng.chance(1, 3))
    if kind == 10:     # boundary-length keys/values inside a header
        ms = ms[:rng.below(4)] + [(rng.choice(cached(rng, "bk", boundary_keys)[:18]), rng.choice(cached(rng, "bv", boundary_vals)[:10]))] + ms[:rng.below(3)]
        return join_ows(rng, ms, rng.chance(1, 3))
    if kind == 11:     # damage one byte
        h = bytearray(join_ows(rng, ms, rng.chance(1, 2)))
        if h:
            pos = rng.below(len(h))
            h[pos:pos + rng.below(2)] = rng.choice([b"=", b",", b" ", b"\t", b"\x00", b"\x80", b"A", b"@", b"\xff", b"\x7f"])
        return bytes(h)
    if kind == 12:     # whitespace in the wrong places
        parts = []
        for k, v in ms:
            parts.append(rng.choice([k + b" =" + v, k + b"= " + v, k + b"=" + v + b" ", b" " + k + b"=" + v, k + b"=" + v]))
        return rng.choice([b",", b" , ", b", ", b" ,"]).join(parts)
    if kind == 13:     # commas / spaces only, counts around 32
        c = rng.choice([1, 2, 31, 32, 33, 34])
        return rng.choice([b",", b" ,", b", "]) * c
    if kind == 14:     # arbitrary bytes
        alphabet = rng.choice([b"a=1, ", b"ab=,@ \t", bytes(range(256)), b"a=\x00, \xff"])
        return bytes(rng.choice(alphabet) for _ in range(rng.below(40)))
    return join_ows(rng, ms, False)


def limit_headers(rng):
    """list positions exactly around 32, with and without empty members"""
    out = []
    for n in (30, 31, 32, 33):
        ms = members_for(rng, n)
        h = join_ows(rng, ms, False)
        out += [h, h + b",", h + b", ", h + b",,", b"," + h, b" ," + h, h + b",x", h + b",x=", h + b",=y", h.replace(b",", b" , "), h.replace(b",", b",,", 1)]
    return out


def gen(rng, tier):
    n = 1 if tier == "quick" else 12
    cases = purity_cases(tier)
    # ---- header strings alone
    for h in [b"", b" ", b",", b"a=1", b"a=1,b=2", b"a=1,a=2", b"a=1,b=2,a=3", b" a=1 , b=2 ", b"a=1,,b=2", b"a", b"a=", b"=1", b"a==1", b"a=1=2",
              b"a=1,b", b"b,a=1", b"a=1,B=2", b"A=1,b=2", b"a=1,b=2 ,", b"a= 1", b"a=1 2", b"a =1", b"\ta=1\n", b"a=1\x00", b"a=1,\x00", b"\x00",
              b"a=\xe4", b"\xe4=1", b"t@v=1", b"@v=1", b"t@=1", b"a=1,t@v=2,a@b=3"]:
        cases.append("H " + hx(h))
    for h in limit_headers(rng):
        cases.append("H " + hx(h))
        cases.append("H %s | RT 0 | SET 0 %s %s | SET 0 %s %s" % (hx(h), hx(b"new"), hx(b"v"), hx(b"f0"), hx(b"upd")))
    for _ in range(2500 * n):
        cases.append("H " + hx(rnd_header(rng)))
    # ---- every boundary key / value through Set, Get, Delete and through a header, on a small and on a full list
    full31 = join_ows(rng, members_for(rng, 31), False)
    full32 = join_ows(rng, members_for(rng, 32), False)
    for _ in range(n):
        for k in boundary_keys(rng):
            for base in (b"a=1,b=2", full31, full32):
                cases.append("H %s | SET 0 %s %s | GET 1 %s | DEL 1 %s | GET 0 %s | RT 1 | DEL 0 %s" % (hx(base), hx(k), hx(b"v"), hx(k), hx(k), hx(k), hx(k)))
            if b"," not in k:
                cases.append("H %s | GET 0 %s | RT 0" % (hx(b"a=1," + k + b"=v,b=2"), hx(k)))
        for v in boundary_vals(rng):
            for base in (b"a=1,b=2", full32):
                cases.append("H %s | SET 0 %s %s | GET 1 %s | RT 1 | SET 0 %s %s | RT 3" % (hx(base), hx(b"a"), hx(v), hx(b"a"), hx(b"zz"), hx(v)))
            if b"," not in v:
                cases.append("H %s | GET 0 %s | RT 0" % (hx(b"a=1,k=" + v + b",b=2"), hx(b"k")))
    # ---- hidden state across calls (value role then key role of the same bytes, within one thread)
    cases += history_cases(rng, n)
    # ---- operation sequences
    for _ in range(1300 * n):
        start = rng.below(10)
        if start < 2:
            h = b""
            nops = 34 + rng.below(7)       # fill an empty state past the limit
        elif start < 6:
            h = join_ows(rng, members_for(rng, rng.choice([29, 30, 31, 32, 32])), False)
            nops = 4 + rng.below(25)
        elif start < 8:
            h = join_ows(rng, members_for(rng, rng.below(6), distinct=rng.chance(1, 2)), rng.chance(1, 4))
            nops = 1 + rng.below(40)
        else:
            h = rnd_header(rng)
            nops = 1 + rng.below(20)
        cases.append(ops_case(rng, h, nops))
    # from empty: exactly the limit walk  (32 inserts, the 33rd refused, update still possible, delete, insert again)
    for _ in range(3 * n):
        toks = ["H x"]
        for i in range(33):
            toks.append("SET %d %s %s" % (i, hx(b"f%d" % i), hx(b"v")))
        toks += ["SET 33 %s %s" % (hx(b"f7"), hx(b"u")), "GET 34 %s" % hx(b"f7"), "GET 34 %s" % hx(b"f32"), "DEL 34 %s" % hx(b"f0"),
                 "SET 35 %s %s" % (hx(b"f32"), hx(b"w")), "RT 36", "SET 32 %s %s" % (hx(b"bad key"), hx(b"v")), "SET 32 %s %s" % (hx(b"k"), hx(b"bad,val")),
                 "DEL 32 %s" % hx(b"BAD"), "HDR 32", "EMPTY 32", "EMPTY 0"]
        cases.append(" | ".join(toks))
    return cases


def neighbours(rng, cases):
    out = []
    for c in cases:
        if c.startswith("PURITY"):
            continue
        segs = c.split(" | ")
        h = bytes.fromhex(segs[0].split()[1][1:])
        # vary the header and re-run the same operations on boundary keys
        for _ in range(30):
            hb = bytearray(h)
            if hb:
                pos = rng.below(len(hb))
                hb[pos:pos + rng.below(2)] = rng.choice([b"=", b",", b" ", b"\x00", b"\x80", b"a"])
            out.append(" | ".join(["H " + hx(bytes(hb))] + segs[1:]))
        for k in boundary_keys(rng)[:18]:
            out.append(" | ".join(segs + ["SET 0 %s %s" % (hx(k), hx(b"v")), "GET 0 %s" % hx(k), "DEL 0 %s" % hx(k)]))
    return out


def shrink(case):
    """the runner takes the first candidate that still fails: shortest prefixes first, each tried on a few tiny headers
    before the original one"""
    if case.startswith("PURITY"):
        return
    segs = case.split(" | ")
    small = ["H x", "H " + hx(b"a=1"), "H " + hx(b"a=1,b=2"), "H " + hx(",".join("f%d=v" % i for i in range(32)).encode())]
    for n in range(1, len(segs) + 1):
        for h in small + [segs[0]]:
            cand = " | ".join([h] + segs[1:n])
            if cand != case:
                yield cand


LEVEL_TEXT = ("Theorems in coq/Properties_C14.v about the Gallina model of TraceState: every state reachable from FromHeader by any sequence of "
              "Set/Delete contains only grammatical keys/values and at most 32 members (and stays duplicate-free), Set/Delete/Get equal the abstract "
              "list operations, an invalid or over-long header gives the empty state, ToHeader/FromHeader round-trips every well-formed list, and the "
              "index-level tokenizer/fixed-capacity model that is diffed against the C++ equals the list-level one; the regex validators (re-translated "
              "from trace_state.h on every run) are proved equal to the W3C grammar for every byte string.  The model is tied to the C++ on every run by "
              "running the extracted model and the rebuilt ASan/UBSan driver on the same generated operation sequences and by running the extracted SPEC "
              "on the implementation's observations.  The model's purity assumption (operations are functions of immutable values) is not a theorem about the C++: it is probed at run time on every check by a ThreadSanitizer build in which real threads run every const operation on shared objects (PURITY cases).")
LEVEL_NOTE = ("Trusted: Coq kernel, extraction, ocaml/driver.ml, the C++ driver, the generator, tools/extract_consts.py; the model is hand-written "
              "(tied by correspondence, not verified against C++ semantics); memory safety is evidenced by sanitizers, not proved.")
