"""C11 - lock-free CircularBuffer and SpinLockMutex under every interleaving.  Schedule generators and configuration.

Engine E-sched, trace (acceptor) mode: the driver runs the real headers (scratch copies with std::atomic /
std::this_thread rewritten to the scheduler shim) under the schedule of the case and prints
"<summary> || <event trace>"; the extracted Coq acceptor replays the trace and must derive the same summary.

case  RING <max_size> | p e.. | p e.. | c k.. | s <tid> <flag> ..      (see harness/c11_driver.cc)
      SPIN | l n | t n | .. | s ..
A schedule entry is one atomic operation of that thread (entries naming a finished thread are skipped);
flag 2 = this compare_exchange_weak fails spuriously.  After the schedule the shim continues round-robin."""
import os, stat, sys
from tools import vlib, shimcopy
from tools.vlib import TieBroken

ID = "C11"
LEVEL = "proof"
TRACE_MODE = True
DRIVER = {"srcs": ["harness/c11_driver.cc"], "sdk": False}
TRIVIAL_TAGS = {"bad_case", "ring_rejected", "spin_rejected"}
ASSUMPTIONS = [
    "sequentially consistent interleaving of the atomic operations: the shim ignores memory_order arguments and so does the model (the C++ memory model's weaker orders are not explored)",
    "the 64-bit counters head_/tail_ never wrap (2^64 operations); they are unbounded naturals in the model",
    "one consumer thread; Consume(n) is called with n <= size() as read by that thread (the API precondition; the driver uses n = min(size(), k))",
    "the buffer is destroyed only after every producer and the consumer have returned (the driver's controller thread does so)",
    "element identities handed to Add are pairwise distinct (they are distinct heap objects)",
    "unlock() is called only by the thread that holds the lock; full starvation freedom is false of any spin lock and is not claimed: lock() returns within 3 own steps once it runs while the flag is clear, and every lock() has returned when a run under the fair continuation of the schedule ends",
    "the build defines NDEBUG (repository build type RelWithDebInfo), so the assert()s in Consume/size/Take perform no loads",
]
TRUSTED = [
    "harness/sched/sched.h (scheduler shim: one logical thread at a time, every atomic operation a logged scheduling point) and tools/shimcopy.py (token table, leftovers are a broken tie)",
    "model coq/C11/Model.v is hand-written; tied to the C++ by replaying every generated trace operation by operation (operation kind, object, operands and results)",
]
LEVEL_TEXT = "machine-checked invariant proofs (Coq) over the interleaving transition system + per-operation trace acceptance of the real headers under generated schedules"
LEVEL_NOTE = ("theorems quantify over all reachable states of the transition system (any number of producers, any capacity, any scripts, "
              "any interleaving incl. spurious weak-CAS failures); the tie to the C++ is the acceptance of implementation traces by the executable "
              "acceptor, which is proved to make only steps of that transition system")

FILES = ["sdk/include/opentelemetry/sdk/common/circular_buffer.h",
         "sdk/include/opentelemetry/sdk/common/atomic_unique_ptr.h",
         "sdk/include/opentelemetry/sdk/common/circular_buffer_range.h",
         "api/include/opentelemetry/common/spin_lock_mutex.h"]
JOBS = 4

WRAPPER = r'''#!/usr/bin/env python3
# Runs the C11 driver on the case file and prints one line per case, in order.
# Every case runs in the plain build (forking a sanitizer process per case costs ~10 ms of kernel time, which would not fit the
# quick tier); the first SAN_HEAD cases (the directed schedules and the corpus) and every SAN_EVERY-th case after them run
# again in the ASan+UBSan+LeakSanitizer build, and that build's line is the one printed for them (the driver is
# deterministic, so the two lines differ only when a sanitizer fires: CRASH 98 / CRASH 99).
import subprocess, sys, os, tempfile
plain, san, jobs, san_head, san_every = %r, %r, %d, %d, %d
lines = open(sys.argv[1]).read().split("\n")
if lines and lines[-1] == "":
    lines.pop()
tmp = tempfile.mkdtemp(prefix="c11par")
errs = []
rcmax = 0


def run(exe, cases, tag):
    global rcmax
    if not cases:
        return []
    k = max(1, (len(cases) + jobs - 1) // jobs)
    parts = [cases[i:i + k] for i in range(0, len(cases), k)]
    procs, files = [], []
    for i, p in enumerate(parts):
        f = os.path.join(tmp, "%%s%%d" %% (tag, i))
        with open(f, "w") as h:
            h.write("\n".join(p) + "\n")
        files.append(f)
        procs.append(subprocess.Popen([exe, f], stdout=subprocess.PIPE, stderr=subprocess.PIPE))
    out = []
    for pr, p in zip(procs, parts):
        o, e = pr.communicate()
        got = o.decode("utf-8", "replace").split("\n")
        if got and got[-1] == "":
            got.pop()
        got = (got + ["CRASH 1000 ; DRIVER-DIED"] * len(p))[:len(p)]
        out += got
        rcmax = max(rcmax, pr.returncode)
        if e:
            errs.append(e)
    for f in files:
        os.remove(f)
    return out


res = run(plain, lines, "p")
idx = [i for i in range(len(lines)) if i < san_head or (i - san_head) %% san_every == 0]
sres = run(san, [lines[i] for i in idx], "s")
for i, l in zip(idx, sres):
    res[i] = l
os.rmdir(tmp)
sys.stdout.write("".join(l + "\n" for l in res))
sys.stdout.flush()
if errs:
    with open(sys.argv[1] + ".stderr", "wb") as h:
        h.write(b"\n".join(errs))
sys.exit(0 if rcmax == 0 else 1)
'''

SAN_HEAD = 60
SAN_EVERY = 9


def build_driver():
    inc, srcs, counts = shimcopy.shim_copy("c11", FILES)
    # the rewrites this check relies on: head_, tail_, ptr_, flag_ are shim atomics; yield and sleep_for are shim calls
    if counts.get(r"std::atomic\s*<", 0) < 4 or counts.get(r"std::this_thread::", 0) < 2:
        raise TieBroken("shim copy: expected >= 4 std::atomic< and >= 2 std::this_thread:: rewrites in %s, got %r" % (FILES, counts))
    plain = vlib.build_driver("c11_driver", DRIVER["srcs"], pre_flags=["-I" + inc], extra_flags=["-DNDEBUG"], variant="plain")
    san = vlib.build_driver("c11_driver", DRIVER["srcs"], pre_flags=["-I" + inc], extra_flags=["-DNDEBUG"])
    w = san + "_par.py"
    text = WRAPPER % (plain, san, JOBS, SAN_HEAD, SAN_EVERY)
    if not os.path.exists(w) or open(w).read() != text:
        with open(w, "w") as f:
            f.write(text)
        os.chmod(w, os.stat(w).st_mode | stat.S_IXUSR | stat.S_IXGRP | stat.S_IXOTH)
    return w


ENV = {}

# ----------------------------------------------------------------------------------------------- cases
def ring_case(max_size, prods, chunks, sched):
    s = "RING %d" % max_size
    for p in prods:
        s += " | p " + " ".join(str(e) for e in p)
    if chunks is not None:
        s += " | c " + " ".join(str(k) for k in chunks)
    s += " | s " + " ".join("%d %d" % (t, f) for t, f in sched)
    return s


def spin_case(threads, sched):
    return "SPIN | " + " | ".join("%s %d" % (k, n) for k, n in threads) + " | s " + " ".join("%d %d" % (t, f) for t, f in sched)


def mk_prods(adds):
    """adds = [a0, a1, ..]: producer p adds a_p elements; ids 10*(p+1)+j"""
    return [[10 * (p + 1) + j for j in range(1, a + 1)] for p, a in enumerate(adds)]


def segs_to_sched(segs):
    out = []
    for t, k in segs:
        out += [(t, 0)] * k
    return out


LONG = 60   # more steps than any thread of the tiny configurations needs when it runs alone


def perms(l):
    if len(l) <= 1:
        return [list(l)]
    r = []
    for i in range(len(l)):
        for p in perms(l[:i] + l[i + 1:]):
            r.append([l[i]] + p)
    return r


def enum_bounded(nthreads, kmax, bound):
    """all schedules with <= bound preemptions: preempting segments (t_i, k_i), t_i != t_{i+1}, then the threads run
    to completion in every order (entries of finished threads are skipped by the shim)"""
    out = []

    def rec(prefix, last, left):
        for order in perms(list(range(nthreads))):
            if last is not None and order[0] == last:
                continue      # that would merely lengthen the last segment
            out.append(prefix + [(t, LONG) for t in order])
        if left == 0:
            return
        for t in range(nthreads):
            if t == last:
                continue
            for k in range(1, kmax + 1):
                rec(prefix + [(t, k)], t, left - 1)
    rec([], None, bound)
    return out


def sprinkle_spurious(rng, sched, num, den):
    return [(t, 2 if rng.chance(num, den) else f) for t, f in sched]


STATS = {}


def count_stat(key):
    STATS[key] = STATS.get(key, 0) + 1


def directed():
    """hand-made schedules for the rare paths (also a regression corpus)"""
    c = []
    # undo: P1 reads head, P0 adds, the consumer takes it, P1's slot CAS succeeds and its head CAS fails
    c.append(ring_case(2, [[11], [21]], [0, 0], segs_to_sched([(1, 3), (0, LONG), (2, 9), (1, LONG), (2, LONG)])))
    # the same with max_size 1
    c.append(ring_case(1, [[11], [21]], [0, 0], segs_to_sched([(1, 3), (0, LONG), (2, 9), (1, LONG), (2, LONG)])))
    # mid-clear refill up to cap live positions: consumer advances tail_, producer refills before the slots are cleared
    c.append(ring_case(1, [[11, 12, 13]], [1, 0], segs_to_sched([(0, 5), (1, 6), (0, LONG), (1, LONG)])))
    c.append(ring_case(2, [[11, 12, 13, 14, 15]], [0, 0], segs_to_sched([(0, 9), (1, 6), (0, 8), (1, 1), (0, 6), (1, LONG), (0, LONG)])))
    # slot still occupied by an uncleared element: the slot CAS fails until the consumer clears it
    c.append(ring_case(2, [[11, 12, 13, 14]], [0, 0], segs_to_sched([(0, 9), (1, 6), (0, 7), (0, 6), (1, 1), (0, 6), (1, LONG), (0, LONG)])))
    # spurious failures: slot CAS, head CAS (undo without any competitor), both in a row
    c.append(ring_case(1, [[11, 12]], [0], [(0, 0), (0, 0), (0, 0), (0, 2)] + [(0, 0)] * 20 + [(1, 0)] * LONG))
    c.append(ring_case(2, [[11, 12]], [0], [(0, 0), (0, 0), (0, 0), (0, 0), (0, 2)] + [(0, 0)] * 20 + [(1, 0)] * LONG))
    c.append(ring_case(2, [[11], [21]], [0], [(0, 0), (0, 0), (0, 0), (0, 2), (0, 0), (0, 0), (0, 0), (0, 2), (0, 0), (1, 0), (1, 0), (1, 0), (1, 2)] + [(1, 0)] * 9 + [(0, 0)] * 9 + [(2, 0)] * LONG))
    # full buffer: refusals, then consumption makes room
    c.append(ring_case(1, [[11, 12], [21]], [0, 0], segs_to_sched([(0, LONG), (1, LONG), (2, LONG)])))
    c.append(ring_case(3, [[11, 12, 13, 14]], [2, 0], segs_to_sched([(0, LONG), (1, LONG)])))
    # no consumer at all / consumer only
    c.append(ring_case(2, [[11, 12, 13]], None, segs_to_sched([(0, LONG)])))
    c.append(ring_case(2, [], [0, 1], segs_to_sched([(0, LONG)])))
    # spin lock: uncontended, contended through the whole back-off ladder (100 fast tries, yield, try, sleep), try_lock on held lock
    c.append(spin_case([("l", 1)], []))
    c.append(spin_case([("l", 1), ("l", 1)], segs_to_sched([(0, 3), (1, 215), (0, LONG), (1, LONG)])))
    c.append(spin_case([("l", 1), ("l", 1)], segs_to_sched([(0, 3), (1, 420), (0, LONG), (1, LONG)])))
    c.append(spin_case([("l", 2), ("t", 2)], segs_to_sched([(0, 3), (1, 3), (0, LONG), (1, LONG)])))
    c.append(spin_case([("t", 1), ("t", 1)], segs_to_sched([(0, 2), (1, 3), (0, LONG), (1, LONG)])))
    c.append(spin_case([("l", 1), ("t", 1), ("l", 1)], segs_to_sched([(1, 3), (0, 50), (2, 120), (1, LONG), (0, 300), (2, 300)])))
    return c


def gen(rng, tier):
    quick = tier == "quick"
    scale = float(os.environ.get("C11_SCALE", "1"))   # debugging aid: shrink every budget
    bound = 2 if quick else 3
    cases = list(directed())
    for _ in cases:
        count_stat("directed")
    # (i) systematic preemption-bounded enumeration on tiny configurations: 1..3 producers x max_size 1..3 x 1..3 adds each.
    # the full product is enumerated for the smallest thread counts; larger ones are sub-sampled from the same enumeration
    budget = int(scale * (2600 if quick else 20000))
    configs = []
    for m in (1, 2, 3):
        for adds in ([1], [2], [3], [1, 1], [2, 1], [2, 2], [3, 2], [1, 1, 1], [2, 1, 1], [3, 3, 3]):
            for chunks in ([0], [1, 0], [0, 0], [2, 1, 0]):
                configs.append((m, adds, chunks))
    per = max(4, budget // len(configs))
    for m, adds, chunks in configs:
        nthreads = len(adds) + 1
        kmax = min(1 + 4 * max(adds), 9 if quick else 13)
        if nthreads >= 4:
            kmax = min(kmax, 6)
        allsch = enum_bounded(nthreads, kmax, bound if nthreads <= 3 else min(bound, 2))
        if len(allsch) > per:
            pick = []
            for _ in range(per):
                pick.append(allsch[rng.below(len(allsch))])
            allsch = pick
        for segs in allsch:
            sched = segs_to_sched(segs)
            if rng.chance(1, 6):
                sched = sprinkle_spurious(rng, sched, 1, 12)
            cases.append(ring_case(m, mk_prods(adds), chunks, sched))
            count_stat("sys P=%d M=%d" % (len(adds), m))
    # (ii) PCT-style random schedules: random priorities, d-1 priority change points at random steps, plus
    # uniformly random interleavings; spurious-CAS flags at random steps
    n_pct = int(scale * (2200 if quick else 12000))
    for i in range(n_pct):
        P = 1 + rng.below(3)
        m = 1 + rng.below(3)
        adds = [1 + rng.below(3) for _ in range(P)]
        chunks = [rng.below(4) for _ in range(1 + rng.below(4))]
        nthreads = P + 1
        est = sum(1 + 5 * a for a in adds) + 6 * len(chunks) + sum(adds)
        style = rng.below(4)
        sched = []
        if style == 0:      # uniformly random thread at every step
            sched = [(rng.below(nthreads), 0) for _ in range(est + rng.below(est))]
        elif style == 1:    # PCT: priority order, d-1 change points
            order = list(range(nthreads))
            rng.shuffle(order)
            d = 1 + rng.below(4)
            points = sorted(rng.below(est) for _ in range(d - 1))
            pos = 0
            for cp in points + [None]:
                run = (cp - pos) if cp is not None else LONG
                if run > 0:
                    sched += [(order[0], 0)] * run
                    pos += run
                if cp is not None:
                    order = order[1:] + order[:1]      # the running thread drops to the lowest priority
            for t in order[1:] + order[:1]:
                sched += [(t, 0)] * LONG
        elif style == 2:    # bursts of random length
            while len(sched) < 2 * est:
                sched += [(rng.below(nthreads), 0)] * (1 + rng.below(7))
        else:               # the consumer interleaved step by step with one producer, the others in bursts
            a = rng.below(P)
            while len(sched) < 2 * est:
                sched += [(a, 0)] * (1 + rng.below(3)) + [(P, 0)] * (1 + rng.below(3))
                if rng.chance(1, 3):
                    sched += [(rng.below(nthreads), 0)] * (1 + rng.below(5))
        if rng.chance(1, 2):
            sched = sprinkle_spurious(rng, sched, 1, 6 + rng.below(20))
        cases.append(ring_case(m, mk_prods(adds), chunks, sched))
        count_stat("pct P=%d M=%d" % (P, m))
    # spin lock: 2..3 threads, every mix of lock()/try_lock(), random interleavings and bursts
    n_spin = int(scale * (500 if quick else 3000))
    for i in range(n_spin):
        T = 2 + rng.below(2)
        threads = [(rng.choice(["l", "l", "t"]), 1 + rng.below(2)) for _ in range(T)]
        style = rng.below(3)
        sched = []
        if style == 0:
            sched = [(rng.below(T), 0) for _ in range(20 + rng.below(60))]
        elif style == 1:
            for _ in range(2 + rng.below(6)):
                sched += [(rng.below(T), 0)] * (1 + rng.below(12))
        else:       # one thread is parked inside the critical section while another works through the back-off ladder
            a = rng.below(T)
            b = (a + 1 + rng.below(T - 1)) % T
            sched = [(a, 0)] * (2 + rng.below(4)) + [(b, 0)] * rng.choice([5, 50, 203, 204, 205, 206, 207, 208, 420])
            for _ in range(rng.below(4)):
                sched += [(rng.below(T), 0)] * (1 + rng.below(12))
        cases.append(spin_case(threads, sched))
        count_stat("spin T=%d" % T)
    global RULE
    RULE = ("schedules: directed + preemption-bounded enumeration (bound %d) + PCT/random + spin; non-trivial = trace accepted by the model "
            "(tag not in %s); generated per family/threads/max_size: %s" % (bound, sorted(TRIVIAL_TAGS), ", ".join("%s: %d" % kv for kv in sorted(STATS.items()))))
    return cases


RULE = "see gen()"


def neighbours(rng, cases):
    """schedules near a disagreeing case: the same configuration with perturbed schedules"""
    out = []
    for c in cases:
        head, _, s = c.partition(" | s ")
        ent = s.split()
        pairs = [(int(ent[i]), int(ent[i + 1])) for i in range(0, len(ent) - 1, 2)]
        nthreads = max([t for t, _ in pairs] + [1]) + 1
        for _ in range(40):
            q = list(pairs)
            for _ in range(1 + rng.below(3)):
                if q and rng.chance(1, 2):
                    q[rng.below(len(q))] = (rng.below(nthreads), rng.choice([0, 0, 2]))
                else:
                    q.insert(rng.below(len(q) + 1), (rng.below(nthreads), 0))
            out.append(head + " | s " + " ".join("%d %d" % p for p in q))
    return out


def shrink(case):
    """shorter schedules first (the fair fallback takes over), then fewer elements"""
    head, _, s = case.partition(" | s ")
    ent = s.split()
    pairs = [(int(ent[i]), int(ent[i + 1])) for i in range(0, len(ent) - 1, 2)]
    for cut in (0, len(pairs) // 4, len(pairs) // 2, 3 * len(pairs) // 4):
        yield head + " | s " + " ".join("%d %d" % p for p in pairs[:cut])
    yield head + " | s " + " ".join("%d 0" % p[0] for p in pairs)
