"""C19 - instrument names, views and scope rules select exactly what they describe.  Case generator and configuration."""
from tools.vlib import hx

ID = "C19"
LEVEL = "proof"
DRIVER = {"srcs": ["harness/c19_driver.cc", "harness/c19_noregex.cc"], "sdk": True}
TRIVIAL_TAGS = {"name_empty", "met_empty", "tr_empty", "lg_empty", "pred_unmodelled"}
ASSUMPTIONS = [
    "std::regex (ECMAScript) behaves as the char-class / literal / '.' / '*' matcher of the model on the generated patterns; "
    "arbitrary std::regex syntax in a view's instrument-name selector is not modelled (patterns are restricted to literals, "
    "'\\.', '.', and a trailing '*' on an atom; the single pattern '*' is the SDK's match-everything wildcard)",
    "the build under test is ABI v1 (GetTracer/GetMeter take no scope attributes; no synchronous gauge); scope attributes are "
    "exercised through LoggerProvider::GetLogger only, with int64 and string values",
    "a stream is observed after exactly one measurement per instrument and one Collect through a cumulative MetricReader; "
    "histogram bucket boundaries / AggregationConfig of a view are not observed",
    "a unit 'ASCII character' is a byte 0x01..0x7f (a unit with an embedded NUL is rejected by the regex validator)",
    "the hand-written (#else, no std::regex) validator variant is compiled by harness/c19_noregex.cc from the same source file with "
    "OPENTELEMETRY_HAVE_WORKING_REGEX forced to 0; it is not called on an empty name (it reads name[0] first)",
]
TRUSTED = ["model coq/C19/Model.v is hand-written; tied by this correspondence run",
           "scope-configurator conditions other than name-equals are the five lambdas written in harness/c19_driver.cc"]

ALPH12 = [0x00, 0x2d, 0x2f, 0x80, 0x61, 0x5a, 0x30, 0x5f, 0x2e, 0x20, 0x7b, 0x40]
NAMECH = b"abcdefghijklmnopqrstuvwxyzABCDEFGHIJKLMNOPQRSTUVWXYZ0123456789_.-/"
LETTERS = NAMECH[:52]


def name_cases(rng, n):
    out = []
    add = lambda b: out.append("NAME " + hx(bytes(b)))
    add(b"")
    for a in ALPH12:
        add([a])
        for b in ALPH12:
            add([a, b])
    for b in range(256):           # every byte as the first and as a later character
        add([b]); add([b, 0x61]); add([0x61, b]); add([0x41, 0x62, b, 0x63])
    for ln in (253, 254, 255, 256, 257, 300):
        body = bytes(rng.choice(NAMECH) for _ in range(ln - 1))
        add(b"a" + body)
        add(b"Z" + body[:-1] + b"/")
        add(b"a" + body[:-1] + rng.choice([b"!", b"\x00", b"\x80", b" "]))       # bad last byte at the limit
        add(b"1" + body)
        pos = 1 + rng.below(ln - 1)
        add((b"a" + body)[:pos] + bytes([rng.choice(ALPH12)]) + (b"a" + body)[pos + 1:])
        add(b"a" + body + b"\x00")                                                 # NUL just past the limit
    for _ in range(150 * n):
        ln = rng.choice([1, 2, 3, 10, 60, 200, 254, 255, 256, rng.below(301)])
        k = rng.below(4)
        if k == 0:
            s = bytes(rng.choice(NAMECH) for _ in range(ln))
        elif k == 1:
            s = bytes([rng.choice(LETTERS)]) + bytes(rng.choice(NAMECH) for _ in range(max(0, ln - 1)))
        elif k == 2:
            s = bytearray(bytes([rng.choice(LETTERS)]) + bytes(rng.choice(NAMECH) for _ in range(max(0, ln - 1))))
            if s:
                s[rng.below(len(s))] = rng.below(256)
        else:
            s = rng.bytes(ln)
        add(s)
    return out


def unit_cases(rng, n):
    out = []
    add = lambda b: out.append("UNIT " + hx(bytes(b)))
    add(b"")
    for a in ALPH12:
        add([a])
        for b in ALPH12:
            add([a, b])
    for b in range(256):
        add([b]); add([0x6d, b, 0x73])
    for ln in (62, 63, 64, 65, 300):
        body = bytes(1 + rng.below(127) for _ in range(ln))
        add(body)
        add(body[:-1] + rng.choice([b"\x00", b"\x80", b"\xff"]))
        add(body[:-1] + b"\x7f"); add(body[:-1] + b"\x01")
        add(body + b"\x00")
    for _ in range(80 * n):
        ln = rng.choice([1, 5, 62, 63, 64, rng.below(301)])
        k = rng.below(3)
        if k == 0:
            s = bytes(1 + rng.below(127) for _ in range(ln))
        elif k == 1:
            s = bytearray(1 + rng.below(127) for _ in range(ln))
            if ln:
                s[rng.below(ln)] = rng.choice([0, 0x80, 0xff, 0x7f, 1])
        else:
            s = rng.bytes(ln)
        add(s)
    return out


LITS = b"abcxyzAZ09_-/"


def rnd_pattern(rng):
    """returns (pattern bytes, a string it matches)"""
    pat, s = b"", b""
    for _ in range(rng.choice([0, 1, 1, 2, 3, 4, 6])):
        k = rng.below(6)
        if k <= 2:
            c = bytes([rng.choice(LITS)]); a = c; m = c
        elif k == 3:
            a = b"\\."; m = b"."
        else:
            a = b"."; m = bytes([rng.choice(b"abz.-/_0\x00\x80 \xff")])
        if rng.chance(1, 3):
            rep = rng.choice([0, 0, 1, 2, 5])
            if a == b".":
                m = bytes(rng.choice(b"abz.-/_0\x00\x80 ") for _ in range(rep))
            else:
                m = m * rep
            a += b"*"
        pat += a; s += m
    return pat, s


def pred_cases(rng, n):
    out = []
    P = lambda p, s: out.append("PRED P %s %s" % (hx(p), hx(s)))
    E = lambda p, s: out.append("PRED E %s %s" % (hx(p), hx(s)))
    for s in (b"", b"a", b"*", b"ab\x00", b"\n", b"\xff" * 3):
        P(b"*", s); P(b"", s); E(b"", s); E(b"a", s); E(b"ab\x00", s); P(b".", s); P(b".*", s); P(b"a.*", s); P(b"a*", s)
    for c in range(256):            # what '.' and a literal accept, for every byte
        P(b"a.b", bytes([0x61, c, 0x62])); P(b".*", bytes([c])); P(b"x", bytes([c])); P(b"\\.", bytes([c]))
    for _ in range(250 * n):
        pat, s = rnd_pattern(rng)
        P(pat, s)
        k = rng.below(5)
        if k == 0 and s:
            pos = rng.below(len(s)); P(pat, s[:pos] + s[pos + 1:])
        elif k == 1:
            pos = rng.below(len(s) + 1); P(pat, s[:pos] + bytes([rng.choice(b"ab\n\r\x00.")]) + s[pos:])
        elif k == 2 and s:
            pos = rng.below(len(s)); P(pat, s[:pos] + bytes([rng.choice(b"ab\n\r\x00.X")]) + s[pos + 1:])
        elif k == 3:
            P(pat, s + s)
        else:
            P(pat, bytes(rng.choice(b"ab.") for _ in range(rng.below(6))))
    for _ in range(40 * n):
        a = bytes(rng.choice(b"ab\x00") for _ in range(rng.below(4)))
        b = bytes(rng.choice(b"ab\x00") for _ in range(rng.below(4)))
        E(a, b); E(a, a); E(a, a + b"\x00"); E(a + b"\x00", a)
    return out


def rnd_rules(rng, names, vers=(b"", b"1.0", b"2.0"), schemas=(b"", b"s")):
    d = rng.below(2)
    parts = [str(d)]
    for _ in range(rng.choice([0, 0, 1, 1, 2, 3, 4])):
        k = rng.below(8)
        e = rng.below(2)
        if k <= 3:
            parts.append("N %s %d" % (hx(rng.choice(names)), e))
        elif k == 4:
            parts.append("HV %d" % e)
        elif k == 5:
            parts.append("VE %s %d" % (hx(rng.choice(vers)), e))
        elif k == 6:
            parts.append("SE %s %d" % (hx(rng.choice(schemas)), e))
        else:
            parts.append("ANY %d" % e)
    return " ; ".join(parts)


MNAMES = [b"", b"m", b"lib", b"lib2", b"Lib"]
VERS = [b"", b"", b"1.0", b"2.0"]
SCHEMAS = [b"", b"", b"s"]
INAMES = [b"req.count", b"req.duration", b"reqXcount", b"cpu", b"a", b"ab", b"abb", b"a/b", b"a.b", b"queue-len", b"Cpu"]
BADNAMES = [b"", b"1x", b"a b", b"a" * 256, b"\xc3\xa9", b"a\x00", b"_a"]
BADUNITS = [b"u" * 64, b"\x80", b"m\x00"]
UNITS = [b"", b"", b"ms", b"By", b"1"]
IPATS = [b"*", b"*", b"req.count", b"req\\.count", b"req.*", b"req\\..*", b".*", b"a", b"ab*", b"a.b", b"cpu", b"", b"c.u", b".*count",
         b"queue-len", b"a/b", b"Cpu", b"a.*b"]
KEYS = [b"k1", b"k2", b"k3", b"K1", b""]


def pats_for(name):
    """patterns (in the modelled subset) that match [name], and near misses"""
    esc = name.replace(b".", b"\\.")
    hit = [b"*", name, esc, b".*", name[:1] + b".*", b".*" + name[-1:], name[:-1] + b".", name + b"x*", name[:1] + b"*" + name[1:]]
    miss = [b"", name + b".", name[:-1], b"." + name, name + b"x", name.upper() if name.upper() != name else name + b"0", name[:1] + b"*"]
    ok = lambda p: all(c in b"abcdefghijklmnopqrstuvwxyzABCDEFGHIJKLMNOPQRSTUVWXYZ0123456789_-/.*\\" for c in p)
    return [p for p in hit if ok(p)], [p for p in miss if ok(p)]


def met_case(rng, focus=None):
    k = rng.below(10)
    if k < 5:
        rules = "1"
    elif k < 7:
        rules = "1 ; " + "N %s 0" % hx(rng.choice(MNAMES))
    else:
        rules = rnd_rules(rng, MNAMES)
    # instruments first
    ops, insts, used, cur = [], [], {}, None
    for _ in range(rng.choice([2, 3, 4, 6, 8, 10])):
        if cur is None or rng.chance(1, 5):
            cur = (rng.choice(MNAMES), rng.choice(VERS), rng.choice(SCHEMAS))
            if focus == "versioned":
                cur = (cur[0], rng.choice([b"1.0", b"2.0"]), b"s")
            ops.append("M %s %s %s" % tuple(hx(x) for x in cur))
            continue
        k = rng.below(12)
        name = rng.choice(BADNAMES) if k == 0 else rng.choice(INAMES)
        unit = rng.choice(BADUNITS) if k == 1 else rng.choice(UNITS)
        if name in used.setdefault(cur, set()) and focus != "recreate":
            continue                      # re-creating an instrument is C06's subject (F13); only the "recreate" cases do it
        used[cur].add(name)
        ity = rng.choice([0, 0, 1, 2, 3, 4, 5]) if focus != "sync" else rng.choice([0, 1, 2])
        desc = rng.choice([b"", b"", b"instrument description"])
        insts.append((cur, ity, name, unit))
        ops.append("I %d %d %s %s %s" % (ity, rng.below(2), hx(name), hx(desc), hx(unit)))
    # views aimed at the instruments (hits and near misses)
    views = []
    for _ in range(rng.choice([0, 1, 1, 2, 2, 3, 4])):
        if insts and rng.chance(5, 6):
            (mn, mv, msch), ity, name, unit = rng.choice(insts)
            hit, miss = pats_for(name if name else b"a")
            pat = rng.choice(hit)
            selunit = rng.choice([b"", b"", unit])
            selmn, selmv, selms = rng.choice([b"", mn]), rng.choice([b"", b"", mv]), rng.choice([b"", b"", msch])
            m = rng.below(14)            # one selector off
            if m == 0:
                ity = rng.choice([x for x in range(7) if x != ity])
            elif m == 1 and miss:
                pat = rng.choice(miss)
            elif m == 2:
                selunit = rng.choice([b"ms", b"By", b"m"])
            elif m == 3:
                selmn = rng.choice([b"m", b"lib", b"Lib", b"l"])
            elif m == 4:
                selmv = rng.choice([b"1.0", b"2.0", b"1"])
            elif m == 5:
                selms = rng.choice([b"s", b"t"])
        else:
            ity, pat, selunit = rng.choice([0, 1, 2, 3, 4, 5, 6]), rng.choice(IPATS), rng.choice([b"", b"", b"ms", b"By"])
            selmn, selmv, selms = rng.choice([b"", b"", b"m", b"lib", b"Lib"]), rng.choice([b"", b"", b"1.0", b"2.0"]), rng.choice([b"", b"", b"s"])
        if focus == "versioned" and rng.chance(1, 2):
            pass
        vn = rng.choice([b"", b"", b"v1", b"v2", b"renamed", b"not a valid instrument name!"])
        vd = rng.choice([b"", b"", b"view description"])
        agg = rng.choice([4, 4, 4, 0, 1, 2, 3])
        if rng.chance(1, 2):
            filt = "NOF"
        else:
            filt = " ".join(["F"] + [hx(k) for k in KEYS if rng.chance(1, 2)] + ([hx(b"other")] if rng.chance(1, 4) else []))
        views.append("%d %s %s %s %s %s %s %s %d %s" % (ity, hx(pat), hx(selunit), hx(selmn), hx(selmv), hx(selms), hx(vn), hx(vd), agg, filt))
    keys = [k for k in KEYS if rng.chance(1, 2)]
    return "MET %s | %s | %s | %s" % (rules, " ; ".join(views), " ".join(hx(k) for k in keys), " ; ".join(ops))


def tr_case(rng):
    names = [b"", b"a", b"b", b"A"]
    ops = ["G %s %s %s" % (hx(rng.choice(names)), hx(rng.choice(VERS)), hx(rng.choice(SCHEMAS))) for _ in range(rng.choice([1, 2, 3, 5, 8, 12]))]
    return "TR %s | %s" % (rnd_rules(rng, names), " ; ".join(ops))


def rnd_attrs(rng):
    k = rng.below(10)
    pool = [(b"k", 1), (b"k", 2), (b"j", b"v"), (b"j", b"w"), (b"i", 1), (b"k", b"1"), (b"", 0)]
    if k <= 2:
        return []
    n = rng.choice([1, 1, 2, 2, 3, 4])
    l = [rng.choice(pool) for _ in range(n)]
    if k == 9 and l:
        l.append(l[rng.below(len(l))])      # an exact duplicate pair
    return l


def lg_case(rng):
    names = [b"l", b"l", b"x", b"noop logger", b"a"]
    libs = [b"", b"a", b"b", b"l"]
    ops = []
    prev = []
    for _ in range(rng.choice([1, 2, 3, 4, 6, 9])):
        if prev and rng.chance(2, 5):
            nm, lib, ver, sch, at = rng.choice(prev)
            at = list(at)
            k = rng.below(5)
            if k == 0:
                rng.shuffle(at)
            elif k == 1 and at:
                at.append(at[rng.below(len(at))])
            elif k == 2:
                nm = rng.choice(names)
            elif k == 3 and at:
                at = at[:-1]
        else:
            nm, lib, ver, sch, at = rng.choice(names), rng.choice(libs), rng.choice(VERS), rng.choice(SCHEMAS), rnd_attrs(rng)
        prev.append((nm, lib, ver, sch, at))
        toks = ["G", hx(nm), hx(lib), hx(ver), hx(sch)]
        for key, val in at:
            toks += [hx(key), str(val) if isinstance(val, int) else hx(val)]
        ops.append(" ".join(toks))
    return "LG %s | %s" % (rnd_rules(rng, [b"a", b"b", b"l", b"x"]), " ; ".join(ops))


def gen(rng, tier):
    n = 1 if tier == "quick" else 15
    cases = []
    cases += name_cases(rng, n)
    cases += unit_cases(rng, n)
    cases += pred_cases(rng, n)
    for _ in range(400 * n):
        cases.append(met_case(rng))
    for _ in range(200 * n):
        cases.append(met_case(rng, "sync"))
    for _ in range(200 * n):
        cases.append(met_case(rng, "versioned"))
    for _ in range(40 * n):               # correspondence only: the SPEC skips the stream clauses when a name is re-used
        cases.append(met_case(rng, "recreate"))
    for _ in range(250 * n):
        cases.append(tr_case(rng))
    for _ in range(500 * n):
        cases.append(lg_case(rng))
    return cases


def neighbours(rng, cases):
    out = []
    for c in cases:
        t = c.split()
        if t[0] in ("NAME", "UNIT") and len(t) == 2:
            b = bytes.fromhex(t[1][1:])
            for _ in range(40):
                if b:
                    pos = rng.below(len(b))
                    out.append("%s %s" % (t[0], hx(b[:pos] + bytes([rng.choice(ALPH12)]) + b[pos + 1:])))
                out.append("%s %s" % (t[0], hx(b + bytes([rng.choice(ALPH12)]))))
                out.append("%s %s" % (t[0], hx(b[:-1])))
        elif t[0] == "MET":
            out += [met_case(rng) for _ in range(30)]
        elif t[0] == "TR":
            out += [tr_case(rng) for _ in range(30)]
        elif t[0] == "LG":
            out += [lg_case(rng) for _ in range(30)]
    return out


def shrink(case):
    """drop one ';'-member of one section at a time"""
    t = case.split(" | ")
    if len(t) < 2:
        return
    for si in range(len(t) - 1, -1, -1):
        head = ""
        body = t[si]
        if si == 0:
            head, _, body = t[0].partition(" ")
            head += " "
        ms = body.split(" ; ")
        if len(ms) <= 1 and si == 0:
            continue
        for k in range(len(ms) - 1, -1, -1):
            if si == 0 and k == 0:
                continue
            rest = ms[:k] + ms[k + 1:]
            yield " | ".join(t[:si] + [head + " ; ".join(rest)] + t[si + 1:])


LEVEL_TEXT = ("Theorems in coq/Properties_C19.v about the Gallina model of the instrument-name/unit validators, the view predicates and "
              "ViewRegistry::FindViews, Meter storage registration, ScopeConfigurator and the Tracer/Meter/Logger provider registries "
              "(all byte strings, all view lists, all rule lists, all operation sequences); the model is tied to the C++ on every run by "
              "running the extracted model and the rebuilt ASan/UBSan driver on the same generated cases and by running the extracted SPEC "
              "on the implementation's observations.")
LEVEL_NOTE = ("Trusted: Coq kernel, extraction, ocaml/driver.ml, the C++ driver, the generator, tools/extract_consts.py; the model is hand-written "
              "(tied by correspondence, not verified against C++ semantics); std::regex is modelled only for the generated pattern shapes.")
