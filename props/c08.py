"""C08 - metric series are keyed by attribute-set value; filters and limits lose nothing.  Case generator and configuration.

Case format: coq/C08/Glue.v.  Doubles travel as the integer holding their IEEE-754 bit pattern.  The implementation's line is
"<observation> || <walks>" (runner TRACE_MODE): the walks are the iteration orders of its unordered_map tables, replayed by the model."""
import struct

from tools.vlib import hx

ID = "C08"
LEVEL = "proof"
TRACE_MODE = True
DRIVER = {"srcs": ["harness/c08_driver.cc"], "sdk": True}
TRIVIAL_TAGS = {"bad_case"}
ASSUMPTIONS = [
    "the iteration order of a std::unordered_map is unspecified: it enters the model as an input (checked to be a permutation of the "
    "model's own table at every walk) and every theorem is stated for all orders; an unmodified table is walked in the same order every time",
    "std::hash<std::string> and std::hash<double> are abstract functions in the hash theorem; the only fact used is that std::hash<double> "
    "gives +0.0 and -0.0 the same hash (libstdc++ returns 0 for both) and is deterministic on the quiet NaN that GetHash<double> substitutes for every NaN",
    "sums are compared with integer-valued measurements only (int64 counters, or doubles that are small integers), and no int64 sum overflows",
    "'the same value' for doubles means numerically equal (+0 = -0) and NaN = NaN (any payload); a const char* value is the string up to its first NUL",
    "single-threaded histories (recording and collection do not race; see C06 for the locking)",
    "a cardinality limit >= 1; through a MeterProvider the limit is the default kAggregationCardinalityLimit (no public setter at this commit)",
]
TRUSTED = ["model coq/C08/Model.v is hand-written; tied by this correspondence run",
           "harness/c08_driver.cc reads SyncMetricStorage::attributes_hashmap_ and Meter::storage_registry_ through '#define private public' "
           "only to learn the iteration order of the per-interval table before each Collect"]

U64 = (1 << 64) - 1


def dbits(d):
    return struct.unpack("<Q", struct.pack("<d", d))[0]


QNAN = 0x7FF8000000000000
NANS = [QNAN, 0xFFF8000000000000, 0x7FF8000000000001]
DBLS = [dbits(0.0), dbits(-0.0), dbits(1.0), dbits(-1.0), dbits(0.5), dbits(1e308), dbits(5e-324), dbits(float("inf")),
        dbits(float("-inf")), dbits(2.0), dbits(3.0)]

KEYS = [b"a", b"ab", b"abc", b"ab\x00", b"ab\x00c", b"a\x00", b"", b"b", b"k", b"key", b"KEY", b"\x7f", b"\x80", b"\xffz",
        b"otel.metrics.overflow", b"otel.metrics.overflo", b"otel.metrics.overflow\x00", b"k1", b"k2", b"k10"]
STRS = [b"", b"a", b"ab", b"ab\x00c", b"ab\x00", b"true", b"1", b"\xff", b"x" * 40]

SCAL = ["b", "i32", "u32", "i64", "u64", "d", "sv", "cs"]
ARRS = ["ab", "ai32", "au32", "ai64", "au64", "ad", "asv", "au8"]
INT_RANGES = {"i32": (-(1 << 31), (1 << 31) - 1), "u32": (0, (1 << 32) - 1), "i64": (-(1 << 63), (1 << 63) - 1), "u64": (0, U64),
              "au8": (0, 255)}


def rnd_int(rng, ty):
    lo, hi = INT_RANGES[ty]
    k = rng.below(8)
    if k == 0:
        return lo
    if k == 1:
        return hi
    if k <= 4:
        return max(lo, min(hi, rng.below(4) - (1 if lo < 0 else 0)))
    if k == 5:
        return max(lo, min(hi, rng.choice([1, 2, 255, 256, 65535, (1 << 31) - 1, 1 << 31, (1 << 32) - 1, 1 << 32, (1 << 63) - 1])))
    return lo + rng.next() % (hi - lo + 1)


def rnd_dbl(rng, nan):
    if nan and rng.chance(1, 3):
        return rng.choice(NANS)
    if rng.chance(1, 6):
        b = rng.next() & U64
        if (b & 0x7FFFFFFFFFFFFFFF) > 0x7FF0000000000000:      # a random NaN: only when asked for
            b &= 0x000FFFFFFFFFFFFF
        return b
    return rng.choice(DBLS)


def rnd_scalar(rng, ty, nan):
    if ty == "b":
        return rng.below(2)
    if ty == "d":
        return rnd_dbl(rng, nan)
    if ty in ("sv", "cs"):
        return rng.choice(STRS) if rng.chance(3, 4) else rng.bytes(rng.below(6))
    return rnd_int(rng, ty)


def rnd_value(rng, nan=False):
    """(type tag, payload)"""
    if nan and rng.chance(1, 3):
        return rng.choice([("d", rng.choice(NANS)), ("ad", [rng.choice(DBLS), rng.choice(NANS)])])
    if rng.chance(2, 3):
        ty = rng.choice(SCAL)
        return (ty, rnd_scalar(rng, ty, nan))
    ty = rng.choice(ARRS)
    n = rng.choice([0, 0, 1, 1, 2, 3])
    el = {"ab": "b", "ad": "d", "asv": "sv", "au8": "au8", "ai32": "i32", "au32": "u32", "ai64": "i64", "au64": "u64"}[ty]
    return (ty, [rnd_scalar(rng, el, nan) for _ in range(n)])


def tok_value(v):
    ty, p = v
    if ty in ("sv", "cs"):
        return [ty, hx(p)]
    if ty in SCAL:
        return [ty, str(p)]
    if ty == "asv":
        return [ty, str(len(p))] + [hx(x) for x in p]
    return [ty, str(len(p))] + [str(x) for x in p]


def tok_kvs(kvs):
    out = [str(len(kvs))]
    for k, v in kvs:
        out.append(hx(k))
        out += tok_value(v)
    return " ".join(out)


def tok_filter(f):
    if f is None:
        return "F0"
    return " ".join(["F"] + [hx(k) for k in f])


def has_nan(kvs):
    def n(b):
        return (b & 0x7FFFFFFFFFFFFFFF) > 0x7FF0000000000000
    for _, (ty, p) in kvs:
        if ty == "d" and n(p):
            return True
        if ty == "ad" and any(n(x) for x in p):
            return True
    return False


# values that are "nearly" another value: same number in another type, same text through another type, signed zeros, NaNs
def near_value(rng, v, nan):
    ty, p = v
    alts = []
    if ty in ("b", "i32", "u32", "i64", "u64"):
        for t2 in ("b", "i32", "u32", "i64", "u64", "d"):
            if t2 == ty:
                continue
            if t2 == "b" and p in (0, 1):
                alts.append((t2, p))
            elif t2 == "d":
                alts.append((t2, dbits(float(p))))
            elif t2 in INT_RANGES and INT_RANGES[t2][0] <= p <= INT_RANGES[t2][1]:
                alts.append((t2, p))
        alts.append(("ai64", [p]) if -(1 << 63) <= p < (1 << 63) else ("au64", [p]))
        if ty != "b":
            lo, hi = INT_RANGES[ty]
            alts.append((ty, p + 1 if p < hi else p - 1))
    elif ty == "d":
        if p in (dbits(0.0), dbits(-0.0)):
            alts += [("d", dbits(0.0)), ("d", dbits(-0.0)), ("i32", 0)]
        alts += [("d", p ^ 1), ("d", p ^ (1 << 63)), ("ad", [p])]
        if nan:
            alts += [("d", rng.choice(NANS)), ("d", QNAN)]
    elif ty in ("sv", "cs"):
        other = "cs" if ty == "sv" else "sv"
        alts += [(other, p), (other, p + b"\x00tail"), (ty, p + b"\x00"), (ty, p + b"x"), (ty, p[:-1]), ("asv", [p])]
    else:
        el = list(p)
        alts.append((ty, el + el[:1] if el else el))
        alts.append((ty, el[:-1]))
        alts.append((ty, list(reversed(el))))
        for t2 in ARRS:
            if t2 != ty and not el:
                alts.append((t2, []))           # empty vectors of different element types hash alike but are different values
        if ty == "ad" and el:
            alts.append((ty, [el[0] ^ (1 << 63)] + el[1:]))
        if ty == "asv" and el:
            alts.append((ty, [el[0] + b"\x00"] + el[1:]))
    return rng.choice(alts) if alts else v


def rnd_kvs(rng, keys, nan=False, maxn=4):
    n = rng.choice([0, 1, 1, 2, 2, 3, maxn])
    return [(rng.choice(keys), rnd_value(rng, nan)) for _ in range(n)]


def alias(rng, kvs, keys, nan=False):
    """another way of writing the same set: the keys in another order, with shadowed earlier bindings of the same keys"""
    last = {}
    for k, v in kvs:
        last[k] = v
    out = []
    for k, v in last.items():
        for _ in range(rng.choice([0, 0, 0, 1, 2])):          # earlier bindings of the same key lose
            out.append((k, rnd_value(rng, nan)))
        out.append((k, None))
    rng.shuffle(out)
    # per key, the binding that counts goes to the last position that key occupies
    seen = set()
    for i in range(len(out) - 1, -1, -1):
        k = out[i][0]
        if k not in seen:
            seen.add(k)
            out[i] = (k, last[k])
        elif out[i][1] is None:
            out[i] = (k, rnd_value(rng, nan))
    return out


def rnd_filter(rng, keys):
    k = rng.below(6)
    if k <= 1:
        return None
    if k == 2:
        return []
    f = []
    for kk in keys:
        if rng.chance(1, 2):
            f.append(kk)
    if rng.chance(1, 2):       # near misses of the keys in use: prefixes, extensions, an embedded or trailing NUL
        base = rng.choice(keys)
        f += [base + b"\x00", base[:-1], base + b"x", base[:1] + b"\x00" + base[1:]]
    rng.shuffle(f)
    return f


# ------------------------------------------------------------------ EQ
def eq_case(rng):
    nan = rng.chance(1, 10)
    keys = [rng.choice(KEYS) for _ in range(1 + rng.below(4))]
    if rng.chance(1, 3):
        base = rng.choice(KEYS)
        keys += [base, base + b"\x00", base[:-1], base + b"\x00x"]
    a = rnd_kvs(rng, keys, nan)
    f = rnd_filter(rng, keys)
    k = rng.below(7)
    if k == 0:
        b = rnd_kvs(rng, keys, nan)
    elif k <= 2:
        b = alias(rng, a, keys, nan)
    elif k <= 4 and a:      # one value replaced by a near value (possibly on a key the filter removes)
        b = alias(rng, a, keys, nan)
        i = rng.below(len(b))
        b[i] = (b[i][0], near_value(rng, b[i][1], nan))
    elif k == 5 and a:      # one key replaced by a near key
        b = list(a)
        i = rng.below(len(b))
        kk = b[i][0]
        b[i] = (rng.choice([kk + b"\x00", kk[:-1], kk + b"a", kk.upper(), kk[::-1]]), b[i][1])
    else:                   # one pair more or less
        b = list(a)
        if b and rng.chance(1, 2):
            del b[rng.below(len(b))]
        else:
            b.insert(rng.below(len(b) + 1), (rng.choice(keys), rnd_value(rng, nan)))
    if rng.chance(1, 2):
        a, b = b, a
    return "EQ %s | %s | %s" % (tok_filter(f), tok_kvs(a), tok_kvs(b))


def eq_fixed():
    """corner pairs every run"""
    out = []
    Z, NZ = dbits(0.0), dbits(-0.0)
    pairs = [
        ([(b"k", ("d", Z))], [(b"k", ("d", NZ))], None),
        ([(b"k", ("d", QNAN))], [(b"k", ("d", QNAN))], None),
        ([(b"k", ("ad", [Z, QNAN]))], [(b"k", ("ad", [Z, QNAN]))], None),
        ([(b"k", ("i32", 5))], [(b"k", ("i64", 5))], None),
        ([(b"k", ("b", 1))], [(b"k", ("i32", 1))], None),
        ([(b"k", ("ab", []))], [(b"k", ("ai32", []))], None),
        ([(b"k", ("asv", [b"a"]))], [(b"k", ("sv", b"a"))], None),
        ([(b"k", ("cs", b"ab\x00zz"))], [(b"k", ("sv", b"ab"))], None),
        ([(b"k", ("sv", b"ab\x00zz"))], [(b"k", ("sv", b"ab"))], None),
        ([(b"ab", ("i32", 1))], [(b"ab\x00", ("i32", 1))], None),
        ([(b"ab", ("i32", 1)), (b"ab\x00c", ("i32", 2))], [(b"ab", ("i32", 1))], [b"ab"]),
        ([(b"ab", ("i32", 1)), (b"a", ("i32", 2))], [(b"ab", ("i32", 1))], [b"ab"]),
        ([(b"ab", ("i32", 1)), (b"abc", ("i32", 2))], [(b"ab", ("i32", 1))], [b"ab"]),
        ([(b"ab", ("i32", 1))], [], [b"a"]),
        ([(b"ab", ("i32", 1))], [], [b"ab\x00"]),
        ([(b"a", ("i32", 1)), (b"b", ("i32", 2))], [(b"b", ("i32", 2)), (b"a", ("i32", 1))], None),
        ([(b"a", ("i32", 1)), (b"a", ("i32", 2))], [(b"a", ("i32", 2))], None),
        ([(b"a", ("i32", 2)), (b"a", ("i32", 1))], [(b"a", ("i32", 2))], None),
        ([(b"\x7f", ("i32", 1)), (b"\x80", ("i32", 2))], [(b"\x80", ("i32", 2)), (b"\x7f", ("i32", 1))], None),
        ([], [], None),
        ([], [(b"x", ("i32", 1))], []),
        ([(b"otel.metrics.overflow", ("b", 1))], [(b"otel.metrics.overflow", ("b", 1))], None),
    ]
    for a, b, f in pairs:
        out.append("EQ %s | %s | %s" % (tok_filter(f), tok_kvs(a), tok_kvs(b)))
    return out


# ------------------------------------------------------------------ pools of attribute sets for the table cases
def set_pool(rng, nsets, keys, nan=False, user_overflow=False):
    """nsets sets that are (almost surely) pairwise different as maps, each with a few aliases"""
    pool = []
    for i in range(nsets):
        base = rnd_kvs(rng, keys, nan, maxn=3)
        # make them distinct by construction: an index under a key of the pool
        base = base + [(keys[0], ("i64", i))]
        pool.append([base] + [alias(rng, base, keys, nan) for _ in range(2)])
    if user_overflow:
        pool.append([[(b"otel.metrics.overflow", ("b", 1))]])
    return pool


def pick(rng, pool):
    return rng.choice(rng.choice(pool))


# ------------------------------------------------------------------ HM
def hm_case(rng):
    nan = rng.chance(1, 12)
    limit = rng.choice([1, 2, 2, 3, 3, 4, 5, 6, 8, 2000])
    keys = [rng.choice(KEYS) for _ in range(2)]
    f = None if rng.chance(1, 2) else [keys[0]] + ([keys[1]] if rng.chance(1, 2) else [])
    pool = set_pool(rng, rng.choice([1, 2, limit, limit + 1, limit + 3, 2 * limit + 1]) if limit < 100 else 6, keys, nan,
                    user_overflow=rng.chance(1, 4))
    ops = []
    for _ in range(3 + rng.below(25)):
        k = rng.below(12)
        kv = tok_kvs(pick(rng, pool))
        if k <= 4:
            ops.append("G %d %d %s" % (rng.below(3), rng.below(9) - 2, kv))
        elif k <= 6:
            ops.append("S %d %d %s" % (rng.below(3), rng.below(9) - 2, kv))
        elif k == 7:
            ops.append("Q " + kv)
        elif k == 8:
            ops.append("H " + kv)
        elif k == 9:
            ops.append("Z")
        else:
            ops.append("D")
    ops += ["Z", "D"]
    return "HM %d %s | %s" % (limit, tok_filter(f), " | ".join(ops))


# ------------------------------------------------------------------ ST / MP
TEMPS = [[0], [0], [1], [1], [0, 1], [1, 0], [1, 1], [0, 0], [1, 0, 1], [0, 0, 1, 1]]


def history(rng, pool, temps, cycles, per_cycle, mono, sweep=False):
    """records from the pool interleaved with collections; sweep = every cycle records every set of a fresh slice of the pool"""
    ops = []
    n = 0
    for c in range(cycles):
        if sweep:
            lo = (c * per_cycle) % max(1, len(pool))
            chosen = [pool[(lo + j) % len(pool)] for j in range(per_cycle)]
            recs = [rng.choice(s) for s in chosen]
        else:
            recs = [pick(rng, pool) for _ in range(rng.below(per_cycle + 1))]
        for kvs in recs:
            v = rng.choice([0, 1, 1, 2, 3, 5, 7, 100]) if mono or rng.chance(2, 3) else -rng.below(9)
            if not kvs and rng.chance(1, 2):
                ops.append("R0 %d" % v)
            else:
                ops.append("R %d %s" % (v, tok_kvs(kvs)))
            n += 1
            if rng.chance(1, 25):
                ops.append("R0 %d" % rng.below(4))
        who = [i for i in range(len(temps)) if rng.chance(2, 3)] or [rng.below(len(temps))]
        rng.shuffle(who)
        for i in who:
            ops.append("C %d" % i)
    if rng.chance(1, 2):
        for i in range(len(temps)):
            ops.append("C %d" % i)
    return ops


def st_case(rng, limit=None, nan=False, mp=False):
    if limit is None:
        limit = rng.choice([1, 2, 2, 3, 3, 4, 4, 5, 6, 7, 8])
    temps = rng.choice(TEMPS)
    keys = [rng.choice(KEYS) for _ in range(2)]
    k = rng.below(4)
    if k == 0:
        f = None
    elif k == 1:
        f = [keys[0]]
    else:
        f = [keys[0], keys[1], keys[0] + b"\x00", keys[0][:-1]]
    mono = True if mp else rng.chance(2, 3)
    eff = 8 if (mp or limit > 100) else limit    # against the default limit of 2000 the random cases stay small (exact)
    nsets = rng.choice([1, 2, max(1, eff - 2), max(1, eff - 1), eff, eff + 1, eff + 2, 2 * eff + 1, 3 * eff])
    pool = set_pool(rng, nsets, keys, nan, user_overflow=rng.chance(1, 5))
    cycles = 1 + rng.below(6)
    ops = history(rng, pool, temps, cycles, rng.choice([1, 2, eff, eff + 2, 2 * eff + 3]), mono)
    kind = rng.choice(["L", "L", "D"])
    if mp:
        head = "MP %s %d %s %s" % (kind, len(temps), " ".join(map(str, temps)), tok_filter(f))
    else:
        head = "ST %s %d %d %d %s %s" % (kind, 1 if mono else 0, limit, len(temps), " ".join(map(str, temps)), tok_filter(f))
    line = head + " | " + " | ".join(ops)
    # a few of the NaN cases run in a child process (the shape of the repaired F26b crashed the collection)
    return ("ISO " + line) if nan and rng.chance(1, 4) else line


def big_case(rng, mp, cycles, per_cycle, nsets):
    """more than 2000 distinct sets against the default limit"""
    temps = rng.choice([[0], [1], [1], [0, 1]])
    keys = [b"k", b"id"]
    f = rng.choice([None, [b"k"]])
    pool = [[[(b"k", ("i64", i)), (b"id", ("sv", b"s%d" % (i % 7)))]] for i in range(nsets)]
    for s in pool[: 50]:
        s.append(list(reversed(s[0])))
    ops = history(rng, pool, temps, cycles, per_cycle, True, sweep=True)
    kind = "L"
    if mp:
        head = "MP %s %d %s %s" % (kind, len(temps), " ".join(map(str, temps)), tok_filter(f))
    else:
        head = "ST %s 1 2000 %d %s %s" % (kind, len(temps), " ".join(map(str, temps)), tok_filter(f))
    return head + " | " + " | ".join(ops)


def st_fixed():
    """the shapes of the repaired defects F9, F10, F10b, F26, F26b, every run"""
    def r(i, v=1):
        return "R %d 1 %s i64 %d" % (v, hx(b"k"), i)
    out = []
    # F9: limit 3, two cycles of 5 sets each, delta
    out.append("ST L 1 3 1 0 F0 | " + " | ".join([r(i) for i in range(5)] + ["C 0"] + [r(i) for i in range(5, 10)] + ["C 0"]))
    # F10 / F10b: cumulative, limit 3, different sets in different intervals, several cycles
    out.append("ST L 1 3 1 1 F0 | " + " | ".join([r(0), r(1), "C 0", r(2), r(3), "C 0", r(4), r(0), "C 0", "C 0"]))
    out.append("ST L 1 2 2 1 0 F0 | " + " | ".join([r(0), r(1), r(2), "C 0", r(3), "C 1", r(0, 5), "C 0", "C 1"]))
    # limit 1: everything is overflow
    out.append("ST L 1 1 1 1 F0 | " + " | ".join([r(0), r(1), "C 0", r(0), "C 0"]))
    # the caller uses the overflow attribute itself
    ov = "R 2 1 %s b 1" % hx(b"otel.metrics.overflow")
    out.append("ST L 1 3 1 1 F0 | " + " | ".join([ov, r(0), r(1), r(2), "C 0", r(3), ov, "C 0"]))
    # no-attribute records and an allow-list that removes everything
    out.append("ST L 0 4 2 0 1 F | " + " | ".join(["R0 3", r(0, -2), r(1, 4), "C 0", "C 1", "R0 1", "C 1", "C 0"]))
    # F26 / F26b: NaN attribute value; single delta reader (was: a series per measurement), then the merge path (was: crash)
    nanr = "R 1 1 %s d %d" % (hx(b"k"), QNAN)
    out.append("ISO ST L 1 5 1 0 F0 | " + " | ".join([nanr, nanr, "C 0"]))
    out.append("ISO ST L 1 5 1 1 F0 | " + " | ".join([nanr, "C 0"]))
    out.append("ISO MP L 1 1 F0 | " + " | ".join([nanr, "C 0"]))
    out.append("HM 5 F0 | G 1 1 1 %s d %d | Z" % (hx(b"k"), QNAN))
    return out


def gen(rng, tier):
    n = 1 if tier == "quick" else 12
    cases = eq_fixed() + st_fixed()
    for _ in range(1200 * n):
        cases.append(eq_case(rng))
    for _ in range(300 * n):
        cases.append(hm_case(rng))
    for _ in range(600 * n):
        cases.append(st_case(rng))
    for _ in range(12 * n):
        cases.append(st_case(rng, nan=True))
    for _ in range(150 * n):
        cases.append(st_case(rng, mp=True))
    for _ in range(4 * n):
        cases.append(st_case(rng, mp=True, nan=True))
    # the default limit: more than 2000 sets in one interval, and spread over intervals
    cases.append(big_case(rng, False, 2, 2100, 2600))
    cases.append(big_case(rng, True, 2, 2100, 2600))
    cases.append(big_case(rng, True, 3, 900, 2500))
    cases.append(st_case(rng, limit=2000))
    if tier != "quick":
        for _ in range(6):
            cases.append(big_case(rng, rng.chance(1, 2), 1 + rng.below(6), rng.choice([700, 1100, 2001, 2300]), 2400 + rng.below(800)))
    return cases


def widen(rng, k):
    return [st_case(rng) for _ in range(400)] + [st_case(rng, mp=True) for _ in range(100)] + \
           [eq_case(rng) for _ in range(600)] + [hm_case(rng) for _ in range(300)]


def shrink(case):
    """drop one operation at a time (never the header)"""
    iso = case.startswith("ISO ")
    body = case[4:] if iso else case
    secs = body.split(" | ")
    if secs[0].split()[0] not in ("ST", "MP", "HM") or len(secs) <= 2:
        return
    for _round in range(3):
        i = 1
        while i < len(secs):
            cand = secs[:i] + secs[i + 1:]
            if len(cand) >= 2:
                yield ("ISO " if iso else "") + " | ".join(cand)
            i += 1


LEVEL_TEXT = ("Theorems in coq/Properties_C08.v about the Gallina model of the ordered attribute map, the attribute filter, the "
              "AttributesHashMap overflow rule and the sync + temporal metric storage, for all attribute sets, filters, limits >= 1, "
              "operation sequences, collector configurations and iteration orders")
LEVEL_NOTE = ("Trusted: Coq kernel, extraction, ocaml/driver.ml, the C++ driver, the generator, tools/extract_consts.py; the model is "
              "hand-written and tied to the C++ by the differential run (implementation's walk orders replayed by the model) on every check")
