"""C03 - exporters are driven one call at a time and within the configured batch bounds (E-sched, acceptor model)."""
from props.batch_common import *          # noqa: F401,F403  (build_driver, TRACE_MODE, DRIVER, shrink, ...)
from props import batch_common as bc

ID = "C03"
LEVEL = "proof"
ENGINE = "E-coq+E-sched"
TRIVIAL_TAGS = {"t", "rejected"}
ASSUMPTIONS = bc.ASSUMPTIONS_COMMON + [
    "'dropped' records are those the queue refused (buf add .. 0) or whose OnEnd found the processor shut down; records accepted by the queue after the worker's final drain (an OnEnd racing with Shutdown) are neither exported nor counted as loss: they were not 'ended before the processor was shut down'",
]
TRUSTED = bc.TRUSTED_COMMON


def gen(rng, tier):
    return bc.gen_with(rng, tier, 6, 3, 1)


LEVEL_TEXT = ("Theorems in coq/Properties_C03.v about the acceptor LTS of the batch processors: exporter calls never overlap (only the worker exports, begin/end alternate; "
              "the exporter's Shutdown happens after the worker has exited), every batch handed to the exporter is non-empty and has at most max_export_batch_size records, "
              "also after ForceFlush. Tied to the C++ by trace acceptance under the scheduler shim; history checkers run on the implementation's traces.")
LEVEL_NOTE = ("Trusted: Coq kernel, extraction, ocaml/driver.ml, the scheduler shim and token table, the drivers and generators; the model is hand-written and "
              "tied by trace acceptance (not verified against C++ semantics); SC memory; the ring buffer is abstracted to an atomic bounded FIFO (C11).")
TECHNIQUE = "machine-checked proof in Coq 8.16 (inductive invariant of an interleaving transition system), tied to the C++ by accepting the implementation's event traces produced under a deterministic scheduler shim"
