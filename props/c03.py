"""C03 - exporters are driven one call at a time and within the configured batch bounds (E-sched, acceptor model)."""
from props.batch_common import *          # noqa: F401,F403  (build_driver, TRACE_MODE, DRIVER, shrink, ...)
from props import batch_common as bc

ID = "C03"
LEVEL = "proof"
ENGINE = "E-coq+E-sched"
TRIVIAL_TAGS = {"t", "rejected"}
ASSUMPTIONS = bc.ASSUMPTIONS_COMMON + [
    "'dropped' records are those the queue refused (buf add .. 0) or whose OnEnd found the processor shut down; records accepted by the queue after the worker's final drain (an OnEnd racing with Shutdown) are neither exported nor counted as loss: they were not 'ended before the processor was shut down'",
]
TRUSTED = bc.TRUSTED_COMMON


def simple_cases(rng, n):
    out = []
    for _ in range(n):
        kind = rng.choice(["span", "log"])
        nt = rng.choice([1, 2, 2, 3, 3, 4])
        secs = []
        for _t in range(nt):
            ops = [rng.choice(["e", "e", "e", "e", "f", "h"]) for _ in range(1 + rng.below(5))]
            secs.append("t " + " ".join(ops))
        k = rng.below(3)
        if k == 0:
            sched = ""
        elif k == 1:
            sched = bc.rand_schedule(rng, nt, rng.choice([10, 40, 120]), p_timeout=1000)
        else:
            sched = bc.seg_schedule([(rng.below(nt), 1 + rng.below(12), 0) for _ in range(1 + rng.below(6))])
        out.append("SIMPLE %s %d %d | %s | s %s" % (kind, rng.choice([0, 1, 2, 3]), rng.choice([0, 0, 1, 3]), " | ".join(secs), sched))
    return out


def gen(rng, tier):
    return bc.gen_with(rng, tier, 6, 3, 1) + simple_cases(rng, 300 if tier == "quick" else 4000) + bc.periodic_cases(rng, 200 if tier == "quick" else 3000)


LEVEL_TEXT = ("Theorems in coq/Properties_C03.v about the acceptor LTS of the batch processors: exporter calls never overlap (only the worker exports, begin/end alternate; "
              "the exporter's Shutdown happens after the worker has exited), every batch handed to the exporter is non-empty and has at most max_export_batch_size records, "
              "also after ForceFlush; and about an acceptor LTS of the simple span/log processors called from any number of threads: the spin lock is a mutex and Export never starts while another Export is running. Tied to the C++ by trace acceptance under the scheduler shim; history checkers run on the implementation's traces.")
LEVEL_NOTE = ("Trusted: Coq kernel, extraction, ocaml/driver.ml, the scheduler shim and token table, the drivers and generators; the model is hand-written and "
              "tied by trace acceptance (not verified against C++ semantics); SC memory; the ring buffer is abstracted to an atomic bounded FIFO (C11).")
TECHNIQUE = "machine-checked proof in Coq 8.16 (inductive invariant of an interleaving transition system), tied to the C++ by accepting the implementation's event traces produced under a deterministic scheduler shim"
